#!/usr/bin/env python3
"""Driver for the API-trace harness (harness/t_api.c): generate traces, run them on the real
allocator in parallel, collect oracle violations (V lines), replay the page dumps against the Coq
page model (ocaml mode "page"), shrink failing traces (ddmin) and write replay files."""
import os, re, collections, concurrent.futures, subprocess
import vlib, gen_trace

# which oracle kinds belong to which property (a check only reports its own kinds)
KINDS = {
    "C01": {"overlap", "content", "usable", "strdup", "crash", "queue"},
    "C03": {"align", "usable"},
    "C16": {"goodsize"},
    "C04": {"zero", "rezalloc-zero"},
    "C05": {"realloc-content", "expand", "usable", "realloc-null", "content"},   # content: live blocks (incl. the original of a failed re-allocation) intact
    "C06": {"malformed", "posix", "errno", "fail", "content"},   # content: a failing call leaves every live block intact
    "C10": {"owner", "heap", "content", "overlap", "crash", "queue"},
    "C12": {"walk", "queue"},
    "C13": None,   # every kind
}
ALL_PROFILES = list(gen_trace.PROFILES)


def build(res, name="t_api", extra=()):
    exe = os.path.join(vlib.BUILD, name)
    ok, txt, cmd = vlib.cc(os.path.join(vlib.HARN, "t_api.c"), exe, extra=extra)
    if not ok:
        res.violation("harness-build", "harness/t_api.c no longer compiles against the current tree: " + txt[-1500:])
        return None
    return exe


def run_one(exe, path, dump=True, timeout=120):
    cmd = [exe, path] + ([] if dump else ["nodump"])
    try:
        p = subprocess.run(cmd, stdout=subprocess.PIPE, stderr=subprocess.PIPE, preexec_fn=vlib._limits, timeout=timeout, env=vlib.clean_env(), text=True, errors="replace")
        return p.returncode, p.stdout, p.stderr[-500:]
    except subprocess.TimeoutExpired:
        return 124, "", "timeout"


def parse(rc, out):
    """returns (violations [(op, kind, text)], ended)"""
    v = []
    ended = False
    for l in out.splitlines():
        if l.startswith("V "):
            f = l.split(" ", 3)
            v.append((int(f[1]), f[2], f[3] if len(f) > 3 else ""))
        elif l.startswith("END "):
            ended = True
    if rc != 0 or not ended:
        lastop = 0
        for l in out.splitlines():
            m = re.match(r'[OP] (\d+)', l)
            if m: lastop = max(lastop, int(m.group(1)))
        v.append((lastop + 1, "crash", "harness exited with status %d after op %d without finishing the trace" % (rc, lastop)))
    return v, ended


def ddmin(lines, test, budget=120, seconds=90):
    """delta debugging over trace lines; `test(lines) -> bool` is True when the failure persists.
    Bounded by `budget` calls and `seconds` of wall time (a failure that is a hang costs a timeout per call)"""
    import time
    n = 2
    calls = 0
    t0 = time.time()
    while len(lines) >= 2 and calls < budget and time.time() - t0 < seconds:
        chunk = max(1, len(lines) // n)
        reduced = False
        for i in range(0, len(lines), chunk):
            cand = lines[:i] + lines[i + chunk:]
            calls += 1
            if cand and test(cand):
                lines = cand; n = max(n - 1, 2); reduced = True
                break
            if calls >= budget or time.time() - t0 >= seconds: break
        if not reduced:
            if chunk == 1: break
            n = min(n * 2, len(lines))
    return lines


def shrink(exe, lines, kind):
    tmp = os.path.join(vlib.BUILD, "shrink_%d.trace" % os.getpid())
    def test(ls):
        open(tmp, "w").write("\n".join(ls) + "\n")
        rc, out, err = run_one(exe, tmp, dump=False, timeout=20)
        v, ended = parse(rc, out)
        return any(k == kind for _, k, _ in v)
    # cut everything after the failing op first (cheap), then ddmin
    out = ddmin(lines, test)
    try: os.remove(tmp)
    except OSError: pass
    return out


def with_full_dumps(lines, every):
    """insert the trace op DUMP (full state for the Coq composite model, ocaml mode "compose") after every
    `every`-th line and at the end"""
    out = []
    for i, l in enumerate(lines):
        out.append(l)
        if (i + 1) % every == 0:
            out.append("DUMP")
    if not out or out[-1] != "DUMP":
        out.append("DUMP")
    return out


def run_traces(res, pid, plan, seed, dump=True, options=None, exe=None, tag="", clock=False, skip_kinds=(), keep_outputs=None, fulldump=0, repeat=1):
    """plan: list of (profile, ntraces, nops).  Fills res.cov and reports violations of `pid`'s kinds.
    fulldump = n > 0: about n full-state dumps per trace (op DUMP), replayed against the composite model (mode compose)"""
    exe = exe or build(res)
    if exe is None:
        return None
    kinds = KINDS.get(pid)
    tdir = os.path.join(vlib.BUILD, "traces", pid + tag)
    os.makedirs(tdir, exist_ok=True)
    jobs = []
    for profile, ntr, nops in plan:
        for i in range(ntr):
            s = seed * 1000 + i
            lines = gen_trace.make_trace(profile, s, nops, options, clock)
            if fulldump and dump:
                lines = with_full_dumps(lines, max(10, len(lines) // fulldump))
            path = os.path.join(tdir, "%s_%d.trace" % (profile, s))
            open(path, "w").write("\n".join(lines) + "\n")
            # repeat > 1: the same trace is run several times -- which pointers of the `aligned` profile are interior depends on addresses
            # the OS hands out (seed C03e fired on 7 of 8 runs of one trace); every run is judged, the first violation per kind is kept
            for _ in range(max(1, repeat)):
                jobs.append((profile, s, path, lines))
    stats = collections.Counter(); opmix = collections.Counter(); sizehist = collections.Counter()
    viols = []      # (profile, seed, path, lines, op, kind, text)
    outputs = {}
    with concurrent.futures.ThreadPoolExecutor(max_workers=int(vlib.JOBS)) as ex:
        futs = {ex.submit(run_one, exe, j[2], dump): j for j in jobs}
        for fu in concurrent.futures.as_completed(futs):
            profile, s, path, lines = futs[fu]
            rc, out, err = fu.result()
            v, ended = parse(rc, out)
            outputs[path] = out
            if keep_outputs is not None: keep_outputs[path] = out
            stats["traces"] += 1; stats["ops"] += len(lines)
            for l in lines:
                f = l.split()
                opmix[f[0]] += 1
                if f[0] in ("M", "Z", "S", "ZS", "A", "ZA", "CA") and len(f) > 3:
                    sz = int(f[3]); sizehist["<=1KiB" if sz <= 1024 else "<=8KiB" if sz <= 8192 else "<=64KiB" if sz <= 65536 else "<=16MiB" if sz <= (16 << 20) else ">16MiB"] += 1
            for op, kind, text in v:
                stats["viol:" + kind] += 1
                viols.append((profile, s, path, lines, op, kind, text))
            for l in out.splitlines():
                if l.startswith("COV "):      # coverage counters of the harness (summed over the traces; per profile: traces that reached it)
                    for t in l.split()[1:]:
                        k, _, val = t.partition("=")
                        if val.isdigit():
                            stats["cov:" + k] += int(val)
                            if int(val) > 0: stats["covtraces:%s:%s" % (k, profile)] += 1
    # model replay of the page dumps
    mism = []; pstats = collections.Counter(); cmism = []
    if dump:
        okb, txt = vlib.ocaml_build()
        if not okb:
            res.violation("model-build", "extracted model does not build: " + txt[-1200:])
        else:
            def rp(path):
                rc, mout = vlib.model_replay("page", outputs[path])
                if fulldump:
                    rc2, mout2 = vlib.model_replay("compose", outputs[path])
                    cl = mout2.splitlines()
                    if rc2 != 0 or not any(l.startswith("DONE") for l in cl):
                        cl.append("MISMATCH compose: model replay (mode compose) crashed: " + mout2[-300:].replace("\n", " "))
                    mout += "\n" + "\n".join("C" + l for l in cl if l.startswith(("MISMATCH", "STATS compose")))
                return path, rc, mout
            with concurrent.futures.ThreadPoolExecutor(max_workers=int(vlib.JOBS)) as ex:
                for path, rc, mout in ex.map(rp, list(outputs)):
                    for l in mout.splitlines():
                        if l.startswith("MISMATCH"):
                            mism.append((path, l))
                        if l.startswith("CMISMATCH"):
                            cmism.append((path, l[1:]))
                        m = re.match(r'CSTATS compose dumps=(\d+) segments=(\d+) pages=(\d+) blocks=(\d+) huge_segments=(\d+) interior_pointers=(\d+)', l)
                        if m:
                            for k, v in zip(("compose_dumps", "compose_segments", "compose_pages", "compose_live_blocks", "compose_huge_segments", "compose_interior_pointers"), m.groups()):
                                pstats[k] += int(v)
                        m = re.match(r'STATS page invariants=(\d+) transitions_checked=(\d+) transitions_unchecked=(\d+)', l)
                        if m:
                            pstats["page_invariants_checked"] += int(m.group(1)); pstats["page_transitions_checked"] += int(m.group(2)); pstats["page_transitions_unchecked"] += int(m.group(3))
                    if rc != 0 and not any(l.startswith("DONE") for l in mout.splitlines()):
                        mism.append((path, "MISMATCH model replay crashed: " + mout[-300:]))
    # report
    mine = [x for x in viols if (kinds is None or x[5] in kinds or (x[5] == "crash" and "crash" in (kinds or ()))) and x[5] not in skip_kinds]
    reported = set()
    for profile, s, path, lines, op, kind, text in sorted(mine, key=lambda x: (x[5], len(x[3]))):
        if kind in reported:
            continue
        reported.add(kind)
        small = shrink(exe, lines[:op + 5] if kind != "crash" else lines, kind) if len(reported) <= 3 else lines
        wit = "# trace for harness/t_api.c (replay: tools/check %s --replay <this file>)\n# oracle: %s %s\n%s" % (pid, kind, text, "\n".join(small))
        rname = "%s_%s_%s_%d.trace" % (pid, kind, profile, s)
        res.violation("impl:" + kind, "%s (profile %s seed %d, %d ops after shrinking): %s" % (kind, profile, s, len(small), text), witness=wit, replay_name=rname)
    # page-model disagreements: every property reports the class of disagreement that concerns it (C01/C13: all of them)
    def mclass(l):
        return "walk" if "heap walk of page" in l else "direct" if "direct table law" in l else "page"
    wanted = {"C01": {"page", "walk", "direct"}, "C13": {"page", "walk", "direct"}, "C12": {"walk", "queue"}, "C16": {"direct"}}.get(pid, set())
    mine_m = [(path, l) for path, l in mism if mclass(l) in wanted]
    if mine_m:
        has_wit = bool(mine)
        path, l = mine_m[0]
        if not has_wit:
            res.violation("corr:" + mclass(l), "page model / implementation disagreement in %d dumps, first: %s (trace %s)" % (len(mine_m), l, path), witness=None)
        else:
            vlib.log("[corr] %d page-model disagreements, e.g. %s" % (len(mine_m), l))
    if fulldump:
        res.cov["compose_mismatches"] = res.cov.get("compose_mismatches", 0) + len(cmism)
        if cmism and pid == "C01":
            path, l = cmism[0]
            if not mine:
                res.violation("corr:compose", "composite model (Coq mem_inv_b / abs) and implementation disagree in %d checks, first: %s (trace %s)" % (len(cmism), l[:900], path), witness=None)
            else:
                vlib.log("[corr] %d composite-model disagreements, e.g. %s" % (len(cmism), l[:400]))
    res.cov["evaluations"] += stats["ops"]
    res.cov["traces_validated_against_impl"] += stats["traces"]
    res.cov["disagreements_checked"] += len(mism)
    d = res.cov.setdefault("input_distribution", {})
    d["ops" + tag] = dict(opmix); d["alloc_size_classes" + tag] = dict(sizehist); d["profiles" + tag] = {p: n for p, n, _ in plan}
    d["oracle_violations_by_kind" + tag] = {k[5:]: v for k, v in stats.items() if k.startswith("viol:")}
    if any(k.startswith("cov:") for k in stats):
        d["harness_coverage" + tag] = {k[4:]: v for k, v in stats.items() if k.startswith("cov:")}
        d["harness_coverage_traces" + tag] = {k[10:]: v for k, v in stats.items() if k.startswith("covtraces:")}
    for k, v in pstats.items():
        res.cov[k] = res.cov.get(k, 0) + v
    res.cov["distinct_nontrivial"] += len(set(tuple(j[3]) for j in jobs))
    res.add_samples([" ; ".join(jobs[0][3][:12]) + " ; ..."] if jobs else [], limit=10)
    return stats


def replay(res, pid, path):
    exe = build(res)
    if exe is None: return
    rc, out, err = run_one(exe, path, dump=False)
    v, ended = parse(rc, out)
    kinds = KINDS.get(pid)
    for op, kind, text in v:
        if kinds is None or kind in kinds:
            res.violation("impl:" + kind, "replay of %s: %s" % (path, text), witness=open(path).read())
    res.cov["evaluations"] += 1; res.cov["distinct_nontrivial"] += 2
    res.add_samples([path])
