#!/usr/bin/env python3
"""Model-side testing of the cross-thread free protocol model (coq/Model/TFree.v).

run_sim(seed, n)      builds the extracted model + drivers (vlib.ocaml_build) and runs mode `tfree-sim` on n random
                      programs derived from `seed`; returns a dict of counts (programs, steps, mismatches, ...).
run_selftest(seed, n) writes n model logs (mode `tfree-genlog`) and replays each with `tfree-lockstep`;
                      returns the number of logs the replay rejected (must be 0) -- a test of the replay itself.
run_lockstep(text)    replays a real-code scheduler log (format: header of ocaml/mode_tfree.ml).

This supports -- never replaces -- the theorems of Properties/C02.v, C08.v, C10conc.v: it is testing of the model
(and of the boolean invariant checkers that are later run on states of the real code), not proof.
usage: tools/tfree_sim.py [seed [n [maxsteps]]]"""
import os, re, sys
sys.path.insert(0, os.path.dirname(os.path.abspath(__file__)))
import vlib


def _build():
    ok, txt = vlib.ocaml_build()
    if not ok:
        raise RuntimeError("ocaml_build failed:\n" + txt[-3000:])


def _parse(out):
    res = {"mismatch_lines": [l for l in out.splitlines() if l.startswith("MISMATCH")]}
    for l in out.splitlines():
        if l.startswith("STAT"):
            for k, v in re.findall(r'(\w+)=(\d+)', l):
                res[k] = int(v)
        m = re.match(r'DONE (\d+) (\d+)', l)
        if m:
            res["records"] = int(m.group(1)); res["mismatches"] = int(m.group(2))
    return res


def run_sim(seed, n, maxsteps=400):
    """n random programs/schedules from `seed`; inv_b after every step, C08 quiescence at the end."""
    _build()
    rc, out = vlib.model_replay("tfree-sim", "%d %d %d\n" % (seed, n, maxsteps))
    res = _parse(out)
    res["rc"] = rc
    if "mismatches" not in res:
        res["mismatches"] = -1; res["raw"] = out[-2000:]
    return res


def run_lockstep(text):
    _build()
    rc, out = vlib.model_replay("tfree-lockstep", text)
    res = _parse(out); res["rc"] = rc
    return res


def run_selftest(seed, n, maxsteps=500):
    _build()
    bad = 0
    for k in range(n):
        rc, log = vlib.model_replay("tfree-genlog", "%d %d\n" % (seed * 1000 + k, maxsteps))
        log = "\n".join(l for l in log.splitlines() if not l.startswith("DONE"))
        r = run_lockstep(log + "\n")
        if r.get("mismatches", 1) != 0:
            bad += 1
    return bad


if __name__ == "__main__":
    seed = int(sys.argv[1]) if len(sys.argv) > 1 else 1
    n = int(sys.argv[2]) if len(sys.argv) > 2 else 300
    ms = int(sys.argv[3]) if len(sys.argv) > 3 else 400
    r = run_sim(seed, n, ms)
    for l in r.pop("mismatch_lines"):
        print(l)
    print("tfree-sim (model-side test):", " ".join("%s=%s" % kv for kv in sorted(r.items())))
    sys.exit(0 if r.get("mismatches") == 0 else 1)
