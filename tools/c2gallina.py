#!/usr/bin/env python3
"""Source-to-Gallina translator for the small pure functions of mimalloc (tie 1 of DESIGN.md 2.2).

    clang -fsyntax-only -Xclang -ast-dump=json -Xclang -ast-dump-filter=<fn>  $VERIF_REPO/src/static.c
        -> coq/Gen/Funcs.v       one `Definition c_<fn>` (+ twin `c_<fn>_ok`) per whitelisted function
        -> coq/Gen/FuncsCheck.v  Coq re-computation of every constant the translator folded
        -> $VERIF_BUILD/c2g_report.json   which functions were translated / refused and why

The semantics given to every C construct is in coq/Model/CSem.v and NOTES-c2g.md.  Whatever is not
understood raises Refuse(<construct>): the function is then emitted as a stub of type `c2g_refused`
(so that the rest of the development still builds) and the C16 check reports
"translator: <fn> no longer translatable".  The translator never guesses.

Stand-alone:  python3 tools/c2gallina.py [--print] [fn ...]
"""
import os, sys, re, json, subprocess, concurrent.futures

sys.path.insert(0, os.path.dirname(os.path.abspath(__file__)))


class Refuse(Exception):
    pass


# ------------------------------------------------------------------------------------------
# whitelist.  Order = emission order (callees first).  Per function:
#   out     : pointer parameters that are pure result slots (written before read, assumed non-NULL,
#             not aliased); the Gallina function returns (result, out1, ...) / (out1, ...) for void
#   opaque  : pointer parameters that never become Gallina arguments; only the accesses listed in
#             `reads` / `calls` may mention them
#   reads   : C access path -> name of a Gallina argument that stands for the value read
#   calls   : callee name -> ("arg", argument name) the call's result is a Gallina argument
#                            ("term", Gallina term, C type) a constant of Gen/Consts.v (0-ary callee)
#   id      : stable number used by the dispatcher c_dispatch / ocaml/mode_gen.ml
# ------------------------------------------------------------------------------------------
FUNCS = [
    dict(id=1, c="_mi_wsize_from_size"),
    dict(id=2, c="mi_clz"),
    dict(id=3, c="mi_ctz"),
    dict(id=4, c="mi_bsr"),
    dict(id=5, c="_mi_is_power_of_two"),
    dict(id=6, c="_mi_align_up"),
    dict(id=7, c="_mi_align_down"),
    dict(id=8, c="_mi_divide_up"),
    dict(id=9, c="_mi_clamp"),
    dict(id=10, c="mi_mul_overflow", out=["total"]),
    dict(id=11, c="mi_count_size_overflow", out=["total"]),
    dict(id=12, c="mi_bin"),
    dict(id=13, c="_mi_bin_size"),
    dict(id=14, c="mi_good_size", calls={"_mi_os_page_size": ("term", "os_page_size_default", "size_t")}),
    dict(id=15, c="_mi_os_good_alloc_size", calls={"_mi_os_page_size": ("term", "os_page_size_default", "size_t")}),
    dict(id=16, c="mi_slice_bin8"),
    dict(id=17, c="mi_slice_bin"),
    dict(id=18, c="_mi_ptr_segment"),
    dict(id=19, c="mi_get_fast_divisor", out=["magic", "shift"]),
    dict(id=20, c="mi_fast_divide"),
    dict(id=21, c="_mi_page_ptr_unalign", opaque=["page"],
         reads={"page->page_start": "page_start", "page->block_size_shift": "block_size_shift"},
         calls={"mi_page_block_size": ("arg", "block_size")}),
    dict(id=22, c="mi_bitmap_index_create_ex"),
    dict(id=23, c="mi_bitmap_index_create"),
    dict(id=24, c="mi_bitmap_index_create_from_bit"),
    dict(id=25, c="mi_bitmap_index_field"),
    dict(id=26, c="mi_bitmap_index_bit_in_field"),
    dict(id=27, c="mi_bitmap_index_bit"),
    dict(id=28, c="mi_bitmap_mask_"),
    dict(id=29, c="mi_segment_calculate_slices", out=["info_slices"],
         calls={"_mi_os_page_size": ("term", "os_page_size_default", "size_t")}),
    # arena.c (Model/Bind.v, properties C14/C15): arena ids are `int` -> Z
    dict(id=30, c="_mi_arena_id_none"),
    dict(id=31, c="mi_arena_id_index"),
    dict(id=32, c="mi_arena_id_create"),
    dict(id=33, c="mi_arena_id_is_suitable"),
    dict(id=34, c="mi_block_count_of_size"),
    dict(id=35, c="mi_arena_block_size"),
]

# sizeof(T) for struct types: constants of Gen/Consts.v (dumped by harness/gen_dump.c from the same tree)
SIZEOF_CONST = {"mi_segment_t": "sizeof_mi_segment_t", "mi_page_t": "sizeof_mi_page_t", "mi_slice_t": "sizeof_mi_slice_t",
                "mi_block_t": "sizeof_mi_block_t", "mi_heap_t": "sizeof_mi_heap_t"}

# reads of read-only global tables: access path -> (Gallina table function, Gallina length, element C type)
GLOBAL_TABLES = {"_mi_heap_empty.pages[].block_size": ("tbl_heap_empty_pages_block_size", "tbl_heap_empty_pages_len", "size_t")}

# ------------------------------------------------------------------------------------------
# C types (LP64, x86-64)
# ------------------------------------------------------------------------------------------
BASIC = {
    "unsigned long": ("u", 64), "unsigned long long": ("u", 64), "size_t": ("u", 64), "uintptr_t": ("u", 64),
    "uint64_t": ("u", 64), "unsigned int": ("u", 32), "uint32_t": ("u", 32), "unsigned short": ("u", 16),
    "uint16_t": ("u", 16), "unsigned char": ("u", 8), "uint8_t": ("u", 8),
    "int": ("s", 32), "int32_t": ("s", 32), "long": ("s", 64), "long long": ("s", 64), "intptr_t": ("s", 64),
    "ptrdiff_t": ("s", 64), "int64_t": ("s", 64), "short": ("s", 16), "int16_t": ("s", 16), "signed char": ("s", 8),
    "int8_t": ("s", 8), "char": ("s", 8), "_Bool": ("bool", 1), "bool": ("bool", 1), "void": ("void", 0),
}
SIZEOF_BASIC = {k: v[1] // 8 for k, v in BASIC.items() if v[0] in ("u", "s")}
SIZEOF_BASIC.update({"_Bool": 1, "bool": 1})


class CT:
    """kind: 'u' | 's' | 'bool' | 'ptr' | 'void'; w: width in bits; pointee: spelled pointee type (ptr)"""
    def __init__(self, kind, w, pointee=None):
        self.kind, self.w, self.pointee = kind, w, pointee
    def __eq__(self, o):
        return isinstance(o, CT) and (self.kind, self.w) == (o.kind, o.w)
    def __ne__(self, o):
        return not self.__eq__(o)
    def __repr__(self):
        return {"u": "uint%d" % self.w, "s": "int%d" % self.w, "bool": "_Bool", "void": "void", "ptr": "ptr(%s)" % self.pointee}[self.kind]
    @property
    def coq(self):
        return {"u": "N", "ptr": "N", "s": "Z", "bool": "bool"}[self.kind]
    @property
    def isint(self):
        return self.kind in ("u", "s")


def strip_quals(t):
    t = t.strip()
    changed = True
    while changed:
        changed = False
        for q in ("const", "volatile", "restrict", "__restrict", "_Atomic"):
            if t.startswith(q + " "):
                t = t[len(q) + 1:].strip(); changed = True
            if t.endswith(" " + q):
                t = t[:-len(q) - 1].strip(); changed = True
            if t.endswith("*" + q):
                t = t[:-len(q)].strip(); changed = True
    return t


def parse_type_str(t):
    t0 = t
    t = strip_quals(t)
    if "(" in t or "[" in t:
        raise Refuse("type `%s` (function, array or atomic type)" % t0)
    if t.endswith("*"):
        return CT("ptr", 64, strip_quals(t[:-1]))
    if t.startswith("struct ") or t.startswith("union ") or t.startswith("enum "):
        raise Refuse("type `%s` (struct/union/enum value)" % t0)
    if t in BASIC:
        k, w = BASIC[t]
        return CT(k, w)
    if re.match(r"^[A-Za-z_][A-Za-z0-9_]*$", t) and TYPEDEF_RESOLVER is not None:
        r = TYPEDEF_RESOLVER(t)
        if r is not None and r != t:
            return parse_type_str(r)
    raise Refuse("type `%s` is not a known scalar type" % t0)


TYPEDEF_RESOLVER = None      # set by translate_all: typedef name -> underlying type spelling (asks clang)


def ctype_of(node):
    ty = node.get("type")
    if not ty:
        raise Refuse("%s without a type" % node.get("kind"))
    return parse_type_str(ty.get("desugaredQualType") or ty["qualType"])


# ------------------------------------------------------------------------------------------
# Gallina term helpers
# ------------------------------------------------------------------------------------------
ATOM = re.compile(r"^[A-Za-z_][A-Za-z0-9_.']*$|^[0-9]+$|^\([-0-9]+\)%Z$")


def par(s):
    if ATOM.match(s):
        return s
    if s.startswith("(") and s.endswith(")"):
        d = 0
        for i, ch in enumerate(s):
            if ch == "(": d += 1
            elif ch == ")":
                d -= 1
                if d == 0 and i != len(s) - 1:
                    break
        else:
            return s
    return "(" + s + ")"


def app(f, *args):
    return f + " " + " ".join(par(a) for a in args)


def num(ct, v):
    if ct.kind == "bool":
        return "true" if v else "false"
    if ct.kind == "s":
        return "(%d)%%Z" % v
    return "%d" % v


def conj(oks):
    oks = [o for o in oks if o != "true"]
    if not oks:
        return "true"
    seen, out = set(), []
    for o in oks:
        if o not in seen:
            seen.add(o); out.append(o)
    if len(out) == 1:
        return out[0]
    return " && ".join(par(o) for o in out)


# identifiers that a C variable must not shadow in the generated file
RESERVED = set("""
fun let in if then else match with end return as at forall exists fix cofix struct where for using mod Type Set Prop
IF by Definition Lemma Theorem Proof Qed Fixpoint Inductive Record Module Section End Import Export Require From
true false negb andb orb pair fst snd nth length N Z nat bool list option Some None O S
wrap wadd wsub wmul wnot W64 ctz clz bsr uwrap uadd usub umul unot wshl ushl cast_uu cast_su cast_us cast_ss b2z b2n sfits
builtin_clzl builtin_ctzl builtin_clz32 builtin_ctz32 builtin_umull_overflow tbl_heap_empty_pages_block_size
tbl_heap_empty_pages_len c2g_refused C2G_refused os_page_size_default
""".split()) | set(SIZEOF_CONST.values())


class E:
    """translated expression.  term: Gallina term with folded constants; ct: C type; oks: conditions (bool
    terms) under which its evaluation is free of undefined behaviour; cval: value when the expression is
    closed (then raw = the unfolded Gallina term, re-computed by Coq in Gen/FuncsCheck.v);
    bterm: boolean view of a 0/1-valued int expression; pre: hoisted bindings (pattern, term, oks)
    of calls with out-parameters; reads/writes: names of C variables read / written"""
    def __init__(self, term, ct, oks=(), cval=None, raw=None, bterm=None, pre=(), reads=(), writes=()):
        self.term, self.ct, self.oks, self.cval, self.raw = term, ct, list(oks), cval, raw
        self.bterm, self.pre, self.reads, self.writes = bterm, list(pre), set(reads), set(writes)
    @property
    def const(self):
        return self.cval is not None


def fits(ct, v):
    if ct.kind == "u" or ct.kind == "ptr":
        return 0 <= v < (1 << ct.w)
    if ct.kind == "s":
        return -(1 << (ct.w - 1)) <= v < (1 << (ct.w - 1))
    return v in (0, 1, True, False)


# ------------------------------------------------------------------------------------------
# intermediate form of a function body (a tree of lets / ifs / returns); the value function and
# the _ok twin are both printed from it
# ------------------------------------------------------------------------------------------
class Let:      # let pat := term in body            (term: str)   |   let pat := <tree> in body  (tree: IR)
    def __init__(self, pat, term, oks, body, tree=None):
        self.pat, self.term, self.oks, self.body, self.tree = pat, term, list(oks), body, tree
class If:
    def __init__(self, cond, oks, then, els):
        self.cond, self.oks, self.then, self.els = cond, list(oks), then, els
class Ret:
    def __init__(self, term, oks):
        self.term, self.oks = term, list(oks)


def ir_simpl(t):
    """let x := e in x  ==>  e   (single variable patterns only)"""
    if isinstance(t, Ret):
        return t
    if isinstance(t, If):
        return If(t.cond, t.oks, ir_simpl(t.then), ir_simpl(t.els))
    body = ir_simpl(t.body)
    tree = ir_simpl(t.tree) if t.tree is not None else None
    if isinstance(body, Ret) and body.term == t.pat and re.match(r"^[A-Za-z_][A-Za-z0-9_']*$", t.pat):
        if tree is None:
            return Ret(t.term, t.oks + body.oks)
        if not body.oks:
            return tree
    return Let(t.pat, t.term, t.oks, body, tree=tree)


def ir_value(t, ind):
    sp = "  " * ind
    if isinstance(t, Ret):
        return sp + t.term
    if isinstance(t, If):
        return "%sif %s then\n%s\n%selse\n%s" % (sp, t.cond, ir_value(t.then, ind + 1), sp, ir_value(t.els, ind + 1))
    if t.tree is not None:
        return "%slet %s :=\n%s in\n%s" % (sp, t.pat, ir_value(t.tree, ind + 2), ir_value(t.body, ind))
    return "%slet %s := %s in\n%s" % (sp, t.pat, t.term, ir_value(t.body, ind))


def ir_ok(t):
    """the _ok twin as a term string ('true' when nothing can go wrong)"""
    if isinstance(t, Ret):
        return conj(t.oks)
    if isinstance(t, If):
        a, b = ir_ok(t.then), ir_ok(t.els)
        inner = "true" if (a == "true" and b == "true") else "if %s then %s else %s" % (t.cond, par(a), par(b))
        return conj(t.oks + [inner])
    b = ir_ok(t.body)
    if t.tree is not None:
        first = ir_ok(t.tree)
        inner = "true" if b == "true" else "let %s := %s in %s" % (t.pat, par(ir_value_inline(t.tree)), b)
        return conj([first, inner])
    inner = "true" if b == "true" else "let %s := %s in %s" % (t.pat, t.term, b)
    return conj(t.oks + [inner])


def ir_value_inline(t):
    return " ".join(ir_value(t, 0).split())


def ir_size(t):
    if isinstance(t, Ret):
        return 1
    if isinstance(t, If):
        return 1 + ir_size(t.then) + ir_size(t.els)
    return 1 + ir_size(t.body) + (ir_size(t.tree) if t.tree is not None else 0)


class Var:
    def __init__(self, gname, ct, init, kind):
        self.gname, self.ct, self.init, self.kind = gname, ct, init, kind   # kind: param | local | out | opaque


def strip(node):
    """remove parentheses and ConstantExpr wrappers"""
    while node.get("kind") in ("ParenExpr", "ConstantExpr") and node.get("inner"):
        node = node["inner"][0]
    return node


class FnTrans:
    def __init__(self, spec, decl, done):
        self.spec, self.decl, self.done = spec, decl, done    # done: name -> dict(args, ret, outs, has_ok) of translated functions
        self.folds = []          # (unfolded term, folded term) pairs for Gen/FuncsCheck.v
        self.names = set()       # Gallina names in use
        self.extra_args = []     # (gname, ct) of `reads` / `calls` arguments, in order of first use
        self.extra_by_key = {}
        self.deps = set()
        self.nfresh = 0

    # ---- names -------------------------------------------------------------------------
    def gname(self, cname):
        g = re.sub(r"[^A-Za-z0-9_]", "_", cname)
        if not re.match(r"[A-Za-z_]", g):
            g = "v" + g
        if g.startswith("c_") or g.startswith("ret_"):
            g = "v_" + g
        while g in RESERVED or g in self.names:
            g += "_"
        self.names.add(g)
        return g

    def extra_arg(self, key, name, ct):
        if key not in self.extra_by_key:
            g = self.gname(name)
            self.extra_by_key[key] = (g, ct)
            self.extra_args.append((g, ct))
        g, ct0 = self.extra_by_key[key]
        if ct0 != ct:
            raise Refuse("`%s` is used at two different types" % key)
        return g

    # ---- constants -----------------------------------------------------------------------
    def lit(self, ct, v):
        if not fits(ct, v):
            raise Refuse("constant %d does not fit its type %r" % (v, ct))
        t = num(ct, v)
        return E(t, ct, cval=v, raw=t, bterm=(None if ct.kind != "s" or v not in (0, 1) else None))

    def mk(self, ct, f, args, py, ok=None, bterm=None):
        """build `f a1 .. an` of C type ct.  f: function name or a python callable producing the term from
        argument terms; py: python evaluation on constant arguments; ok: callable(args) -> list of ok terms
        (may raise Refuse when a constant operand makes the operation undefined)."""
        mkterm = (lambda ts: app(f, *ts)) if isinstance(f, str) else f
        oks, pre, reads, writes = [], [], set(), set()
        for a in args:
            oks += a.oks; pre += a.pre; reads |= a.reads; writes |= a.writes
        extra = ok(args) if ok else []
        if all(a.const for a in args) and not pre:
            if extra:
                raise Refuse("internal: undecided side condition on constant operands: %s" % extra)
            v = py(*[a.cval for a in args])
            if ct.kind == "bool":
                v = bool(v)
            if not fits(ct, v):
                raise Refuse("constant expression overflows its type %r (undefined or unexpected): %s" % (ct, mkterm([a.raw for a in args])))
            return E(num(ct, v), ct, cval=v, raw=mkterm([a.raw for a in args]))
        for a in args:
            self.note_fold(a)
        return E(mkterm([a.term for a in args]), ct, oks + extra, bterm=bterm, pre=pre, reads=reads, writes=writes)

    def note_fold(self, a):
        if a.const and a.raw is not None and a.raw != a.term:
            if (a.raw, a.term) not in self.folds:
                self.folds.append((a.raw, a.term))

    # ---- boolean view ----------------------------------------------------------------------
    def cond(self, e):
        """the truth value of a scalar expression, as a Coq bool term (E of kind bool)"""
        if e.ct.kind == "bool":
            return e
        if e.const:
            self.note_fold(e)
            return E("true" if e.cval != 0 else "false", CT("bool", 1), cval=bool(e.cval != 0),
                     raw=("negb (%s)" % (app("Z.eqb", e.raw, "(0)%Z") if e.ct.kind == "s" else "%s =? 0" % par(e.raw))))
        if e.bterm is not None:
            return E(e.bterm, CT("bool", 1), e.oks, pre=e.pre, reads=e.reads, writes=e.writes)
        if e.ct.kind == "s":
            t = "negb (%s)" % app("Z.eqb", e.term, "(0)%Z")
        else:
            t = "negb (%s =? 0)" % par(e.term)
        return E(t, CT("bool", 1), e.oks, pre=e.pre, reads=e.reads, writes=e.writes)

    def of_bool(self, b, ct):
        """a Coq bool (E of kind bool) as a C integer of type ct with value 0/1"""
        if b.const:
            return E(num(ct, int(b.cval)), ct, cval=int(b.cval), raw=app("b2z" if ct.kind == "s" else "b2n", b.raw))
        return E(app("b2z" if ct.kind == "s" else "b2n", b.term), ct, b.oks, bterm=b.term, pre=b.pre, reads=b.reads, writes=b.writes)

    # ---- casts -----------------------------------------------------------------------------
    def cast(self, e, to, what):
        fr = e.ct
        if to.kind == "void":
            raise Refuse("cast to void (%s)" % what)
        if to.kind == "bool":
            if fr.kind == "ptr":
                raise Refuse("pointer used as a truth value (%s)" % what)
            return self.cond(e)
        if fr.kind == "bool":
            if not to.isint:
                raise Refuse("cast of _Bool to %r" % to)
            return self.of_bool(e, to)
        if e.bterm is not None and to.isint and to.w >= 8 and not e.const:
            # a 0/1 value is preserved by every integer conversion
            return E(app("b2z" if to.kind == "s" else "b2n", e.bterm), to, e.oks, bterm=e.bterm, pre=e.pre, reads=e.reads, writes=e.writes)
        if fr.kind == "ptr" and to.kind == "ptr":
            return E(e.term, to, e.oks, cval=e.cval, raw=e.raw, pre=e.pre, reads=e.reads, writes=e.writes)
        if fr.kind == "ptr":
            if to.kind == "u" and to.w == 64:
                return E(e.term, to, e.oks, cval=e.cval, raw=e.raw, pre=e.pre, reads=e.reads, writes=e.writes)
            if to.kind == "s" and to.w == 64:
                return self.mk(to, lambda ts: app("cast_us", "64", *ts), [e], lambda v: v if v < (1 << 63) else v - (1 << 64))
            raise Refuse("cast of a pointer to the %d-bit type %r" % (to.w, to))
        if to.kind == "ptr":
            if fr.kind == "u" and fr.w == 64:
                return E(e.term, to, e.oks, cval=e.cval, raw=e.raw, pre=e.pre, reads=e.reads, writes=e.writes)
            raise Refuse("cast of %r to a pointer" % fr)
        if fr.kind == "u" and to.kind == "u":
            if to.w >= fr.w:
                return E(e.term, to, e.oks, cval=e.cval, raw=e.raw, bterm=e.bterm, pre=e.pre, reads=e.reads, writes=e.writes)
            return self.mk(to, lambda ts: app("cast_uu", str(to.w), *ts), [e], lambda v: v % (1 << to.w))
        if fr.kind == "u" and to.kind == "s":
            if to.w > fr.w:
                return self.mk(to, "Z.of_N", [e], lambda v: v)
            return self.mk(to, lambda ts: app("cast_us", str(to.w), *ts), [e],
                           lambda v: (v % (1 << to.w)) if (v % (1 << to.w)) < (1 << (to.w - 1)) else (v % (1 << to.w)) - (1 << to.w))
        if fr.kind == "s" and to.kind == "u":
            return self.mk(to, lambda ts: app("cast_su", str(to.w), *ts), [e], lambda v: v % (1 << to.w))
        if fr.kind == "s" and to.kind == "s":
            if to.w >= fr.w:
                return E(e.term, to, e.oks, cval=e.cval, raw=e.raw, bterm=e.bterm, pre=e.pre, reads=e.reads, writes=e.writes)
            def narrow(v):
                m = v % (1 << to.w)
                return m if m < (1 << (to.w - 1)) else m - (1 << to.w)
            return self.mk(to, lambda ts: app("cast_ss", str(to.w), *ts), [e], narrow)
        raise Refuse("cast from %r to %r (%s)" % (fr, to, what))

    # ---- access paths (struct fields, global tables) -----------------------------------------
    def path(self, node):
        """(path string, index expression nodes) of an lvalue made of DeclRef / . / -> / []"""
        node = strip(node)
        k = node.get("kind")
        if k == "DeclRefExpr":
            return node["referencedDecl"]["name"], []
        if k == "MemberExpr":
            p, idx = self.path(node["inner"][0])
            return p + ("->" if node.get("isArrow") else ".") + node["name"], idx
        if k == "ImplicitCastExpr" and node.get("castKind") in ("LValueToRValue", "ArrayToPointerDecay", "NoOp"):
            return self.path(node["inner"][0])
        if k == "ArraySubscriptExpr":
            p, idx = self.path(node["inner"][0])
            return p + "[]", idx + [node["inner"][1]]
        raise Refuse("lvalue of kind %s" % k)

    def read_lvalue(self, node, env):
        node = strip(node)
        k = node.get("kind")
        ct = ctype_of(node)
        if k == "DeclRefExpr":
            rd = node["referencedDecl"]
            if rd.get("kind") not in ("VarDecl", "ParmVarDecl"):
                raise Refuse("reference to a %s (`%s`)" % (rd.get("kind"), rd.get("name")))
            v = env.get(rd["id"])
            if v is None:
                key = rd["name"]
                if key in self.spec.get("reads", {}):
                    return E(self.extra_arg(key, self.spec["reads"][key], ct), ct, reads={key})
                raise Refuse("read of the global or unknown variable `%s`" % rd.get("name"))
            if v.kind == "opaque":
                raise Refuse("use of the opaque parameter `%s` outside the declared accesses" % rd["name"])
            if v.kind == "out":
                return E(v.gname + "!ptr", CT("ptr", 64, None), reads=set())   # only meaningful under `*` or as a call argument
            if not v.init:
                raise Refuse("read of the uninitialised variable `%s`" % rd["name"])
            if v.ct != ct:
                raise Refuse("variable `%s` read at type %r, declared %r" % (rd["name"], ct, v.ct))
            return E(v.gname, ct, reads={rd["id"]})
        if k == "UnaryOperator" and node.get("opcode") == "*":
            inner = strip(node["inner"][0])
            if inner.get("kind") == "ImplicitCastExpr" and inner.get("castKind") == "LValueToRValue":
                inner = strip(inner["inner"][0])
            if inner.get("kind") == "DeclRefExpr":
                v = env.get(inner["referencedDecl"]["id"])
                if v is not None and v.kind == "out":
                    if not v.init:
                        raise Refuse("read of `*%s` before it is written" % inner["referencedDecl"]["name"])
                    if v.ct != ct:
                        raise Refuse("`*%s` read at type %r, declared %r" % (inner["referencedDecl"]["name"], ct, v.ct))
                    return E(v.gname, ct, reads={inner["referencedDecl"]["id"]})
            raise Refuse("dereference of a pointer that is not a declared out-parameter")
        if k in ("MemberExpr", "ArraySubscriptExpr"):
            p, idx = self.path(node)
            if p in self.spec.get("reads", {}) and not idx:
                return E(self.extra_arg(p, self.spec["reads"][p], ct), ct, reads={p})
            if p in GLOBAL_TABLES and len(idx) == 1:
                fn, ln, ety = GLOBAL_TABLES[p]
                if parse_type_str(ety) != ct:
                    raise Refuse("table `%s` read at type %r" % (p, ct))
                i = self.expr(idx[0], env)
                if not (i.ct.kind == "u"):
                    raise Refuse("table index of type %r" % i.ct)
                self.note_fold(i)
                return E(app(fn, i.term), ct, i.oks + ["%s <? %s" % (par(i.term), ln)], pre=i.pre, reads=i.reads, writes=i.writes)
            raise Refuse("memory read `%s` (not a declared access)" % p)
        raise Refuse("lvalue of kind %s" % k)

    # ---- expressions ---------------------------------------------------------------------------
    def expr(self, node, env, strict=True):
        k = node.get("kind")
        if k in ("ParenExpr", "ConstantExpr"):
            return self.expr(node["inner"][0], env, strict)
        if k == "IntegerLiteral":
            return self.lit(ctype_of(node), int(node["value"]))
        if k == "CharacterLiteral":
            return self.lit(ctype_of(node), int(node["value"]))
        if k in ("ImplicitCastExpr", "CStyleCastExpr"):
            ck = node.get("castKind")
            inner = node["inner"][0]
            if ck == "LValueToRValue":
                return self.read_lvalue(inner, env)
            to = ctype_of(node)
            if ck == "NullToPointer":
                return E("0", to, cval=0, raw="0")
            if ck in ("IntegralCast", "NoOp", "BitCast", "PointerToIntegral", "IntegralToPointer", "IntegralToBoolean"):
                e = self.expr(inner, env, strict)
                if e.term.endswith("!ptr"):
                    if ck in ("NoOp", "BitCast") and to.kind == "ptr":
                        return e
                    raise Refuse("out-parameter pointer converted by %s" % ck)
                return self.cast(e, to, ck)
            raise Refuse("cast kind %s" % ck)
        if k == "UnaryExprOrTypeTraitExpr":
            if node.get("name") != "sizeof":
                raise Refuse("%s" % node.get("name"))
            ct = ctype_of(node)
            if "argType" in node:
                t = strip_quals(node["argType"].get("desugaredQualType") or node["argType"]["qualType"])
                t1 = strip_quals(node["argType"]["qualType"])
            else:
                ity = node["inner"][0].get("type", {})
                t = strip_quals(ity.get("desugaredQualType") or ity.get("qualType", "?"))
                t1 = strip_quals(ity.get("qualType", "?"))
            for c in (t1, t):
                if c in SIZEOF_BASIC:
                    return self.lit(ct, SIZEOF_BASIC[c])
                if c.endswith("*"):
                    return self.lit(ct, 8)
            for c in (t1, t, t.replace("struct ", "")):
                if c in SIZEOF_CONST:
                    return E(SIZEOF_CONST[c], ct)
            raise Refuse("sizeof(%s)" % t1)
        if k == "UnaryOperator":
            return self.unary(node, env, strict)
        if k == "BinaryOperator":
            return self.binary(node, env, strict)
        if k == "ConditionalOperator":
            c = self.cond(self.expr(node["inner"][0], env, strict))
            a = self.expr(node["inner"][1], env, False)
            b = self.expr(node["inner"][2], env, False)
            ct = ctype_of(node)
            if a.ct != ct or b.ct != ct:
                raise Refuse("?: with operands of types %r / %r and result %r" % (a.ct, b.ct, ct))
            if a.pre or b.pre:
                raise Refuse("call with out-parameters inside a conditional operand")
            if c.const:
                # the branch not taken is still type checked by C but never evaluated
                self.note_fold(c)
                e = a if c.cval else b
                return E(e.term, ct, e.oks, cval=e.cval, raw=("if %s then %s else %s" % (c.raw, par(a.raw or a.term), par(b.raw or b.term))) if e.const else None,
                         bterm=e.bterm, reads=e.reads)
            self.note_fold(a); self.note_fold(b)
            oks = list(c.oks)
            if a.oks or b.oks:
                oks.append("if %s then %s else %s" % (c.term, par(conj(a.oks)), par(conj(b.oks))))
            bt = None
            if a.bterm is not None and b.bterm is not None:
                bt = "if %s then %s else %s" % (c.term, par(a.bterm), par(b.bterm))
            return E("if %s then %s else %s" % (c.term, par(a.term), par(b.term)), ct, oks, bterm=bt, pre=c.pre,
                     reads=c.reads | a.reads | b.reads, writes=c.writes)
        if k == "CallExpr":
            return self.call(node, env, strict)
        if k in ("DeclRefExpr", "MemberExpr", "ArraySubscriptExpr"):
            raise Refuse("lvalue `%s` used without being read (address taken or assigned inside an expression)" % (node.get("name") or node.get("referencedDecl", {}).get("name")))
        raise Refuse("expression of kind %s" % k)

    def unary(self, node, env, strict):
        op = node["opcode"]
        ct = ctype_of(node)
        if op in ("++", "--"):
            raise Refuse("`%s` used as a value" % op)
        if op == "&":
            raise Refuse("address-of outside an out-argument position")
        if op == "*":
            raise Refuse("dereference used as an lvalue inside an expression")
        a = self.expr(node["inner"][0], env, strict)
        if op == "!":
            b = self.cond(a)
            if b.const:
                nb = E("false" if b.cval else "true", CT("bool", 1), cval=(not b.cval), raw=app("negb", b.raw))
            else:
                # negb (negb x) is printed as x (the `!!(e)` of mi_likely/mi_unlikely)
                m = re.match(r"^negb \((.*)\)$", b.term)
                inner_t = m.group(1) if (m and par("(" + m.group(1) + ")") == "(" + m.group(1) + ")") else None
                nb = E(inner_t if inner_t is not None else app("negb", b.term), CT("bool", 1), b.oks, pre=b.pre, reads=b.reads, writes=b.writes)
            return self.of_bool(nb, ct)
        if a.ct != ct or not ct.isint:
            raise Refuse("unary `%s` on %r giving %r" % (op, a.ct, ct))
        if op == "+":
            return a
        if ct.kind == "u":
            if ct.w < 32:
                raise Refuse("arithmetic at the sub-int type %r (C promotes to int)" % ct)
            if op == "~":
                return self.mk(ct, "wnot" if ct.w == 64 else (lambda ts: app("unot", str(ct.w), *ts)), [a], lambda v: (1 << ct.w) - 1 - v)
            if op == "-":
                z = self.lit(ct, 0)
                return self.mk(ct, "wsub" if ct.w == 64 else (lambda ts: app("usub", str(ct.w), *ts)), [z, a], lambda x, v: (x - v) % (1 << ct.w))
        else:
            if op == "~":
                return self.mk(ct, "Z.lnot", [a], lambda v: -v - 1)
            if op == "-":
                return self.mk(ct, "Z.opp", [a], lambda v: -v,
                               ok=lambda args: [] if args[0].const else [app("sfits", str(ct.w), app("Z.opp", args[0].term))])
        raise Refuse("unary operator `%s`" % op)

    def shift_count(self, cnt, width):
        """(N term of the count, raw term, python value or None, ok terms)"""
        if cnt.ct.kind == "u":
            if cnt.const:
                if cnt.cval >= width:
                    raise Refuse("shift by the constant %d >= width %d (undefined)" % (cnt.cval, width))
                return cnt, []
            return cnt, ["%s <? %d" % (par(cnt.term), width)]
        if cnt.ct.kind == "s":
            if cnt.const:
                if not (0 <= cnt.cval < width):
                    raise Refuse("shift by the constant %d outside 0..%d (undefined)" % (cnt.cval, width - 1))
                self.note_fold(cnt)
                return E(str(cnt.cval), CT("u", 64), cval=cnt.cval, raw=app("Z.to_N", cnt.raw)), []
            n = E(app("Z.to_N", cnt.term), CT("u", 64), cnt.oks, pre=cnt.pre, reads=cnt.reads, writes=cnt.writes)
            return n, [app("Z.leb", "(0)%Z", cnt.term), app("Z.ltb", cnt.term, "(%d)%%Z" % width)]
        raise Refuse("shift count of type %r" % cnt.ct)

    def binary(self, node, env, strict):
        op = node["opcode"]
        ct = ctype_of(node)
        if op in ("=", ",") or op.endswith("=") and op not in ("==", "!=", "<=", ">="):
            raise Refuse("`%s` inside an expression" % op)
        if op in ("&&", "||"):
            a = self.cond(self.expr(node["inner"][0], env, strict))
            b = self.cond(self.expr(node["inner"][1], env, False))
            if b.pre:
                raise Refuse("call with out-parameters in the right operand of `%s`" % op)
            if a.const and b.const:
                v = (a.cval and b.cval) if op == "&&" else (a.cval or b.cval)
                r = E(num(CT("bool", 1), v), CT("bool", 1), cval=bool(v), raw="%s %s %s" % (par(a.raw), op, par(b.raw)))
                return self.of_bool(r, ct)
            self.note_fold(a); self.note_fold(b)
            oks = list(a.oks)
            if b.oks:
                oks.append(("if %s then %s else true" if op == "&&" else "if %s then true else %s") % (a.term, par(conj(b.oks))))
            r = E("%s %s %s" % (par(a.term), op, par(b.term)), CT("bool", 1), oks, pre=a.pre, reads=a.reads | b.reads, writes=a.writes)
            return self.of_bool(r, ct)
        a = self.expr(node["inner"][0], env, strict)
        b = self.expr(node["inner"][1], env, strict)
        if a.pre and b.pre:
            raise Refuse("two calls with out-parameters in one expression (unsequenced)")
        if (a.writes & b.reads) or (b.writes & a.reads):
            raise Refuse("a variable is written by a call and read in the same expression (unsequenced)")
        if op in ("==", "!=", "<", "<=", ">", ">="):
            if a.ct != b.ct or a.ct.kind not in ("u", "s", "ptr"):
                raise Refuse("comparison `%s` of %r and %r" % (op, a.ct, b.ct))
            if a.ct.kind == "ptr" and op not in ("==", "!="):
                raise Refuse("ordering comparison of pointers")
            if a.term.endswith("!ptr") or b.term.endswith("!ptr"):
                # an out-parameter is a valid, non-NULL result slot (assumption of the whitelist entry)
                o = b if a.term.endswith("!ptr") else a
                if op in ("==", "!=") and o.const and o.cval == 0:
                    r = E("true" if op == "!=" else "false", CT("bool", 1), cval=(op == "!="), raw="true" if op == "!=" else "false")
                    return self.of_bool(r, ct)
                raise Refuse("comparison of an out-parameter pointer")
            py = {"==": lambda x, y: x == y, "!=": lambda x, y: x != y, "<": lambda x, y: x < y, "<=": lambda x, y: x <= y,
                  ">": lambda x, y: x > y, ">=": lambda x, y: x >= y}[op]
            if a.ct.kind == "s":
                f = {"==": lambda ts: app("Z.eqb", *ts), "!=": lambda ts: app("negb", app("Z.eqb", *ts)),
                     "<": lambda ts: app("Z.ltb", *ts), "<=": lambda ts: app("Z.leb", *ts),
                     ">": lambda ts: app("Z.ltb", ts[1], ts[0]), ">=": lambda ts: app("Z.leb", ts[1], ts[0])}[op]
            else:
                f = {"==": lambda ts: "%s =? %s" % (par(ts[0]), par(ts[1])), "!=": lambda ts: "negb (%s =? %s)" % (par(ts[0]), par(ts[1])),
                     "<": lambda ts: "%s <? %s" % (par(ts[0]), par(ts[1])), "<=": lambda ts: "%s <=? %s" % (par(ts[0]), par(ts[1])),
                     ">": lambda ts: "%s <? %s" % (par(ts[1]), par(ts[0])), ">=": lambda ts: "%s <=? %s" % (par(ts[1]), par(ts[0]))}[op]
            r = self.mk(CT("bool", 1), f, [a, b], py)
            return self.of_bool(r, ct)
        if op in ("<<", ">>"):
            if a.ct != ct or not ct.isint:
                raise Refuse("shift of %r giving %r" % (a.ct, ct))
            if ct.w < 32:
                raise Refuse("shift at the sub-int type %r" % ct)
            n, nok = self.shift_count(b, ct.w)
            okf = (lambda args: nok)
            if ct.kind == "u":
                if op == "<<":
                    return self.mk(ct, "wshl" if ct.w == 64 else (lambda ts: app("ushl", str(ct.w), *ts)), [a, n],
                                   lambda x, y: (x << y) % (1 << ct.w), ok=okf)
                return self.mk(ct, "N.shiftr", [a, n], lambda x, y: x >> y, ok=okf)
            # signed: only non-negative operands, the result must fit (C11 6.5.7)
            if op == "<<":
                def oks(args):
                    x = args[0]
                    if x.const:
                        if x.cval < 0:
                            raise Refuse("left shift of the negative constant %d (undefined)" % x.cval)
                        if args[1].const:
                            return nok
                    return nok + [app("Z.leb", "(0)%Z", x.term), app("sfits", str(ct.w), app("Z.shiftl", x.term, app("Z.of_N", args[1].term)))]
                return self.mk(ct, lambda ts: app("Z.shiftl", ts[0], app("Z.of_N", ts[1])), [a, n], lambda x, y: x << y, ok=oks)
            def oks2(args):
                x = args[0]
                if x.const:
                    if x.cval < 0:
                        raise Refuse("right shift of the negative constant %d (implementation-defined)" % x.cval)
                    return nok
                return nok + [app("Z.leb", "(0)%Z", x.term)]
            return self.mk(ct, lambda ts: app("Z.shiftr", ts[0], app("Z.of_N", ts[1])), [a, n], lambda x, y: x >> y, ok=oks2)
        if op == "-" and a.ct.kind == "ptr" and b.ct.kind == "ptr":
            if ct != CT("s", 64):
                raise Refuse("pointer difference of type %r" % ct)
            if a.ct.pointee not in ("uint8_t", "unsigned char", "char") or b.ct.pointee not in ("uint8_t", "unsigned char", "char"):
                raise Refuse("pointer difference with element type `%s` (only byte pointers)" % a.ct.pointee)
            return self.mk(ct, lambda ts: app("Z.sub", app("Z.of_N", ts[0]), app("Z.of_N", ts[1])), [a, b], lambda x, y: x - y,
                           ok=lambda args: [app("sfits", "64", app("Z.sub", app("Z.of_N", args[0].term), app("Z.of_N", args[1].term)))])
        if a.ct != ct or b.ct != ct or not ct.isint:
            raise Refuse("`%s` on %r and %r giving %r" % (op, a.ct, b.ct, ct))
        if ct.w < 32:
            raise Refuse("arithmetic at the sub-int type %r (C promotes to int)" % ct)
        M = 1 << ct.w
        def nz(args):
            d = args[1]
            if d.const:
                if d.cval == 0:
                    raise Refuse("division by the constant 0")
                return []
            return ["negb (%s)" % (app("Z.eqb", d.term, "(0)%Z") if ct.kind == "s" else "%s =? 0" % par(d.term))]
        if ct.kind == "u":
            w64 = ct.w == 64
            W = str(ct.w)
            tbl = {"+": ("wadd" if w64 else (lambda ts: app("uadd", W, *ts)), lambda x, y: (x + y) % M, None),
                   "-": ("wsub" if w64 else (lambda ts: app("usub", W, *ts)), lambda x, y: (x - y) % M, None),
                   "*": ("wmul" if w64 else (lambda ts: app("umul", W, *ts)), lambda x, y: (x * y) % M, None),
                   "/": (lambda ts: "%s / %s" % (par(ts[0]), par(ts[1])), lambda x, y: x // y, nz),
                   "%": (lambda ts: "%s mod %s" % (par(ts[0]), par(ts[1])), lambda x, y: x % y, nz),
                   "&": ("N.land", lambda x, y: x & y, None), "|": ("N.lor", lambda x, y: x | y, None),
                   "^": ("N.lxor", lambda x, y: x ^ y, None)}
            if op not in tbl:
                raise Refuse("binary operator `%s`" % op)
            f, py, ok = tbl[op]
            return self.mk(ct, f, [a, b], py, ok=ok)
        # signed: mathematical result, "fits" is a side condition
        W = str(ct.w)
        def fitok(fname):
            return lambda args: [] if all(x.const for x in args) else [app("sfits", W, app(fname, args[0].term, args[1].term))]
        def quot(x, y):
            q = abs(x) // abs(y)
            return q if (x >= 0) == (y >= 0) else -q
        def divok(fname):
            return lambda args: nz(args) + ([] if all(x.const for x in args) else [app("sfits", W, app(fname, args[0].term, args[1].term))])
        tbl = {"+": ("Z.add", lambda x, y: x + y, fitok("Z.add")), "-": ("Z.sub", lambda x, y: x - y, fitok("Z.sub")),
               "*": ("Z.mul", lambda x, y: x * y, fitok("Z.mul")),
               "/": ("Z.quot", quot, divok("Z.quot")), "%": ("Z.rem", lambda x, y: x - y * quot(x, y), divok("Z.quot")),
               "&": ("Z.land", lambda x, y: x & y, None), "|": ("Z.lor", lambda x, y: x | y, None), "^": ("Z.lxor", lambda x, y: x ^ y, None)}
        if op not in tbl:
            raise Refuse("binary operator `%s`" % op)
        f, py, ok = tbl[op]
        return self.mk(ct, f, [a, b], py, ok=ok)

    # ---- calls -------------------------------------------------------------------------------
    def fresh(self, base):
        self.nfresh += 1
        return self.gname("ret_" + base if self.nfresh == 1 else "ret%d_%s" % (self.nfresh, base))

    def call(self, node, env, strict):
        callee = strip(node["inner"][0])
        while callee.get("kind") == "ImplicitCastExpr":
            callee = strip(callee["inner"][0])
        if callee.get("kind") != "DeclRefExpr" or callee["referencedDecl"].get("kind") != "FunctionDecl":
            raise Refuse("indirect call")
        name = callee["referencedDecl"]["name"]
        argn = node["inner"][1:]
        ct = ctype_of(node)
        if name == "__builtin_expect":
            e = self.expr(argn[0], env, strict)
            c = self.expr(argn[1], env, strict)
            if not c.const:
                raise Refuse("__builtin_expect with a non-constant expectation")
            if e.ct != ct:
                raise Refuse("__builtin_expect at type %r" % e.ct)
            return e
        if name in ("__builtin_clzl", "__builtin_clzll", "__builtin_ctzl", "__builtin_ctzll", "__builtin_clz", "__builtin_ctz"):
            a = self.expr(argn[0], env, strict)
            w = 32 if name in ("__builtin_clz", "__builtin_ctz") else 64
            if a.ct != CT("u", w) or ct != CT("s", 32):
                raise Refuse("%s at types %r -> %r" % (name, a.ct, ct))
            isclz = "clz" in name
            f = ("builtin_clzl" if isclz else "builtin_ctzl") if w == 64 else ("builtin_clz32" if isclz else "builtin_ctz32")
            def py(v):
                return (w - v.bit_length()) if isclz else ((v & -v).bit_length() - 1)
            def ok(args):
                if args[0].const:
                    if args[0].cval == 0:
                        raise Refuse("%s(0) (undefined)" % name)
                    return []
                return ["negb (%s =? 0)" % par(args[0].term)]
            return self.mk(ct, f, [a], py, ok=ok)
        if name in ("__builtin_umull_overflow", "__builtin_umulll_overflow"):
            a = self.expr(argn[0], env, strict); b = self.expr(argn[1], env, strict)
            if a.ct != CT("u", 64) or b.ct != CT("u", 64):
                raise Refuse("%s at types %r, %r" % (name, a.ct, b.ct))
            slot = self.out_slot(argn[2], env, CT("u", 64))
            return self.effect_call(env, app("builtin_umull_overflow", a.term, b.term), [a, b], ct, [slot], name, strict)
        ext = self.spec.get("calls", {}).get(name)
        if ext is not None:
            if ext[0] == "term":
                if argn:
                    raise Refuse("`%s` mapped to a constant but called with arguments" % name)
                if parse_type_str(ext[2]) != ct:
                    raise Refuse("`%s` returns %r, expected %s" % (name, ct, ext[2]))
                return E(ext[1], ct)
            if ext[0] == "arg":
                for a in argn:
                    p, _ = self.path(a)
                    v = [x for x in env.values() if x.kind == "opaque" and x.gname == p]
                    if not v:
                        raise Refuse("`%s` (mapped to an argument) called on something else than an opaque parameter" % name)
                return E(self.extra_arg(name + "()", ext[1], ct), ct, reads={name + "()"})
        info = self.done.get(name)
        if info is None:
            raise Refuse("call to `%s`, which is not translated" % name)
        if info.get("refused"):
            raise Refuse("call to `%s`, which was refused (%s)" % (name, info["refused"]))
        self.deps.add(name)
        params = info["params"]        # list of ("in", ct) | ("out", ct) | ("skip", None) in C order
        if len(params) != len(argn):
            raise Refuse("call to `%s` with %d arguments" % (name, len(argn)))
        ins, slots = [], []
        for (pk, pct), an in zip(params, argn):
            if pk == "in":
                a = self.expr(an, env, strict)
                if a.ct != pct:
                    raise Refuse("argument of `%s` has type %r, parameter %r" % (name, a.ct, pct))
                self.note_fold(a)
                ins.append(a)
            elif pk == "out":
                slots.append(self.out_slot(an, env, pct))
            else:
                raise Refuse("call to `%s`, which has opaque parameters" % name)
        if info["extra"]:
            raise Refuse("call to `%s`, which reads memory through declared accesses" % name)
        term = app("c_" + name, *[a.term for a in ins]) if ins else "c_" + name
        okterm = (app("c_" + name + "_ok", *[a.term for a in ins]) if ins else "c_" + name + "_ok") if info["has_ok"] else None
        if not slots:
            if info["ret"] is None:
                raise Refuse("call to the void function `%s` without out-parameters" % name)
            if info["ret"] != ct:
                raise Refuse("`%s` returns %r, call site says %r" % (name, info["ret"], ct))
            oks, pre, reads, writes = [], [], set(), set()
            for a in ins:
                oks += a.oks; pre += a.pre; reads |= a.reads; writes |= a.writes
            if len([a for a in ins if a.pre]) > 1:
                raise Refuse("two calls with out-parameters among the arguments of `%s` (unsequenced)" % name)
            return E(term, ct, oks + ([okterm] if okterm else []), pre=pre, reads=reads, writes=writes)
        return self.effect_call(env, term, ins, info["ret"], slots, name, strict, okterm, ct)

    def out_slot(self, an, env, pct):
        """an argument in out-position: `&local` or an out-parameter passed through; returns the variable id"""
        n = strip(an)
        while n.get("kind") in ("ImplicitCastExpr", "CStyleCastExpr") and n.get("castKind") in ("NoOp", "BitCast", "LValueToRValue"):
            n = strip(n["inner"][0])
        if n.get("kind") == "UnaryOperator" and n.get("opcode") == "&":
            m = strip(n["inner"][0])
            if m.get("kind") == "DeclRefExpr" and m["referencedDecl"]["id"] in env:
                v = env[m["referencedDecl"]["id"]]
                if v.kind == "local" and v.ct == pct:
                    return m["referencedDecl"]["id"]
            raise Refuse("`&` of something else than a local variable of the slot's type")
        if n.get("kind") == "DeclRefExpr" and n["referencedDecl"]["id"] in env:
            v = env[n["referencedDecl"]["id"]]
            if v.kind == "out" and v.ct == pct:
                return n["referencedDecl"]["id"]
        raise Refuse("out-argument that is neither `&local` nor an out-parameter passed through")

    def effect_call(self, env, term, ins, ret, slots, name, strict, okterm=None, ct=None):
        if not strict:
            raise Refuse("call to `%s` (writes through pointers) in a conditionally evaluated position" % name)
        if len(set(slots)) != len(slots):
            raise Refuse("the same variable passed for two out-parameters of `%s`" % name)
        oks, pre, reads, writes = [], [], set(), set()
        for a in ins:
            oks += a.oks; pre += a.pre; reads |= a.reads; writes |= a.writes
            self.note_fold(a)
        if pre:
            raise Refuse("nested calls with out-parameters")
        if reads & set(slots):
            raise Refuse("`%s` reads a variable it also writes (unsequenced)" % name)
        outs = [env[s].gname for s in slots]
        if ret is not None and ret.kind != "void":
            if ct is not None and ct != ret:
                raise Refuse("`%s` returns %r, call site says %r" % (name, ret, ct))
            r = self.fresh(name)
            pat = "'(" + ", ".join([r] + outs) + ")"
            return E(r, ret, [], pre=[(pat, term, oks + ([okterm] if okterm else []), list(slots))], reads=reads, writes=set(slots))
        pat = "'(" + ", ".join(outs) + ")" if len(outs) > 1 else outs[0]
        return E("tt", CT("void", 0), [], pre=[(pat, term, oks + ([okterm] if okterm else []), list(slots))], reads=reads, writes=set(slots))

    # ---- statements ----------------------------------------------------------------------------
    @staticmethod
    def flow(stmts):
        """(may fall through, may return) of a statement list"""
        ret = False
        for s in stmts:
            k = s.get("kind")
            if k == "ReturnStmt":
                return False, True
            if k == "CompoundStmt":
                f, r = FnTrans.flow(s.get("inner", []))
                ret |= r
                if not f:
                    return False, ret
            elif k == "IfStmt":
                inner = s["inner"]
                f1, r1 = FnTrans.flow([inner[1]])
                f2, r2 = FnTrans.flow([inner[2]]) if len(inner) > 2 else (True, False)
                ret |= r1 | r2
                if not f1 and not f2:
                    return False, ret
        return True, ret

    def assigned(self, stmts, env, acc):
        """ids of variables of env assigned somewhere in stmts (syntactic over-approximation)"""
        for s in stmts:
            k = s.get("kind")
            if k in ("BinaryOperator", "CompoundAssignOperator") and (s.get("opcode", "").endswith("=") and s.get("opcode") not in ("==", "!=", "<=", ">=")):
                self.lhs_ids(s["inner"][0], env, acc)
            if k == "UnaryOperator" and s.get("opcode") in ("++", "--"):
                self.lhs_ids(s["inner"][0], env, acc)
            if k == "UnaryOperator" and s.get("opcode") == "&":
                self.lhs_ids(s["inner"][0], env, acc)
            if k == "CallExpr":
                # out-parameters passed through
                for a in s["inner"][1:]:
                    n = strip(a)
                    while n.get("kind") in ("ImplicitCastExpr", "CStyleCastExpr"):
                        n = strip(n["inner"][0])
                    if n.get("kind") == "DeclRefExpr" and n["referencedDecl"]["id"] in env and env[n["referencedDecl"]["id"]].kind == "out":
                        acc.add(n["referencedDecl"]["id"])
            self.assigned(s.get("inner", []), env, acc)
        return acc

    def lhs_ids(self, node, env, acc):
        n = strip(node)
        if n.get("kind") == "UnaryOperator" and n.get("opcode") == "*":
            n = strip(n["inner"][0])
            while n.get("kind") in ("ImplicitCastExpr",):
                n = strip(n["inner"][0])
        if n.get("kind") == "DeclRefExpr" and n["referencedDecl"]["id"] in env:
            acc.add(n["referencedDecl"]["id"])

    def lhs_var(self, node, env):
        """the variable assigned by an lvalue: a local/param `x` or `*out`"""
        n = strip(node)
        ct = ctype_of(n)
        if n.get("kind") == "UnaryOperator" and n.get("opcode") == "*":
            m = strip(n["inner"][0])
            if m.get("kind") == "ImplicitCastExpr" and m.get("castKind") == "LValueToRValue":
                m = strip(m["inner"][0])
            if m.get("kind") == "DeclRefExpr" and m["referencedDecl"]["id"] in env and env[m["referencedDecl"]["id"]].kind == "out":
                vid = m["referencedDecl"]["id"]
                if env[vid].ct != ct:
                    raise Refuse("`*%s` written at type %r" % (m["referencedDecl"]["name"], ct))
                return vid
            raise Refuse("store through a pointer that is not a declared out-parameter")
        if n.get("kind") == "DeclRefExpr" and n["referencedDecl"]["id"] in env:
            vid = n["referencedDecl"]["id"]
            v = env[vid]
            if v.kind not in ("local", "param"):
                raise Refuse("assignment to the %s parameter `%s`" % (v.kind, n["referencedDecl"]["name"]))
            if v.ct != ct:
                raise Refuse("`%s` written at type %r" % (n["referencedDecl"]["name"], ct))
            return vid
        raise Refuse("assignment to something else than a local variable or an out-parameter")

    def with_pre(self, e, env, body_fn):
        """wrap the hoisted bindings of e around the tree produced by body_fn(env')"""
        if not e.pre:
            return body_fn(env)
        env2 = dict(env)
        for pat, term, oks, slots in e.pre:
            for s in slots:
                v = env2[s]
                env2[s] = Var(v.gname, v.ct, True, v.kind)
        tree = body_fn(env2)
        for pat, term, oks, slots in reversed(e.pre):
            tree = Let(pat, term, oks, tree)
        return tree

    def bind(self, vid, e, env, rest, k):
        v = env[vid]
        if e.ct != v.ct:
            raise Refuse("value of type %r stored in a variable of type %r" % (e.ct, v.ct))
        self.note_fold(e)
        def body(env1):
            env2 = dict(env1)
            env2[vid] = Var(v.gname, v.ct, True, v.kind)
            return Let(v.gname, e.term, e.oks, self.stmts(rest, env2, k))
        return self.with_pre(e, env, body)

    def stmts(self, ss, env, k):
        """translate the statement list ss followed by the continuation k(env) -> tree"""
        if not ss:
            return k(env)
        s, rest = ss[0], ss[1:]
        kind = s.get("kind")
        if kind == "NullStmt":
            return self.stmts(rest, env, k)
        if kind == "CompoundStmt":
            return self.stmts(list(s.get("inner", [])) + rest, env, k)
        if kind == "DeclStmt":
            decls = s.get("inner", [])
            if len(decls) != 1 or decls[0].get("kind") != "VarDecl":
                raise Refuse("declaration statement that is not a single variable")
            d = decls[0]
            if d.get("storageClass") in ("static", "extern"):
                raise Refuse("%s local variable `%s`" % (d.get("storageClass"), d["name"]))
            ct = ctype_of(d)
            if ct.kind not in ("u", "s", "bool", "ptr"):
                raise Refuse("local variable `%s` of type %r" % (d["name"], ct))
            env2 = dict(env)
            env2[d["id"]] = Var(self.gname(d["name"]), ct, False, "local")
            init = [c for c in d.get("inner", []) if "Expr" in c.get("kind", "") or c.get("kind", "").endswith("Operator") or c.get("kind", "").endswith("Literal")]
            if not init:
                return self.stmts(rest, env2, k)
            e = self.expr(init[0], env)
            return self.bind(d["id"], e, env2, rest, k)
        if kind == "ReturnStmt":
            inner = s.get("inner", [])
            if not inner:
                return self.finish(None, env)
            e = self.expr(inner[0], env)
            if e.ct != self.ret:
                raise Refuse("return of a %r in a function returning %r" % (e.ct, self.ret))
            self.note_fold(e)
            return self.with_pre(e, env, lambda env1: self.finish(e, env1))
        if kind == "BinaryOperator" and s.get("opcode") == "=":
            vid = self.lhs_var(s["inner"][0], env)
            e = self.expr(s["inner"][1], env)
            return self.bind(vid, e, env, rest, k)
        if kind == "CompoundAssignOperator":
            op = s["opcode"][:-1]
            vid = self.lhs_var(s["inner"][0], env)
            v = env[vid]
            ct = ctype_of(s)
            cl = parse_type_str(s.get("computeLHSType", {}).get("desugaredQualType") or s.get("computeLHSType", {}).get("qualType", "?"))
            cr = parse_type_str(s.get("computeResultType", {}).get("desugaredQualType") or s.get("computeResultType", {}).get("qualType", "?"))
            if not (ct == v.ct == cl == cr):
                raise Refuse("compound assignment `%s` with a conversion (%r %r %r)" % (s["opcode"], v.ct, cl, cr))
            if not v.init:
                raise Refuse("`%s` on an uninitialised variable" % s["opcode"])
            fake = {"kind": "BinaryOperator", "opcode": op, "type": s["type"], "inner": [
                {"kind": "ImplicitCastExpr", "castKind": "LValueToRValue", "type": s["type"], "inner": [s["inner"][0]]}, s["inner"][1]]}
            e = self.expr(fake, env)
            return self.bind(vid, e, env, rest, k)
        if kind == "UnaryOperator" and s.get("opcode") in ("++", "--"):
            vid = self.lhs_var(s["inner"][0], env)
            v = env[vid]
            if not v.init:
                raise Refuse("`%s` on an uninitialised variable" % s["opcode"])
            if v.ct.kind != "u" or v.ct.w < 32:
                raise Refuse("`%s` on a variable of type %r" % (s["opcode"], v.ct))
            cur = E(v.gname, v.ct, reads={vid})
            one = self.lit(v.ct, 1)
            w64 = v.ct.w == 64
            M = 1 << v.ct.w
            if s["opcode"] == "++":
                e = self.mk(v.ct, "wadd" if w64 else (lambda ts: app("uadd", str(v.ct.w), *ts)), [cur, one], lambda x, y: (x + y) % M)
            else:
                e = self.mk(v.ct, "wsub" if w64 else (lambda ts: app("usub", str(v.ct.w), *ts)), [cur, one], lambda x, y: (x - y) % M)
            return self.bind(vid, e, env, rest, k)
        if kind == "CallExpr":
            e = self.expr(s, env)
            if not e.pre:
                raise Refuse("call statement without effect on local state")
            return self.with_pre(e, env, lambda env1: self.stmts(rest, env1, k))
        if kind == "IfStmt":
            inner = s["inner"]
            if s.get("hasInit") or s.get("hasVar"):
                raise Refuse("if statement with an init statement or a condition variable")
            c = self.cond(self.expr(inner[0], env))
            S1 = [inner[1]]
            S2 = [inner[2]] if len(inner) > 2 else []
            def body(env1):
                if c.const:
                    # the branch not taken cannot execute (e.g. `if (MI_SECURE>0)` with MI_SECURE = 0)
                    self.note_fold(c)
                    return self.stmts((S1 if c.cval else S2) + rest, env1, k)
                f1, r1 = self.flow(S1)
                f2, r2 = self.flow(S2)
                dead = lambda env_: (_ for _ in ()).throw(Refuse("internal: continuation of a statement that cannot fall through"))
                if not f1 and not f2:
                    return If(c.term, c.oks, self.stmts(S1, env1, dead), self.stmts(S2, env1, dead))
                if f1 and not f2:
                    return If(c.term, c.oks, self.stmts(S1 + rest, env1, k), self.stmts(S2, env1, dead))
                if f2 and not f1:
                    return If(c.term, c.oks, self.stmts(S1, env1, dead), self.stmts(S2 + rest, env1, k))
                if r1 or r2:
                    t = If(c.term, c.oks, self.stmts(S1 + rest, env1, k), self.stmts(S2 + rest, env1, k))
                    if ir_size(t) > 400:
                        raise Refuse("control flow too branchy (continuation duplicated beyond 400 nodes)")
                    return t
                # both branches fall through and neither returns: join the assigned variables
                ids = sorted(self.assigned(S1 + S2, env1, set()), key=lambda i: env1[i].gname)
                if not ids:
                    # no effect on local state; keep the side conditions of the branches
                    unit = lambda env_: Ret("tt", [])
                    t1, t2 = self.stmts(S1, env1, unit), self.stmts(S2, env1, unit)
                    return Let("_", "tt", [], self.stmts(rest, env1, k), tree=If(c.term, c.oks, t1, t2))
                def tup(env_):
                    for i in ids:
                        if not env_[i].init:
                            raise Refuse("`%s` is assigned on one path only and was not initialised before" % env_[i].gname)
                    names = [env_[i].gname for i in ids]
                    return Ret(names[0] if len(names) == 1 else "(" + ", ".join(names) + ")", [])
                t1, t2 = self.stmts(S1, env1, tup), self.stmts(S2, env1, tup)
                env2 = dict(env1)
                for i in ids:
                    v = env2[i]
                    env2[i] = Var(v.gname, v.ct, True, v.kind)
                names = [env1[i].gname for i in ids]
                pat = names[0] if len(names) == 1 else "'(" + ", ".join(names) + ")"
                return Let(pat, None, [], self.stmts(rest, env2, k), tree=If(c.term, c.oks, t1, t2))
            return self.with_pre(c, env, body)
        raise Refuse("statement of kind %s" % kind + (" `%s`" % s.get("opcode") if s.get("opcode") else ""))

    def finish(self, e, env):
        """the value returned: result and the final contents of the out-parameters"""
        parts, oks = [], []
        if self.ret is not None:
            if e is None:
                raise Refuse("control reaches the end of a non-void function")
            parts.append(e.term); oks += e.oks
        for vid in self.out_ids:
            v = env[vid]
            if not v.init:
                raise Refuse("out-parameter `%s` may be left unwritten" % v.gname)
            parts.append(v.gname)
        if not parts:
            raise Refuse("void function without out-parameters")
        return Ret(parts[0] if len(parts) == 1 else "(" + ", ".join(parts) + ")", oks)

    # ---- whole function ----------------------------------------------------------------------------
    def run(self):
        d, spec = self.decl, self.spec
        name = spec["c"]
        m = re.match(r"^(.*?)\s*\(", d["type"]["qualType"])
        rt = parse_type_str(m.group(1)) if m else None
        if rt is None:
            raise Refuse("cannot read the function type `%s`" % d["type"]["qualType"])
        if d.get("variadic"):
            raise Refuse("variadic function")
        self.ret = None if rt.kind == "void" else rt
        env, args, params, self.out_ids = {}, [], [], []
        for p in [c for c in d.get("inner", []) if c.get("kind") == "ParmVarDecl"]:
            pn = p.get("name")
            if pn is None:
                raise Refuse("unnamed parameter")
            ct = ctype_of(p)
            if pn in spec.get("out", []):
                if ct.kind != "ptr":
                    raise Refuse("out-parameter `%s` is not a pointer" % pn)
                pct = parse_type_str(ct.pointee)
                if pct.kind not in ("u", "s", "bool"):
                    raise Refuse("out-parameter `%s` points to %r" % (pn, pct))
                env[p["id"]] = Var(self.gname(pn), pct, False, "out")
                self.out_ids.append(p["id"]); params.append(("out", pct))
            elif pn in spec.get("opaque", []):
                env[p["id"]] = Var(pn, ct, True, "opaque"); params.append(("skip", None))
            else:
                if ct.kind not in ("u", "s", "bool", "ptr"):
                    raise Refuse("parameter `%s` of type %r" % (pn, ct))
                g = self.gname(pn)
                env[p["id"]] = Var(g, ct, True, "param")
                args.append((g, ct)); params.append(("in", ct))
        for n in spec.get("out", []) + spec.get("opaque", []):
            if n not in [p.get("name") for p in d.get("inner", []) if p.get("kind") == "ParmVarDecl"]:
                raise Refuse("declared parameter `%s` no longer exists" % n)
        body = [c for c in d.get("inner", []) if c.get("kind") == "CompoundStmt"]
        if len(body) != 1:
            raise Refuse("no body")
        def end(env_):
            if self.ret is not None:
                raise Refuse("control may reach the end of a non-void function")
            return self.finish(None, env_)
        tree = ir_simpl(self.stmts(list(body[0].get("inner", [])), env, end))
        outs = [env[i].ct for i in self.out_ids]
        return dict(tree=tree, args=args + self.extra_args, params=params, ret=self.ret, outs=outs, extra=list(self.extra_args),
                    folds=self.folds, deps=sorted(self.deps))


# ------------------------------------------------------------------------------------------
# clang front end
# ------------------------------------------------------------------------------------------
def json_objects(txt):
    dec = json.JSONDecoder()
    i, n = 0, len(txt)
    while i < n:
        while i < n and txt[i].isspace():
            i += 1
        if i >= n:
            break
        o, i = dec.raw_decode(txt, i)
        yield o


def annotate_locs(o, st):
    """clang prints `file` and `line` of a location only when they differ from the previously printed
    location: make them explicit (keys _file, _line) in document order"""
    if isinstance(o, dict):
        if "offset" in o:
            if "file" in o: st["file"] = o["file"]
            if "line" in o: st["line"] = o["line"]
            o["_file"], o["_line"] = st.get("file"), st.get("line")
        for k, v in o.items():
            if k != "includedFrom":
                annotate_locs(v, st)
    elif isinstance(o, list):
        for v in o:
            annotate_locs(v, st)


def clang_cmd(repo, fn):
    import vlib
    inc = ["-I" + os.path.join(repo, "include"), "-I" + os.path.join(repo, "src")]
    flags = [f for f in vlib.CFLAGS_REL if f not in ("-g",)]
    return ["clang", "--target=x86_64-pc-linux-gnu", "-fsyntax-only", "-w"] + flags + inc + \
           ["-Xclang", "-ast-dump=json", "-Xclang", "-ast-dump-filter=" + fn, os.path.join(repo, "src", "static.c")]


def fetch_decl(repo, fn):
    """the FunctionDecl (with body) of fn in the translation unit src/static.c, or raises Refuse"""
    try:
        p = subprocess.run(clang_cmd(repo, fn), stdout=subprocess.PIPE, stderr=subprocess.PIPE, timeout=120, text=True, errors="replace")
    except FileNotFoundError:
        raise Refuse("clang is not installed")
    except subprocess.TimeoutExpired:
        raise Refuse("clang timed out")
    if p.returncode != 0:
        raise Refuse("clang failed on src/static.c: " + p.stderr.strip()[-300:])
    found = []
    st = {}
    for o in json_objects(p.stdout):
        annotate_locs(o, st)
        if o.get("kind") == "FunctionDecl" and o.get("name") == fn and any(c.get("kind") == "CompoundStmt" for c in o.get("inner", [])):
            found.append(o)
    if not found:
        raise Refuse("no definition of `%s` in the translation unit" % fn)
    if len(found) > 1:
        raise Refuse("%d definitions of `%s`" % (len(found), fn))
    return found[0]


def make_typedef_resolver(repo):
    cache = {}
    def resolve(name):
        if name not in cache:
            cache[name] = None
            try:
                p = subprocess.run(clang_cmd(repo, name), stdout=subprocess.PIPE, stderr=subprocess.PIPE, timeout=120, text=True, errors="replace")
                if p.returncode == 0:
                    for o in json_objects(p.stdout):
                        if o.get("kind") == "TypedefDecl" and o.get("name") == name:
                            ty = o.get("type", {})
                            cache[name] = ty.get("desugaredQualType") or ty.get("qualType")
            except Exception:
                pass
        return cache[name]
    return resolve


def source_of(decl, repo):
    """(relative file, first line, last line, text) of a declaration"""
    try:
        b, e = decl["range"]["begin"], decl["range"]["end"]
        b = b.get("expansionLoc", b); e = e.get("expansionLoc", e)
        f = b.get("_file") or decl["loc"].get("_file")
        data = open(f, "rb").read()
        text = data[b["offset"]: e["offset"] + e.get("tokLen", 1)].decode(errors="replace")
        l0 = data.count(b"\n", 0, b["offset"]) + 1
        l1 = l0 + text.count("\n")
        return os.path.relpath(f, repo), l0, l1, text
    except Exception as ex:          # the quotation is documentation only
        return "?", 0, 0, "(source text unavailable: %s)" % ex


def coq_comment_safe(s):
    return s.replace("(*", "( *").replace("*)", "* )").replace('"', "''")


# ------------------------------------------------------------------------------------------
# output
# ------------------------------------------------------------------------------------------
HEADER = """(* GENERATED from %s of the checked source tree by tools/c2gallina.py (clang AST -> Gallina) -- do not edit.
   One definition c_<fn> per translated C function; c_<fn>_ok is true when the evaluation meets no
   undefined operation (see Model/CSem.v, NOTES-c2g.md).  Constants were folded by the translator;
   Gen/FuncsCheck.v lets Coq recompute each of them from the unfolded expression. *)
From Coq Require Import NArith ZArith Bool List.
From MiV Require Import Gen.Consts Gen.Bins Model.Arith Model.CSem.
Import ListNotations.
Local Open Scope N_scope.
Local Open Scope bool_scope.
"""


def coq_ret_type(ret, outs):
    ts = ([ret.coq] if ret is not None else []) + [o.coq for o in outs]
    return ts[0] if len(ts) == 1 else "(" + " * ".join(ts) + ")%type"


def enc(term, ct):
    """a result value as an N for the dispatcher"""
    if ct.kind == "bool":
        return app("b2n", term)
    if ct.kind == "s":
        return app("cast_su", "64", term)
    return term


def dec(term, ct):
    if ct.kind == "bool":
        return "negb (%s =? 0)" % term
    if ct.kind == "s":
        return app("cast_us", str(ct.w), term)
    return term


def translate_all(repo, only=None, force_refuse=None):
    """returns (funcs_v, check_v, report); force_refuse: function -> reason (used when Coq rejected its text)"""
    force_refuse = force_refuse or {}
    global TYPEDEF_RESOLVER
    TYPEDEF_RESOLVER = make_typedef_resolver(repo)
    specs = [s for s in FUNCS if only is None or s["c"] in only]
    decls = {}
    with concurrent.futures.ThreadPoolExecutor(max_workers=min(16, max(1, len(specs)))) as ex:
        futs = {s["c"]: ex.submit(fetch_decl, repo, s["c"]) for s in specs}
        for n, f in futs.items():
            try:
                decls[n] = f.result()
            except Refuse as r:
                decls[n] = r
            except Exception as r:           # JSON surprises etc.
                decls[n] = Refuse("cannot read clang's AST: %r" % (r,))
    done, out, folds_all, report = {}, [], [], {"functions": {}, "repo": repo}
    disp, names = [], []
    for s in specs:
        n = s["c"]
        d = decls[n]
        src = ("?", 0, 0, "")
        try:
            if isinstance(d, Refuse):
                raise d
            src = source_of(d, repo)
            if n in force_refuse:
                raise Refuse(force_refuse[n])
            ft = FnTrans(s, d, done)
            r = ft.run()
        except Refuse as why:
            reason = str(why)
            done[n] = {"refused": reason}
            report["functions"][n] = {"status": "refused", "reason": reason, "file": src[0], "line": src[1]}
            out.append("(* REFUSED %s (%s:%d): %s *)\nDefinition c_%s : c2g_refused := C2G_refused.\nDefinition c_%s_ok : c2g_refused := C2G_refused.\n"
                       % (n, src[0], src[1], coq_comment_safe(reason), n, n))
            continue
        except RecursionError:
            reason = "expression nesting too deep"
            done[n] = {"refused": reason}
            report["functions"][n] = {"status": "refused", "reason": reason, "file": src[0], "line": src[1]}
            out.append("(* REFUSED %s: %s *)\nDefinition c_%s : c2g_refused := C2G_refused.\nDefinition c_%s_ok : c2g_refused := C2G_refused.\n" % (n, reason, n, n))
            continue
        okterm = ir_ok(r["tree"])
        done[n] = dict(params=r["params"], ret=r["ret"], outs=r["outs"], extra=r["extra"], has_ok=(okterm != "true"))
        binders = " ".join("(%s : %s)" % (g, ct.coq) for g, ct in r["args"])
        rty = coq_ret_type(r["ret"], r["outs"])
        txt = "(* %s:%d-%d\n%s *)\n" % (src[0], src[1], src[2], "\n".join("   " + l for l in coq_comment_safe(src[3]).splitlines()))
        txt += "Definition c_%s %s : %s :=\n%s.\n" % (n, binders, rty, ir_value(r["tree"], 1)) if binders else \
               "Definition c_%s : %s :=\n%s.\n" % (n, rty, ir_value(r["tree"], 1))
        txt += "Definition c_%s_ok %s : bool :=\n  %s.\n" % (n, binders, okterm) if binders else "Definition c_%s_ok : bool :=\n  %s.\n" % (n, okterm)
        out.append(txt)
        for i, (raw, folded) in enumerate(r["folds"]):
            folds_all.append((n, i, raw, folded))
        report["functions"][n] = {"status": "ok", "file": src[0], "line": src[1], "args": [[g, repr(ct)] for g, ct in r["args"]],
                                  "ret": repr(r["ret"]), "outs": [repr(o) for o in r["outs"]], "ok_trivial": okterm == "true",
                                  "folds": len(r["folds"]), "deps": r["deps"]}
        # dispatcher entry
        avars = ["a%d" % i for i in range(len(r["args"]))]
        call = app("c_" + n, *[par(dec(a, ct)) for a, (g, ct) in zip(avars, r["args"])]) if avars else "c_" + n
        callok = app("c_" + n + "_ok", *[par(dec(a, ct)) for a, (g, ct) in zip(avars, r["args"])]) if avars else "c_" + n + "_ok"
        rts = ([r["ret"]] if r["ret"] is not None else []) + r["outs"]
        if len(rts) == 1:
            res = "Some ([%s], %s)" % (enc(call, rts[0]), callok)
        else:
            rv = ["r%d" % i for i in range(len(rts))]
            res = "let '(%s) := %s in Some ([%s], %s)" % (", ".join(rv), call, "; ".join(enc(v, t) for v, t in zip(rv, rts)), callok)
        disp.append("  if fn =? %d then match args with [%s] => %s | _ => None end else" % (s["id"], "; ".join(avars), res))
        names.append("(%d, [%s])" % (s["id"], "; ".join(str(b) for b in n.encode())))
    funcs_v = HEADER % "src/static.c" + "\n" + "\n".join(out)
    # first line of every function's text in the file (to attribute a Coq error to a function)
    line, spans = (HEADER % "src/static.c").count("\n") + 2, []
    for s_, o_ in zip(specs, out):
        spans.append((line, s_["c"])); line += o_.count("\n") + 1
    report["line_of"] = spans
    funcs_v += "\n(* function names (ASCII codes) of the translated functions, by dispatcher number *)\n"
    funcs_v += "Definition c_names : list (N * list N) :=\n  [%s].\n" % ";\n   ".join(names)
    funcs_v += "\n(* uniform entry point for the replay driver ocaml/mode_gen.ml: arguments and results as unsigned 64-bit numbers\n   (bool: 0/1, signed: two's complement); second component: c_<fn>_ok *)\n"
    funcs_v += "Definition c_dispatch (fn : N) (args : list N) : option (list N * bool) :=\n%s\n  None.\n" % "\n".join(disp)
    check_v = "(* GENERATED by tools/c2gallina.py -- do not edit.\n   Every constant folded by the translator in Gen/Funcs.v, recomputed by Coq from the unfolded expression\n   under the semantics of Model/CSem.v. *)\n"
    check_v += "From Coq Require Import NArith ZArith Bool List.\nFrom MiV Require Import Gen.Consts Gen.Bins Model.Arith Model.CSem.\nLocal Open Scope N_scope.\nLocal Open Scope bool_scope.\n\n"
    for n, i, raw, folded in folds_all:
        check_v += "Example fold_%s_%d : %s = %s.\nProof. vm_compute. reflexivity. Qed.\n" % (re.sub(r"\W", "_", n), i, par(raw), folded)
    report["translated"] = [n for n, v in report["functions"].items() if v["status"] == "ok"]
    report["refused"] = {n: v["reason"] for n, v in report["functions"].items() if v["status"] != "ok"}
    return funcs_v, check_v, report


# ------------------------------------------------------------------------------------------
# entry points
# ------------------------------------------------------------------------------------------
def generate():
    """called by vlib.gen(): (re)write coq/Gen/Funcs.v, coq/Gen/FuncsCheck.v (only when changed) and
    $VERIF_BUILD/c2g_report.json; returns (ok, message, changed files).  Never raises; a function that
    cannot be translated is not an error here (it is reported by the C16 check)."""
    import vlib
    try:
        funcs_v, check_v, report = translate_all(vlib.REPO)
    except Exception as ex:               # a bug of the translator must not take the other checks down
        import traceback
        why = "translator crashed: %s" % traceback.format_exc()[-600:]
        report = {"functions": {}, "repo": vlib.REPO, "translated": [], "refused": {s["c"]: why for s in FUNCS}}
        funcs_v = HEADER % "src/static.c" + "".join("Definition c_%s : c2g_refused := C2G_refused.\nDefinition c_%s_ok : c2g_refused := C2G_refused.\n" % (s["c"], s["c"]) for s in FUNCS)
        funcs_v += "Definition c_names : list (N * list N) := [].\nDefinition c_dispatch (fn : N) (args : list N) : option (list N * bool) := None.\n"
        check_v = "(* GENERATED -- translator crashed *)\n"
    # safety net: the generated text must be accepted by Coq, otherwise Extract/All.v (all properties) would not build.
    # Only when the text changed; a function whose text Coq rejects is refused and the file regenerated.
    try:
        cur = open(os.path.join(vlib.COQ, "Gen", "Funcs.v")).read()
    except OSError:
        cur = None
    if cur != funcs_v and report.get("translated"):
        try:
            forced = {}
            for _ in range(6):
                bad = coq_rejects(vlib.COQ, funcs_v, report)
                if bad is None:
                    break
                forced[bad[0]] = "generated Gallina rejected by Coq (translator defect): " + bad[1]
                funcs_v, check_v, report = translate_all(vlib.REPO, force_refuse=forced)
        except Exception:
            pass
    changed = []
    for name, content in (("Funcs.v", funcs_v), ("FuncsCheck.v", check_v)):
        if vlib.write_if_changed(os.path.join(vlib.COQ, "Gen", name), content):
            changed.append(name)
    with open(os.path.join(vlib.BUILD, "c2g_report.json"), "w") as f:
        json.dump(report, f, indent=1, sort_keys=True)
    return True, "", changed


def coq_rejects(coqdir, funcs_v, report):
    """test-compile a candidate Gen/Funcs.v in a scratch directory against the compiled tree.  Returns
    (function, message) when Coq reports an error located inside the candidate, None when it is accepted or when
    the test cannot be made (dependencies not compiled / out of date: the normal build will tell)."""
    import tempfile, shutil
    tmp = tempfile.mkdtemp(prefix="c2g")
    try:
        os.makedirs(os.path.join(tmp, "Gen"))
        f = os.path.join(tmp, "Gen", "Funcs.v")
        open(f, "w").write(funcs_v)
        p = subprocess.run(["timeout", "120", "coqc", "-Q", coqdir, "MiV", "-Q", tmp, "MiVc2g", f],
                           stdout=subprocess.PIPE, stderr=subprocess.STDOUT, text=True, errors="replace", cwd=tmp)
        if p.returncode == 0:
            return None
        m = re.search(r'File "[^"]*Funcs\.v", line (\d+), characters [^\n]*\nError:\s*((?:.|\n){0,300})', p.stdout)
        if not m or "inconsistent assumptions" in p.stdout or "Cannot find a physical path" in p.stdout or "Unable to locate library" in p.stdout:
            return None
        line = int(m.group(1))
        if line <= 12:
            return None            # the Require line: a dependency problem, not the generated text
        fn = None
        for l0, n in report.get("line_of", []):
            if l0 <= line:
                fn = n
        if fn is None or report["functions"].get(fn, {}).get("status") != "ok":
            return None
        return fn, " ".join(m.group(2).split())[:200]
    finally:
        shutil.rmtree(tmp, ignore_errors=True)


def load_report():
    import vlib
    try:
        return json.load(open(os.path.join(vlib.BUILD, "c2g_report.json")))
    except Exception:
        return None


if __name__ == "__main__":
    import vlib
    only = [a for a in sys.argv[1:] if not a.startswith("-")] or None
    f, c, rep = translate_all(vlib.REPO, only)
    if "--print" in sys.argv:
        print(f)
    for n, v in rep["functions"].items():
        print("%-34s %s" % (n, "ok" if v["status"] == "ok" else "REFUSED: " + v["reason"]))
