#!/usr/bin/env python3
"""Function-level correspondence of the API model (coq/Model/Api.v) -- properties C03 C04 C05 C06.

run(res, seed, tier) builds harness/f_api.c from the current /repo tree, runs it, checks the T records
(implementation-side oracle, concrete witnesses), replays the F records against the extracted Coq
model (ocaml mode "api") and reports through res.violation:
    corr:api:<fn>      model / implementation disagreement on function <fn>         (witness=None)
    impl:<kind>        an implementation-side check failed on a concrete input       (witness=<input>)
Returns a dict of statistics (record counts per kind, mismatches, samples)."""
import os, collections
import vlib
from vlib import log

MAXA = None          # MI_MAX_ALLOC_SIZE, read from coq/Gen/Consts.v
BLOCK_ALIGN_MAX = None
SIZE_MAX = (1 << 64) - 1
EINVAL, ENOMEM = 22, 12
MAX_REAL = 64 << 20

# entry point codes of harness/f_api.c (rec_request)
NAMES = ["mi_malloc", "mi_zalloc", "mi_calloc", "mi_mallocn", "mi_realloc", "mi_reallocn", "mi_reallocf", "mi_rezalloc",
         "mi_recalloc", "mi_malloc_aligned_at", "mi_zalloc_aligned_at", "mi_calloc_aligned_at", "mi_realloc_aligned_at",
         "mi_rezalloc_aligned_at", "mi_recalloc_aligned_at", "mi_realloc_aligned", "mi_rezalloc_aligned", "mi_posix_memalign",
         "mi_memalign", "mi_valloc", "mi_pvalloc", "mi_aligned_alloc", "mi_reallocarray", "mi_reallocarr"]
HAS_COUNT = {2, 3, 5, 8, 11, 14, 22, 23}
ALIGNED_ALLOC = {9, 10, 11, 17, 18, 21}
ALIGNED_REALLOC = {12, 13, 14, 15, 16}
CHAIN_Z = ["mi_rezalloc", "mi_recalloc(n,1)", "mi_recalloc(n/4,4)", "mi_heap_rezalloc", "mi_rezalloc_aligned", "mi_recalloc_aligned_at"]
CHAIN_P = ["mi_realloc", "mi_reallocn", "mi_reallocf", "mi_realloc_aligned", "mi_realloc_aligned_at", "mi_reallocarray"]
REALLOC_FN = ["mi_realloc", "mi_rezalloc", "mi_reallocn(p,1,n)", "mi_recalloc(p,1,n)", "mi_reallocf", "mi_reallocarray(p,n,1)", "mi_heap_realloc"]
ZKIND = ["mi_zalloc", "mi_calloc", "mi_zalloc_aligned", "mi_rezalloc(NULL)", "mi_heap_zalloc"]


def consts():
    global MAXA, BLOCK_ALIGN_MAX
    if MAXA is None:
        import re
        t = open(os.path.join(vlib.COQ, "Gen", "Consts.v")).read()
        MAXA = int(re.search(r'MI_MAX_ALLOC_SIZE : N := (\d+)', t).group(1))
        BLOCK_ALIGN_MAX = int(re.search(r'MI_BLOCK_ALIGNMENT_MAX : N := (\d+)', t).group(1))


def pow2(a):
    return a != 0 and (a & (a - 1)) == 0


def call_text(code, size, count, alignment, offset, p=None):
    n = NAMES[code]
    if code in (0, 1, 19, 20): return "%s(%d)" % (n, size)
    if code in (2, 3): return "%s(%d, %d)" % (n, count, size)
    if code in (4, 6, 7): return "%s(p, %d) with p = mi_malloc(40)" % (n, size)
    if code in (5, 8, 22): return "%s(p, %d, %d) with p = mi_malloc(40)" % (n, count, size)
    if code == 23: return "%s(&p, %d, %d) with p = mi_malloc(40)" % (n, count, size)
    if code in (9, 10): return "%s(%d, %d, %d)" % (n, size, alignment, offset)
    if code == 11: return "%s(%d, %d, %d, %d)" % (n, count, size, alignment, offset)
    if code in (12, 13): return "%s(p, %d, %d, %d)" % (n, size, alignment, offset)
    if code == 14: return "%s(p, %d, %d, %d, %d)" % (n, count, size, alignment, offset)
    if code in (15, 16): return "%s(p, %d, %d)" % (n, size, alignment)
    if code == 17: return "%s(&out, %d, %d)" % (n, alignment, size)
    return "%s(%d, %d)" % (n, alignment, size)


def expected(code, size, count, alignment, offset):
    """what the property demands of the request, independent of model and code:
    'fail' (malformed / oversized), 'ok' (well-formed and moderate), None (no demand)"""
    total = size
    if code in HAS_COUNT:
        if count * size > SIZE_MAX: return "fail"
        total = count * size
    if code == 20:
        if size >= SIZE_MAX - 4096: return "fail"
        total = (size + 4095) // 4096 * 4096
    if total > MAXA: return "fail"
    a = 4096 if code in (19, 20) else alignment
    if code in ALIGNED_ALLOC or code in ALIGNED_REALLOC:
        if code == 17 and alignment % 8 != 0: return "fail"
        if not pow2(a): return "fail"
        if a > BLOCK_ALIGN_MAX and code in (15, 16): return None      # offset = p mod alignment, not recorded
        if a > BLOCK_ALIGN_MAX and offset != 0: return "fail"
    if code in ALIGNED_ALLOC or code in ALIGNED_REALLOC or code in (19, 20):
        if total + a > MAX_REAL: return None          # the over-allocation may be refused: no demand
    if total > MAX_REAL: return None
    return "ok"


def oracle(tlines):
    """implementation-side checks; returns (list of (key, text, witness), counter of record kinds)"""
    consts()
    bad = []
    def fail(key, text, wit):
        if sum(1 for b in bad if b[0] == key) < 3:
            bad.append((key, text, wit))
    n = collections.Counter()
    for l in tlines:
        f = l.split()
        k = f[1]; n[k] += 1
        v = [int(x) for x in f[2:]]
        if k in ("malloc_null", "aligned_null", "chain_null"):
            fail("alloc-null", "a moderate allocation returned NULL in the harness: %s" % l, l)
        elif k == "realloc_res":
            fn, usable, ns, q, uq, same = v
            w = "p = mi_malloc(..) with usable size %d; %s -> new size %d" % (usable, REALLOC_FN[fn], ns)
            if q == 0: fail("realloc-null", "re-allocation to %d bytes returned NULL" % ns, w)
            elif uq < ns: fail("realloc-usable", "re-allocation to %d bytes returned a block of usable size %d" % (ns, uq), w)
        elif k == "expand":
            q, uq, e1, e2 = v
            if e1 != 1: fail("expand", "mi_expand(p, mi_usable_size(p)=%d) did not return p" % uq, "mi_expand(p,%d)" % uq)
            if e2 != 1: fail("expand", "mi_expand(p, mi_usable_size(p)+1=%d) did not return NULL" % (uq + 1), "mi_expand(p,%d)" % (uq + 1))
        elif k == "realloc_aligned_res":
            ns, a, off, q, uq, p = v
            w = "mi_re(z)alloc_aligned_at(p, %d, %d, %d)" % (ns, a, off)
            if q == 0: fail("realloc-null", "aligned re-allocation returned NULL", w)
            else:
                if a > 8 and (q + off) % a != 0: fail("realloc-align", "result %#x of %s is not aligned at the offset" % (q, w), w)
                if uq < ns: fail("realloc-usable", "result of %s has usable size %d" % (w, uq), w)
        elif k == "align":
            size, a, off, p, usable, zero, nz, e, ha = v
            w = "mi_%s_aligned_at(%d, %d, %d)" % ("zalloc" if zero else "malloc", size, a, off)
            if (p + off) % a != 0: fail("align", "%s returned %#x: (p+offset) mod alignment = %d" % (w, p, (p + off) % a), w)
            if usable < size: fail("usable", "%s: mi_usable_size = %d < size" % (w, usable), w)
            if nz != -1: fail("zero", "%s: byte %d of the block is not zero" % (w, nz), w)
            if e != 1: fail("expand", "%s: mi_expand(p, size) did not return p" % w, w)
        elif k == "fail":
            code, size, count, alignment, offset, sok, pok, err, rc, outw = v
            w = call_text(code, size, count, alignment, offset)
            if sok != 1: fail("fail-sentinel", "a live block was modified by the failing call %s" % w, w)
            if pok != 1: fail("fail-block", ("mi_reallocf did not free the block on failure: %s" % w) if code == 6 else
                              ("the block being re-allocated was modified, released or its pointer overwritten by the failing call %s" % w), w)
            exp = expected(code, size, count, alignment, offset)
            if exp == "ok":
                fail("wellformed-fails", "the well-formed moderate request %s failed" % w, w)
            if code == 22 and err != ENOMEM: fail("errno", "%s failed with errno %d (expected ENOMEM)" % (w, err), w)
            if code == 23 and (rc not in (ENOMEM, EINVAL) or err != rc): fail("errno", "%s returned %d with errno %d" % (w, rc, err), w)
            if code == 17:
                einval = (alignment % 8 != 0) or not pow2(alignment)
                if outw != 0: fail("posix-out", "%s failed with %d but wrote its out-parameter" % (w, rc), w)
                if einval and rc != EINVAL: fail("posix-code", "%s returned %d, expected EINVAL" % (w, rc), w)
                if not einval and rc != ENOMEM: fail("posix-code", "%s returned %d, expected ENOMEM" % (w, rc), w)
        elif k == "ok":
            code, total, alignment, offset, q, uq, p, err, rc = v
            w = "%s (total %d, alignment %d, offset %d)" % (NAMES[code], total, alignment, offset)
            if q != 0 and uq < total: fail("usable", "%s returned a block of usable size %d" % (w, uq), w)
            a = 4096 if code in (19, 20) else alignment
            if code in ALIGNED_ALLOC or code in (19, 20):
                if not pow2(a): fail("bad-alignment-accepted", "%s succeeded with an alignment that is not a power of two" % w, w)
                elif q != 0 and (q + offset) % a != 0: fail("align", "%s returned %#x, not aligned" % (w, q), w)
            if code in ALIGNED_REALLOC:
                if not pow2(a): fail("realloc-aligned-bad-alignment", "%s succeeded with an alignment that is zero or not a power of two" % w, w)
                elif a > 8 and code in (12, 13, 14) and q != 0 and (q + offset) % a != 0: fail("realloc-align", "%s returned %#x, not aligned at the offset" % (w, q), w)
            if total > MAXA: fail("oversize-accepted", "%s succeeded with a size above MI_MAX_ALLOC_SIZE" % w, w)
        elif k == "overflow":
            c, s, o, t, po, pt = v
            w = "mi_count_size_overflow(%d, %d)" % (c, s)
            if o != po: fail("overflow-flag", "%s reports overflow=%d, the product %s 2^64" % (w, o, "exceeds" if po else "is below"), w)
            elif not o and t != pt: fail("overflow-total", "%s total %d, product %d" % (w, t, pt), w)
        elif k == "pvalloc":
            s, p, u = v
            w = "mi_pvalloc(%d)" % s
            r = (s + 4095) // 4096 * 4096
            if p != 0:
                if p % 4096 != 0: fail("align", "%s returned %#x, not page aligned" % (w, p), w)
                if u < r: fail("usable", "%s: usable size %d below the size rounded up to a page (%d)" % (w, u, r), w)
                if s >= SIZE_MAX - 4096 or r > MAXA: fail("oversize-accepted", "%s succeeded" % w, w)
            elif s < SIZE_MAX - 4096 and r + 4096 <= MAX_REAL: fail("wellformed-fails", "%s failed" % w, w)
        elif k == "valloc":
            s, p, u = v
            if p % 4096 != 0 or u < s: fail("align", "mi_valloc(%d) returned %#x with usable size %d" % (s, p, u), "mi_valloc(%d)" % s)
        elif k == "zalloc":
            cid, kind, req, usable, nz = v
            if nz != -1: fail("zero", "%s(%d) on a dirty heap: byte %d of %d usable bytes is not zero" % (ZKIND[kind], req, nz, usable), "%s(%d) after dirtying and freeing blocks" % (ZKIND[kind], req))
        elif k == "zchain":
            cid, st, fn, req, ns, moved, bp, bz, uq, amod = v
            w = "chain %d step %d: %s from %d to %d bytes (%s) on a dirty heap" % (cid, st, CHAIN_Z[fn], req, ns, "moved" if moved else "in place")
            if bp != -1: fail("realloc-content", "%s: byte %d of the old contents changed" % (w, bp), w)
            if bz != -1: fail("rezalloc-zero", "%s: byte %d in the grown range [%d,%d) is not zero" % (w, bz, req, ns), w)
            if uq < ns: fail("realloc-usable", "%s: usable size %d" % (w, uq), w)
            if amod != 0: fail("realloc-align", "%s: result not aligned (address mod alignment = %d)" % (w, amod), w)
        elif k == "chain":
            cid, st, fn, req, ns, moved, bp, uq, amod = v
            w = "chain %d step %d: %s from %d to %d bytes (%s)" % (cid, st, CHAIN_P[fn], req, ns, "moved" if moved else "in place")
            if bp != -1: fail("realloc-content", "%s: byte %d of the first min(old,new) bytes changed" % (w, bp), w)
            if uq < ns: fail("realloc-usable", "%s: usable size %d" % (w, uq), w)
            if amod != 0: fail("realloc-align", "%s: result not aligned (address mod alignment = %d)" % (w, amod), w)
        elif k == "minalign":
            s, p, u = v
            if u < s: fail("usable", "allocation of %d bytes has usable size %d" % (s, u), "mi_malloc(%d)" % s)
            if p % (16 if s >= 16 else 8) != 0: fail("min-align", "allocation of %d bytes at %#x is not %d-aligned" % (s, p, 16 if s >= 16 else 8), "mi_malloc(%d)" % s)
        elif k == "bad_align_realloc":
            a, nonnull, q = v
            if nonnull: fail("realloc-aligned-bad-alignment", "mi_realloc_aligned(p, 100, %d) succeeds: alignments of at most sizeof(void*) are not validated "
                             "(mi_heap_realloc_zero_aligned_at delegates to the unaligned re-allocation first)" % a, "p = mi_malloc(20); mi_realloc_aligned(p, 100, %d)" % a)
        elif k == "sentinel":
            if v[0] != 1: fail("fail-sentinel", "the sentinel block was modified during the run", "f_api")
    return bad, n


def run(res, seed, tier):
    stats = {"F": {}, "T": {}, "records": 0, "mismatches": 0, "impl_failures": 0}
    consts()
    exe = os.path.join(vlib.BUILD, "f_api_%s_%d" % (res.pid, os.getpid()))
    ok, txt, cmd = vlib.cc(os.path.join(vlib.HARN, "f_api.c"), exe)
    if not ok:
        res.violation("harness-build", "harness/f_api.c no longer compiles against the current tree (a modelled function changed its interface): " + txt[-1500:])
        return stats
    rc, out, err = vlib.run_split([exe, str(seed), "1" if tier == "thorough" else "0"], timeout=(900 if tier == "thorough" else 300), env=vlib.clean_env())
    try: os.remove(exe)
    except OSError: pass
    lines = out.splitlines()
    if rc != 0 or not lines or lines[-1] != "END":
        last = [l for l in lines if l.startswith(("F ", "T "))][-1:] or ["(no record)"]
        res.violation("impl:crash", "f_api exited with status %d before finishing (last record: %s) %s" % (rc, last[0], err[-400:]),
                      witness="f_api %d %s ; last record %s" % (seed, "1" if tier == "thorough" else "0", last[0]))
        # the records printed before the crash are still checked (they usually name the cause)
        lines = [l for l in lines if l.count(" ") >= 2]
        if lines and not lines[-1].endswith(("0", "1", "2", "3", "4", "5", "6", "7", "8", "9")): lines.pop()
        if lines: lines.pop()          # the last line may be cut
    tl = [l for l in lines if l.startswith("T ")]
    fl = [l for l in lines if l.startswith("F ")]
    bad, tcount = oracle(tl)
    for key, text, wit in bad:
        # the unvalidated small alignment of the aligned re-allocation is a C06 clause
        if key == "realloc-aligned-bad-alignment" and res.pid != "C06":
            continue
        res.violation("impl:" + key, text, witness=wit)
    stats["impl_failures"] = len(bad)
    okb, txt = vlib.ocaml_build()
    mism = []
    if not okb:
        res.violation("model-build", "extracted model does not build: " + txt[-1200:])
    else:
        rc, mout = vlib.model_replay("api", "\n".join(fl) + "\n")
        mism = [l for l in mout.splitlines() if l.startswith("MISMATCH")]
        done = [l for l in mout.splitlines() if l.startswith("DONE")]
        if rc != 0 or not done:
            res.violation("model-run", "model replay (mode api) failed: " + mout[-800:])
        else:
            seen = set()
            for m in mism:
                fn = m.split()[2]
                if fn in seen: continue
                seen.add(fn)
                cnt = sum(1 for x in mism if x.split()[2] == fn)
                res.violation("corr:api:" + fn, "model/implementation disagreement on %s (%d records), e.g. %s" % (fn, cnt, m), witness=None)
    fcount = collections.Counter(l.split()[1] for l in fl)
    stats["F"] = dict(fcount); stats["T"] = dict(tcount)
    stats["records"] = len(fl) + len(tl); stats["mismatches"] = len(mism)
    stats["distinct"] = len(set(fl)) + len(set(tl))
    stats["samples"] = [fl[0], fl[len(fl) // 2], fl[-1], tl[0], tl[len(tl) // 2], tl[-2]] if fl and len(tl) > 1 else []
    stats["rule"] = ("F records: results of the real functions / entry points on a dirty heap compared with the extracted Coq model Api "
                     "(in-place decision of the realloc family, natural-alignment test, alignment adjustment, user pointer and usable size of aligned "
                     "blocks, accepted/refused over boundary argument tuples for 24 entry points, posix_memalign codes, overflow multiply, pvalloc rounding); "
                     "T records: implementation-side oracle (contents preserved and grown range zero along re-allocation chains on dirtied memory, "
                     "failing calls leave a sentinel and the block intact, alignment and usable size of results, error codes). distinct = distinct record lines")
    return stats


if __name__ == "__main__":
    a = vlib.std_args()
    r = vlib.Result(getattr(a, "pid", None) or "C06", a.tier, a.seed)
    s = run(r, a.seed, a.tier)
    log(s)
    for k, p, w, t in r.violations:
        log("VIOLATION %s %s %s" % (k, "witness" if w else "no-failing-input-found", t[:300]))
