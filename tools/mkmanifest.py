#!/usr/bin/env python3
"""writes MANIFEST.json from the table below (kept as code so that it always validates)"""
import json, os
V = os.path.dirname(os.path.dirname(os.path.abspath(__file__)))
CHECKS = {
 "C16": dict(
   text="Machine-checked proof (Coq 8.16.1): theorems over an executable Gallina model of mi_bin/_mi_bin_size/mi_good_size/mi_slice_bin8/"
        "mi_fast_divide/align/divide/unalign/pointer->segment->page arithmetic, for every 64-bit input (finite domains by complete vm_compute "
        "enumeration lifted with forallN_spec, the rest parametric). The model's tables and constants are regenerated from /repo on every run "
        "and the model's functions are compared with the compiled functions of /repo/src/static.c on ~10^6 inputs (exhaustive for sizes "
        "0..2*MI_MEDIUM_OBJ_SIZE_MAX, all bins, all slice counts). In addition 35 small pure functions (mi_bin, _mi_bin_size, mi_good_size, "
        "_mi_align_up/down, _mi_divide_up, mi_slice_bin(8), mi_fast_divide, _mi_page_ptr_unalign, _mi_ptr_segment, the bitmap index helpers, "
        "arena id helpers ...) are TRANSLATED from /repo's source to Gallina on every run (tools/c2gallina.py over clang's AST -> Gen/Funcs.v) "
        "and Coq proves each translated function equal to the hand model on the whole 64-bit range, free of undefined C operations on its "
        "domain, and the C16 laws directly about the translated functions (Properties/C16gen.v).",
   note="Trusted: Coq kernel+vm_compute, the translators harness/gen_dump.c and tools/c2gallina.py (clang AST, Model/CSem.v; validated on every run "
        "by replaying the extracted generated functions against the gcc-compiled functions), extraction (ExtrOcamlBasic) and the OCaml/C drivers; "
        "for the functions that are not translated (struct-pointer arithmetic: _mi_segment_page_of, _mi_segment_page_start_from_slice) the tie is "
        "differential (exact on the finite domains, sampled beyond). Interior-pointer lookup is claimed for offsets up to "
        "MI_BLOCK_ALIGNMENT_MAX into a block (the largest the aligned entry points produce).",
   technique="Coq proof over Gallina model + source-to-Gallina translator with equivalence proofs + regenerated tables + exhaustive model/implementation differential",
   design="3/C16"),
 "C12": dict(
   text="Machine-checked proof (Coq): for every reachable state of the page model (induction over all operation sequences: malloc, local free, "
        "remote free, collect, extend) the heap walk of _mi_heap_area_visit_blocks -- forced collect, single-block / full-page shortcuts, free-bitmap "
        "with the fast division -- visits exactly the live blocks, each once, in address order, and the count equals `used` (page_visit_exactly_live, "
        "page_visit_count, page_collect_force_complete, page_live_count, fast_divide_correct). Tie: API traces on the real allocator; at every walk "
        "the visited (address,size) multiset is checked against a shadow table of live blocks and, per page, the visited indices against the model's "
        "page_visit_blocks on the page state dumped before the walk; page dumps are checked against page_inv_b and the model's transition relation. "
        "HEAP LAYER (Properties/C12walk.v over Model/Walk.v): mi_heap_visit_blocks with the visitor as an argument (any state machine): the nested loops "
        "are the flat call sequence cut at the first refusal; `returning false stops the walk` (calls = prefix up to and including the refused call, "
        "nothing after it), result true => nothing skipped, accepting visitor => per page the area record and exactly the live blocks, area.used = "
        "number of live blocks without pending remote frees. Tie: harness/t_walk.c runs the real walk with a visitor refusing its k-th call on seeded "
        "heaps (full pages, holes, pending/drained remote frees, huge pages, empty heaps); ocaml mode walk demands the same call list and result from "
        "the extracted walk_stop_at on the pages dumped before the walk.",
   note="Trusted: Coq kernel, extraction, OCaml/C drivers, trace generator. Page-level theorem; that mi_heap_visit_pages reaches every page queue "
        "(incl. the full queue) exactly once is checked by the shadow oracle, not proved. mi_abandoned_visit_blocks is not covered by this check "
        "(needs MI_VISIT_ABANDONED; see C09). Single-threaded histories (no pending cross-thread frees, as the property assumes).",
   technique="Coq proof over page model (invariant by induction) and heap-walk model with the visitor as an argument + API-trace and walk-call-list differential with shadow oracle",
   design="3/C12"),
 "C01": dict(
   text="Machine-checked proof (Coq) of the layer theorems under the property: the page invariant (three free lists duplicate-free, disjoint, inside "
        "capacity, used+|free|+|local_free| = capacity) holds in every reachable page state (induction over all sequences of malloc/free/remote "
        "free/collect/extend); allocation returns a block that is not live and changes no other block's status (page_pop_fresh, frame lemmas, "
        "page_no_double_handout); blocks of a page occupy pairwise disjoint ranges inside the page area; plus the address arithmetic of C16. "
        "Tie: API traces over every entry point on the real allocator with a shadow table (no overlap with any live block, whole usable range "
        "writable, byte pattern of every live block intact, zero-size unique) and every touched page dumped and checked against page_inv_b and the "
        "model's transition relation. COMPOSITION (Properties/C01compose.v over Model/Compose.v: segments at base addresses, each with its slice "
        "array, one page state per span in use, a ghost table of live blocks): the composite invariant is preserved by every operation; in every "
        "reachable state live blocks are pairwise disjoint and lie inside their page area, span and segment; the pointer resolution of mi_free "
        "finds exactly the block an address lies in; every operation commutes with the abstraction to the map of live blocks "
        "(C01_refines_map, also for whole histories); the block malloc returns satisfies the API layer's answer contract, which discharges the "
        "hypothesis answer_ok of the C03-C06 theorems. Tie of the composition: full-state dumps (all slice arrays, pages, shadow table) of the real "
        "allocator on which the extracted mem_inv_b and abs are evaluated and compared with the harness's table of live blocks.",
   note="Trusted: Coq kernel, extraction, OCaml/C drivers, trace generator. MMU behaviour (accessibility) is observed, not modelled; block CONTENTS "
        "are not in the composite model (kept per block in the API model, observed by the byte-pattern oracle). The composite tie is snapshot-based "
        "(invariant and abstraction on real states); transitions are replayed exactly per layer (page, span). Single-threaded histories (the "
        "concurrent case is C02); arenas / commit are C07, C11, C14.",
   technique="Coq proof (inductive invariants of the page, span and composite models, refinement to the map of live blocks) + API-trace differential with shadow oracle + exact per-layer replay + full-state dumps",
   design="3/C01"),
 "C19": dict(
   text="Machine-checked proof (Coq 8.16.1) over a symbol table regenerated on every run from the shared library built from /repo's working tree "
        "(nm -D + gcc -E of src/alloc.c): every C and C++ allocation entry point of Linux/glibc x86-64 (44 required names incl. all operator "
        "new/delete forms and the __libc_* hooks) is exported, resolves to a mi_ function of its class and documented failure convention, receives "
        "its arguments in the right positions, and all targets are defined in the one library (override_ok table = true by computation, with its "
        "Prop unfolding). cross_entry_point_ok: for every (allocating, releasing/resizing/querying) entry-point pair a block from the first is "
        "accepted by the second, under hypothesis H (one allocator instance whose consuming mi_ functions accept blocks of its allocating ones -- "
        "C01/C03/C05). Implementation side: C and C++17 programs without mimalloc headers, LD_PRELOADed and statically overridden, check heap-region "
        "membership, usable size, alignment, zero fill, documented return values/errno and all 378 cross pairs.",
   note="Trusted: Coq kernel+vm_compute; tools/gen_override.py (regex over preprocessed source, fails loudly) and nm; dynamic/static linker resolution "
        "order (observed via dladdr, not proved); semantics of the mi_ targets (hypothesis H). Throwing operator new aborts and never calls the "
        "new_handler in the C build of the library (observed, documented upstream).",
   technique="Coq decision procedure over a regenerated finite table + conditional cross-pair theorem + preload/static differential harness",
   design="3/C19"),
 "C05": dict(
   text="Machine-checked proof (Coq): over the API-level model of _mi_heap_realloc_zero / mi_expand / reallocf / mi_heap_realloc_zero_aligned_at on an "
        "abstract map of live blocks, for all states satisfying the representation invariant, all 64-bit sizes and all lower-layer answers satisfying "
        "the contract (fresh, disjoint, usable>=size): prefix min(old usable,new) preserved, result usable>=new, old block released iff a different "
        "pointer is returned with no other entry changed, NULL input = allocation, size 0 yields a valid block, failure returns NULL with the state "
        "unchanged (reallocf frees), expand never moves and succeeds iff n<=usable, exact in-place rule (plain and aligned). Tie: function-level "
        "records of the real entry points (in-place decisions, chains on a dirty heap) replayed against the model, plus API traces with the "
        "shadow oracle (prefix, old block intact after failure, expand).",
   note="The page/segment layers are an oracle constrained by answer_ok (what C01/C03 provide); release configuration (MI_PADDING=0: with padding "
        "mi_expand returns NULL by design). Differential tie is sampled (about 8.6k records quick, 62k thorough, plus ~30 traces).",
   technique="Coq proof over API-level Gallina model with oracle-quantified lower layers + function-level differential + shadow-oracle traces",
   design="3/C05"),
 "C04": dict(
   text="Machine-checked proof (Coq): zeroing allocations (all entry points, any initial bytes of the underlying block) return blocks that are zero over "
        "the whole usable size; the invariant 'bytes [requested,usable) of a zero-family block are zero' holds initially and is preserved by every "
        "entry point and by program stores inside the requested size; by induction over arbitrary monotone growth chains (rezalloc/recalloc/aligned "
        "variants, in place or moved, interleaved stores and arbitrary other calls) every byte from the previous requested size on is zero after each "
        "step. The pre-repair code is shown to violate it (C04_ex_old_code_nonzero); the defect was repaired in /repo (fix: commit). ZERO KNOWLEDGE "
        "(Properties/C04zero.v over Model/Zero.v: free_is_zero, is_zero_init, memid.initially_zero, blocks_dirty, commit-returns-zero with a ghost "
        "memory): every knowledge flag that is set is true of the ghost memory in every reachable state for all operation sequences and oracles "
        "(C04_know_implies_zero), a zeroing allocation returns really-zero memory on both branches (flag set / memzero), freed and written memory "
        "is dirty and never trusted again; the seeded variant that sets is_zero_init on span re-use is refuted by vm_compute. Tie: dirty-heap "
        "traces on the real allocator reading back every zero-initialised block and every grown range byte by byte; and harness/f_zero.c, which "
        "dumps the real flags next to a scan of the real memory (arena layer call by call, one page function by function in exact lockstep, the "
        "public API) -- a set flag over non-zero memory is impl:zero-flag-wrong, a flag the model does not predict is corr:zero.",
   note="In this tree is_zero_init is only ever assigned false and the unix commit primitive reports 'not zero', so free_is_zero is never true "
        "(proved: C04_page_flags_constant_false; modelled anyway so that a change which sets a flag breaks the correspondence). The ghost is "
        "block / slice / arena-block granular; byte-level statements are those of the API model; there is no refinement theorem between the two. "
        "Shrinking in between ends a chain (the property quantifies over monotone growth chains).",
   technique="Coq invariants (zero family over the API model; know_implies_zero over the zero-knowledge model) + induction over growth chains + dirty-heap chain oracle + flag/memory-scan differential",
   design="3/C04"),
 "C06": dict(
   text="Machine-checked proof (Coq): mul_overflow/count_size_overflow exact for all 64-bit operands; for every entry point of the API model: oversize "
        "=> NULL and state unchanged, count*size overflow => NULL, bad alignment => NULL for the allocation entry points, huge alignment with offset "
        "=> NULL, posix_memalign codes and out-parameter, pvalloc overflow and rounding, reallocarray/reallocarr errno; every failing call leaves all "
        "live blocks and bytes unchanged; well-formed requests succeed whenever the lower layers grant memory. Tie: boundary tuples around SIZE_MAX, "
        "PTRDIFF_MAX, MI_MAX_ALLOC_SIZE, SIZE_MAX/size on the real entry points against the model, malformed-stream traces with the shadow oracle.",
   note="bad-alignment clause is PARTIAL: refuted for the aligned re-allocation family (known finding impl:realloc-aligned-bad-alignment, theorem "
        "C06_bad_alignment_fails_full_refuted). Failure-freedom of the OS/page layers themselves is C07.",
   technique="Coq total-function specs over the API model + boundary-tuple differential + sentinel/shadow oracle",
   design="3/C06"),
 "C03": dict(
   text="Machine-checked proof (Coq): over-allocation arithmetic for all size, 2^k<=MI_BLOCK_ALIGNMENT_MAX, offset and block start (aligned at "
        "offset, adjust<alignment, fits, ptr_unalign recovers the block); soundness of mi_malloc_is_naturally_aligned composed with the page-start "
        "geometry (page_start_block_aligned, page_start_aligned16: the fallback is never taken); every reachable size class is 8 or a multiple of 16 "
        "=> 8/16-byte minimal alignment; interior pointers: usable = usable-adjust >= size, accepted by expand/free/realloc in the model; aligned "
        "realloc keeps (q+offset) mod a = 0 with the exact aligned in-place rule. Tie: aligned grid (size x 2^k, k=0..26, x offset) on a dirty heap "
        "with alignment/usable/content oracles, function-level records of the alignment decisions against the model.",
   note="Placement for alignments above MI_BLOCK_ALIGNMENT_MAX (huge_aligned) and the has_aligned flag invariant are hypotheses of the API model "
        "(segment/page layers); they are exercised by the traces (alignments up to 64 MiB) and the span-layer theorems where present.",
   technique="Coq proof over API-level model + address-arithmetic lemmas + aligned-grid traces with shadow oracle",
   design="3/C03"),
 "C17": dict(
   text="Machine-checked proof (Coq) on a byte-level model of one hardened page (Secure.v), for all keys/sizes/values/histories: encode/decode is "
        "invertible on 64-bit words; a second free of a listed block gives exactly EAGAIN with the state unchanged; no false double-free report for "
        "any content of a live block; malloc's padding is checked and one byte different from the expected byte (0xDE for delta>0, 0x00 for delta=0) "
        "gives EFAULT while an untouched block gives none; a forged link that decodes neither to NULL nor into the page area gives EFAULT and the "
        "list is cut there; a weak invariant survives every allowed operation and attack, so no held block is handed out again and every returned "
        "block is inside the area; the thread-free collect walk is bounded by capacity+1 on any memory. Tie: exact replay of page-level episodes of "
        "the MI_SECURE=4 and MI_DEBUG=1 builds (error codes, lists, bytes), API-level attack episodes with a shadow table.",
   note="One-page sequential model; the strong invariant is evaluated on dumped real pages, only the weak one is proved inductive. Excluded by the "
        "property text or the model: links decoding into the area, a second free of a block whose own link was forged (a real hang exists, "
        "documented), huge pages, debug assertions after an error. The debug build runs detection clauses only.",
   technique="Coq proof over an executable byte-level page model + extraction-based differential replay (two hardened builds) + attack oracle",
   design="3/C17"),
 "C14": dict(
   text="Machine-checked proof (Coq 8.16.1) over an executable model of src/bitmap.c as used for arena blocks_inuse. (1) Interleaving: one transition "
        "per atomic access of _mi_bitmap_try_find_from_claim_across (single-field CAS loop, scan-ahead, initial/intermediate/final CAS, three rollback "
        "shapes, retries), _mi_bitmap_unclaim_across and the purger's try_claim/unclaim; for any number of threads, programs and schedules the bitmap "
        "is the disjoint union of pre-claimed bits, completed claims and partial claims (reachable s -> Inv s); completed claims are disjoint and in "
        "range; a failed claim leaves nothing; purger claims are exclusive; all freed => initial bitmap. (2) Sequential: success sets exactly count "
        "previously-zero bits in range, failure changes nothing, unclaim restores, unit claims fill any bitmap / a fresh arena exactly, claims of <=2 "
        "bits are complete within a field. The clause 'can be allocated completely again' is proved for requests of <=2 blocks and REFUTED for "
        "multi-block requests (known finding multiblock-top-bit, witness replayed on the real arena).",
   note="Trusted: Coq kernel + vm_compute, extraction, harness and drivers. The model is tied to the code by about 8*10^4 bit-exact function records per "
        "run, by multi-threaded implementation oracles (pthread stress on the raw functions with a shadow owner map; real arenas of 40..130 blocks) and by "
        "schedule-lockstep replay: harness/s_arena.c runs the real bitmap.c / arena.c in virtual threads under the deterministic scheduler (every atomic "
        "operation a scheduling point) and the extracted machine must take exactly every logged access to the bitmap (same field, old and new value, "
        "outcome), inv_b after every step; sampled schedules only; purge operations inside _mi_arena_free/_mi_arenas_collect are matched up to their "
        "(unobservable) arguments. Sequentially consistent interleaving; counts < 2^64-64; a claim is freed at most once.",
   technique="Coq invariant proof of a small-step interleaving model + sequential specs + differential, multi-threaded and deterministic-scheduler oracles + schedule-lockstep replay",
   design="3/C14"),
 "C20": dict(
   text="Machine-checked proof (Coq 8.16.1) over an executable Gallina model of _mi_strlcpy/_mi_strlcat/_mi_strnicmp/_mi_getenv (environ variant), the "
        "value decision of mi_option_init (boolean words, ISO strtol base 10, KiB/MiB/GiB/TiB suffixes, saturation, malformed <-> default kept, as an "
        "iff against a declarative grammar), mi_option_set/get/set_default, _mi_vsnprintf with all directives, mi_out_buf(_flush), mi_buffered_out "
        "and mi_heap_buf_print. Destination buffers are explicit with an out-of-bounds fault flag; theorems hold for all sources, all buffer sizes, "
        "all formats and arguments. The complete MIMALLOC_<NAME> -> mi_option_get path is evaluated inside Coq for every option of the table "
        "regenerated from /repo. Model and code are compared byte for byte on ~1.3e5 (quick) / ~8e5 (thorough) records under PROT_NONE guard pages, "
        "and the implementation is judged against an independent oracle of the documented grammar.",
   note="Proved per function; the composition of mi_option_init's name construction/legacy fallback and of mi_stats_get_json / mi_stats_print / "
        "mi_options_print as wholes is computed for the concrete table resp. tested under guard pages (json: caller sizes 0..300 plus large ones). "
        "vsnprintf's no-fault theorem assumes field widths do not wrap the address space (the 97 formats in the tree have width <= 24). Known "
        "finding impl:long-value-truncated (values > 64 bytes): theorems long_value_truncated + long_value_refuted. libc strtol is modelled from "
        "ISO C and compared with glibc on every generated value.",
   technique="Coq proof over Gallina model with explicit bounded buffers + regenerated option table + guard-page differential + independent grammar oracle",
   design="3/C20"),
 "C10": dict(
   text="Machine-checked proof (Coq). Sequential: over a model of the thread's heaps, their 75 page queues, page->heap pointers, default/backing heap "
        "and descriptors, invariant A.2 is inductive for every operation and history; mi_heap_delete of a compatible heap keeps the live-block "
        "multiset except the descriptor and re-attributes exactly that heap's blocks to the backing heap, each still freeable; mi_heap_destroy removes "
        "exactly the heap's blocks and descriptor with an exact frame for all other pages and heaps; contains_block / check_owned agree and equal a "
        "ghost home heap; the default falls back to the backing heap; descriptors are live backing-heap blocks; the page walk reaches every queue "
        "incl. FULL once. Concurrent (C10conc, on the cross-thread free interleaving model): no thread ever pushes on, or reads the keys of, a heap "
        "that has been freed while mi_heap_delete runs concurrently with remote frees. Tie: API traces with several heaps (shadow attribution, "
        "content, overlap, default fallback), exact replay of the dumped page queues around every delete/destroy against the model, and the "
        "scheduler harness (mode heap: mi_heap_delete / mi_heap_collect while other virtual threads free into the heap).",
   note="Deleting a heap that is incompatible with the backing heap (arena-bound) is modelled as the code does it (pages become heap-less); "
        "freeability there is REFUTED (C10_delete_incompatible_refuted; known finding impl:heap-delete-incompatible, corpus/C10). Second known finding "
        "impl:destroy-frees-adopted: a destroyable heap adopts abandoned pages of terminated threads and mi_heap_destroy frees their live blocks "
        "(the sequential heap model has no adoption; corpus/C10). Block contents and "
        "segments are other layers. The concurrent theorems are about the model of Model/TFree.v; its tie to the code is the scheduler harness "
        "oracle and a schedule-lockstep replay (mode lockheap: every atomic access of mi_heap_new / mi_heap_delete / mi_heap_collect and of the "
        "concurrent remote frees must be a step of the model); mi_heap_destroy and the backing-heap delete at thread exit are not in that program.",
   technique="Coq inductive invariants (heap queues; interleaving model) + exact queue-dump replay + shadow-oracle traces + deterministic scheduler + schedule-lockstep",
   design="3/C10"),
 "C15": dict(
   text="Machine-checked proof (Coq): the suitability invariant (every page of a heap lies in a segment whose memid is suitable for the heap's arena; "
        "arena segments lie inside the arena area) is preserved by every hand-out path (span reuse, fresh segment, reclaim-on-free, try_reclaim, "
        "reclaim_all, collect, thread exit, heap delete): for EVERY step and every heap tag under the single hypothesis that the heap adopting "
        "in that step is tag-safe (C15_bound_inv_preserved_adopter_partial; at full strength for the 13 non-adopting operations), and that "
        "hypothesis cannot be weakened (C15_tag_safe_is_necessary): the gap to the full statement is exactly the known finding "
        "impl:reclaim-by-tag-exclusive. Corollaries bound_heap_inside_arena, no_os_fallback_for_bound_heap, exclusive_stays_private, "
        "managed_region_bounds for all start/size; history versions. The pre-repair reclaim_all is shown to break privacy (Example). Tie: exact "
        "function records of mi_manage_os_memory_ex2 arithmetic and the suitability functions; an address oracle on seeded real histories with "
        "exclusive/shared arenas over misaligned regions, bound and unbound heaps, arena exhaustion, pthread exit, collects, reclaim-on-free; and "
        "an OP-LEVEL TRACE TIE: after every API call of PRNG histories (several arenas, bound/tagged/destroyable heaps, worker threads that exit "
        "with live blocks, cross-thread and abandoned frees, collects, heap delete/destroy) the real state is dumped (per segment memid, owner, "
        "pages with heap and tag, free spans; per thread the heap list), the model's invariant is evaluated on it and the transition must be "
        "explained by operations of Model/Bind.v with choices reconstructed from the dumps.",
   note="Sequential model (one thread inside the allocator at a time in the trace tie); choices are existential; arena claim and span-queue order "
        "are oracles; claims inside bitmap fields rely on C14; blocks > 64 MiB from bound heaps return NULL (C14 finding).",
   technique="Coq invariant by induction over operations + exact function differential + op-level trace tie (dump/abstraction/explained transition) + address oracle on seeded real histories with thread exit",
   design="3/C15"),
 "C09": dict(
   text="Machine-checked proof (Coq) on an interleaving model of abandonment/adoption (one transition per atomic access; unbounded threads, segments, "
        "steps): the invariant is inductive; at most one thread owns or visits a segment (owned xor marked abandoned xor in exactly one visitor's "
        "hand); adoption only within the sub-process; pages of abandoned segments are NEVER_DELAYED_FREE so remote frees go to the page list; "
        "abandon/reclaim never write block memory; along every trace a segment is adopted once between two abandonments and the adopter holds "
        "it afterwards; abandoned_count equals the marked segments plus the corrections in flight in every reachable state and is exact at "
        "quiescence; a forced collect run from a reachable quiescent state (any visit order, the sub-process's OS-list count) frees every dead "
        "abandoned segment of the sub-process and keeps every live one (C09_collect_frees_dead_abandoned(_gen)), and no abandoned segment is "
        "ever orphaned (C09_no_orphan_quiescent, C09_dead_abandoned_released). Tie: (1) the scheduler harness runs the real allocator in virtual "
        "threads that terminate through mi_thread_done with live blocks (reclaim-on-free on/off, arena and OS-list segments, force-abandon, two "
        "bitmap fields); survivors verify the byte patterns and free them; at quiescence no abandoned segment, no block and no claimed arena block "
        "may remain; (2) schedule-lockstep: every hooked access to thread_id, the abandoned bit, abandoned_count and the OS-list locks must be a "
        "transition of the model (inv_b after every step); (3) every ordering of thread terminations (real pthread exit) and frees/adoptions for "
        "3 workers in four configurations (harness/t_exitorder.c).",
   note="Per-page state of an abandoned segment is re-synchronised from the real pages in the lockstep, not followed step by step; the arena "
        "visit lock and os_list_count are logged but not modelled; which segment a cursor examines is an oracle argument of the model (an omitted "
        "visit is found by the leak oracles, not by the lockstep).",
   technique="Coq inductive invariant and trace theorems on a small-step model + schedule-lockstep + deterministic-scheduler oracles + exhaustive exit/adoption orders on the real code",
   design="3/C09"),
 "C18": dict(
   text="Machine-checked proof (Coq 8.16.1) over executable Gallina models of mi_segment_commit_mask / schedule_purge / try_purge / purge, "
        "_mi_os_purge_ex and the arena purge scheduler (mi_arena_schedule_purge / try_purge, mi_arenas_try_purge as repaired by two fix: commits) with "
        "time as an input: nothing is purged before purge_expire, exactly the runs of the purge mask are purged at/after it by a non-forced call, delay "
        "0 purges at once, delay<0 never issues a system call, expired arenas are purged by non-forced passes and the global/per-arena expiry fields "
        "stay consistent for every history (C18_expiry_fields_consistent). Tie: function-level differential on the real static functions under an OS "
        "shim + virtual clock (~54k records quick / 517k thorough: masks, bitmaps, expiry fields, system calls and page states equal) and API "
        "workloads for purge_delay in {-1,0,5,10} x purge_decommits in {0,1}, with the two histories of the repaired defect as regression scenarios.",
   note="The exact madvise calls of an arena visit (C18_arena_try_purge_calls: page-aligned, non-wrapping start as mi_manage_os_memory_ex2 "
        "establishes) and eventual purging over repeated non-forced passes (C18_arena_eventually_purged, for clock values >= 0) are theorems; the "
        "unrestricted statements are refuted by vm_compute witnesses that no real arena / clock can produce. Sequential arena execution; release build (decommit = madvise only). The 'ordinary "
        "activity' that purges inside a segment is a page free (an allocation re-using scheduled slices postpones the expiry by design).",
   technique="Coq proof over Gallina models with time as input + OS/clock shim differential + virtual-time workloads",
   design="3/C18"),
 "C11": dict(
   text="Machine-checked proof (Coq): _mi_os_free_ex is the inverse of _mi_os_alloc/_mi_os_alloc_aligned(/_at_offset) on a ghost kernel for all sizes, "
        "alignments and all kernel address choices incl. the over-allocate-and-trim path (after the repair of the never-unmapping defect), "
        "_mi_thread_data_collect frees every cached block, and a forced arena collect leaves no scheduled free block. WHOLE WORKLOAD "
        "(Properties/C11back.v over the commit model Model/Commit.v): after ANY history from the initial state, under any failure oracle, if no "
        "page is live and no raw arena allocation is held then no segment is left, every arena in-use bit is clear, every block can be claimed "
        "again and (when the munmaps were granted) no memory outside the arena is accessible; the class of such states contains the initial "
        "state and is closed under every workload that ends all-freed (workload fixpoint: same segment/page lists, geometry, in-use bitmap and "
        "outside accessibility; committed/dirty/purge bookkeeping only bounded); after the forced collect no claimable block stays scheduled. "
        "Tie: OS round trips under the shim (ledger before/after identical, system calls = model); whole-API workloads repeated 4-6 times in five "
        "arena configurations (no growth of mapped/committed bytes, nothing left outside arenas, thread-data cache empty, thread metadata under "
        "refused mmaps); and the commit-model lockstep extended by a drain (free everything + mi_collect(true)) at the end of every run, where the "
        "conclusion is evaluated on the synchronised model state and checked on the real allocator (no segment owned, blocks_inuse clear, nothing "
        "scheduled, no page, ledger back to the start).",
   note="munmap refusals are excluded by hypothesis (C07); the at_offset theorem needs size, alignment < 2^62; RSS itself is kernel behaviour (the "
        "ledger follows the system calls); 'no longer committed' is proved as 'nothing stays scheduled for a purge' plus a decommit example; thread "
        "exit, several arenas and allocations above 64 MiB are outside the commit model (workloads only). Known finding huge-alloc-reserves-arena "
        "(allocations > 64 MiB reserve a fresh arena each).",
   technique="Coq proof over ghost-kernel and commit models (inverse laws, give-back invariant, workload fixpoint) + shim ledger differential + exact lockstep with drain + repetition workloads",
   design="3/C11"),
 "C13": dict(
   text="Machine-checked proof (Coq) of the commit/purge clauses: conservative rounding stays inside and liberal rounding covers the range (segment "
        "commit masks and OS page alignment), purge_mask is a subset of commit_mask under commit / ensure_committed / purge / schedule_purge / "
        "try_purge, ensure_committed clears pending purge bits and leaves the range accessible, purges only touch scheduled slices and arena blocks "
        "that are not in use. The theorems of C01-C05/C12 do not depend on any option (their models take none), so they hold under every setting. "
        "Tie: the C01-C05/C12 oracles re-run on API traces under a pairwise covering set of option settings (purge delay off/immediate/delayed with "
        "a virtual clock advanced inside the traces, decommit or reset, eager/lazy commit, arena on/off/small, reclaim-on-free, segment target), "
        "half of them on a -DMI_SECURE=1 build in which decommit revokes access so that any access to decommitted memory faults.",
   note="'The allocator never reads or writes memory it has decommitted' is proved at mask level (live spans are committed, purge bits never "
        "cover them; the commit mask stays sound under purge, try_purge and schedule_purge also when decommit revokes access: "
        "C13_mask_sound_purge / _try_purge / _schedule_purge) and otherwise observed through faults in the access-revoking build. 'Every option "
        "setting' is a pairwise covering set on the implementation side.",
   technique="Coq proof over commit-mask/purge models + option-matrix traces with shadow oracles + access-revoking build",
   design="3/C13"),
 "C02": dict(
   text="Machine-checked proof (Coq) over an interleaving model of the cross-thread free protocol (Model/TFree.v: one transition per atomic access of "
        "mi_free_block_delayed_mt, _mi_page_thread_free_collect, _mi_page_try_use_delayed_free, _mi_heap_delayed_free_partial, heap collect/delete; "
        "weak-CAS spurious failure is a transition; any number of remote threads and steps): an inductive invariant gives that every block is in "
        "exactly one place (held by a thread, a page list, the page thread list, a heap delayed list, a pending list, in flight), the Error state "
        "(a non-atomic access by a thread that does not hold the block / own the page) is unreachable, `used` counts exactly, DELAYED_FREEING is "
        "exclusive, and malloc only returns blocks nobody holds (C02_no_double_handout). Tie: (S) schedule-lockstep -- the real allocator runs in "
        "virtual threads under a deterministic scheduler (every atomic operation a scheduling point, spurious CAS failures) and every logged atomic "
        "access must be a transition of the extracted model with the same abstract old/new value, inv_b evaluated on the synchronised states; plus "
        "implementation oracles under the scheduler (no overlap with held blocks, byte patterns intact, no crash/livelock).",
   note="Interleavings are sequentially consistent per atomic location; C11 release/acquire visibility of block->next is not modelled. Huge-page remote "
        "free is outside the lockstep program. The boolean checker inv_b <-> Prop invariant equivalence is an open statement no theorem depends on.",
   technique="Coq inductive invariant over a small-step interleaving model + schedule-lockstep replay of the real code + deterministic-scheduler oracles",
   design="3/C02"),
 "C08": dict(
   text="Machine-checked proof (Coq, same interleaving model as C02): flag NO_DELAYED_FREE implies a block of that page is on its heap's delayed or "
        "pending list or a thread is inside the DELAYED_FREEING window (the invariant documented in types.h); a non-empty page thread list under "
        "USE_DELAYED_FREE implies such a block exists (tflist_nonempty_flag, corrected form); from every reachable quiescent state the owner's "
        "delayed_free_all + forced page collect yields empty thread lists, used = live and frees every page without live blocks "
        "(quiescent_collect_complete, all_freed_no_pages); processing a delayed block of a full page returns it to its size queue. Tie: lockstep "
        "as in C02, and the scheduler harness scenario in which all blocks are freed by whichever thread gets there first, every owner collects "
        "and its heap must hold no pages; livelock = step budget exhausted. Progress: remote_free_noticed (at quiescence a page with a non-empty "
        "thread-free list has one of its blocks on the delayed list of its own live heap) and full_page_unfulled_by_drain (the owner's next "
        "delayed-free drain terminates and leaves every such page out of the full queue with an empty thread list). Bounded memory on the real "
        "code: producer/consumer schedules (mode prodcons) with a bounded number of live blocks must keep the owner's unreclaimed blocks and page "
        "count below a bound derived from the live bound and the drain period (oracle `unbounded`).",
   note="'Bounded memory' is established structurally in the model (nothing stays behind at quiescence; a noticed remote free un-fulls its page at "
        "the next drain, which the owner starts at least every 100th generic allocation) and observed on the implementation by the `unbounded` "
        "oracle under the deterministic scheduler; the numeric bound itself is a test, not a theorem.",
   technique="Coq inductive invariant + quiescence and progress theorems over the interleaving model + schedule-lockstep + deterministic-scheduler quiescence and boundedness oracles",
   design="3/C08"),
 "C07": dict(
   text="Machine-checked proof (Coq 8.16.1) over an executable slice-granular model of the commit bookkeeping (arena blocks_inuse/committed/purge, "
        "segment commit_mask/purge_mask, spans of live pages, ghost kernel; every mprotect answered by a failure oracle, every search/clock/address/"
        "mmap/munmap decision an argument): for every operation sequence and every pattern of refusals commit_Inv holds -- the arena committed bit "
        "and the commit_mask bit imply accessible; live pages are committed, unpurged, disjoint and accessible; a page handed out is accessible "
        "until freed; a failing call keeps the live pages; the restore path is taken only on a refused commit; purge and collect never touch a live "
        "slice; granted requests make the next allocation succeed. The two pre-repair behaviours (two fix: commits in /repo) are shown unsound by "
        "computation. Tie: exact lockstep of the extracted model with the real allocator under the OS shim (arena bits, segment masks, ledger "
        "accessibility after every call, release and protecting-decommit builds), plus fault enumeration on the real allocator: for several "
        "workloads and option settings every position k of the OS-call sequence is failed once and persistently, with the shadow oracles (no "
        "crash, contents, overlap, accessibility of what is handed out) running throughout and recovery checked after the failures stop.",
   note="One arena; the model's direct-OS segments are proved but not exercised by the lockstep harness. No pinned/large pages, MI_SECURE guard "
        "slices, over-aligned huge blocks or abandoned segments in the model. 'Never crashes' is observed (exit status), not proved; thread-metadata "
        "allocation failure is not exercised. Repaired defect: mi_segments_page_alloc kept a fresh segment that its retry left without a page "
        "(refused first span commit, or a span found in another segment) and nothing freed it later; the model follows the repaired code "
        "(C07_no_unused_segment: segments never stay owned without pages; C07_segments_page_alloc_old_keeps_unused_segment: the old code did), "
        "and the lockstep harness reports a live segment without a page (impl:unused-segment).",
   technique="Coq inductive invariant over a failure-oracle model + exact model/implementation lockstep under an OS shim + OS-call fault enumeration",
   design="3/C07"),
}
NOT_YET = {}
def main():
    props = [json.loads(l) for l in open(os.path.join(V, "properties.jsonl"))]
    checks = []
    for pid in sorted(CHECKS):
        c = CHECKS[pid]
        checks.append({
            "property_id": pid,
            "quick_cmd": "tools/check %s --tier quick" % pid,
            "thorough_cmd": "tools/check %s --tier thorough" % pid,
            "evidence_file": "evidence/%s.json" % pid,
            "replay_cmd_template": "tools/check %s --replay {path}" % pid,
            "engine": "coq+differential",
            "level_claimed": {"category": c.get("category", "proof"), "text": c["text"], "design_ref": "DESIGN.md section " + c["design"]},
            "level_note": c["note"],
            "technique": c["technique"],
        })
    na = []
    for p in props:
        if p["id"] not in CHECKS:
            na.append({"property_id": p["id"], "reason": NOT_YET.get(p["id"], "not claimed yet: the model, theorems and correspondence for this property are not finished in this snapshot (see DESIGN.md section 8); the technique applies")})
    m = {
      "version": 1,
      "setup_cmd": "tools/setup",
      "hooks": {"guard": "MI_VERIF_HOOKS",
                "enable": "harness command line only: -DMI_VERIF_HOOKS='\"/verif/harness/hooks.h\"' (the library build is never hooked)",
                "baseline_off_cmd": "cmake --build /repo/_build && ctest --test-dir /repo/_build -j8 --timeout 900",
                "source_commits": ["1dc72ba"], "add_only": True},
      "engines": [{"name": "coq+differential", "path": "tools/check", "serves_properties": sorted(CHECKS),
                   "kind_free_text": "Coq 8.16.1 theorems over hand-written Gallina models; Gen/*.v regenerated from /repo; extracted OCaml model vs C harness (static.c TU) differential"}],
      "checks": checks,
      "notes": "All checks rebuild generators and harnesses from /repo's working tree. See DESIGN.md.",
      "not_applicable": na,
    }
    json.dump(m, open(os.path.join(V, "MANIFEST.json"), "w"), indent=1)
    print("wrote MANIFEST.json with %d checks, %d not claimed" % (len(checks), len(na)))
if __name__ == "__main__":
    main()
