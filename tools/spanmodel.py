#!/usr/bin/env python3
"""Segment / span layer correspondence (C01 segment layer, C03 huge alignment).

run(res, seed, tier) -> stats
  builds harness/f_span.c from /repo's current tree, drives the real allocator, then
  (a) implementation-side oracle on the T records (pointer -> segment -> page lookup of live blocks, block
      inside its page area, page areas of one segment pairwise disjoint and inside their spans)
      -> res.violation("impl:<kind>", ..., witness=<trace of API calls>)
  (b) the extracted Coq model (ocaml mode "span") on the G/Q dumps: span_inv_b, used spans disjoint,
      coalescing complete, and the exact model transition for every call
      -> res.violation("corr:span", ..., witness=None)
Stand-alone:  tools/spanmodel.py [seed] [tier]"""
import os, sys, collections
sys.path.insert(0, os.path.dirname(os.path.abspath(__file__)))
import vlib

SLICE = 65536


def oracle(lines):
    """returns (list of (kind, text, op), counter of records)"""
    bad = []
    n = collections.Counter()
    areas = collections.defaultdict(list)
    for l in lines:
        f = l.split()
        k = f[1]; n[k] += 1
        op = int(f[2])
        if k == "pof":
            q, sg, se, fg, fe = f[3], int(f[4], 16), int(f[5], 16), int(f[6]), int(f[7])
            if sg != se:
                bad.append(("ptr_segment", "_mi_ptr_segment(%s) = %#x but the block lies in the segment at %#x" % (q, sg, se), op))
            elif fg != fe:
                bad.append(("page_of", "_mi_segment_page_of(%#x, %s) = slice %d but the address belongs to the page at slice %d" % (se, q, fg, fe), op))
        elif k == "blk":
            p, us, ps, psz = int(f[3], 16), int(f[4]), int(f[5], 16), int(f[6])
            if not (ps <= p and p + us <= ps + psz):
                bad.append(("block_outside_page", "block [%#x,+%d) is not inside its page area [%#x,+%d)" % (p, us, ps, psz), op))
        elif k == "area":
            seg, idx, cnt, st, psz, ssz = int(f[3], 16), int(f[4]), int(f[5]), int(f[6], 16), int(f[7]), int(f[8])
            areas[(op, seg)].append((idx, cnt, st, psz, ssz))
    for (op, seg), l in areas.items():
        l.sort()
        for i, (idx, cnt, st, psz, ssz) in enumerate(l):
            end = min(seg + (idx + cnt) * SLICE, seg + ssz)
            if not (seg + idx * SLICE <= st and st + psz <= end):
                bad.append(("area_outside_span", "page area [%#x,+%d) of span %d+%d leaves its span in segment %#x" % (st, psz, idx, cnt, seg), op))
            if i + 1 < len(l) and st + psz > l[i + 1][2]:
                bad.append(("areas_overlap", "page areas of spans %d+%d and %d+%d of segment %#x overlap" % (idx, cnt, l[i + 1][0], l[i + 1][1], seg), op))
    bad.sort(key=lambda x: x[2])
    return bad, n


def trace_upto(olines, op, seed, tier, nops):
    ops = [l for l in olines if int(l.split()[1]) <= op]
    return "# harness/f_span.c: build/f_span %d %d %d  (API calls up to the failing one; M slot size / A slot size align / F slot / C force)\n%s" % (
        seed, tier, nops, "\n".join(ops[-400:]))


def run(res, seed, tier, nseeds=None, nops=None):
    stats = collections.Counter()
    exe = os.path.join(vlib.BUILD, "f_span_%s" % res.pid)
    ok, txt, cmd = vlib.cc(os.path.join(vlib.HARN, "f_span.c"), exe)
    if not ok:
        res.violation("harness-build", "harness/f_span.c no longer compiles against the current tree (a modelled function changed its interface): " + txt[-1500:])
        return dict(stats)
    okb, txt = vlib.ocaml_build()
    if not okb:
        res.violation("model-build", "extracted model does not build: " + txt[-1200:])
    thorough = (tier == "thorough")
    nseeds = nseeds or (8 if thorough else 3)
    nops = nops or (2500 if thorough else 900)
    samples = []
    for k in range(nseeds):
        s = seed * 100 + k
        rc, out, err = vlib.run_split([exe, str(s), "1" if thorough else "0", str(nops)], timeout=600, env=vlib.clean_env())
        lines = out.splitlines()
        ol = [l for l in lines if l.startswith("O ")]
        tl = [l for l in lines if l.startswith("T ")]
        stats["runs"] += 1; stats["api_calls"] += len(ol)
        stats["segment_dumps"] += sum(1 for l in lines if l.startswith("G ") and not l.endswith("="))
        stats["queue_dumps"] += sum(1 for l in lines if l.startswith("Q "))
        for l in ol:
            stats["op_" + l.split()[2]] += 1
        bad, n = oracle(tl)
        for kk, v in n.items():
            stats["T_" + kk] += v
        crashed = (rc != 0 or not lines or lines[-1] != "END")
        if crashed:
            lastop = int(ol[-1].split()[1]) if ol else 0
            res.violation("impl:crash", "f_span (seed %d) exited with status %d after call %d without finishing: %s" % (s, rc, lastop, err[-300:]),
                          witness=trace_upto(ol, lastop, s, 1 if thorough else 0, nops))
        seen = set()
        for kind, text, op in bad:
            if kind in seen:
                continue
            seen.add(kind); stats["impl_violations"] += 1
            res.violation("impl:" + kind, "call %d of seed %d: %s" % (op, s, text), witness=trace_upto(ol, op, s, 1 if thorough else 0, nops))
        if okb:
            rc2, mout = vlib.model_replay("span", out)
            mism = [l for l in mout.splitlines() if l.startswith("MISMATCH")]
            done = [l for l in mout.splitlines() if l.startswith("DONE")]
            for l in mout.splitlines():
                if l.startswith("STATS span"):
                    for kv in l.split()[2:]:
                        a, b = kv.split("=")
                        if a.startswith("max_"):
                            stats["model_" + a] = max(stats["model_" + a], int(b))
                        else:
                            stats["model_" + a] += int(b)
            if (rc2 != 0 or not done) and not crashed:
                res.violation("model-run", "model replay (mode span) failed: " + mout[-800:])
            elif mism:
                stats["model_mismatches"] += len(mism)
                res.violation("corr:span", "segment/span model and implementation disagree (%d records, seed %d), first: %s" % (len(mism), s, mism[0][:1200]), witness=None)
        if k == 0:
            samples = [l for l in lines if l.startswith(("O ", "Q "))][:6] + [l[:200] for l in lines if l.startswith("G ") and not l.endswith("=")][:2] + tl[:3]
    res.cov["evaluations"] = res.cov.get("evaluations", 0) + stats["api_calls"] + stats["T_pof"] + stats["T_blk"] + stats["T_area"]
    res.cov["traces_validated_against_impl"] = res.cov.get("traces_validated_against_impl", 0) + stats["runs"]
    res.cov["disagreements_checked"] = res.cov.get("disagreements_checked", 0) + stats["model_mismatches"]
    res.cov["span_layer"] = dict(stats)
    res.add_samples(samples, limit=14)
    return dict(stats)


if __name__ == "__main__":
    seed = int(sys.argv[1]) if len(sys.argv) > 1 else 1
    tier = sys.argv[2] if len(sys.argv) > 2 else "quick"
    r = vlib.Result("C01span", tier, seed)
    st = run(r, seed, tier)
    for k in sorted(st):
        print("%-32s %d" % (k, st[k]))
    for k, p, w, t in r.violations:
        print("VIOLATION %s witness=%s :: %s" % (k, w, t[:600]))
    print("violations:", len(r.violations))
    sys.exit(1 if r.violations else 0)
