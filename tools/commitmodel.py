#!/usr/bin/env python3
"""Commit bookkeeping under refused OS calls: the Coq side of C07 (coq/Model/Commit.v) against the real allocator.

run(res, seed, tier) -> stats
  builds harness/f_commit.c from /repo's current tree, linked with the OS shim exactly like tools/props/C07.py builds its
  harness (SHIM_FLAGS + shim object), in two configurations: the release build and -DMI_DEBUG=1 (the build whose
  _mi_prim_decommit protects, so that purges really revoke access and need a recommit).  The harness drives the real
  allocator on ONE arena created with mi_manage_os_memory_ex over PROT_NONE memory (is_committed = false) with
  arena_eager_commit = 0 and option variants (eager_commit, purge_delay 10 / 0 / -1, purge_decommits), with seeded
  sequences of huge / large / small mallocs, frees and forced collects, while shim_fail refuses seeded subsets of the
  mprotect calls.  Then
  (a) implementation-side oracle on the T records (each with a witness = the API calls up to the failing one):
        T ret ... 0   a returned block is not accessible according to the shim ledger   -> impl:inaccessible
        T bit ...     an arena committed bit / a commit-mask bit over an inaccessible slice -> impl:committed-bit
        T orphan ...  an in-use arena block that belongs to no segment (leaked)          -> impl:orphan-block
        T unused ...  a live segment that has no page after the API call returned (no later
                      operation frees it: Coq C07_no_unused_segment)                       -> impl:unused-segment
        T crash ...   a signal inside the allocator or when touching a returned block    -> impl:crash
  (b) the extracted Coq model (ocaml mode "commit"): commit_inv_b on every dumped real state, and the exact model
      transition for every API call under the oracle answers read from the shim log
        MISMATCH inv  -> corr:commit-inv   (no witness needed: the dump itself violates the invariant; the trace is attached)
        MISMATCH step -> corr:commit       (model and implementation disagree; witness=None)
  (c) property C11 (prop="C11": tools/props/C11.py; theorems coq/Properties/C11back.v).  Every run ends with a DRAIN: every
      block is freed and mi_collect(true) is called, each call in lockstep with the model like any other.  Then
        T giveback ...      the real allocator still owns a segment, an arena block is still in use, a free block is still
                            scheduled for a purge, the heap still has a page, or more is mapped outside the arena than
                            at the start (segment-map parts excepted)                           -> impl:not-given-back
                            (witness: the API calls of the run with the refused OS calls)
        MISMATCH giveback   the boolean conclusion of C11_all_freed_gives_back / C11_all_freed_collect_purged evaluated on
                            the synchronised model state differs from what the harness found     -> corr:give-back
        MISMATCH step/inv   the lockstep was lost before the give-back point (and the harness found
                            nothing itself)                                                      -> corr:give-back-lockstep
      With prop="C11" only these keys (and build / crash / model-run failures) are reported: the other implementation-side keys are C07's.
Stand-alone:  tools/commitmodel.py [seed] [tier] [C07|C11]"""
import os, sys, collections
sys.path.insert(0, os.path.dirname(os.path.abspath(__file__)))
import vlib

SHIM_FLAGS = ["-DVERIF_SHIM", "-Dmmap=shim_mmap", "-Dmunmap=shim_munmap", "-Dmprotect=shim_mprotect", "-Dmadvise=shim_madvise",
              "-Dclock_gettime=shim_clock_gettime"]
# variant bits of f_commit: bit0 eager_commit ; bits1-2 purge_delay (0: 10 ms frozen clock, 1: 0 immediate, 2: -1 never) ; bit3 purge_decommits = 0
VARIANTS_QUICK = [("rel", 0), ("rel", 1), ("rel", 2), ("dbg", 0), ("dbg", 2), ("dbg", 1)]
VARIANTS_THOROUGH = VARIANTS_QUICK + [("rel", 4), ("rel", 3), ("rel", 8), ("dbg", 3), ("dbg", 4), ("dbg", 8), ("dbg", 10)]
# C11 runs the same harness with fewer / shorter runs (the step-by-step comparison of these runs is C07's job)
VARIANTS_C11_QUICK = [("rel", 0), ("rel", 3), ("dbg", 0), ("dbg", 2), ("dbg", 5)]
VARIANTS_C11_THOROUGH = VARIANTS_C11_QUICK + [("rel", 2), ("rel", 4), ("dbg", 1), ("dbg", 4), ("dbg", 8)]


def build(res):
    obj = os.path.join(vlib.BUILD, "shim_commit_%s.o" % res.pid)
    rc, txt = vlib.run(["gcc", "-O1", "-g", "-c", os.path.join(vlib.HARN, "shim.c"), "-o", obj, "-I" + vlib.HARN])
    if rc != 0:
        res.violation("harness-build", "harness/shim.c does not compile: " + txt[-800:])
        return None
    exes = {}
    for name, extra in (("rel", []), ("dbg", ["-DMI_DEBUG=1"])):
        exe = os.path.join(vlib.BUILD, "f_commit_%s_%s" % (name, res.pid))
        ok, txt, cmd = vlib.cc(os.path.join(vlib.HARN, "f_commit.c"), exe, extra=SHIM_FLAGS + [obj] + extra)
        if not ok:
            res.violation("harness-build", "harness/f_commit.c (%s) no longer compiles against the current tree (a modelled function or field changed): %s" % (name, txt[-1500:]))
            return None
        exes[name] = exe
    return exes


def trace_upto(lines, op, cfgname, seed, nops, variant):
    """the API calls up to call `op`, with the refused OS calls, as the witness"""
    out = ["# harness/f_commit.c (%s build): f_commit %d %d %d ; API calls up to the failing one (O ...) with the OS calls the shim refused (L ... 0)" % (
        "release" if cfgname == "rel" else "-DMI_DEBUG=1", seed, nops, variant)]
    cur = 0
    for l in lines:
        if l.startswith("CFG "):
            out.append(l)
        elif l.startswith("O "):
            cur = int(l.split()[1])
            if cur > op:
                break
            out.append(l)
        elif l.startswith("L ") and l.split()[-1] == "0" and cur <= op:
            out.append(l)
        elif l.startswith("T ") and not l.startswith("T chk") and cur <= op:
            out.append(l)
    return "\n".join(out if len(out) <= 300 else out[:2] + ["# ... (%d lines omitted)" % (len(out) - 299)] + out[-297:])   # the command line and CFG stay


def giveback_text(f):
    """f: the fields of a `T giveback` line; None when everything was given back"""
    segs, cursize, inuse, sched, pages, out0, out1, segmap = [int(x) for x in f[3:11]]
    bad = []
    if segs or cursize: bad.append("the thread still owns %d segment(s) (%d bytes)" % (segs, cursize))
    if inuse: bad.append("%d arena block(s) are still in use (blocks_inuse)" % inuse)
    if pages: bad.append("the heap still has %d page(s)" % pages)
    if sched: bad.append("%d free arena block(s) are still scheduled for a purge after the forced collect" % sched)
    if out1 > out0 + segmap: bad.append("%d bytes are mapped outside the arena, %d at the start (+%d segment-map bytes)" % (out1, out0, segmap))
    return "; ".join(bad) if bad else None


def run(res, seed, tier, nseeds=None, nops=None, prop="C07"):
    stats = collections.Counter()
    c11 = (prop == "C11")
    exes = build(res)
    if exes is None:
        return dict(stats)
    okb, txt = vlib.ocaml_build()
    if not okb:
        res.violation("model-build", "extracted model does not build: " + txt[-1200:])
    thorough = (tier == "thorough")
    if c11:
        nseeds = nseeds or (4 if thorough else 2)
        nops = nops or (300 if thorough else 160)
        variants = VARIANTS_C11_THOROUGH if thorough else VARIANTS_C11_QUICK
    else:
        nseeds = nseeds or (5 if thorough else 3)
        nops = nops or (450 if thorough else 260)
        variants = VARIANTS_THOROUGH if thorough else VARIANTS_QUICK
    samples = []
    for cfgname, variant in variants:
        for k in range(nseeds):
            s = seed * 100 + k
            rc, out, err = vlib.run_split([exes[cfgname], str(s), str(nops), str(variant)], timeout=600, env=vlib.clean_env())
            lines = out.splitlines()
            ol = [l for l in lines if l.startswith("O ")]
            stats["runs"] += 1; stats["api_calls"] += len(ol)
            stats["runs_" + cfgname] += 1
            for l in ol:
                f = l.split()
                stats["op_" + f[2]] += 1
                if f[2] == "M":
                    stats["malloc_" + {"0": "large", "1": "huge", "2": "small"}.get(f[5], "?")] += 1
                    if f[8] == "0":
                        stats["malloc_null"] += 1
            stats["os_calls"] += sum(1 for l in lines if l.startswith("L "))
            stats["refused_os_calls"] += sum(1 for l in lines if l.startswith("L ") and l.split()[-1] == "0")
            stats["segment_dumps"] += sum(1 for l in lines if l.startswith("S "))
            crashed = (rc != 0 or not lines or not lines[-1].startswith("END"))
            seen = set()
            for l in lines:
                if not l.startswith("T "):
                    continue
                f = l.split()
                kind = f[1]
                stats["T_" + kind] += 1
                bad = None
                if kind == "ret" and f[5] == "0":
                    bad = ("impl:inaccessible", "mi_malloc returned block %s (usable %s) that is not accessible according to the OS ledger" % (f[3], f[4]))
                elif kind == "bit":
                    bad = ("impl:committed-bit", ("arena block %s is marked committed but its slice %s is not accessible" % (f[4], f[5])) if f[3] == "arena"
                           else ("segment at slice %s has a commit-mask bit (or is huge) over slice %s which is not accessible" % (f[4], f[5])))
                elif kind == "orphan":
                    bad = ("impl:orphan-block", "arena block %s is in use but belongs to no segment" % f[3])
                elif kind == "unused":
                    bad = ("impl:unused-segment", "the segment at slice %s (arena block %s) is owned without a single page (segment->used = %s) after the call returned: "
                           "no later operation frees it (mi_collect reaches segments through their pages); model: C07_no_unused_segment" % (f[3], f[4], f[5]))
                elif kind == "crash":
                    bad = ("impl:crash", "signal %s during API call %s" % (f[3], f[2]))
                elif kind == "giveback":
                    stats["giveback_points"] += 1
                    txt = giveback_text(f)
                    if txt:
                        stats["not_given_back"] += 1
                        if c11:
                            bad = ("impl:not-given-back", "after every block was freed and mi_collect(true) returned: " + txt)
                if bad and c11 and bad[0] not in ("impl:not-given-back", "impl:crash"):
                    stats["c07_keys_seen"] += 1; bad = None
                if bad and bad[0] not in seen:
                    seen.add(bad[0]); stats["impl_violations"] += 1
                    op = int(f[2])
                    res.violation(bad[0], "%s build, options variant %d, seed %d, API call %d: %s" % (cfgname, variant, s, op, bad[1]),
                                  witness=trace_upto(lines, op, cfgname, s, nops, variant))
            if crashed and "impl:crash" not in seen:
                lastop = int(ol[-1].split()[1]) if ol else 0
                stats["impl_violations"] += 1
                res.violation("impl:crash", "f_commit (%s build, variant %d, seed %d) exited with status %d after call %d without finishing: %s" % (cfgname, variant, s, rc, lastop, err[-300:]),
                              witness=trace_upto(lines, lastop + 1, cfgname, s, nops, variant))
            if okb:
                rc2, mout = vlib.model_replay("commit", out)
                ml = mout.splitlines()
                mism = [l for l in ml if l.startswith("MISMATCH")]
                done = [l for l in ml if l.startswith("DONE")]
                for l in ml:
                    if l.startswith("STATS commit"):
                        for kv in l.split()[2:]:
                            a, b = kv.split("=")
                            stats["model_" + a] += int(b)
                if (rc2 != 0 or not done) and not crashed:
                    res.violation("model-run", "model replay (mode commit) failed: " + mout[-800:])
                inv = [l for l in mism if l.startswith("MISMATCH inv")]
                gvb = [l for l in mism if l.startswith("MISMATCH giveback")]
                stp = [l for l in mism if not l.startswith("MISMATCH inv") and not l.startswith("MISMATCH giveback")]
                stats["model_mismatches"] += len(mism)
                stats["model_giveback_true"] += sum(1 for l in ml if l.startswith("GIVEBACK model all_freed=true gave_back=true purged=true"))
                if c11:
                    if gvb:
                        res.violation("corr:give-back", "the give-back conclusion evaluated on the synchronised model state and the real allocator disagree (%s build, variant %d, seed %d): %s" % (
                            cfgname, variant, s, gvb[0][:900]), witness=None)
                    if stp or inv:
                        # the give-back evaluation is only as good as the lockstep: a lost lockstep is reported (C07 reports the details)
                        vlib.log("[C11] commit lockstep lost in %s/%d seed %d (%d records): %s" % (cfgname, variant, s, len(stp) + len(inv), (stp + inv)[0][:300]))
                        stats["lockstep_lost_runs"] += 1
                        if "impl:not-given-back" not in seen:
                            res.violation("corr:give-back-lockstep", "the commit model and the real allocator disagree before the give-back point (%s build, variant %d, seed %d; %d records; "
                                          "tools/check C07 reports the same under corr:commit / corr:commit-inv), first: %s" % (cfgname, variant, s, len(stp) + len(inv), (stp + inv)[0][:900]), witness=None)
                    inv = []; stp = []
                if inv:
                    try:
                        op = int(inv[0].split()[3].rstrip(":"))
                    except (IndexError, ValueError):
                        op = 10 ** 9
                    res.violation("corr:commit-inv", "commit_inv_b fails on a state dumped from the implementation (%s build, variant %d, seed %d; %d records), first: %s" % (
                        cfgname, variant, s, len(inv), inv[0][:900]), witness=trace_upto(lines, op, cfgname, s, nops, variant))
                if stp:
                    res.violation("corr:commit", "commit model and implementation disagree (%s build, variant %d, seed %d; %d records), first: %s" % (
                        cfgname, variant, s, len(stp), stp[0][:1200]), witness=None)
            if not samples:
                samples = [l[:160] for l in lines if l.startswith(("CFG ", "O "))][:5] + [l[:160] for l in lines if l.startswith("L ") and l.endswith(" 0")][:2] + \
                          [l[:200] for l in lines if l.startswith("S ")][:1]
    res.cov["evaluations"] = res.cov.get("evaluations", 0) + stats["api_calls"]
    res.cov["distinct_nontrivial"] = res.cov.get("distinct_nontrivial", 0) + stats["refused_os_calls"]
    res.cov["traces_validated_against_impl"] = res.cov.get("traces_validated_against_impl", 0) + stats["runs"]
    res.cov["disagreements_checked"] = res.cov.get("disagreements_checked", 0) + stats["model_mismatches"]
    if c11:
        if stats["giveback_points"] != stats["runs"] or stats["model_giveback_checks"] != stats["runs"]:
            vlib.log("[C11] %d runs, %d give-back points in the harness output, %d evaluated by the model" % (stats["runs"], stats["giveback_points"], stats["model_giveback_checks"]))
        res.cov["giveback_layer"] = dict(stats)
        res.cov["giveback_layer_rule"] = ("every run (seeded mallocs / frees / forced collects on one arena under refused mprotect calls) is drained: every block freed, "
                                          "mi_collect(true); the harness then checks the real allocator (no segment owned, blocks_inuse clear, nothing scheduled, no heap "
                                          "page, nothing more mapped outside the arena) and the extracted model evaluates all_freed_b / gave_back_b / no_purge_scheduled_b / "
                                          "inuse_owned_b on its state, which was kept in lockstep call by call (steps_exact of steps)")
        res.add_samples(samples + [l[:200] for l in lines if l.startswith("T giveback")][:1], limit=12)
        return dict(stats)
    res.cov["commit_layer"] = dict(stats)
    res.cov["commit_layer_rule"] = ("every API call of every run is one evaluation: commit_inv_b on the dumped real state and the exact model transition "
                                    "(arena bitmap words, commit/purge mask words, live pages, ledger) under the oracle answers of that call; "
                                    "non-trivial = OS calls refused by the shim (model_refused_mprotect are the mprotect calls among them)")
    res.add_samples(samples, limit=12)
    return dict(stats)


if __name__ == "__main__":
    seed = int(sys.argv[1]) if len(sys.argv) > 1 else 1
    tier = sys.argv[2] if len(sys.argv) > 2 else "quick"
    prop = sys.argv[3] if len(sys.argv) > 3 else "C07"
    r = vlib.Result(prop, tier, seed)
    st = run(r, seed, tier, prop=prop)
    for k in sorted(st):
        print("%-32s %d" % (k, st[k]))
    for k, p, w, t in r.violations:
        print("VIOLATION %s witness=%s :: %s" % (k, w, t[:700]))
    print("violations:", len(r.violations))
    sys.exit(1 if r.violations else 0)
