#!/usr/bin/env python3
"""Driver for the deterministic-scheduler harness harness/s_conc.c (real allocator in virtual
threads, every atomic operation a scheduling point, spurious weak-CAS failures)."""
import os, re, collections, concurrent.futures, subprocess
import vlib

HOOK_FLAGS = ['-DMI_VERIF_HOOKS="%s"' % os.path.join(vlib.HARN, "hooks.h"), "-DMI_PRIM_THREAD_ID=verif_tid", "-Wno-unused-value",
              "-Dclock_gettime=verif_clock_gettime", "-Dsyscall=verif_syscall"]   # determinism: virtual clock, fixed getrandom stream

KINDS = {
    "C02": {"tfree": {"overlap", "content", "crash", "livelock", "fail"}, "exit": {"overlap", "content", "crash", "livelock"},
            # the producer/consumer program keeps pages in the full queue while several threads free into them and the owner collects:
            # the window of the flag reset of mi_free_block_delayed_mt against the owner's list take-over (seed C02d)
            "prodcons": {"overlap", "content", "crash"}},
    "C08": {"tfree": {"lost", "leak", "livelock"},
            # producer/consumer with a bounded number of live blocks (harness/prodcons.h); `unbounded` = the owner's heap holds more pages /
            # more remotely freed but unreclaimed blocks than the bound derived from the number of live blocks and the drain period
            "prodcons": {"unbounded", "lost", "leak", "livelock", "crash", "content", "overlap", "fail"}},
    "C09": {"exit": {"content", "overlap", "crash", "abandoned-leak", "leak", "segment-leak", "livelock", "fail"}},
    "C10": {"heap": {"content", "overlap", "crash", "leak", "livelock", "fail"}},
    "C12": {"exit": {"abandoned-visit"}},
}


def build(res, name="s_conc"):
    exe = os.path.join(vlib.BUILD, name)
    ok, txt, cmd = vlib.cc(os.path.join(vlib.HARN, "s_conc.c"), exe, extra=HOOK_FLAGS)
    if not ok:
        res.violation("harness-build", "harness/s_conc.c no longer compiles against the current tree with the hooks on: " + txt[-1500:])
        return None
    return exe


def run_one(exe, mode, seed, nthreads, nops, env=None, log=False, timeout=120):
    cmd = [exe, mode, str(seed), str(nthreads), str(nops)] + (["log"] if log else [])
    e = vlib.clean_env()
    if env: e.update(env)
    try:
        p = subprocess.run(cmd, stdout=subprocess.PIPE, stderr=subprocess.PIPE, preexec_fn=vlib._limits, timeout=timeout, env=e, text=True, errors="replace")
        return p.returncode, p.stdout
    except subprocess.TimeoutExpired as ex:
        o = ex.stdout or b""
        return 124, (o.decode(errors="replace") if isinstance(o, bytes) else o) + "\nV livelock harness timeout\n"


def parse(rc, out):
    v = []
    end = None
    for l in out.splitlines():
        if l.startswith("V "):
            f = l.split(" ", 2)
            v.append((f[1], f[2] if len(f) > 2 else ""))
        m = re.match(r'END steps=(\d+) viol=(\d+)(?: switches=(\d+) spurious=(\d+) pages=(\d+))?', l)
        if m: end = m
    if end is None and not v:
        v.append(("crash", "harness exited with status %d without END line" % rc))
    return v, end


def shrink(exe, mode, seed, nthreads, nops, kind, env):
    """smaller programs / fewer threads that still fail with the same kind (same seed)"""
    best = (nthreads, nops)
    for nt in range(2, nthreads + 1):
        for no in (20, 50, 100, 200, nops):
            if no > nops: continue
            rc, out = run_one(exe, mode, seed, nt, no, env)
            v, _ = parse(rc, out)
            if any(k == kind for k, _ in v):
                return nt, no
    return best


def run_conc(res, pid, seed, tier, envs=(None,), nseeds_quick=36):
    exe = build(res)
    if exe is None:
        return
    big = tier == "thorough"
    nseeds = 200 if big else nseeds_quick
    stats = collections.Counter()
    found = {}
    jobs = []
    prodcons = {}
    for mode in KINDS[pid]:
        for env in envs:
            for i in range(nseeds):
                nt = 2 + (i % 4)
                nops = (400 if big else 250) if i % 3 else 120
                jobs.append((mode, seed * 100000 + i, nt, nops, env))
    with concurrent.futures.ThreadPoolExecutor(max_workers=int(vlib.JOBS)) as ex:
        futs = {ex.submit(run_one, exe, j[0], j[1], j[2], j[3], j[4]): j for j in jobs}
        for fu in concurrent.futures.as_completed(futs):
            mode, sd, nt, nops, env = futs[fu]
            rc, out = fu.result()
            v, end = parse(rc, out)
            stats["schedules"] += 1
            if end:
                stats["atomic_steps"] += int(end.group(1))
                if end.group(3): stats["context_switches"] += int(end.group(3)); stats["spurious_cas_failures"] += int(end.group(4))
            for m in re.finditer(r'^O prodcons t\d+ allocs=(\d+) max_pages=(\d+) max_segments=(\d+) max_unreclaimed=(\d+) bound_pages=(\d+) bound_unreclaimed=(\d+)', out, re.M):
                al, mp, ms, mu, bp, bu = (int(x) for x in m.groups())
                stats["prodcons_producers"] += 1; stats["prodcons_allocations"] += al
                pc = prodcons.setdefault("collect16" if bu < 100 else "plain", {"max_pages": 0, "bound_pages_min": bp, "max_unreclaimed": 0, "bound_unreclaimed_min": bu, "max_segments": 0})
                pc["max_pages"] = max(pc["max_pages"], mp); pc["max_unreclaimed"] = max(pc["max_unreclaimed"], mu); pc["max_segments"] = max(pc["max_segments"], ms)
                pc["bound_pages_min"] = min(pc["bound_pages_min"], bp); pc["bound_unreclaimed_min"] = min(pc["bound_unreclaimed_min"], bu)
            for kind, text in v:
                stats["viol:" + kind] += 1
                if kind in KINDS[pid][mode] and kind not in found:
                    found[kind] = (mode, sd, nt, nops, env, text)
    for kind, (mode, sd, nt, nops, env, text) in found.items():
        snt, snops = shrink(exe, mode, sd, nt, nops, kind, env)
        envs_txt = " ".join("%s=%s" % kv for kv in (env or {}).items())
        wit = "# schedule replay (deterministic): %s build/s_conc %s %d %d %d\n# oracle: %s %s" % (envs_txt, mode, sd, snt, snops, kind, text)
        res.violation("impl:" + kind, "%s in mode %s (seed %d, %d threads, %d ops per thread): %s" % (kind, mode, sd, snt, snops, text), witness=wit,
                      replay_name="%s_%s_%s_%d.sched" % (pid, kind, mode, sd))
    res.cov["evaluations"] += stats["schedules"]
    res.cov["distinct_nontrivial"] += stats["schedules"]
    res.cov["traces_validated_against_impl"] += stats["schedules"]
    d = res.cov.setdefault("input_distribution", {})
    d["scheduler"] = {k: v for k, v in stats.items()}
    if prodcons:
        # measured maxima on this tree against the derived bounds (smallest bound over the thread counts used)
        d["prodcons_bounded_memory"] = prodcons
    res.add_samples(["s_conc %s %d %d %d" % (j[0], j[1], j[2], j[3]) for j in jobs[:3]])
    return stats


def replay(res, pid, path):
    exe = build(res)
    if exe is None: return
    m = re.search(r'build/s_conc (\w+) (\d+) (\d+) (\d+)', open(path).read())
    if not m:
        res.violation("replay", "not a schedule replay file: " + path); return
    txt = open(path).read()
    line = [l for l in txt.splitlines() if "build/s_conc" in l][0]
    env = dict(re.findall(r'\b(VERIF_[A-Z_]+)=(\S+)', line.split("build/s_conc")[0]))      # the environment variant of the schedule
    rc, out = run_one(exe, m.group(1), int(m.group(2)), int(m.group(3)), int(m.group(4)), env or None)
    v, end = parse(rc, out)
    mine = set().union(*KINDS[pid].values()) if pid in KINDS else None
    for kind, text in v:
        if mine is None or kind in mine:
            res.violation("impl:" + kind, "replay: " + text, witness=txt)
    res.cov["evaluations"] += 1; res.cov["distinct_nontrivial"] += 2
    res.add_samples([m.group(0)])


def run_corpus(res, pid):
    """corpus/<pid>/*.sched: stored deterministic schedules (witnesses of repaired defects), replayed first"""
    cdir = os.path.join(vlib.VERIF, "corpus", pid)
    n = 0
    for name in sorted(os.listdir(cdir)) if os.path.isdir(cdir) else []:
        if name.endswith(".sched"):
            replay(res, pid, os.path.join(cdir, name)); n += 1
    res.cov.setdefault("input_distribution", {})["corpus_schedules"] = n
    return n


def run_lockstep(res, pid, seed, tier, mode="lock", key="corr:tfree-lockstep", kinds=()):
    """schedule-lockstep tie (S): the real allocator runs mode `lock` (the tfree program) or `lockheap` (the heap program: mi_heap_new /
    mi_heap_delete / mi_heap_collect of per-thread extra heaps while other threads free into their pages) of s_conc.c under the
    deterministic scheduler and logs every atomic access to page->xthread_free, page->xheap and heap->thread_delayed_free (abstract
    old -> new value); the extracted Coq model Model/TFree.v must be able to take the same step of the same thread with the same values,
    and its boolean invariant inv_b is evaluated on the synchronised states (ocaml mode tfree-lockstep).
    kinds: oracle kinds of the harness that count as a failing input when the mismatching run also reports one of them."""
    exe = build(res)
    if exe is None:
        return None
    okb, txt = vlib.ocaml_build()
    if not okb:
        res.violation("model-build", "extracted model does not build: " + txt[-1200:]); return None
    big = tier == "thorough"
    jobs = [(seed * 1000 + i, 2 + i % 3, (150 if big else 80) if i % 2 else 40) for i in range(60 if big else 16)]
    stats = collections.Counter(); hist = collections.Counter(); first_mismatch = None
    def one(j):
        sd, nt, nops = j
        rc, out = run_one(exe, mode, sd, nt, nops, log=True, timeout=180)
        logtxt = "\n".join(l for l in out.splitlines() if not l.startswith("END") and not l.startswith("V "))
        rc2, mout = vlib.model_replay("tfree-lockstep", logtxt + "\n", timeout=600)
        return j, rc, out, mout
    tag = "lockstep" if mode == "lock" else mode
    with concurrent.futures.ThreadPoolExecutor(max_workers=int(vlib.JOBS)) as ex:
        for j, rc, out, mout in ex.map(one, jobs):
            stats[tag + "_logs"] += 1
            m = re.search(r'STAT tfree-lockstep lines=(\d+) atomic_steps=(\d+) inv_b_checks=(\d+) max_state_set=(\d+) final_state_set=(\d+)(?: hist=(\S*))?', mout)
            if m:
                stats[tag + "_atomic_steps"] += int(m.group(2)); stats[tag + "_inv_b_checks"] += int(m.group(3))
                stats[tag + "_max_state_set"] = max(stats[tag + "_max_state_set"], int(m.group(4)))
                for kv in (m.group(6) or "").split(","):
                    if ":" in kv:
                        k, v = kv.rsplit(":", 1); hist[k] += int(v)
            for l in out.splitlines():
                if l.startswith("A "):
                    f = l.split()
                    if len(f) > 2 and f[2] in ("delete", "newheap", "collect", "malloc", "free", "give"): stats[tag + "_calls_" + f[2]] += 1
            mm = [l for l in mout.splitlines() if l.startswith("MISMATCH")]
            d = re.search(r'DONE (\d+) (\d+)', mout)
            if mm or not d or int(d.group(2)) != 0:
                stats[tag + "_mismatching_logs"] += 1
                v, _ = parse(rc, out)
                v = [(k, t) for k, t in v if k in kinds]
                if first_mismatch is None or (v and not first_mismatch[2]):
                    first_mismatch = (j, mm[0] if mm else mout[-300:], v)
    if first_mismatch:
        (sd, nt, nops), text, v = first_mismatch
        # a model/implementation disagreement on the decomposition into atomic steps; is there also a failing input?
        wit = None
        if v:
            wit = "# schedule replay (deterministic): build/s_conc %s %d %d %d\n# oracle: %s %s" % (mode, sd, nt, nops, v[0][0], v[0][1])
        res.violation(key, "the interleaving model cannot follow the real allocator's atomic steps (schedule: build/s_conc %s %d %d %d log): %s%s"
                      % (mode, sd, nt, nops, text[:400], (" ; the same run also fails the oracle `%s`: %s" % v[0]) if v else ""),
                      witness=wit, replay_name="%s_%s_%d.sched" % (pid, tag, sd))
    d = res.cov.setdefault("input_distribution", {})
    d[tag] = dict(stats)
    d[tag + "_model_transitions"] = dict(sorted(hist.items()))
    res.cov["traces_validated_against_impl"] += stats[tag + "_logs"]
    res.cov["evaluations"] += stats[tag + "_atomic_steps"]
    return stats


def _abandon_one(exe, j):
    """one schedule: step log of the real allocator -> replay abandon-lockstep; returns (job, harness rc, harness output, model output)"""
    sd, nt, nops, env = j
    cmd = [exe, "exit", str(sd), str(nt), str(nops), "alog"]
    e = vlib.clean_env()
    if env: e.update(env)
    try:
        p = subprocess.run(cmd, stdout=subprocess.PIPE, stderr=subprocess.PIPE, preexec_fn=vlib._limits, timeout=180, env=e, text=True, errors="replace")
        rc, out = p.returncode, p.stdout
    except subprocess.TimeoutExpired as ex:
        o = ex.stdout or b""
        rc, out = 124, (o.decode(errors="replace") if isinstance(o, bytes) else o) + "\nV livelock harness timeout\n"
    logtxt = "\n".join(l for l in out.splitlines() if not l.startswith(("END", "V ", "O ", "D-", "D arena")))
    rc2, mout = vlib.model_replay("abandon-lockstep", logtxt + "\n", timeout=600)
    return j, rc, out, mout


def replay_abandon_lockstep(res, pid, path):
    """--replay of a C09_abandon_lockstep_*.sched file: the schedule (with its env variant) is run again through the lockstep"""
    exe = build(res)
    if exe is None: return
    okb, txt = vlib.ocaml_build()
    if not okb:
        res.violation("model-build", "extracted model does not build: " + txt[-1200:]); return
    txt = open(path).read()
    m = re.search(r'schedule: ((?:\w+=\S+ )*) ?build/s_conc exit (\d+) (\d+) (\d+)', txt)
    if not m:
        res.violation("replay", "not an abandon-lockstep replay file: " + path); return
    env = dict(kv.split("=", 1) for kv in m.group(1).split())
    j, rc, out, mout = _abandon_one(exe, (int(m.group(2)), int(m.group(3)), int(m.group(4)), env))
    mm = [l for l in mout.splitlines() if l.startswith("MISMATCH")]
    d = re.search(r'DONE (\d+) (\d+)', mout)
    if mm or not d or int(d.group(2)) != 0:
        idx = mout.find("MISMATCH")
        res.violation("corr:abandon-lockstep", "replay: " + (mout[idx:idx + 1500] if idx >= 0 else mout[-600:]), witness=None)
    for kind, text in parse(rc, out)[0]:
        if kind in KINDS.get(pid, {}).get("exit", ()):
            res.violation("impl:" + kind, "replay: " + text, witness=txt)
    res.cov["evaluations"] += 1; res.cov["distinct_nontrivial"] += 1
    res.add_samples([m.group(0)])

def run_abandon_lockstep(res, pid, seed, tier, envs=(None,)):
    """schedule-lockstep tie (S) of the abandonment / adoption model: the real allocator runs mode `exit` of s_conc.c under the
    deterministic scheduler with the step log of harness/s_conc_abandon.h (every hooked access to segment->thread_id, to the
    segment's bit of arena->blocks_abandoned, to subproc->abandoned_count, acquire / failed try / release of abandoned_os_lock and
    abandoned_os_visit_lock, pushes on the page thread-free lists, plain stores to thread_id, freed segments, API call brackets);
    the extracted Coq model Model/Abandon.v must be able to take, for every record, a transition of the same thread with the
    same location and the same old -> new value, and its boolean invariant inv_b is evaluated after every step
    (ocaml mode abandon-lockstep; the abstractions are listed in the header of ocaml/mode_abandon.ml)."""
    exe = build(res)
    if exe is None:
        return None
    okb, txt = vlib.ocaml_build()
    if not okb:
        res.violation("model-build", "extracted model does not build: " + txt[-1200:]); return None
    big = tier == "thorough"
    per_env = 40 if big else 10
    jobs = []
    for ei, env in enumerate(envs):
        for i in range(per_env):
            jobs.append((seed * 100000 + 500 + i, 2 + (i % 4), (300 if big else 200) if i % 3 else 100, env))
    stats = collections.Counter(); hist = collections.Counter(); first = None
    def one(j):
        return _abandon_one(exe, j)
    with concurrent.futures.ThreadPoolExecutor(max_workers=int(vlib.JOBS)) as ex:
        for j, rc, out, mout in ex.map(one, jobs):
            stats["lockstep_logs"] += 1
            m = re.search(r'STAT abandon-lockstep lines=(\d+) atomic_steps=(\d+) inv_b_checks=(\d+) model_steps=(\d+) max_state_set=(\d+) final_state_set=(\d+) segments=(\d+) freed=(\d+) '
                          r'skipped_owner_loads=(\d+) stale_ands=(\d+) stutter_loads=(\d+) owner_frees=(\d+) field_loads=(\d+) ignored=(\d+)', mout)
            if m:
                for k, v in zip(("log_lines", "lockstep_atomic_steps", "lockstep_inv_b_checks", "model_transitions", None, None, "segments", "segments_freed",
                                 "abstracted_owner_loads_of_thread_id", "abstracted_stale_bit_prechecks", "abstracted_heap_empty_loads", "owner_private_segment_frees",
                                 "cursor_field_loads_checked", "ignored_oscount_alock_accesses"), m.groups()):
                    if k: stats[k] += int(v)
                stats["max_state_set"] = max(stats["max_state_set"], int(m.group(5)))
            m2 = re.search(r'collect_cursors_checked=(\d+) os_list_pops=(\d+)', mout)
            if m2:
                stats["collect_cursors_os_list_part_checked"] += int(m2.group(1)); stats["os_list_pops_of_collect_cursors"] += int(m2.group(2))
            hm = re.search(r'^HIST (.*)$', mout, re.M)
            if hm:
                for kv in hm.group(1).split():
                    k, v = kv.split("="); hist[k] += int(v)
            mm = [l for l in mout.splitlines() if l.startswith("MISMATCH")]
            d = re.search(r'DONE (\d+) (\d+)', mout)
            if mm or not d or int(d.group(2)) != 0:
                stats["lockstep_mismatching_logs"] += 1
                if first is None:
                    idx = mout.find("MISMATCH")
                    first = (j, (mout[idx:idx + 1500] if idx >= 0 else mout[-600:]), parse(rc, out)[0])
    if first:
        (sd, nt, nops, env), text, viol = first
        envs_txt = " ".join("%s=%s" % kv for kv in (env or {}).items())
        # a disagreement between the interleaving model and the real allocator's accesses; a concrete failing input exists only when
        # an implementation-side oracle fired in the same schedule
        bad = [(k, t) for k, t in viol if k in KINDS.get(pid, {}).get("exit", ())]
        wit = None
        if bad:
            wit = "# schedule replay: %s build/s_conc exit %d %d %d\n# oracle: %s %s" % (envs_txt, sd, nt, nops, bad[0][0], bad[0][1])
        res.violation("corr:abandon-lockstep", "the abandonment model (coq/Model/Abandon.v) cannot follow the real allocator's accesses (schedule: %s build/s_conc exit %d %d %d alog | "
                      "build/ocaml/replay abandon-lockstep; %d of %d logs disagree): %s"
                      % (envs_txt, sd, nt, nops, stats["lockstep_mismatching_logs"], stats["lockstep_logs"], text[:1200]), witness=wit,
                      replay_name="%s_abandon_lockstep_%d.sched" % (pid, sd))
    d = res.cov.setdefault("input_distribution", {})
    d["abandon_lockstep"] = dict(stats)
    d["abandon_lockstep_transitions_by_pc"] = dict(hist)
    d["abandon_lockstep_pcs_never_reached"] = sorted(k for k, v in hist.items() if v == 0)
    d["abandon_lockstep_env_variants"] = [" ".join("%s=%s" % kv for kv in (e or {}).items()) or "(default)" for e in envs]
    res.cov["traces_validated_against_impl"] += stats["lockstep_logs"]
    res.cov["evaluations"] += stats["lockstep_atomic_steps"]
    res.add_samples(["s_conc exit %d %d %d alog | replay abandon-lockstep" % (j[0], j[1], j[2]) for j in jobs[:2]])
    return stats


def run_exit_orders(res, pid, seed, tier, kinds):
    """harness/t_exitorder.c: every ordering of thread terminations (real pthread exit) and of frees / adoptions of what the threads
    left behind, for 3 workers (720 orders) in the four configurations arena|OS segments x reclaim-on-free off|on; thorough adds a
    PRNG sample of 400 orders with 4 workers.  kinds: the oracle kinds the calling property reports."""
    exe = os.path.join(vlib.BUILD, "t_exitorder_%s" % pid)
    ok, txt, cmd = vlib.cc(os.path.join(vlib.HARN, "t_exitorder.c"), exe)
    if not ok:
        res.violation("harness-build", "harness/t_exitorder.c no longer compiles against the current tree: " + txt[-1200:]); return None
    stats = collections.Counter(); seen = set()
    # 4th component `partial`: F<i> frees all but the last block of worker i, so an adopted segment keeps a live block that a stale
    # entry of the abandoned lists would show to mi_abandoned_visit_blocks (seed C09e: the unlink of a MIDDLE element of the OS list)
    confs = [(na, rof, 3, pt) for na in (0, 1) for rof in (0, 1) for pt in (0, 1)] + ([(na, rof, 4, pt) for na in (0, 1) for rof in (0, 1) for pt in (0, 1)] if tier == "thorough" else [])
    def one(c):
        rc, out, err = vlib.run_split([exe, str(c[0]), str(c[1]), str(c[2]), str(seed), str(c[3])], timeout=600, env=vlib.clean_env())
        return c, rc, out, err
    with concurrent.futures.ThreadPoolExecutor(max_workers=8) as ex:
        for c, rc, out, err in ex.map(one, confs):
            lines = out.splitlines()
            cfg = "no_arena=%d reclaim_on_free=%d workers=%d partial=%d" % c
            if rc != 0 or not lines or lines[-1] != "END":
                last = [l for l in lines if l.startswith("T fail")][-1:] or ["(no failure record)"]
                res.violation("impl:order-crash", "t_exitorder (%s) exited with %d before finishing: %s %s" % (cfg, rc, last[0][:300], err[-300:]),
                              witness="t_exitorder %d %d %d %d %d" % (c[0], c[1], c[2], seed, c[3]))
                continue
            for l in lines:
                if l.startswith("T sum"):
                    m = re.search(r'orders=(\d+)', l); stats["orders"] += int(m.group(1)) if m else 0
                elif l.startswith("T fail "):
                    kind = l.split()[2]; stats["fail:" + kind] += 1
                    if kind in kinds and kind not in seen:
                        seen.add(kind)
                        order = re.search(r'order=(\S+)', l).group(1)
                        res.violation("impl:order-" + kind, "thread exit / adoption order %s (%s): %s" % (order, cfg, l.split(" : ", 1)[-1][:400]),
                                      witness="t_exitorder %d %d %d %d %d  (events: E<i> = worker i terminates, F<i> = the main thread frees worker i's blocks -- all but the last one when partial=1) order %s"
                                              % (c[0], c[1], c[2], seed, c[3], order))
    res.cov["evaluations"] += stats["orders"]; res.cov["traces_validated_against_impl"] += stats["orders"]; res.cov["distinct_nontrivial"] += stats["orders"]
    res.cov.setdefault("input_distribution", {})["exit_orders"] = dict(stats)
    return stats
