#!/usr/bin/env python3
"""First-class heap layer correspondence (property C10, sequential part).

run_on_outputs(res, outputs, exe=None, own_traces=True) -> stats
    outputs: dict  trace path -> stdout text of a harness/t_api.c run (with page dumps on).
    With own_traces the full_trace traces (below) are generated and run too, on `exe` (default build/t_api).
    Replays the heap dumps (HQ / HOP lines) against the extracted Coq model (ocaml mode "heap",
    coq/Model/Heap.v): Heap.heap_inv_b on every dump, and on every mi_heap_delete / mi_heap_destroy the
    after-dump must be exactly Heap.heap_delete / Heap.heap_destroy of the before-dump (see
    ocaml/mode_heap.ml for the treatment of the descriptor free).
    A disagreement is reported as res.violation("corr:heap", ..., witness=None): the failing *input* is
    found by the implementation-side oracles of harness/t_api.c (kinds owner / heap / content / crash),
    which the caller reports; this function only adds the model tie.
full_trace(seed, rounds) -> list of trace lines
    a heap-lifecycle trace aimed at the case splits of the proofs: several heaps, bursts of equal-size
    blocks so that pages fill up and are moved to the FULL queue, partial frees (unfull), then delete /
    destroy of a heap that owns full pages, ownership queries (K) and frees of migrated blocks afterwards.
run(res, seed, tier) -> stats
    builds the harness from /repo's current tree, runs gen_trace `heaps` traces and full_trace traces,
    reports the harness' own oracle violations of the C10 kinds with the trace as witness, then
    run_on_outputs.
Stand-alone:  tools/heapmodel.py [seed] [tier] [harness exe name]   (VERIF_REPO selects the tree)"""
import os, sys, re, random, collections, concurrent.futures
sys.path.insert(0, os.path.dirname(os.path.abspath(__file__)))
import vlib

STAT_KEYS = ("dumps", "invariants", "extended_dumps", "hops", "delete", "destroy", "exact", "nonempty_victims", "desc_none",
             "desc_retired", "desc_unfull", "pages_migrated", "full_pages_migrated", "pages_destroyed", "default_fallbacks")


def full_trace(seed, rounds=6):
    r = random.Random("heapfull-%d" % seed)
    lines = []
    live = {}                       # slot -> heap
    free_slots = list(range(3900, -1, -1))
    heaps = {0}
    cur = 0

    def alloc(h, size):
        if not free_slots or len(live) > 3000:
            return
        s = free_slots.pop()
        lines.append("%s %d %d %d" % (r.choice(["M", "M", "Z"]), h, s, size))
        live[s] = h

    def free(s):
        lines.append("F %d" % s)
        del live[s]
        free_slots.append(s)

    for _ in range(rounds):
        for _ in range(r.randint(1, 3)):
            cand = [x for x in range(1, 8) if x not in heaps]
            if not cand:
                break
            h = r.choice(cand)
            lines.append("HN %d" % h)
            heaps.add(h)
        if r.random() < 0.5:
            cur = r.choice(sorted(heaps))
            lines.append("HS %d" % cur)
        # bursts of equal-size blocks: pages of 8 .. 64 blocks fill up and go to the FULL queue
        for h in r.sample(sorted(heaps), min(len(heaps), r.randint(2, 4))):
            for _ in range(r.randint(1, 3)):
                size = r.choice([1024, 2048, 3000, 3080, 4096, 8192, 16000, 30000, 60000, 100, 48])
                per_page = max(1, (65536 if size <= 8192 else 524288) // size)
                n = min(per_page * r.randint(1, 3) + r.randint(0, 3), 200)
                for _ in range(n):
                    alloc(h, size)
        # partial frees: some full pages come back to their size-class queue, some pages empty completely
        # (frees come in runs of consecutively allocated blocks, so that many full pages stay untouched)
        order = sorted(live)
        victims = []
        i = 0
        while i < len(order):
            run = r.randint(1, 40)
            if r.random() < 0.2:
                victims += order[i:i + run]
            i += run
        for s in victims:
            free(s)
        for s in r.sample(sorted(live), min(len(live), 6)):
            lines.append("K %d" % s)
        # delete / destroy
        for _ in range(r.randint(1, 2)):
            cand = sorted(heaps - {0})
            if not cand:
                break
            h = r.choice(cand)
            destroy = r.random() < 0.4
            lines.append("%s %d" % ("HX" if destroy else "HD", h))
            heaps.discard(h)
            if cur == h:
                cur = 0
            for s in [s for s in live if live[s] == h]:
                if destroy:
                    del live[s]
                    free_slots.append(s)
                else:
                    live[s] = 0
        for s in r.sample(sorted(live), min(len(live), 10)):
            lines.append("K %d" % s)
        for h in sorted(heaps):
            if r.random() < 0.5:
                lines.append("W %d" % h)
        # frees of migrated blocks (they must be individually freeable) and collects
        order = sorted(live)
        i = 0
        while i < len(order):
            run = r.randint(1, 30)
            if r.random() < 0.25:
                for s in order[i:i + run]:
                    free(s)
            i += run
        if r.random() < 0.4:
            lines.append("HC %d %d" % (r.choice(sorted(heaps)), r.randrange(2)))
    for h in sorted(heaps - {0}):
        lines.append("HD %d" % h)
    for s in sorted(live):
        lines.append("K %d" % s)
    lines.append("W 0")
    for s in sorted(live):
        lines.append("F %d" % s)
    lines.append("CHK")
    return lines


def extra_outputs(res, exe, seed, tier="quick"):
    """run full_trace traces (pages in the FULL queue of the deleted / destroyed heap, descriptor page retired or
    unfulled) on the harness `exe`; oracle violations of the C10 kinds are reported with the trace as witness.
    returns {trace path: stdout}"""
    import apitrace
    thorough = (tier == "thorough")
    tdir = os.path.join(vlib.BUILD, "traces", "heapmodel_%s" % res.pid)
    os.makedirs(tdir, exist_ok=True)
    outs = {}
    kinds = apitrace.KINDS["C10"]
    jobs = []
    for i in range(10 if thorough else 4):
        sd = seed * 1000 + i
        lines = full_trace(sd, 8 if thorough else 5)
        path = os.path.join(tdir, "heapfull_%d.trace" % sd)
        open(path, "w").write("\n".join(lines) + "\n")
        jobs.append((path, lines))
    with concurrent.futures.ThreadPoolExecutor(max_workers=int(vlib.JOBS)) as ex:
        results = list(ex.map(lambda j: apitrace.run_one(exe, j[0], True, 300), jobs))
    for (path, lines), (rc, out, err) in zip(jobs, results):
        v, ended = apitrace.parse(rc, out)
        outs[path] = out
        seen = set()
        for op, kind, text in v:
            if kind in kinds and kind not in seen:
                seen.add(kind)
                res.violation("impl:" + kind, "%s (trace %s, op %d): %s" % (kind, os.path.basename(path), op, text),
                              witness="# trace for harness/t_api.c (replay: tools/check C10 --replay <this file>)\n# oracle: %s %s\n%s" % (kind, text, "\n".join(lines[:op + 2] if kind != "crash" else lines)),
                              replay_name="C10_%s_%s" % (kind, os.path.basename(path)))
        res.cov["traces_validated_against_impl"] = res.cov.get("traces_validated_against_impl", 0) + 1
        res.cov["evaluations"] = res.cov.get("evaluations", 0) + len(lines)
    d = res.cov.setdefault("input_distribution", {})
    d["heapfull_traces"] = len(jobs)
    d["heapfull_ops"] = sum(len(l) for _, l in jobs)
    return outs


def run_on_outputs(res, outputs, exe=None, own_traces=True):
    """outputs: {trace path: stdout of t_api}.  With own_traces (default) the full_trace traces are run as well on
    `exe` (default: build/t_api, which the caller has just built from the current tree)."""
    stats = collections.Counter()
    okb, txt = vlib.ocaml_build()
    if not okb:
        res.violation("model-build", "extracted model does not build: " + txt[-1200:])
        return dict(stats)
    outputs = dict(outputs)
    if own_traces:
        exe = exe or os.path.join(vlib.BUILD, "t_api")
        if os.path.exists(exe):
            outputs.update(extra_outputs(res, exe, getattr(res, "seed", 1), getattr(res, "tier", "quick")))
    mism = []

    def rp(path):
        text = "\n".join(l for l in outputs[path].splitlines() if l.startswith("H"))
        rc, mout = vlib.model_replay("heap", text + "\n")
        return path, rc, mout
    with concurrent.futures.ThreadPoolExecutor(max_workers=int(vlib.JOBS)) as ex:
        for path, rc, mout in ex.map(rp, sorted(outputs)):
            stats["traces"] += 1
            done = False
            for l in mout.splitlines():
                if l.startswith("MISMATCH"):
                    mism.append((path, l))
                elif l.startswith("DONE"):
                    done = True
                elif l.startswith("STATS heap"):
                    for kv in l.split()[2:]:
                        a, b = kv.split("=")
                        stats[a] += int(b)
            if rc != 0 or not done:
                mism.append((path, "MISMATCH model replay (mode heap) crashed: " + mout[-300:]))
    stats["model_mismatches"] = len(mism)
    if mism:
        path, l = mism[0]
        res.violation("corr:heap", "heap model (Model/Heap.v) and implementation disagree in %d records, first: %s (trace %s)" % (len(mism), l[:1500], path), witness=None)
    res.cov["heap_layer"] = {k: stats.get(k, 0) for k in STAT_KEYS + ("traces", "model_mismatches")}
    res.cov["disagreements_checked"] = res.cov.get("disagreements_checked", 0) + len(mism)
    res.cov["evaluations"] = res.cov.get("evaluations", 0) + stats["invariants"] + stats["hops"]
    return dict(stats)


def run(res, seed, tier="quick", name="t_api"):
    """stand-alone driver: build the harness, gen_trace `heaps` traces + full_trace traces, oracles + model replay"""
    import apitrace, gen_trace
    exe = apitrace.build(res, name=name)
    if exe is None:
        return {}
    thorough = (tier == "thorough")
    outs = {}
    apitrace.run_traces(res, "C10", [("heaps", 12 if thorough else 4, 600 if thorough else 300)], seed, dump=True, exe=exe, keep_outputs=outs)
    return run_on_outputs(res, outs, exe=exe)


if __name__ == "__main__":
    seed = int(sys.argv[1]) if len(sys.argv) > 1 else 1
    tier = sys.argv[2] if len(sys.argv) > 2 else "quick"
    r = vlib.Result("C10heap", tier, seed)
    st = run(r, seed, tier, name=(sys.argv[3] if len(sys.argv) > 3 else "t_api"))
    for k in sorted(st):
        print("%-24s %d" % (k, st[k]))
    for k, p, w, t in r.violations:
        print("VIOLATION %s witness=%s :: %s" % (k, "yes" if w else w, t[:700]))
    print("violations:", len(r.violations))
    sys.exit(1 if r.violations else 0)
