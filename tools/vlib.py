#!/usr/bin/env python3
"""Common machinery of the /verif checks (see DESIGN.md section 2.4).

Every check:  gen (translator) -> make (Coq proofs) -> gate -> correspondence on /repo -> evidence.
"""
import os, sys, re, json, time, subprocess, fcntl, hashlib, shutil, random

VERIF = os.path.dirname(os.path.dirname(os.path.abspath(__file__)))
REPO = os.environ.get("VERIF_REPO", "/repo")
BUILD = os.environ.get("VERIF_BUILD") or os.path.join(VERIF, "build")   # harness binaries, traces, replay files, extracted model
# The Coq tree.  Checks of /repo share <verif>/coq (one lock for everybody).  A check of ANOTHER source tree (VERIF_REPO set:
# a seeded change in a scratch worktree) gets a private copy under its VERIF_BUILD: regenerating Gen/*.v from a mutated tree must
# not disturb the theorems other checks are building at the same time, and vice versa.
PRIVATE_COQ = bool(os.environ.get("VERIF_BUILD")) and os.path.realpath(REPO) != "/repo"
COQ = os.path.join(BUILD, "coq") if PRIVATE_COQ else os.path.join(VERIF, "coq")
LOCKDIR = BUILD if PRIVATE_COQ else os.path.join(VERIF, "build")
OCAML = os.path.join(BUILD, "ocaml")
EVID = os.environ.get("VERIF_EVIDENCE") or os.path.join(VERIF, "evidence")
REPLAY = os.path.join(BUILD, "replay")
HARN = os.path.join(VERIF, "harness")
JOBS = str(os.cpu_count() or 8)

for d in (BUILD, OCAML, EVID, REPLAY, LOCKDIR):
    os.makedirs(d, exist_ok=True)
if PRIVATE_COQ and not os.path.exists(os.path.join(COQ, "_CoqProject")):
    # copy the shared tree (sources and compiled files, time stamps kept) while nobody is building in it
    _lf = open(os.path.join(VERIF, "build", ".build.lock"), "w"); fcntl.flock(_lf, fcntl.LOCK_EX)
    try:
        subprocess.run(["cp", "-a", os.path.join(VERIF, "coq"), COQ], check=True)
    finally:
        fcntl.flock(_lf, fcntl.LOCK_UN); _lf.close()

# release configuration of the pinned suite (DESIGN.md section 0)
CFLAGS_REL = ["-O1", "-g", "-DNDEBUG", "-DMI_BUILD_RELEASE", "-std=gnu11", "-Wno-unused-function",
              "-Wno-unused-variable", "-Wno-attributes", "-fno-builtin-malloc"]
INC = ["-I" + os.path.join(REPO, "include"), "-I" + os.path.join(REPO, "src"),
       "-DREPO_STATIC=\"%s\"" % os.path.join(REPO, "src", "static.c"), "-I" + HARN]


def log(*a):
    print(*a, flush=True)


def _limits():
    """resource limits for every child process: 48 GiB of address space (a runaway harness must not take the machine down)"""
    import resource
    try:
        resource.setrlimit(resource.RLIMIT_AS, (48 << 30, 48 << 30))
    except Exception:
        pass


def run(cmd, timeout=600, cwd=None, env=None, input=None):
    """run a command, return (rc, stdout+stderr text); never raises on failure/timeout"""
    try:
        p = subprocess.run(cmd, cwd=cwd, env=env, input=input, stdout=subprocess.PIPE, preexec_fn=_limits,
                           stderr=subprocess.STDOUT, timeout=timeout, text=True, errors="replace")
        return p.returncode, p.stdout
    except subprocess.TimeoutExpired as e:
        out = e.stdout or ""
        if isinstance(out, bytes):
            out = out.decode(errors="replace")
        return 124, out + "\n[timeout after %ss]" % timeout


def run_split(cmd, timeout=600, cwd=None, env=None, input=None):
    """like run, but stdout and stderr separately: (rc, out, err)"""
    try:
        p = subprocess.run(cmd, cwd=cwd, env=env, input=input, stdout=subprocess.PIPE, preexec_fn=_limits,
                           stderr=subprocess.PIPE, timeout=timeout, text=True, errors="replace")
        return p.returncode, p.stdout, p.stderr
    except subprocess.TimeoutExpired as e:
        o = e.stdout or ""
        if isinstance(o, bytes):
            o = o.decode(errors="replace")
        return 124, o, "[timeout after %ss]" % timeout


class Lock:
    """serialises gen/make/ocaml builds when several checks run concurrently"""
    def __init__(self, name="build"):
        self.path = os.path.join(LOCKDIR, "." + name + ".lock")
    def __enter__(self):
        self.f = open(self.path, "w")
        fcntl.flock(self.f, fcntl.LOCK_EX)
        return self
    def __exit__(self, *a):
        fcntl.flock(self.f, fcntl.LOCK_UN)
        self.f.close()


def write_if_changed(path, content):
    try:
        if open(path).read() == content:
            return False
    except FileNotFoundError:
        pass
    os.makedirs(os.path.dirname(path), exist_ok=True)
    tmp = path + ".tmp%d" % os.getpid()
    open(tmp, "w").write(content)
    os.replace(tmp, path)
    return True


def clean_env():
    env = {k: v for k, v in os.environ.items() if not k.startswith("MIMALLOC_")}
    env["LC_ALL"] = "C"
    return env


# ------------------------------------------------------------------------------------------
# Tie 1: translators
# ------------------------------------------------------------------------------------------
def cc(src, out, extra=(), timeout=300, cflags=None, compiler="gcc"):
    cmd = [compiler] + (CFLAGS_REL if cflags is None else list(cflags)) + INC + list(extra) + \
          [src, "-o", out, "-lpthread"]
    rc, txt = run(cmd, timeout=timeout)
    return rc == 0, txt, " ".join(cmd)


def corpus_programs(res, pid, keys=None):
    """corpus/<pid>/*.c: stored witness programs of repaired defects / known findings (public API only), rebuilt against the
    current tree and run; a non-zero exit or a crash means the defect reproduces: violation with key keys[name] (default
    impl:corpus:<name>), which known_findings.txt may list.  Returns the number of programs run."""
    cdir = os.path.join(VERIF, "corpus", pid)
    n = 0
    for name in sorted(os.listdir(cdir)) if os.path.isdir(cdir) else []:
        if not name.endswith(".c"):
            continue
        exe = os.path.join(BUILD, "corpus_%s_%s" % (pid, name[:-2]))
        rc, txt = run(["gcc"] + CFLAGS_REL + INC + [os.path.join(cdir, name), os.path.join(REPO, "src", "static.c"), "-o", exe, "-lpthread"], timeout=300)
        if rc != 0:
            res.violation("corpus-build:" + name, "corpus program %s no longer builds: %s" % (name, txt[-600:]))
            continue
        rc, out, err = run_split([exe], timeout=120, env=clean_env())
        n += 1
        if rc != 0:
            key = (keys or {}).get(name, "impl:corpus:" + name[:-2])
            res.violation(key, "corpus/%s/%s reproduces (exit %d): %s" % (pid, name, rc, out.strip()[-300:]), witness="corpus/%s/%s" % (pid, name))
    res.cov.setdefault("input_distribution", {})["corpus_programs"] = n
    return n


def gen(with_override=False):
    """regenerate coq/Gen/*.v from REPO; returns (ok, message, changed_files)"""
    with Lock():
        exe = os.path.join(BUILD, "gen_dump")
        ok, txt, cmd = cc(os.path.join(HARN, "gen_dump.c"), exe)
        if not ok:
            return False, "translator harness/gen_dump.c no longer compiles against %s:\n%s" % (REPO, txt[-3000:]), []
        rc, out, err = run_split([exe], timeout=60, env={"PATH": os.environ.get("PATH", "")})
        if rc != 0:
            return False, "gen_dump exited %d: %s" % (rc, err[-2000:]), []
        files, cur = {}, None
        for line in out.splitlines():
            if line.startswith("@@FILE "):
                cur = line[7:].strip(); files[cur] = []
            elif cur is not None:
                files[cur].append(line)
        changed = []
        for name, lines in files.items():
            if write_if_changed(os.path.join(COQ, "Gen", name), "\n".join(lines) + "\n"):
                changed.append(name)
        # further generators (python side).  A failure of the override-table generator only concerns
        # property C19: it is recorded and reported by that check (a stub keeps the build going).
        if with_override:
            try:
                import gen_override
                ok2, msg2, ch2 = gen_override.generate()
                if not ok2:
                    return False, msg2, changed
                changed += ch2
            except ImportError:
                pass
        # --- c2g: source-to-Gallina translator (tools/c2gallina.py): Gen/Funcs.v + Gen/FuncsCheck.v from clang's AST of
        # REPO/src/static.c.  Written only when the content changed (make stays incremental).  A function that can no
        # longer be translated is not a gen failure: it becomes a stub and is reported by the C16 check
        # (build/c2g_report.json); generate() never raises.
        try:
            import c2gallina
            ok3, msg3, ch3 = c2gallina.generate()
            changed += ["Gen/" + c for c in ch3]
        except ImportError:
            pass
        # --- end c2g
        return True, "", changed


# ------------------------------------------------------------------------------------------
# Coq build
# ------------------------------------------------------------------------------------------
def coq_makefile():
    """(re)generate coq/Makefile from coq/_CoqProject, listing only the .v files that exist
    (several builders register files before they have written them)"""
    mk = os.path.join(COQ, "Makefile")
    cp = os.path.join(COQ, "_CoqProject")
    lines = open(cp).read().splitlines()
    keep = [l for l in lines if not l.strip().endswith(".v") or os.path.exists(os.path.join(COQ, l.strip()))]
    gen = "\n".join(keep) + "\n"
    gp = os.path.join(COQ, ".CoqProject.existing")
    changed = write_if_changed(gp, gen)
    if changed or not os.path.exists(mk):
        rc, txt = run(["coq_makefile", "-f", ".CoqProject.existing", "-o", "Makefile"], cwd=COQ)
        if rc != 0:
            raise RuntimeError("coq_makefile failed: " + txt)


def coq_make(targets, timeout=3000):
    """make -k the given .vo targets (relative to coq/); returns (ok, log, cmd)"""
    with Lock():
        coq_makefile()
        cmd = ["make", "-k", "-j" + JOBS] + list(targets)
        rc, txt = run(["timeout", str(timeout)] + cmd, cwd=COQ, timeout=timeout + 30)
        return rc == 0, txt, "cd coq && " + " ".join(cmd)


GOLDEN = os.path.join(VERIF, "build", "coq_golden")


def _source_signature(root):
    """names and contents of the hand-written .v files (everything except Gen/ and the generated Extract/All.v)"""
    h = hashlib.sha256()
    for d, _, files in sorted(os.walk(root)):
        if os.path.basename(d) in ("Gen", "extracted", "extracted_all"): continue
        for f in sorted(files):
            if f.endswith(".v") and not (f == "All.v" and os.path.basename(d) == "Extract"):
                pth = os.path.join(d, f)
                h.update(os.path.relpath(pth, root).encode()); h.update(open(pth, "rb").read())
    return h.hexdigest()


def golden_save():
    """tools/setup: keep a copy of the freshly compiled tree (sources, Gen files and .vo with their time stamps)"""
    with Lock():
        rc, txt = run(["rsync", "-a", "--delete", "--exclude", "extracted_all", "--exclude", "extracted", COQ + "/", GOLDEN + "/"], timeout=900)
        if rc == 0:
            open(GOLDEN + ".stamp", "w").write(_source_signature(COQ))
        return rc == 0, txt


def golden_restore():
    """After a run on a CHANGED source tree (Gen/*.v regenerated differently, dependent .vo rebuilt or broken) the next run on the
    original tree would have to recompile everything that depends on the Gen files (up to 25 minutes).  When the hand-written
    sources are exactly those of the saved copy and the regenerated Gen files have the saved contents again, the compiled files
    of the saved copy are still valid: put them (and the Gen files with their old time stamps) back instead of recompiling.
    Nothing is restored when any source or Gen file differs; make then decides as usual."""
    if PRIVATE_COQ or not os.path.exists(GOLDEN + ".stamp"):
        return False
    try:
        gdir = os.path.join(GOLDEN, "Gen")
        names = sorted(f for f in os.listdir(gdir) if f.endswith(".v"))
        stale = False
        for f in names:
            cur = os.path.join(COQ, "Gen", f)
            if not os.path.exists(cur) or open(cur, "rb").read() != open(os.path.join(gdir, f), "rb").read():
                return False                                  # a Gen file really differs: the theorems must be re-checked
            if os.path.getmtime(cur) != os.path.getmtime(os.path.join(gdir, f)): stale = True
        if not stale:
            return False                                      # nothing was regenerated since the copy was made
        if open(GOLDEN + ".stamp").read() != _source_signature(COQ):
            return False                                      # hand-written sources were edited after setup
        with Lock():
            rc, txt = run(["rsync", "-a", "--include", "*/", "--include", "*.vo", "--include", "*.vos", "--include", "*.vok", "--include", "*.glob",
                           "--include", ".*.aux", "--include", "Gen/*.v", "--exclude", "*", GOLDEN + "/", COQ + "/"], timeout=900)
        return rc == 0
    except OSError:
        return False


def coq_first_error(logtxt):
    """extract (file, line, message) of the first Coq error in a make log"""
    m = re.search(r'File "\./([^"]+)", line (\d+), characters [^\n]*\nError:\s*((?:.|\n){0,600})', logtxt)
    if m:
        return m.group(1), int(m.group(2)), m.group(3).strip()
    return None


def enclosing_statement(vfile, line):
    """name of the Theorem/Lemma/Definition that contains `line` of coq/<vfile>"""
    try:
        lines = open(os.path.join(COQ, vfile)).read().splitlines()
    except OSError:
        return None
    for i in range(min(line, len(lines)) - 1, -1, -1):
        m = re.match(r'\s*(?:Local\s+|Global\s+)?(Theorem|Lemma|Example|Corollary|Definition|Fixpoint|Fact|Remark|Instance)\s+([A-Za-z0-9_\']+)', lines[i])
        if m:
            return m.group(2)
    return None


def property_file_theorems(pid):
    path = os.path.join(COQ, "Properties", pid + ".v")
    txt = open(path).read()
    return re.findall(r'^\s*(?:Theorem|Example|Corollary)\s+([A-Za-z0-9_\']+)', txt, re.M)


def check_property_file(pid):
    """compile Properties/<pid>.v directly (cheap: only `exact`s) and capture Print Assumptions.
    returns (ok, theorems, assumptions(dict name->text), log, cmd)"""
    vfile = "Properties/%s.v" % pid
    cmd = ["coqc", "-Q", ".", "MiV", vfile]
    with Lock():
        rc, out = run(["timeout", "600"] + cmd, cwd=COQ, timeout=630)
    thms = property_file_theorems(pid)
    assum = {}
    if rc == 0:
        # output is a sequence of Print Assumptions results in file order
        blocks = re.split(r'(?=^Closed under the global context|^Axioms:)', out, flags=re.M)
        blocks = [b.strip() for b in blocks if b.strip()]
        pa = re.findall(r'Print Assumptions\s+([A-Za-z0-9_\']+)', open(os.path.join(COQ, vfile)).read())
        for n, b in zip(pa, blocks):
            assum[n] = b
    return rc == 0, thms, assum, out, "cd coq && " + " ".join(cmd)


FORBIDDEN = r'\b(Admitted|admit|Axiom|Axioms|Parameter|Parameters|Conjecture|Conjectures|Hypothesis|Hypotheses|Variable|Variables|give_up)\b|Unset\s+Guard|bypass_check|Admit\s+Obligations|-type-in-type|-impredicative-set|Unset\s+Universe\s+Checking|Unset\s+Positivity'


def strip_coq_comments(s):
    out, depth, i = [], 0, 0
    while i < len(s):
        if s.startswith("(*", i):
            depth += 1; i += 2
        elif s.startswith("*)", i) and depth > 0:
            depth -= 1; i += 2
        else:
            if depth == 0:
                out.append(s[i])
            elif s[i] == "\n":
                out.append("\n")
            i += 1
    return "".join(out)


def grep_gate():
    """no Admitted/admit/Axiom/Parameter/... anywhere in the development.  `Variable`/`Hypothesis`
    are allowed only inside a Section (checked syntactically: between Section and End)."""
    bad = []
    for root, _, files in os.walk(COQ):
        for f in files:
            if not f.endswith(".v") or f.startswith("."):
                continue
            p = os.path.join(root, f)
            src = strip_coq_comments(open(p).read())
            # remove string literals
            src_ns = re.sub(r'"(?:[^"]|"")*"', '""', src)
            depth = 0
            for ln, line in enumerate(src_ns.splitlines(), 1):
                if re.match(r'\s*Section\s+\w+', line):
                    depth += 1
                for m in re.finditer(FORBIDDEN, line):
                    w = m.group(0)
                    if w.split()[0] in ("Variable", "Variables", "Hypothesis", "Hypotheses") and depth > 0:
                        continue
                    bad.append("%s:%d: %s" % (os.path.relpath(p, VERIF), ln, line.strip()))
                if re.match(r'\s*End\s+\w+', line) and depth > 0:
                    depth -= 1
    for f in ("_CoqProject",):
        t = open(os.path.join(COQ, f)).read()
        if re.search(r'type-in-type|impredicative-set|-vos|-vok', t):
            bad.append("coq/_CoqProject: forbidden flag")
    return bad


# ------------------------------------------------------------------------------------------
# extracted model (OCaml)
# ------------------------------------------------------------------------------------------
def ocaml_build():
    """Extract/Extract.vo writes coq/extracted/*.ml(i) (Separate Extraction); compile them with the
    hand-written drivers of ocaml/ into build/ocaml/replay"""
    os.makedirs(os.path.join(COQ, "extracted_all"), exist_ok=True)
    # Separate Extraction writes only the needed part of each library module, so several
    # extraction commands would overwrite each other's BinNums.ml etc.: merge the item lists of all
    # Extract/Extract*.v files into ONE generated command (Extract/All.v).
    imports, items = [], []
    for f in sorted(os.listdir(os.path.join(COQ, "Extract"))):
        if not (f.startswith("Extract") and f.endswith(".v")):
            continue
        src = strip_coq_comments(open(os.path.join(COQ, "Extract", f)).read())
        for m in re.finditer(r'^[ \t]*From[ \t]+MiV[ \t]+Require[ \t]+Import[ \t]+(.+)\.[ \t]*$', src, re.M):
            for mod in m.group(1).split():
                if mod not in imports:
                    imports.append(mod)
        m = re.search(r'Separate\s+Extraction\s+(.*?)\.\s', src, re.S)
        if m:
            for it in m.group(1).split():
                if it not in items:
                    items.append(it)
    allv = ("(* GENERATED by tools/vlib.py from Extract/Extract*.v -- one extraction command for all models *)\n"
            "From Coq Require Import Extraction ExtrOcamlBasic NArith ZArith List.\n"
            "From MiV Require Import %s.\nExtraction Language OCaml.\nCd \"extracted_all\".\nSeparate Extraction\n  %s.\nCd \"..\".\n"
            % (" ".join(imports), "\n  ".join(items)))
    if write_if_changed(os.path.join(COQ, "Extract", "All.v"), allv):
        for f in os.listdir(os.path.join(COQ, "extracted_all")):
            os.remove(os.path.join(COQ, "extracted_all", f))
    lines = open(os.path.join(COQ, "_CoqProject")).read().splitlines()
    if "Extract/All.v" not in lines:
        open(os.path.join(COQ, "_CoqProject"), "a").write("Extract/All.v\n")
    # the extracted code contains the generated tables and functions: it is stale whenever a Gen file differs from the one it was
    # extracted from (make cannot see that when compiled files were put back from the saved copy), so the extraction is stamped
    gh = hashlib.sha1(allv.encode())
    for f in sorted(os.listdir(os.path.join(COQ, "Gen"))):
        if f.endswith(".v"):
            gh.update(f.encode()); gh.update(open(os.path.join(COQ, "Gen", f), "rb").read())
    gstamp = os.path.join(COQ, "extracted_all", ".gen_stamp")
    if not (os.path.exists(gstamp) and open(gstamp).read() == gh.hexdigest()):
        for f in os.listdir(os.path.join(COQ, "extracted_all")):
            os.remove(os.path.join(COQ, "extracted_all", f))
    if not [f for f in os.listdir(os.path.join(COQ, "extracted_all")) if f.endswith(".ml")]:
        try: os.remove(os.path.join(COQ, "Extract", "All.vo"))
        except OSError: pass
    ok, txt, cmd = coq_make(["Extract/All.vo"])
    if not ok:
        return False, txt
    open(gstamp, "w").write(gh.hexdigest())
    with Lock():
        ext = os.path.join(COQ, "extracted_all")
        names = set()
        for f in os.listdir(ext):
            if f.endswith((".ml", ".mli")):
                write_if_changed(os.path.join(OCAML, f), open(os.path.join(ext, f)).read()); names.add(f)
        for f in os.listdir(os.path.join(VERIF, "ocaml")):
            if f.endswith(".ml"):
                write_if_changed(os.path.join(OCAML, f), open(os.path.join(VERIF, "ocaml", f)).read()); names.add(f)
        for f in os.listdir(OCAML):
            if f.endswith((".ml", ".mli")) and f not in names:
                os.remove(os.path.join(OCAML, f))
        stamp = os.path.join(OCAML, ".stamp")
        h = hashlib.sha1()
        for f in sorted(names):
            h.update(f.encode()); h.update(open(os.path.join(OCAML, f), "rb").read())
        digest = h.hexdigest()
        if os.path.exists(stamp) and open(stamp).read() == digest and os.path.exists(os.path.join(OCAML, "replay")):
            return True, ""
        rc, order = run(["ocamlfind", "ocamldep", "-sort"] + sorted(names), cwd=OCAML, timeout=120)
        if rc != 0:
            return False, order
        order = [f for f in order.split() if f != "replay.ml"] + ["replay.ml"]   # main last: mode modules register first
        rc, txt = run(["ocamlfind", "ocamlopt", "-inline", "50", "-w", "-a", "-o", "replay"] + order,
                      cwd=OCAML, timeout=900)
        if rc != 0:
            return False, txt
        open(stamp, "w").write(digest)
        return True, ""


def model_replay(mode, text, timeout=900):
    """run the extracted model driver: `replay <mode>` reading `text`; returns (rc, stdout)"""
    rc, out, err = run_split([os.path.join(OCAML, "replay"), mode], input=text, timeout=timeout)
    return rc, out + (("\n[stderr] " + err) if err.strip() else "")


# ------------------------------------------------------------------------------------------
# known findings
# ------------------------------------------------------------------------------------------
def known_findings(pid):
    """entries of known_findings.txt for property pid: list of (key, description)"""
    res = []
    p = os.path.join(VERIF, "known_findings.txt")
    if not os.path.exists(p):
        return res
    for line in open(p):
        line = line.strip()
        m = re.match(r'known:\s*property=(\S+)\s+key=(\S+)\s+(.*)', line)
        if m and m.group(1) == pid:
            res.append((m.group(2), m.group(3)))
    return res


# ------------------------------------------------------------------------------------------
# result object
# ------------------------------------------------------------------------------------------
class Result:
    def __init__(self, pid, tier, seed):
        self.pid, self.tier, self.seed = pid, tier, seed
        self.t0 = time.time()
        self.violations = []       # (key, replay_path, has_witness, text)
        self.known_hit = []
        self.cov = {"evaluations": 0, "distinct_nontrivial": 0, "rule": "", "samples": [],
                    "obligations": 0, "discharged": 0, "checker_cmd": "", "trusted_base": [],
                    "traces_validated_against_impl": 0, "disagreements_checked": 0}
        self.assumptions = []
        self.level = "proof"

    def add_samples(self, samples, limit=8):
        for s in samples:
            if len(self.cov["samples"]) < limit:
                self.cov["samples"].append(s)

    def violation(self, key, text, witness=None, replay_name=None):
        """record a violation. `key` identifies the failing call site/input (matched against
        known_findings.txt).  witness: a concrete failing input (str) or None."""
        for k, desc in known_findings(self.pid):
            if k == key:
                if key not in [x[0] for x in self.known_hit]:
                    self.known_hit.append((key, desc))
                    log("KNOWN-FINDING: property=%s %s" % (self.pid, desc))
                return
        if key in [v[0] for v in self.violations]:
            return   # one report per failing site
        name = replay_name or ("%s_%s_%d.txt" % (self.pid, re.sub(r'[^A-Za-z0-9_.-]', '_', key)[:60], len(self.violations)))
        path = os.path.join(REPLAY, name)
        with open(path, "w") as f:
            f.write("property=%s\nkey=%s\nseed=%d\ntier=%s\n" % (self.pid, key, self.seed, self.tier))
            f.write("what=%s\n" % text)
            if witness is None:
                f.write("witness=none (no-failing-input-found)\n")
            else:
                f.write("witness:\n%s\n" % witness)
        self.violations.append((key, path, witness is not None, text))

    def sanitize(self):
        """keep the evidence file valid against EVIDENCE.schema.json whatever a property module put in"""
        c = self.cov
        if "exhaustive" in c and not isinstance(c["exhaustive"], bool):
            c["exhaustive_note"] = str(c["exhaustive"]); c["exhaustive"] = False
        for k in ("evaluations", "distinct_nontrivial", "states", "transitions", "traces_validated_against_impl", "obligations",
                  "discharged", "programs", "disagreements_checked"):
            if k in c:
                try: c[k] = max(0, int(c[k]))
                except Exception: c[k] = 0
        for k in ("rule", "checker_cmd", "explanation"):
            if k in c and not isinstance(c[k], str): c[k] = str(c[k])
        if not isinstance(c.get("samples"), list): c["samples"] = [str(c.get("samples"))]
        if not c["samples"]: c["samples"] = ["(no sample recorded)"]
        if not isinstance(c.get("trusted_base"), list): c["trusted_base"] = [str(c.get("trusted_base"))]
        c["trusted_base"] = [str(x) for x in c["trusted_base"]]
        self.assumptions = [str(x) for x in self.assumptions]
        if self.level not in ("exploration", "fault_enumeration", "model_checking", "proof", "translation_validation", "other"):
            self.level = "other"; c.setdefault("explanation", "see rule")
        if self.level == "proof" and (c.get("obligations", 0) < 1 or c.get("discharged", 0) < 1):
            # nothing was proved in this run (e.g. the property file is missing or rejected): do not present it as a proof
            self.level = "exploration"
        if self.level in ("exploration", "fault_enumeration"):
            c.setdefault("rule", "")      # counts stay as measured

    def finish(self):
        self.sanitize()
        self.cov["known_findings_hit"] = [k for k, _ in self.known_hit]
        ev = {"property_id": self.pid, "tier": self.tier, "seed": self.seed, "level": self.level,
              "coverage": self.cov, "assumptions": self.assumptions,
              "wall_s": round(time.time() - self.t0, 2), "violations": len(self.violations)}
        if self.violations:
            ev["violation_details"] = [{"key": k, "replay": p, "witness": w, "text": t[:2000]} for k, p, w, t in self.violations]
        # a --replay run does not overwrite the evidence of the last quick/thorough run
        evpath = os.path.join(EVID, self.pid + ".json") if not getattr(self, "is_replay", False) else os.path.join(BUILD, "replay_evidence_%s.json" % self.pid)
        with open(evpath, "w") as f:
            json.dump(ev, f, indent=1, sort_keys=True)
            f.write("\n")
        for k, p, w, t in self.violations:
            log("---- %s: %s" % (k, t[:1500]))
        for k, p, w, t in self.violations:
            log("VIOLATION property=%s replay=%s%s" % (self.pid, p, "" if w else " no-failing-input-found"))
        if not self.violations:
            log("OK property=%s tier=%s obligations=%d discharged=%d evaluations=%d wall=%.1fs" % (
                self.pid, self.tier, self.cov["obligations"], self.cov["discharged"], self.cov["evaluations"],
                time.time() - self.t0))
        return 1 if self.violations else 0


GLOBAL_TRUSTED = [
    "Coq 8.16.1 kernel + vm_compute (no native_compute); independent re-check with coqchk -o: tools/coqchk (separate command, output in evidence/coqchk.txt)",
    "Coq standard library (NArith, ZArith, List, Lia/nia, Zify); no axioms declared by this development",
    "translator harness/gen_dump.c + C compiler (coq/Gen/*.v regenerated from /repo on every run)",
    "translator tools/c2gallina.py + clang 14 -ast-dump=json + coq/Model/CSem.v (coq/Gen/Funcs.v regenerated from /repo on every run; NOTES-c2g.md)",
    "extraction: ExtrOcamlBasic only (bool, option, list, prod, unit, sumbool mapped to OCaml's), no Extract Constant; OCaml 4.13.1; hand-written ocaml/*.ml replay drivers",
    "C harnesses under harness/ (include /repo/src/static.c as one translation unit) and the gcc toolchain",
]


def proof_stage(res, pid, extra_targets=(), with_override=False, files=None):
    """steps 1-3 of DESIGN 2.4. Fills res.cov obligations/discharged/checker_cmd/trusted_base.
    `files`: the property files (names under coq/Properties, without .v) that carry this property's theorems
    (default [pid]); returns True when all of them are checked"""
    files = list(files) if files else [pid]
    ok, msg, changed = gen(with_override)
    if not ok:
        res.violation("gen", "translator failed, model cannot be regenerated from the current tree: " + msg)
        return False
    if changed:
        log("[gen] regenerated: " + ", ".join(changed))
    missing = [f for f in files if not os.path.exists(os.path.join(COQ, "Properties", f + ".v"))]
    if missing:
        res.violation("proof:missing", "property file(s) missing: " + ", ".join(missing), witness=None)
        return False
    if golden_restore():
        log("[coq] compiled files of the saved copy restored (sources and regenerated Gen files are unchanged)")
    deps_ok, mlog, mcmd = coq_make(["Properties/%s.vo" % f for f in files] + list(extra_targets))
    thms_all = []
    for f in files:
        thms_all += property_file_theorems(f)
    res.cov["obligations"] = len(thms_all)
    res.cov["checker_cmd"] = mcmd
    res.cov["trusted_base"] = list(GLOBAL_TRUSTED)
    if not deps_ok:
        err = coq_first_error(mlog)
        if err:
            vfile, line, emsg = err
            stmt = enclosing_statement(vfile, line)
            res.cov["discharged"] = 0
            res.violation("proof:%s:%s" % (vfile, stmt), "Coq no longer accepts %s (statement `%s`, line %d) against the model regenerated from the current tree: %s"
                          % (vfile, stmt, line, emsg[:500]), witness=None)
            res.failed_statement = (vfile, stmt, emsg)
        else:
            res.violation("proof:make", "coq build failed: " + mlog[-1500:], witness=None)
        return False
    discharged = 0; all_assum = {}; cmds = [mcmd]
    for f in files:
        ok, thms, assum, out, cmd = check_property_file(f)
        cmds.append(cmd)
        if not ok:
            res.cov["discharged"] = discharged
            res.violation("proof:Properties/%s.v" % f, "property file rejected: " + out[-1500:], witness=None)
            return False
        discharged += len(thms); all_assum.update(assum)
    res.cov["checker_cmd"] = " ; ".join(cmds)
    res.cov["discharged"] = discharged
    res.cov["theorems"] = thms_all
    res.cov["property_files"] = ["coq/Properties/%s.v" % f for f in files]
    axioms = sorted(set(b for b in all_assum.values() if not b.startswith("Closed under")))
    res.cov["print_assumptions"] = dict(all_assum)
    res.cov["trusted_base"].append("Print Assumptions: " + ("all %d theorems closed under the global context" % len(all_assum)
                                   if not axioms else "; ".join(axioms)))
    if axioms:
        # the development uses no axiom at all (DESIGN.md section 5): an assumption that is not closed is a proof-stage failure
        names = [n for n, b in all_assum.items() if not b.startswith("Closed under")]
        res.violation("proof:assumptions", "theorems depend on axioms that the trusted base does not name: %s: %s" % (", ".join(names[:8]), "; ".join(axioms)[:800]), witness=None)
        return False
    missing = []
    for f in files:
        txt = strip_coq_comments(open(os.path.join(COQ, "Properties", f + ".v")).read())
        for n in re.findall(r'^\s*Theorem\s+([A-Za-z0-9_\']+)', txt, re.M):
            if n not in all_assum: missing.append(n)
    if missing:
        res.violation("gate", "theorems without a Print Assumptions line in their property file: " + ", ".join(missing[:10]), witness=None)
        return False
    bad = grep_gate()
    if bad:
        res.violation("gate", "forbidden constructs in the development: " + "; ".join(bad[:10]), witness=None)
        return False
    return True


def std_args(argv=None):
    import argparse
    ap = argparse.ArgumentParser()
    ap.add_argument("pid")
    ap.add_argument("--tier", default=os.environ.get("VERIF_TIER", "quick"))
    ap.add_argument("--replay", default=None)
    a = ap.parse_args(argv)
    a.seed = int(os.environ.get("VERIF_SEED", "1") or "1")
    if a.tier not in ("quick", "thorough"):
        a.tier = "quick"
    return a
