"""C06 (DESIGN.md section 3, C06)."""
import vlib, apitrace

def run(res, a):
    if a.replay:
        return apitrace.replay(res, "C06", a.replay)
    vlib.proof_stage(res, "C06")
    k = 3 if a.tier == "thorough" else 1
    plan = [("malformed", 16*k, 350), ("boundary", 4*k, 300), ("aligned", 4*k, 300), ("realloc", 4*k, 300)]
    for sd in ([a.seed, a.seed + 1] if a.tier == "thorough" else [a.seed]):
        apitrace.run_traces(res, "C06", plan, sd, dump=False, tag="" if sd == a.seed else "_s%d" % sd)
    try:
        import apimodel
        st = apimodel.run(res, a.seed, a.tier)
        res.cov.setdefault("input_distribution", {})["f_api"] = {"F": st.get("F", {}), "T": st.get("T", {}), "records": st.get("records", 0), "distinct": st.get("distinct", 0), "mismatches": st.get("mismatches", 0)}
        res.cov["evaluations"] += st.get("records", 0)
    except ImportError:
        pass
    res.cov["rule"] = ("API traces on the real allocator: malformed stream (count*size overflow, sizes around SIZE_MAX/PTRDIFF_MAX/MI_MAX_ALLOC_SIZE, alignment 0 or not a power of two, huge alignment with offset, posix_memalign/pvalloc/reallocarray boundary cases) interleaved with ordinary traffic; oracles: NULL / EINVAL / ENOMEM / errno as documented, out-parameter untouched, every live block keeps its pattern after the failing call, and well-formed requests up to 1 GiB never return NULL. distinct = distinct traces (+ function-level records of harness/f_api.c compared with the Coq API model)")
