"""C20 -- options, environment parsing and diagnostic output (DESIGN.md section 3, C20)."""
import os, re, glob, collections
import vlib
from vlib import log

LONG_MAX = (1 << 63) - 1
LONG_MIN = -(1 << 63)
TRUE_WORDS = (b"1", b"TRUE", b"YES", b"ON")
FALSE_WORDS = (b"0", b"FALSE", b"NO", b"OFF")
UNINIT, DEFAULTED, INITIALIZED = 0, 1, 2
NUMBER = re.compile(rb'[ \t\n\v\f\r]*([+-]?)([0-9]+)([KMGT]?)(IB|B)?')


def gen_const(name, default):
    try:
        txt = open(os.path.join(vlib.COQ, "Gen", "Consts.v")).read()
        m = re.search(r'Definition %s : N := (\d+)%%N' % name, txt)
        return int(m.group(1)) if m else default
    except OSError:
        return default


def documented_value(default, kib, s, max_alloc):
    """independent implementation of the documented grammar of an option value (README "Environment
    Options" + the comments of mi_option_init): returns (value, init state)"""
    if len(s) == 0:
        return 1, INITIALIZED
    up = s.upper()                      # bytes.upper(): ASCII letters only, like _mi_toupper
    if up in TRUE_WORDS:
        return 1, INITIALIZED
    if up in FALSE_WORDS:
        return 0, INITIALIZED
    m = NUMBER.fullmatch(up)
    if m is None or (not kib and (m.group(3) or m.group(4))):
        return default, DEFAULTED       # malformed: the default stays
    digits = m.group(2).lstrip(b"0")
    v = (1 << 70) if len(digits) > 25 else int(digits or b"0")   # beyond 25 digits: certainly saturated
    if m.group(1) == b"-":
        v = -v
    v = max(LONG_MIN, min(LONG_MAX, v))
    if kib:
        size = max(v, 0)
        unit = m.group(3)
        if unit == b"":
            size = (size + 1023) // 1024
        else:
            size *= {b"K": 1, b"M": 1024, b"G": 1024 ** 2, b"T": 1024 ** 3}[unit]
        if size > max_alloc:            # includes every product that does not fit size_t
            size = max_alloc // 1024
        v = min(size, LONG_MAX)
    return v, INITIALIZED


# ------------------------------------------------------------------------------------------
# format strings used by the allocator itself
# ------------------------------------------------------------------------------------------
CALLS = r'\b(_mi_snprintf|_mi_fprintf|_mi_message|_mi_warning_message|_mi_error_message|_mi_verbose_message|_mi_trace_message)\s*\('
ESC = {"n": "\n", "t": "\t", "r": "\r", "\\": "\\", '"': '"', "'": "'", "0": "\0", "a": "\a", "b": "\b", "f": "\f", "v": "\v", "?": "?"}


def c_unescape(lit):
    out, i = [], 0
    while i < len(lit):
        c = lit[i]
        if c != "\\":
            out.append(ord(c)); i += 1; continue
        i += 1
        c = lit[i]
        if c == "x":
            m = re.match(r'[0-9a-fA-F]+', lit[i + 1:]); out.append(int(m.group(0), 16) & 255); i += 1 + len(m.group(0))
        elif c in "01234567":
            m = re.match(r'[0-7]{1,3}', lit[i:]); out.append(int(m.group(0), 8) & 255); i += len(m.group(0))
        else:
            out.append(ord(ESC.get(c, c))); i += 1
    return bytes(out)


def scan_formats(repo):
    """every format string literal passed to the message / snprintf functions in src/*.c"""
    found = collections.OrderedDict()
    for path in sorted(glob.glob(os.path.join(repo, "src", "*.c")) + glob.glob(os.path.join(repo, "src", "prim", "*", "*.c"))):
        try:
            src = open(path, errors="replace").read()
        except OSError:
            continue
        src = re.sub(r'/\*.*?\*/', ' ', src, flags=re.S)
        src = re.sub(r'//[^\n]*', ' ', src)
        for m in re.finditer(CALLS, src):
            rest = src[m.end():m.end() + 2000]
            # the first (possibly concatenated) string literal of the argument list, before the call ends
            depth, i, lit = 1, 0, None
            while i < len(rest) and depth > 0:
                ch = rest[i]
                if ch == '"':
                    parts = []
                    while True:
                        mm = re.match(r'"((?:[^"\\\n]|\\.)*)"', rest[i:])
                        if not mm:
                            break
                        parts.append(mm.group(1)); i += mm.end()
                        ws = re.match(r'\s*', rest[i:]); j = i + ws.end()
                        if j < len(rest) and rest[j] == '"':
                            i = j
                        else:
                            break
                    lit = "".join(parts)
                    break
                if ch == '(':
                    depth += 1
                elif ch == ')':
                    depth -= 1
                i += 1
            if lit is None or "%" not in lit and len(lit) == 0:
                continue
            try:
                fmt = c_unescape(lit)
            except Exception:
                continue
            if b"\0" in fmt:
                continue
            found.setdefault(fmt, "%s:%s" % (os.path.relpath(path, repo), m.group(1)))
    return found


def directive_args(fmt, variant):
    """arguments for a format as _mi_vsnprintf reads them (d i u x p: integer slot, s: string)"""
    args, i, n = [], 0, len(fmt)
    strings = [b"mimalloc", b"", b"reserve_huge_os_pages_at", b"x" * 300]
    ints = [0, 1, 7, 4096, 123456789, (1 << 31) - 1, (1 << 32) + 5, (1 << 63) - 1, (1 << 63), (1 << 64) - 1]
    k = 0
    while i < n:
        if fmt[i] != 0x25:
            i += 1; continue
        i += 1
        while i < n and chr(fmt[i]) in "+ -0123456789ztlL":
            i += 1
        if i >= n:
            break
        c = chr(fmt[i]); i += 1
        if c == "s":
            s = strings[(k + variant) % 4] if variant < 2 else strings[3]
            args.append("s" + (s.hex() if s else "-"))
        elif c in "diuxp":
            v = ints[(k * 3 + variant) % len(ints)] if variant < 2 else ints[-1 - (k % 3)]
            args.append("i%d" % v)
        else:
            continue
        k += 1
    return args[:8]


# ------------------------------------------------------------------------------------------
def oracle(tlines, max_alloc):
    bad, n = [], collections.Counter()
    known_long = []
    def fail(key, text, wit):
        if len(bad) < 30:
            bad.append((key, text, wit))
    for l in tlines:
        f = l.split()
        k = f[1]; n[k] += 1
        if k == "opt":
            i, kib, default = int(f[2]), f[3] == "1", int(f[4])
            s = b"" if f[5] == "-" else bytes.fromhex(f[5])
            value, init = int(f[6]), int(f[7])
            want = documented_value(default, kib, s, max_alloc)
            if (value, init) != want:
                shown = repr(s if len(s) <= 80 else s[:40] + b"..." + s[-30:])
                wit = "option %d (size-in-KiB=%d, default %d): MIMALLOC_<NAME>=%s (%d bytes) gives value %d init %d, documented %d init %d" % (
                    i, kib, default, shown, len(s), value, init, want[0], want[1])
                if len(s) > 64 and documented_value(default, kib, s[:64], max_alloc) == (value, init):
                    known_long.append(wit)
                else:
                    fail("impl:option-parse", "option value parsed differently from the documented grammar: " + wit, wit)
        elif k == "setget":
            i, v, r, init = int(f[2]), int(f[3]), int(f[4]), int(f[5])
            if r != v or init != INITIALIZED:
                fail("impl:set-get", "mi_option_set(%d, %d) then mi_option_get gives %d (init %d)" % (i, v, r, init), "mi_option_set(%d,%d); mi_option_get(%d)" % (i, v, i))
        elif k == "optrange":
            if f[2] != "0":
                fail("impl:option-index", "an out-of-range option index is not ignored: mi_option_set / set_default / set_enabled with index _mi_option_last+%d changed memory behind the option table" % (int(f[2]) - 1),
                     "mi_option_set((mi_option_t)(_mi_option_last + %d), v)" % (int(f[2]) - 1))
            elif f[3] != "0":
                fail("impl:option-index", "mi_option_get of an out-of-range option index returns %s instead of 0" % f[3], "mi_option_get((mi_option_t)_mi_option_last)")
        elif k == "strl":
            if f[4] != "1":
                fail("impl:strl", "%s with dest_size %s: result is not a terminated prefix copy" % ("_mi_strlcat" if f[2] == "1" else "_mi_strlcpy", f[3]), l)
        elif k == "getenv":
            if f[3] != "1":
                fail("impl:getenv", "_mi_getenv result not terminated within result_size %s" % f[2], l)
        elif k == "json":
            size, isbuf, term, ln = int(f[2]), f[3], f[4], int(f[5])
            if size == 0:
                if isbuf != "1" or term != "1":
                    fail("impl:json", "mi_stats_get_json(0, buf) did not return a fresh heap buffer", "mi_stats_get_json(0, buf)")
            elif isbuf != "1" or term != "1" or ln >= size:
                fail("impl:json", "mi_stats_get_json(%d, buf): returned-buffer=%s terminated=%s strlen=%d" % (size, isbuf, term, ln), "mi_stats_get_json(%d, buf)" % size)
        elif k == "bufout":
            count, used, maxl = int(f[2]), int(f[3]), int(f[4])
            if used > count or maxl > count:
                fail("impl:bufout", "mi_buffered_out count=%d: used=%d longest flushed chunk=%d" % (count, used, maxl), l)
        elif k == "printed":
            if int(f[4]) > 511:
                fail("impl:printed", "%s: an output chunk of %s bytes exceeds the 512-byte message buffer" % (f[2], f[4]), l)
        elif k == "fault":
            fail("impl:fault", "the allocator faulted (guard page / signal) in: " + l[8:400], l[8:2000])
        elif k == "canarybad":
            fail("impl:underflow", "bytes before the destination buffer were overwritten in: " + l[12:400], l[12:2000])
        elif k == "vsnbad":
            fail("impl:vsnprintf-term", "_mi_vsnprintf result not terminated at the returned length: " + l[9:400], l[9:2000])
        elif k == "summary":
            if int(f[3]) != 0:
                fail("impl:underflow", "%s guarded calls overwrote the canary" % f[3], l)
    return bad, n, known_long


def run(res, a):
    if getattr(a, "replay", None):
        # a replay file names the failing record; the harness is deterministic in (tree, seed, tier), so the
        # replay re-runs the check with the recorded seed and tier and reports the same record again
        try:
            txt = open(a.replay).read()
            m = re.search(r'^seed=(\d+)', txt, re.M)
            if m:
                a.seed = res.seed = int(m.group(1))
            m = re.search(r'^tier=(\w+)', txt, re.M)
            if m and m.group(1) in ("quick", "thorough"):
                a.tier = res.tier = m.group(1)
            log("[replay] %s (seed %d, tier %s)" % (a.replay, a.seed, a.tier))
        except OSError as e:
            log("[replay] cannot read %s: %s" % (a.replay, e))
    proofs_ok = vlib.proof_stage(res, "C20")
    max_alloc = gen_const("MI_MAX_ALLOC_SIZE", 281474976579584)
    # formats used by the allocator itself -> job file for the harness
    formats = scan_formats(vlib.REPO)
    jobs = os.path.join(vlib.BUILD, "f_opt_jobs_%s.txt" % a.pid)
    with open(jobs, "w") as f:
        for fmt in formats:
            for variant in range(3 if a.tier == "thorough" else 2):
                args = directive_args(fmt, variant)
                f.write("V %s %d %s\n" % (fmt.hex() if fmt else "-", len(args), " ".join(args)))
    exe = os.path.join(vlib.BUILD, "f_opt_%s" % a.pid)
    ok, txt, cmd = vlib.cc(os.path.join(vlib.HARN, "f_opt.c"), exe)
    if not ok:
        res.violation("harness-build", "harness/f_opt.c no longer compiles against the current tree (a modelled function changed its interface): " + txt[-1500:])
        return
    rc, out, err = vlib.run_split([exe, str(a.seed), "1" if a.tier == "thorough" else "0", jobs], timeout=900, env=vlib.clean_env())
    lines = out.splitlines()
    tl = [l for l in lines if l.startswith("T ")]
    fl = [l for l in lines if l.startswith("F ")]
    bad, tcount, known_long = oracle(tl, max_alloc)
    for key, text, wit in bad:
        res.violation(key, text, witness=wit)
    if known_long:
        res.violation("impl:long-value-truncated", "environment values longer than 64 bytes are truncated to 64 bytes and the prefix is parsed (%d inputs), e.g. %s"
                      % (len(known_long), known_long[0]), witness=known_long[0])
    if (rc != 0 or not out.rstrip().endswith("END")) and not any(k == "impl:fault" for k, _, _ in bad):
        last = lines[-1][:300] if lines else ""
        res.violation("harness-crash", "f_opt exited with %d: %s (last record: %s)" % (rc, err[-500:], last), witness="f_opt %d" % a.seed)
    okb, txt = vlib.ocaml_build()
    mism = []
    if not okb:
        res.violation("model-build", "extracted model does not build: " + txt[-1200:])
    elif fl:
        rc2, mout = vlib.model_replay("opt", "\n".join(fl) + "\n")
        mism = [l for l in mout.splitlines() if l.startswith("MISMATCH")]
        done = [l for l in mout.splitlines() if l.startswith("DONE")]
        if rc2 != 0 or not done:
            res.violation("model-run", "model replay failed: " + mout[-800:])
        elif mism and not bad:
            res.violation("corr:" + mism[0].split()[2], "model/implementation disagreement (%d records), e.g. %s" % (len(mism), mism[0][:1200]), witness=None)
        elif mism:
            log("[corr] %d model/implementation disagreements, e.g. %s" % (len(mism), mism[0][:600]))
    fcount = collections.Counter(l.split()[1] for l in fl)
    optlens = collections.Counter()
    for l in tl:
        f = l.split()
        if f[1] == "opt":
            n = 0 if f[5] == "-" else len(f[5]) // 2
            optlens["len<=8" if n <= 8 else "len<=64" if n <= 64 else "len>64"] += 1
    res.cov["evaluations"] = len(fl) + len(tl)
    res.cov["distinct_nontrivial"] = len(set(fl)) + len(set(tl))
    res.cov["rule"] = ("F records: the real functions of /repo/src/static.c (_mi_toupper/_mi_strnicmp/_mi_strlen/_mi_strnlen/_mi_strlcpy/_mi_strlcat/"
                       "_mi_getenv on constructed environments, mi_option_is_word, libc strtol, mi_option_get -> mi_option_init with the environment set, "
                       "mi_option_set/set_default/get sequences, _mi_vsnprintf, mi_out_buf/mi_out_buf_flush, mi_buffered_out, mi_heap_buf_print) compared "
                       "byte for byte with the extracted Coq model; destination buffers end at a PROT_NONE page with a canary in front. T records: "
                       "implementation-side oracle (documented option grammar re-implemented in Python, termination/prefix checks, mi_stats_get_json "
                       "with caller buffers 0..300 and large ones under the guard page, stats/options printing). distinct = distinct record lines")
    res.cov["traces_validated_against_impl"] = len(fl)
    res.cov["disagreements_checked"] = len(mism)
    res.cov["input_distribution"] = {"F": dict(fcount), "T": dict(tcount), "option_value_lengths": dict(optlens)}
    widths = [int(w) for fmt in formats for w in re.findall(rb'%[+ ]?-?0?([1-9][0-9]*)', fmt)]
    res.cov["internal_formats"] = {"count": len(formats), "max_field_width": max(widths) if widths else 0,
                                   "samples": [("%r" % k)[:100] + " @ " + v for k, v in list(formats.items())[:12]]}
    ww = [l for l in tl if l.startswith("T widthwrap")]
    if ww:
        res.cov["width_wrap_probe"] = "field width 2^64-8 (outside the hypothesis of vsnprintf_no_fault_terminated, no such format in the tree): child process %s" % (
            "died with signal " + ww[0].split()[3] if ww[0].split()[2] == "1" else "survived")
    res.cov["exhaustive"] = False
    if fl and tl:
        res.add_samples([fl[0], fl[len(fl) // 3][:300], fl[-1][:300], tl[1], tl[len(tl) // 2], tl[-2]])
    res.assumptions += ["64-bit Linux release configuration; `environ`-based _mi_prim_getenv; long = 64 bit",
                        "libc strtol(base 10) in the C locale behaves as ISO C specifies (compared with the model on every generated value)",
                        "x86-64 SysV variadic calling convention in the harness (all printf arguments passed as 64-bit slots)",
                        "source strings (formats, messages, environment entries) are valid 0-terminated C strings; message lengths < 2^64-16384",
                        "_mi_vsnprintf field widths do not wrap the address space (base + bufsize + width < 2^64); the formats of the tree are scanned and run"]
    try:
        os.remove(jobs)
    except OSError:
        pass
