"""C18 -- unused memory is purged after the configured delay without a forced collect
(DESIGN.md section 3, C18).  Also builds Properties/C13mask.v (the mask/purge clauses of C13), whose
models are tied to the code by the same F records."""
import os, collections
import vlib
from vlib import log
from props import oslib

PAGE = 4096
SLICE = 65536


def oracle_mask(tlines):
    """T records of harness/f_mask.c: rounding of mi_segment_commit_mask and mi_os_page_align_areax"""
    bad = []
    def fail(key, text, wit):
        if len(bad) < 20: bad.append((key, text, wit))
    n = collections.Counter()
    for l in tlines:
        f = l.split(); k = f[1]; v = [int(x) for x in f[2:]]; n[k] += 1
        if k == "covers":
            cons, pstart, size, start, full, bitidx, bitcount, segstart, segsize = v
            wit = "mi_segment_commit_mask(conservative=%d, p=segment+%d, size=%d)" % (cons, pstart, size)
            if full > 0:
                if start % SLICE or full % SLICE:
                    fail("mask-unaligned", "commit mask range [%d,+%d) is not slice aligned" % (start, full), wit)
                if (bitidx, bitcount) != (start // SLICE, full // SLICE):
                    fail("mask-bits", "mask bits (%d,%d) do not denote [%d,+%d)" % (bitidx, bitcount, start, full), wit)
                if cons and not (pstart <= start and start + full <= pstart + size):
                    fail("conservative-outside", "conservative mask [%d,+%d) reaches outside the range [%d,+%d): a purge would hit memory that was not freed" % (start, full, pstart, size), wit)
            if not cons and 0 < size <= 32 * 1024 * 1024 and pstart < segsize:
                lo, hi = pstart, min(pstart + size, segsize)
                if not (full > 0 and start <= lo and hi <= start + full):
                    fail("liberal-uncovered", "liberal mask [%d,+%d) does not cover the range [%d,%d): memory handed out without being committed" % (start, full, lo, hi), wit)
            if cons and size > 0 and pstart < segsize:
                # every slice fully inside the range must be in the mask (nothing that could be purged is forgotten)
                lo = -(-pstart // SLICE) * SLICE; hi = min((pstart + size) // SLICE * SLICE, segsize)
                if size <= 32 * 1024 * 1024 and hi > lo and not (full > 0 and start <= max(lo, 0) and start + full >= hi) and lo >= segstart:
                    fail("conservative-incomplete", "conservative mask [%d,+%d) misses whole slices of [%d,+%d)" % (start, full, pstart, size), wit)
        elif k == "align":
            cons, addr, size, start, csize = v
            wit = "mi_os_page_align_areax(conservative=%d, addr=%d, size=%d)" % (cons, addr, size)
            if addr == 0 or size == 0 or addr + size + PAGE >= (1 << 63):
                continue
            if csize > 0 and (start % PAGE or csize % PAGE):
                fail("align-unaligned", "result [%d,+%d) not page aligned" % (start, csize), wit)
            if cons and csize > 0 and not (addr <= start and start + csize <= addr + size):
                fail("align-conservative-outside", "conservative area [%d,+%d) reaches outside [%d,+%d)" % (start, csize, addr, size), wit)
            if not cons and not (csize > 0 and start <= addr and addr + size <= start + csize):
                fail("align-liberal-uncovered", "liberal area [%d,+%d) does not cover [%d,+%d)" % (start, csize, addr, size), wit)
    return bad, n


def oracle_steps(tlines):
    """T step records of harness/t_purge.c T: what the shim saw vs what the property demands"""
    bad = []; n = collections.Counter()
    for l in tlines:
        kind, d = oslib.kv(l)
        if kind != "step":
            continue
        n[(d["wl"], d["step"], d["expect"])] += 1
        wit = "purge_delay=%d purge_decommits=%d workload=%s step=%s virtual time since the memory became unused=%dms (threshold %dms)" % (
            d["delay"], d["decommits"], d["wl"], d["step"], d["since_free"], d["threshold"])
        if d["expect"] == "none" and (d["madvise"] != 0 or d["mprotect"] != 0):
            what = ("memory was purged although purge_delay=-1 disables purging" if d["delay"] < 0 else
                    "memory was purged %dms after it became unused, before the delay of %dms had passed" % (d["since_free"], d["threshold"]))
            bad.append(("purged-early:%s:%s" % (d["wl"], d["step"]), what + " (%d madvise, %d mprotect calls)" % (d["madvise"], d["mprotect"]), wit))
        if d["expect"] == "all" and d["covered"] != d["tracked"]:
            what = ("with purge_delay=0 the memory was not returned as soon as it became unused" if d["delay"] == 0 else
                    "unused memory was not purged %dms after it became unused (delay %dms) by non-forced activity" % (d["since_free"], d["threshold"]))
            bad.append(("not-purged:%s:%s" % (d["wl"], d["step"]), what + ": %d of %d bytes returned" % (d["covered"], d["tracked"]), wit))
        if d["wl"] == "pages2" and not (d["delay"] <= d["expire_rel"] <= d["delay"] + 3 * d["extend"]):
            bad.append(("expiry-out-of-range", "segment purge_expire is %dms after the free, expected between delay=%d and delay+3*extend=%d" % (
                d["expire_rel"], d["delay"], d["delay"] + 3 * d["extend"]), wit))
    return bad, n


def mask_runs_ref(words):
    """the maximal runs of set bits of a mask given as 8 words of 64 bits: [(idx, count)], increasing"""
    m = 0
    for i, w in enumerate(words):
        m |= (w & ((1 << 64) - 1)) << (64 * i)
    runs = []; k = 0; n = 64 * len(words)
    while k < n:
        if (m >> k) & 1:
            j = k
            while j < n and (m >> j) & 1: j += 1
            runs.append((k, j - k)); k = j
        else:
            k += 1
    return runs


def oracle_runs(flines):
    """implementation-side oracle for the run iteration (independent of the Coq model): `F cm_runs` (mi_commit_mask_foreach) must
    visit exactly the maximal runs of set bits, in order, each once; `F cm_next_run` must return the first maximal run at or
    after idx (its remainder when idx lies inside a run), or (512, 0)"""
    bad = []; n = collections.Counter()
    def hexw(ws): return "[" + " ".join("%x" % w for w in ws) + "]"
    for l in flines:
        f = l.split()
        if len(f) < 3 or f[0] != "F": continue
        if f[1] == "cm_runs":
            ws = [int(x) for x in f[2:10]]; got = [int(x) for x in f[12:]]
            got = list(zip(got[0::2], got[1::2])); ref = mask_runs_ref(ws)
            n["cm_runs"] += 1; n["cm_runs_multiword"] += (sum(1 for w in ws if w) >= 2)
            if got != ref and len(bad) < 40:
                miss = [r for r in ref if r not in got]; extra = [r for r in got if r not in ref]
                bad.append(("foreach-runs", "mi_commit_mask_foreach does not visit exactly the maximal runs of set bits: visited %s, the mask has %s (not visited: %s; "
                            "visited but not a maximal run: %s)" % (got, ref, miss, extra),
                            "mi_commit_mask_foreach(&cm, idx, count) with cm.mask (8 words of 64 bits, hex, word 0 first) = %s" % hexw(ws), len(ref)))
        elif f[1] == "cm_next_run":
            ws = [int(x) for x in f[2:10]]; idx = int(f[10]); got = (int(f[12]), int(f[13]))
            exp = (512, 0)
            for (i, c) in mask_runs_ref(ws):
                if i + c > idx:
                    exp = (max(i, idx), i + c - max(i, idx)); break
            n["cm_next_run"] += 1
            if got != exp and len(bad) < 40:
                bad.append(("next-run", "_mi_commit_mask_next_run returned (idx=%d, count=%d); the first run of set bits at or after %d is (idx=%d, count=%d)" % (got + (idx,) + exp),
                            "_mi_commit_mask_next_run(&cm, &idx) with idx=%d and cm.mask (hex, word 0 first) = %s" % (idx, hexw(ws)), len(mask_runs_ref(ws))))
    bad.sort(key=lambda b: b[3])      # the simplest mask first
    return [b[:3] for b in bad], n


def scatter_shape(d):
    """coverage classes of the pending purge mask of a scatter round"""
    ws = [int(x, 16) for x in d["pending_words"].split(".")]
    runs = mask_runs_ref(ws)
    multi = sum(1 for w in ws if w) >= 2
    # the pattern that a stale bit offset misses: a run ends at bit k>0 of a word, nothing later in that word, and the next run starts at a bit < k of a later word
    desc = any(((i + c) % 64) != 0 and (j // 64) > ((i + c) // 64) and (j % 64) < ((i + c) % 64) for (i, c), (j, _) in zip(runs, runs[1:]))
    asc = any((j // 64) > ((i + c - 1) // 64) and (j % 64) >= ((i + c) % 64) for (i, c), (j, _) in zip(runs, runs[1:]))
    boundary = any(i % 64 == 0 or (i + c) % 64 == 0 or (i // 64) != ((i + c - 1) // 64) for (i, c) in runs)
    return multi, desc, asc, boundary, len(runs)


def describe_slices(spec):
    """'395+1,43+2' -> 'slices 395 (mask word 6 bit 11), 43..44 (word 0 bits 43..44)'"""
    out = []
    for t in spec.split(","):
        i, c = [int(x) for x in t.split("+")]
        out.append("%d%s (mask word %d bit %d%s)" % (i, "" if c == 1 else "..%d" % (i + c - 1), i // 64, i % 64, "" if c == 1 else " to word %d bit %d" % ((i + c - 1) // 64, (i + c - 1) % 64)))
    return "slice" + ("s " if len(out) > 1 or "+1" not in spec else " ") + ", ".join(out)


def oracle_scatter(tlines):
    """T scatter records of harness/t_purge.c S: per-slice bookkeeping of the harness vs the purging calls the shim saw"""
    found = {}; n = collections.Counter()
    for l in tlines:
        kind, d = oslib.kv(l)
        if kind != "scatter":
            continue
        multi, desc, asc, boundary, nruns = scatter_shape(d)
        n["checks"] += 1; n["step:%s/%s" % (d["step"], d["expect"])] += 1
        if d["step"] == "free":
            n["rounds"] += 1; n["rounds_multiword_mask"] += multi; n["rounds_later_run_at_lower_bit"] += desc; n["rounds_later_run_at_higher_bit"] += asc
            n["rounds_run_touches_word_boundary"] += boundary; n["runs_total"] += nruns
        hist = ("`t_purge S %d %d %d %d` (harness/t_purge.c, built as tools/props/C18.py does), last round (%d): purge_delay=%dms purge_decommits=%d purge_extend_delay=%dms, virtual clock. One 32MiB segment is filled with pages "
                "(first slice+slices, s=small m=medium L=large): %s. History (t = virtual ms since the frees; every step is ordinary, non-forced activity): %s "
                "The freed pages are slices %s, i.e. the pending purge mask (8 words of 64 bits, hex, word 0 first) is %s; the delay including extensions has "
                "passed at t+%d." % (d["seed"], d["delay"], d["decommits"], d["round"] + 1, d["round"], d["delay"], d["decommits"], d["extend"], d["layout"], d["history"], d["pending"],
                                     d["pending_words"], d["deadline_rel"]))
        size = len(d["victims"].split(",")) * 100 + len(d["history"])
        def fail(key, text):
            if key not in found or found[key][0] > size:
                found[key] = (size, key, text, hist + " Observed at step `%s` (t+%d): %s" % (d["step"], d["since_free"], text))
        if d["expect"] == "all" and d["missing"] != "-":
            fail("not-purged:scatter", "freed pages that stayed unused for longer than the delay were not purged by non-forced activity: %s never reached madvise "
                 "(the segment's purge mask is %s afterwards, so they will not be purged later either)" % (describe_slices(d["missing"]), d["impl_purge_mask"]))
        if d["expect"] == "none" and d["early"] != "-":
            what = "purge_delay=-1 disables purging" if d["delay"] < 0 else "only %dms of the %dms delay had passed" % (d["since_free"], d["delay"])
            fail("purged-early:scatter", "freed pages were purged although %s: %s" % (what, describe_slices(d["early"])))
        if d["livehit"] != "-":
            fail("purged-live:scatter", "a purge (madvise DONTNEED/FREE or mprotect PROT_NONE) hit memory that is in use (pages with live blocks or the segment header): %s" % describe_slices(d["livehit"]))
        if d["content_bad"] != 0:
            fail("content-lost:scatter", "%d live blocks lost their contents after the purge (first: %s)" % (d["content_bad"], d["content_first"]))
        if d["expect"] == "expiry":
            fail("expiry-out-of-range:scatter", "segment purge_expire is %dms after the frees, expected between delay=%d and %d" % (d["expire_rel"], d["delay"], d["deadline_rel"]))
    return [found[k][1:] for k in sorted(found)], n


def run(res, a):
    proofs_ok = vlib.proof_stage(res, "C18", extra_targets=["Properties/C13mask.vo"])
    thorough = (a.tier == "thorough")
    tflag = "1" if thorough else "0"
    F, T, samples = [], [], []
    dist = {}

    # (1) pure mask arithmetic
    ok, txt, cmd, exe = oslib.build_harness("f_mask", a.pid, plain=True)
    if not ok:
        res.violation("harness-build", "harness/f_mask.c no longer compiles against the current tree: " + txt[-1500:]); return
    ok, rc, out, err = oslib.run_harness(exe, [a.seed, tflag])
    if not ok:
        res.violation("harness-crash", "f_mask exited with %d: %s" % (rc, err[-600:]), witness="f_mask %d" % a.seed); return
    lines = out.splitlines()
    fl = [l for l in lines if l.startswith(("F ", "K "))]; tl = [l for l in lines if l.startswith("T ")]
    bad, tc = oracle_mask(tl)
    bad2, rc_ = oracle_runs(fl)
    bad = bad + bad2; tc.update(rc_)
    for key, text, wit in bad:
        res.violation("impl:" + key, text, witness=wit)
    F += fl; T += tl; dist["f_mask"] = dict(collections.Counter(l.split()[1] for l in fl if l.startswith("F ")))
    samples += [fl[0], fl[len(fl) // 2], tl[0]]

    # (2) purge functions + workloads under the shim and the virtual clock
    ok, txt, cmd, exe = oslib.build_harness("t_purge", a.pid)
    if not ok:
        res.violation("harness-build", "harness/t_purge.c (or shim.c) no longer compiles against the current tree: " + txt[-1500:]); return
    ok, rc, out, err = oslib.run_harness(exe, ["F", a.seed, tflag])
    if not ok:
        res.violation("harness-crash", "t_purge F exited with %d: %s" % (rc, err[-600:]), witness="t_purge F %d" % a.seed); return
    fl = [l for l in out.splitlines() if l.startswith(("F ", "K "))]
    F += fl; dist["t_purge_F"] = dict(collections.Counter(l.split()[1] for l in fl if l.startswith("F ")))
    samples += [fl[2][:400]]
    step_count = collections.Counter()
    any_bad = bool(bad)
    for delay in (-1, 0, 5, 10):
        for dec in (0, 1):
            ok, rc, out, err = oslib.run_harness(exe, ["T", a.seed, delay, dec])
            if not ok:
                res.violation("harness-crash", "t_purge T %d %d exited with %d: %s" % (delay, dec, rc, err[-600:]),
                              witness="purge_delay=%d purge_decommits=%d: the workload of harness/t_purge.c crashes" % (delay, dec)); continue
            lines = out.splitlines()
            tl = [l for l in lines if l.startswith("T ")]
            F += [l for l in lines if l.startswith(("F ", "K "))]
            bad, sc = oracle_steps(tl)
            step_count.update(sc)
            for key, text, wit in bad:
                any_bad = True
                res.violation("impl:" + key, text, witness=wit)
            T += tl
            if delay == 10 and dec == 1:
                samples += [l for l in tl if "step=" in l][:3]
    # (2b) scattered page frees inside one segment: pending purge masks with runs in several 64-bit words
    scat_count = collections.Counter()
    for delay in (10, 5, 0, -1):
        for dec in (1, 0):
            rounds = (400 if delay > 0 else 100) if thorough else (50 if delay > 0 else 12)
            ok, rc, out, err = oslib.run_harness(exe, ["S", a.seed * 16 + (delay + 1) * 2 + dec, delay, dec, rounds])
            if not ok:
                any_bad = True
                res.violation("harness-crash", "t_purge S %d %d exited with %d: %s" % (delay, dec, rc, err[-600:]),
                              witness="`t_purge S %d %d %d %d`: purge_delay=%d purge_decommits=%d: the scattered-page-free workload of harness/t_purge.c crashes" % (
                                  a.seed * 16 + (delay + 1) * 2 + dec, delay, dec, rounds, delay, dec)); continue
            lines = out.splitlines()
            tl = [l for l in lines if l.startswith("T ")]
            F += [l for l in lines if l.startswith(("F ", "K "))]
            bad, sc = oracle_scatter(tl)
            scat_count.update(sc)
            for key, text, wit in bad:
                any_bad = True
                res.violation("impl:" + key, text, witness=wit)
            T += tl
            if delay == 10 and dec == 1:
                samples += [l[:600] for l in tl if "step=try_purge-at-expiry" in l][:1]
    # (3) regression scenarios of `arena-global-expiry-reset` (repaired by c59c73f): a pending arena must be purged by
    #     NON-forced passes once its own expiry and the re-armed global expiry have passed
    scen = {"two-arenas": ("X", "two arenas A,B (mi_reserve_os_memory_ex, 4 blocks each, exclusive), default options (arena delay 100ms); "
                                "t0: free the only segment of A; t0+50ms: free the only segment of B; t0+120ms: mi_collect(false) purges A while "
                                "B.purge_expire=t0+150 is still pending; then 3 x (advance 100ms; mi_collect(false); mi_malloc(100); mi_free)"),
            "single-arena": ("X2", "default options, the default 1GiB arena; p,q=mi_malloc(20MiB); t0: mi_free(p); t0+10ms: mi_collect(true); "
                                   "t0+50ms: mi_free(q) (arena purge_expire=t0+150); t0+120ms: mi_collect(false) (global expiry passed, arena not "
                                   "yet); then 3 x (advance 100ms; mi_collect(false); mi_malloc(64); mi_free)")}
    for name, (mode, hist) in scen.items():
        ok, rc, out, err = oslib.run_harness(exe, [mode, a.seed])
        wl = [l for l in out.splitlines() if l.startswith("T witness")]
        if not ok or not wl:
            res.violation("harness-crash", "t_purge %s exited with %d: %s" % (mode, rc, err[-600:]), witness="t_purge " + mode); continue
        kind, d = oslib.kv(wl[0])
        T += wl
        if d.get("setup") != 1:
            res.violation("witness-setup:" + name, "the regression scenario could not be set up: " + wl[0], witness=None); continue
        if d["B_purged_after_idle"] != d["expected"]:
            any_bad = True
            res.violation("arena-global-expiry-reset",
                          "a free arena block scheduled for purging is not purged by non-forced passes: after the pass at t0+120ms the global expiry "
                          "mi_arenas_purge_expire is %d while the arena's purge_expire is %d; after 300ms of idle non-forced collects %d of %d bytes "
                          "are purged (global=%d, arena purge_expire=%d)" % (d["global_after_collect1"], d.get("B_expire_after_collect1", d.get("A_expire_after_collect1", -1)),
                                                                               d["B_purged_after_idle"], d["expected"], d["global"], d.get("B_expire", d.get("A_expire", -1))),
                          witness=hist + ". harness record: " + wl[0])
    # (4) model replay
    nrec, mism = oslib.replay(res, F, "C18")
    if mism and not any_bad:
        res.violation("corr:" + mism[0].split()[2], "model/implementation disagreement (%d records), e.g. %s" % (len(mism), mism[0][:1500]), witness=None)
    elif mism:
        log("[corr] %d model/implementation disagreements, e.g. %s" % (len(mism), mism[0][:600]))
    nf = len([l for l in F if l.startswith("F ")])
    res.cov["evaluations"] = nf + len(T)
    res.cov["distinct_nontrivial"] = len(set(F)) + len(set(T))
    res.cov["rule"] = ("F records: the real static functions (mi_commit_mask_*, _mi_commit_mask_next_run, mi_commit_mask_foreach, mi_segment_commit_mask, "
                       "mi_os_page_align_areax, mi_segment_commit/ensure_committed/purge/schedule_purge/try_purge on a segment header in a real 32MiB "
                       "mapping, mi_arena_purge/schedule_purge/try_purge, mi_arenas_try_purge, _mi_arena_free on real arenas) with random masks, "
                       "bitmaps, expiry times, options and virtual `now`; resulting masks/bitmaps/expiry fields, the system calls seen by the OS shim "
                       "and sampled page states must equal the extracted Coq model's. T records: implementation-side oracle (rounding inside/covering; "
                       "per workload step: nothing purged before the delay, everything purged at the delay by non-forced activity, delay 0 immediate, "
                       "delay -1 never; run iteration: mi_commit_mask_foreach/_mi_commit_mask_next_run visit exactly the maximal runs of set bits "
                       "(reference computed in Python from the mask words); scattered page frees (t_purge S): whole small/medium/large pages freed at "
                       "PRNG slice positions biased to the word boundaries of the commit mask, so that the pending purge mask has runs in several "
                       "64-bit words in both orders of bit position; per slice of the segment: freed pages not purged before the delay, all of them "
                       "purged once the extended delay has passed and a page free / page allocation / mi_segment_try_purge(seg,false) happened, no "
                       "purging call on a slice in use, contents of live blocks intact). distinct = distinct record lines")
    res.cov["traces_validated_against_impl"] = nrec
    res.cov["disagreements_checked"] = len(mism)
    res.cov["input_distribution"] = {"F": dist, "T_steps": {"%s/%s/%s" % k: v for k, v in step_count.items()},
                                     "T_mask": dict(tc), "T_scatter": dict(scat_count), "option_matrix": "purge_delay in {-1,0,5,10} x purge_decommits in {0,1}; F records draw purge_delay from {-1,0,1,5,10,100}, arena_purge_mult {0,1,3,10}, purge_extend_delay {0,1,3}"}
    res.cov["models_used"] = ["Model/Os.v", "Model/Mask.v", "Model/Purge.v"]
    res.add_samples([s[:600] for s in samples])
    res.assumptions += ["release configuration: _mi_prim_decommit is madvise(MADV_DONTNEED) without mprotect (needs_recommit=false)",
                        "time is the virtual clock of harness/shim.c (clock_gettime renamed on the harness command line)",
                        "sequential execution of the arena purge (one thread)"]
