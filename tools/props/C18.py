"""C18 -- unused memory is purged after the configured delay without a forced collect
(DESIGN.md section 3, C18).  Also builds Properties/C13mask.v (the mask/purge clauses of C13), whose
models are tied to the code by the same F records."""
import os, collections
import vlib
from vlib import log
from props import oslib

PAGE = 4096
SLICE = 65536


def oracle_mask(tlines):
    """T records of harness/f_mask.c: rounding of mi_segment_commit_mask and mi_os_page_align_areax"""
    bad = []
    def fail(key, text, wit):
        if len(bad) < 20: bad.append((key, text, wit))
    n = collections.Counter()
    for l in tlines:
        f = l.split(); k = f[1]; v = [int(x) for x in f[2:]]; n[k] += 1
        if k == "covers":
            cons, pstart, size, start, full, bitidx, bitcount, segstart, segsize = v
            wit = "mi_segment_commit_mask(conservative=%d, p=segment+%d, size=%d)" % (cons, pstart, size)
            if full > 0:
                if start % SLICE or full % SLICE:
                    fail("mask-unaligned", "commit mask range [%d,+%d) is not slice aligned" % (start, full), wit)
                if (bitidx, bitcount) != (start // SLICE, full // SLICE):
                    fail("mask-bits", "mask bits (%d,%d) do not denote [%d,+%d)" % (bitidx, bitcount, start, full), wit)
                if cons and not (pstart <= start and start + full <= pstart + size):
                    fail("conservative-outside", "conservative mask [%d,+%d) reaches outside the range [%d,+%d): a purge would hit memory that was not freed" % (start, full, pstart, size), wit)
            if not cons and 0 < size <= 32 * 1024 * 1024 and pstart < segsize:
                lo, hi = pstart, min(pstart + size, segsize)
                if not (full > 0 and start <= lo and hi <= start + full):
                    fail("liberal-uncovered", "liberal mask [%d,+%d) does not cover the range [%d,%d): memory handed out without being committed" % (start, full, lo, hi), wit)
            if cons and size > 0 and pstart < segsize:
                # every slice fully inside the range must be in the mask (nothing that could be purged is forgotten)
                lo = -(-pstart // SLICE) * SLICE; hi = min((pstart + size) // SLICE * SLICE, segsize)
                if size <= 32 * 1024 * 1024 and hi > lo and not (full > 0 and start <= max(lo, 0) and start + full >= hi) and lo >= segstart:
                    fail("conservative-incomplete", "conservative mask [%d,+%d) misses whole slices of [%d,+%d)" % (start, full, pstart, size), wit)
        elif k == "align":
            cons, addr, size, start, csize = v
            wit = "mi_os_page_align_areax(conservative=%d, addr=%d, size=%d)" % (cons, addr, size)
            if addr == 0 or size == 0 or addr + size + PAGE >= (1 << 63):
                continue
            if csize > 0 and (start % PAGE or csize % PAGE):
                fail("align-unaligned", "result [%d,+%d) not page aligned" % (start, csize), wit)
            if cons and csize > 0 and not (addr <= start and start + csize <= addr + size):
                fail("align-conservative-outside", "conservative area [%d,+%d) reaches outside [%d,+%d)" % (start, csize, addr, size), wit)
            if not cons and not (csize > 0 and start <= addr and addr + size <= start + csize):
                fail("align-liberal-uncovered", "liberal area [%d,+%d) does not cover [%d,+%d)" % (start, csize, addr, size), wit)
    return bad, n


def oracle_steps(tlines):
    """T step records of harness/t_purge.c T: what the shim saw vs what the property demands"""
    bad = []; n = collections.Counter()
    for l in tlines:
        kind, d = oslib.kv(l)
        if kind != "step":
            continue
        n[(d["wl"], d["step"], d["expect"])] += 1
        wit = "purge_delay=%d purge_decommits=%d workload=%s step=%s virtual time since the memory became unused=%dms (threshold %dms)" % (
            d["delay"], d["decommits"], d["wl"], d["step"], d["since_free"], d["threshold"])
        if d["expect"] == "none" and (d["madvise"] != 0 or d["mprotect"] != 0):
            what = ("memory was purged although purge_delay=-1 disables purging" if d["delay"] < 0 else
                    "memory was purged %dms after it became unused, before the delay of %dms had passed" % (d["since_free"], d["threshold"]))
            bad.append(("purged-early:%s:%s" % (d["wl"], d["step"]), what + " (%d madvise, %d mprotect calls)" % (d["madvise"], d["mprotect"]), wit))
        if d["expect"] == "all" and d["covered"] != d["tracked"]:
            what = ("with purge_delay=0 the memory was not returned as soon as it became unused" if d["delay"] == 0 else
                    "unused memory was not purged %dms after it became unused (delay %dms) by non-forced activity" % (d["since_free"], d["threshold"]))
            bad.append(("not-purged:%s:%s" % (d["wl"], d["step"]), what + ": %d of %d bytes returned" % (d["covered"], d["tracked"]), wit))
        if d["wl"] == "pages2" and not (d["delay"] <= d["expire_rel"] <= d["delay"] + 3 * d["extend"]):
            bad.append(("expiry-out-of-range", "segment purge_expire is %dms after the free, expected between delay=%d and delay+3*extend=%d" % (
                d["expire_rel"], d["delay"], d["delay"] + 3 * d["extend"]), wit))
    return bad, n


def run(res, a):
    proofs_ok = vlib.proof_stage(res, "C18", extra_targets=["Properties/C13mask.vo"])
    thorough = (a.tier == "thorough")
    tflag = "1" if thorough else "0"
    F, T, samples = [], [], []
    dist = {}

    # (1) pure mask arithmetic
    ok, txt, cmd, exe = oslib.build_harness("f_mask", a.pid, plain=True)
    if not ok:
        res.violation("harness-build", "harness/f_mask.c no longer compiles against the current tree: " + txt[-1500:]); return
    ok, rc, out, err = oslib.run_harness(exe, [a.seed, tflag])
    if not ok:
        res.violation("harness-crash", "f_mask exited with %d: %s" % (rc, err[-600:]), witness="f_mask %d" % a.seed); return
    lines = out.splitlines()
    fl = [l for l in lines if l.startswith(("F ", "K "))]; tl = [l for l in lines if l.startswith("T ")]
    bad, tc = oracle_mask(tl)
    for key, text, wit in bad:
        res.violation("impl:" + key, text, witness=wit)
    F += fl; T += tl; dist["f_mask"] = dict(collections.Counter(l.split()[1] for l in fl if l.startswith("F ")))
    samples += [fl[0], fl[len(fl) // 2], tl[0]]

    # (2) purge functions + workloads under the shim and the virtual clock
    ok, txt, cmd, exe = oslib.build_harness("t_purge", a.pid)
    if not ok:
        res.violation("harness-build", "harness/t_purge.c (or shim.c) no longer compiles against the current tree: " + txt[-1500:]); return
    ok, rc, out, err = oslib.run_harness(exe, ["F", a.seed, tflag])
    if not ok:
        res.violation("harness-crash", "t_purge F exited with %d: %s" % (rc, err[-600:]), witness="t_purge F %d" % a.seed); return
    fl = [l for l in out.splitlines() if l.startswith(("F ", "K "))]
    F += fl; dist["t_purge_F"] = dict(collections.Counter(l.split()[1] for l in fl if l.startswith("F ")))
    samples += [fl[2][:400]]
    step_count = collections.Counter()
    any_bad = bool(bad)
    for delay in (-1, 0, 5, 10):
        for dec in (0, 1):
            ok, rc, out, err = oslib.run_harness(exe, ["T", a.seed, delay, dec])
            if not ok:
                res.violation("harness-crash", "t_purge T %d %d exited with %d: %s" % (delay, dec, rc, err[-600:]),
                              witness="purge_delay=%d purge_decommits=%d: the workload of harness/t_purge.c crashes" % (delay, dec)); continue
            lines = out.splitlines()
            tl = [l for l in lines if l.startswith("T ")]
            F += [l for l in lines if l.startswith(("F ", "K "))]
            bad, sc = oracle_steps(tl)
            step_count.update(sc)
            for key, text, wit in bad:
                any_bad = True
                res.violation("impl:" + key, text, witness=wit)
            T += tl
            if delay == 10 and dec == 1:
                samples += [l for l in tl if "step=" in l][:3]
    # (3) regression scenarios of `arena-global-expiry-reset` (repaired by c59c73f): a pending arena must be purged by
    #     NON-forced passes once its own expiry and the re-armed global expiry have passed
    scen = {"two-arenas": ("X", "two arenas A,B (mi_reserve_os_memory_ex, 4 blocks each, exclusive), default options (arena delay 100ms); "
                                "t0: free the only segment of A; t0+50ms: free the only segment of B; t0+120ms: mi_collect(false) purges A while "
                                "B.purge_expire=t0+150 is still pending; then 3 x (advance 100ms; mi_collect(false); mi_malloc(100); mi_free)"),
            "single-arena": ("X2", "default options, the default 1GiB arena; p,q=mi_malloc(20MiB); t0: mi_free(p); t0+10ms: mi_collect(true); "
                                   "t0+50ms: mi_free(q) (arena purge_expire=t0+150); t0+120ms: mi_collect(false) (global expiry passed, arena not "
                                   "yet); then 3 x (advance 100ms; mi_collect(false); mi_malloc(64); mi_free)")}
    for name, (mode, hist) in scen.items():
        ok, rc, out, err = oslib.run_harness(exe, [mode, a.seed])
        wl = [l for l in out.splitlines() if l.startswith("T witness")]
        if not ok or not wl:
            res.violation("harness-crash", "t_purge %s exited with %d: %s" % (mode, rc, err[-600:]), witness="t_purge " + mode); continue
        kind, d = oslib.kv(wl[0])
        T += wl
        if d.get("setup") != 1:
            res.violation("witness-setup:" + name, "the regression scenario could not be set up: " + wl[0], witness=None); continue
        if d["B_purged_after_idle"] != d["expected"]:
            any_bad = True
            res.violation("arena-global-expiry-reset",
                          "a free arena block scheduled for purging is not purged by non-forced passes: after the pass at t0+120ms the global expiry "
                          "mi_arenas_purge_expire is %d while the arena's purge_expire is %d; after 300ms of idle non-forced collects %d of %d bytes "
                          "are purged (global=%d, arena purge_expire=%d)" % (d["global_after_collect1"], d.get("B_expire_after_collect1", d.get("A_expire_after_collect1", -1)),
                                                                               d["B_purged_after_idle"], d["expected"], d["global"], d.get("B_expire", d.get("A_expire", -1))),
                          witness=hist + ". harness record: " + wl[0])
    # (4) model replay
    nrec, mism = oslib.replay(res, F, "C18")
    if mism and not any_bad:
        res.violation("corr:" + mism[0].split()[2], "model/implementation disagreement (%d records), e.g. %s" % (len(mism), mism[0][:1500]), witness=None)
    elif mism:
        log("[corr] %d model/implementation disagreements, e.g. %s" % (len(mism), mism[0][:600]))
    nf = len([l for l in F if l.startswith("F ")])
    res.cov["evaluations"] = nf + len(T)
    res.cov["distinct_nontrivial"] = len(set(F)) + len(set(T))
    res.cov["rule"] = ("F records: the real static functions (mi_commit_mask_*, _mi_commit_mask_next_run, mi_commit_mask_foreach, mi_segment_commit_mask, "
                       "mi_os_page_align_areax, mi_segment_commit/ensure_committed/purge/schedule_purge/try_purge on a segment header in a real 32MiB "
                       "mapping, mi_arena_purge/schedule_purge/try_purge, mi_arenas_try_purge, _mi_arena_free on real arenas) with random masks, "
                       "bitmaps, expiry times, options and virtual `now`; resulting masks/bitmaps/expiry fields, the system calls seen by the OS shim "
                       "and sampled page states must equal the extracted Coq model's. T records: implementation-side oracle (rounding inside/covering; "
                       "per workload step: nothing purged before the delay, everything purged at the delay by non-forced activity, delay 0 immediate, "
                       "delay -1 never). distinct = distinct record lines")
    res.cov["traces_validated_against_impl"] = nrec
    res.cov["disagreements_checked"] = len(mism)
    res.cov["input_distribution"] = {"F": dist, "T_steps": {"%s/%s/%s" % k: v for k, v in step_count.items()},
                                     "T_mask": dict(tc), "option_matrix": "purge_delay in {-1,0,5,10} x purge_decommits in {0,1}; F records draw purge_delay from {-1,0,1,5,10,100}, arena_purge_mult {0,1,3,10}, purge_extend_delay {0,1,3}"}
    res.cov["models_used"] = ["Model/Os.v", "Model/Mask.v", "Model/Purge.v"]
    res.add_samples([s[:600] for s in samples])
    res.assumptions += ["release configuration: _mi_prim_decommit is madvise(MADV_DONTNEED) without mprotect (needs_recommit=false)",
                        "time is the virtual clock of harness/shim.c (clock_gettime renamed on the harness command line)",
                        "sequential execution of the arena purge (one thread)"]
