"""C12 -- heap walking reports exactly the live blocks (DESIGN.md section 3, C12)."""
import vlib, apitrace

def run(res, a):
    if a.replay:
        return apitrace.replay(res, "C12", a.replay)
    vlib.proof_stage(res, "C12")
    big = a.tier == "thorough"
    plan = [("fillfree", 40 if big else 10, 600), ("boundary", 30 if big else 8, 400), ("heaps", 40 if big else 10, 400),
            ("span", 20 if big else 5, 300), ("realloc", 10 if big else 3, 300), ("huge", 6 if big else 2, 40)]
    for sd in ([a.seed, a.seed + 1, a.seed + 2] if big else [a.seed]):
        apitrace.run_traces(res, "C12", plan, sd, dump=True, tag="" if sd == a.seed else "_s%d" % sd)
    # mi_abandoned_visit_blocks: blocks left behind by terminated (virtual) threads, arena and OS-list segments
    import conc
    conc.run_conc(res, "C12", a.seed, a.tier, envs=[None, {"VERIF_NO_ARENA": "1"}, {"VERIF_BIG_ARENA": "1"}], nseeds_quick=16)
    # ... and after every event of every ordering of thread terminations (real pthread exit) and frees / adoptions (harness/t_exitorder.c)
    conc.run_exit_orders(res, "C12", a.seed, a.tier, {"abandoned-visit"})
    res.cov["rule"] = ("API traces (generators of tools/gen_trace.py: page fill/free cycles with hole patterns, class boundaries, several heaps, "
                       "large/huge single-block pages) on the real allocator; at every W op mi_heap_visit_blocks is compared with the shadow table "
                       "(every live block once, enclosing range, no freed block, area.used, early stop) and, per page, the visited block indices with "
                       "the Coq model's page_visit_blocks on the page state dumped before the walk. distinct = distinct traces")
    res.assumptions += ["single-threaded histories without pending cross-thread frees (remote lists are covered by the model theorems and by C08's checks)",
                        "mi_abandoned_visit_blocks is exercised at quiescence of the scheduler harness (mode exit, option visit_abandoned=1) and after every event of the exit/adoption orders of harness/t_exitorder.c, for arena and OS-list segments; it has no Coq statement"]
