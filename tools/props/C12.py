"""C12 -- heap walking reports exactly the live blocks (DESIGN.md section 3, C12)."""
import vlib, apitrace
from vlib import log

def run_walk(res, a):
    """the walk with a refusing visitor (Model/Walk.v, Properties/C12walk.v): harness/t_walk.c against the extracted walk_stop_at"""
    import os, collections
    exe = os.path.join(vlib.BUILD, "t_walk_C12")
    ok, txt, cmd = vlib.cc(os.path.join(vlib.HARN, "t_walk.c"), exe)
    if not ok:
        res.violation("harness-build:t_walk", "harness/t_walk.c no longer compiles against the current tree: " + txt[-1200:])
        return
    okb, txt = vlib.ocaml_build()
    if not okb:
        res.violation("model-build", "extracted model does not build: " + txt[-1200:])
        return
    big = a.tier == "thorough"
    tot = collections.Counter()
    for sd in ([a.seed + i for i in range(6)] if big else [a.seed, a.seed + 1]):
        argv = [exe, str(sd), "160" if big else "64"]
        rc, out, err = vlib.run_split(argv, timeout=900, env=vlib.clean_env())
        wit = "harness/t_walk.c %d %s" % (sd, argv[2])
        if rc != 0 or not out.rstrip().endswith("END"):
            res.violation("impl:walk-crash", "t_walk exited with %d: %s" % (rc, err[-600:]), witness=wit)
            return
        lines = out.splitlines()
        bad = [l for l in lines if l.startswith("T walk") and l.split()[3] == "bad"]
        tot["oracle_records"] += sum(1 for l in lines if l.startswith("T walk"))
        tot["scenarios"] += sum(1 for l in lines if l.startswith("S ") and "profile=" in l)
        for l in lines:
            if l.startswith("S ") and "profile=" in l:
                tot["profile" + l.split("profile=")[1].split()[0]] += 1
        if bad:
            f = bad[0].split()
            what = f[4] if len(f) > 4 else "?"
            key = "impl:walk-stop" if what == "stop" else "impl:walk-" + what.split("-block=")[0][:40]
            res.violation(key, "heap walk oracle of t_walk.c (%d records), e.g. %s" % (len(bad), bad[0]), witness=wit + " : " + bad[0])
        rc, mout = vlib.model_replay("walk", out)
        mism = [l for l in mout.splitlines() if l.startswith("MISMATCH")]
        done = [l for l in mout.splitlines() if l.startswith("DONE")]
        for l in mout.splitlines():
            if l.startswith("STATS walk"):
                for kv in l.split()[2:]:
                    k, v = kv.split("="); tot[k] += int(v)
        if rc != 0 or not done:
            res.violation("model-run:walk", "model replay (mode walk) failed: " + mout[-800:])
        elif mism and not bad:
            res.violation("corr:walk-visitor", "Model/Walk.v and mi_heap_visit_blocks disagree (%d walks), e.g. %s" % (len(mism), mism[0][:400]), witness=None)
        elif mism:
            log("[corr] %d walk disagreements, e.g. %s" % (len(mism), mism[0][:300]))
    res.cov["walk_visitor"] = dict(tot)
    res.cov["evaluations"] = res.cov.get("evaluations", 0) + tot["walks"]
    log("[walk] %s" % dict(tot))


def run(res, a):
    if a.replay:
        return apitrace.replay(res, "C12", a.replay)
    vlib.proof_stage(res, "C12", files=["C12", "C12walk"])
    big = a.tier == "thorough"
    plan = [("fillfree", 40 if big else 10, 600), ("boundary", 30 if big else 8, 400), ("heaps", 40 if big else 10, 400),
            ("span", 20 if big else 5, 300), ("realloc", 10 if big else 3, 300), ("huge", 6 if big else 2, 40)]
    for sd in ([a.seed, a.seed + 1, a.seed + 2] if big else [a.seed]):
        apitrace.run_traces(res, "C12", plan, sd, dump=True, tag="" if sd == a.seed else "_s%d" % sd)
    run_walk(res, a)
    # mi_abandoned_visit_blocks: blocks left behind by terminated (virtual) threads, arena and OS-list segments
    import conc
    conc.run_conc(res, "C12", a.seed, a.tier, envs=[None, {"VERIF_NO_ARENA": "1"}, {"VERIF_BIG_ARENA": "1"}], nseeds_quick=16)
    # ... and after every event of every ordering of thread terminations (real pthread exit) and frees / adoptions (harness/t_exitorder.c)
    conc.run_exit_orders(res, "C12", a.seed, a.tier, {"abandoned-visit"})
    res.cov["rule"] = ("API traces (generators of tools/gen_trace.py: page fill/free cycles with hole patterns, class boundaries, several heaps, "
                       "large/huge single-block pages) on the real allocator; at every W op mi_heap_visit_blocks is compared with the shadow table "
                       "(every live block once, enclosing range, no freed block, area.used, early stop) and, per page, the visited block indices with "
                       "the Coq model's page_visit_blocks on the page state dumped before the walk. distinct = distinct traces")
    res.assumptions += ["single-threaded histories without pending cross-thread frees (remote lists are covered by the model theorems and by C08's checks)",
                        "mi_abandoned_visit_blocks is exercised at quiescence of the scheduler harness (mode exit, option visit_abandoned=1) and after every event of the exit/adoption orders of harness/t_exitorder.c, for arena and OS-list segments; it has no Coq statement"]
