"""C02 -- no double hand-out or corruption under concurrent alloc and cross-thread free (DESIGN.md section 3, C02)."""
import os
import vlib, conc

def run(res, a):
    if a.replay:
        return conc.replay(res, "C02", a.replay)
    vlib.proof_stage(res, "C02")
    # mode exit with reclaim-on-free: several threads race to adopt the same abandoned segment on their first free into it
    conc.run_conc(res, "C02", a.seed, a.tier, envs=[None, {"VERIF_RECLAIM_ON_FREE": "1"}, {"VERIF_NO_ARENA": "1", "VERIF_RECLAIM_ON_FREE": "1"}], nseeds_quick=24)
    conc.run_lockstep(res, "C02", a.seed, a.tier)
    # the adoption of an abandoned segment by a cross-thread free (reclaim-on-free) is part of the free protocol: lockstep with Model/Abandon.v
    conc.run_abandon_lockstep(res, "C02", a.seed, a.tier, envs=[{"VERIF_RECLAIM_ON_FREE": "1"}, {"VERIF_NO_ARENA": "1", "VERIF_RECLAIM_ON_FREE": "1"}])
    try:
        import tfree_sim
        st = tfree_sim.run_sim(a.seed, 400 if a.tier == "thorough" else 60)
        res.cov["model_simulation"] = st
    except Exception as e:
        res.cov["model_simulation"] = "not run: %s" % e
    res.cov["rule"] = ("the REAL allocator runs in 2-5 cooperative virtual threads (ucontext); every atomic operation of mimalloc (hooks in atomic.h) is a "
                       "scheduling point chosen by a seeded PRNG, weak CAS fails spuriously with 6% probability, preemption is biased to the windows "
                       "between a load and the CAS/store on a shared list word; threads allocate, hand blocks to each other through a slot table and "
                       "free blocks allocated by any thread; oracles: no allocation overlaps a block somebody holds, every block keeps its byte pattern "
                       "until freed, no crash, no livelock. distinct = distinct (mode, seed, threads, ops) schedules")
    res.assumptions += ["interleavings are sequentially consistent per atomic location; C11 release/acquire visibility of block->next is not modelled",
                        "real pthreads are not used by this check: thread identity comes from the MI_PRIM_THREAD_ID extension point"]
