"""C09abandon -- the abandonment / adoption state machine of C09 (model part; the coordinator owns the C09 check).

proofs: Properties/C09abandon.v over Model/Abandon.v (interleaving semantics).  No harness of its own: the real code is
exercised by the coordinator's scheduler harness (harness/s_conc.c, mode `exit`), whose step log is to be compared with
`Abandon.adoption_trace` (ocaml mode `abandon-trace` prints it).  The only run-time part here is the MODEL-SIDE simulator
(`abandon-sim`, a supporting test of the theorems and of the two open statements of Proofs/AbandonOpen.v)."""
import vlib


def run(res, a):
    vlib.proof_stage(res, "C09abandon")
    okb, txt = vlib.ocaml_build()
    if not okb:
        res.violation("model-build", "extracted model does not build: " + txt[-1200:])
        return
    n = 4000 if a.tier == "thorough" else 600
    text = "".join("%d %d %d\n" % (a.seed * 10 + k, n, 100 + 100 * k) for k in range(3))
    rc, mout = vlib.model_replay("abandon-sim", text, timeout=1200)
    mism = [l for l in mout.splitlines() if l.startswith("MISMATCH")]
    stat = [l for l in mout.splitlines() if l.startswith("STAT")]
    done = [l for l in mout.splitlines() if l.startswith("DONE")]
    if rc != 0 or not done:
        res.violation("model-run", "abandon-sim failed: " + mout[-800:])
    for m in mism[:5]:
        # a failure of the simulator is a defect of the MODEL or of an (open) statement about it, not of /repo
        res.violation("sim:" + m.split()[2], "model-side simulator: " + m, witness=None)
    steps = sum(int(x.split("steps=")[1].split()[0]) for x in stat)
    res.cov["evaluations"] = steps
    res.cov["distinct_nontrivial"] = 3 * n
    res.cov["rule"] = ("model-side only (supporting test): random small-step schedules of random programs of the Coq model; inv_b after every step; "
                       "finished/quiescent/abandoned_count accounting at the end; one forced collect per sub-process must leave no dead abandoned "
                       "segment. distinct = generated programs. The real code is not run by this check.")
    res.cov["traces_validated_against_impl"] = 0
    res.cov["disagreements_checked"] = len(mism)
    res.cov["input_distribution"] = {"programs": 3 * n, "model_steps": steps, "stat": stat}
    res.add_samples(stat[:3])
    res.level = "proof (model part); tie to the implementation is the coordinator's scheduler harness"
    res.assumptions += ["the decomposition into atomic steps (order: thread_id := 0 before the abandoned bit is set; bit cleared before abandoned_count-- before thread_id := me) "
                        "was read from src/segment.c and src/arena-abandon.c; it is to be confirmed by the schedule-lockstep replay against harness/s_conc.c",
                        "collect_frees_dead_abandoned and the abandoned_count accounting are stated (Proofs/AbandonOpen.v) and simulated, not proved"]
