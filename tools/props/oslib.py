"""Shared by the checks that run the allocator under the OS shim (C18, C11; C07/C13 can reuse it):
building harness/shim.c and shim-renamed harnesses, running them, parsing `T key=value` records,
replaying F records on the extracted model (mode "os")."""
import os, re
import vlib

RENAMES = ["-Dmmap=shim_mmap", "-Dmunmap=shim_munmap", "-Dmprotect=shim_mprotect", "-Dmadvise=shim_madvise",
           "-Dclock_gettime=shim_clock_gettime"]


def build_shim():
    """compile harness/shim.c WITHOUT the renames; returns (ok, text, object path)"""
    obj = os.path.join(vlib.BUILD, "shim.o")
    with vlib.Lock("shim"):
        rc, txt = vlib.run(["gcc", "-O1", "-g", "-Wall", "-c", os.path.join(vlib.HARN, "shim.c"), "-I" + vlib.HARN, "-o", obj])
    return rc == 0, txt, obj


def build_harness(name, tag, plain=False):
    """build harness/<name>.c from /repo's current tree (with the shim renames unless plain)"""
    exe = os.path.join(vlib.BUILD, "%s_%s" % (name, tag))
    if plain:
        return vlib.cc(os.path.join(vlib.HARN, name + ".c"), exe) + (exe,)
    ok, txt, obj = build_shim()
    if not ok:
        return False, "shim.c does not compile: " + txt, "", exe
    return vlib.cc(os.path.join(vlib.HARN, name + ".c"), exe, extra=RENAMES + [obj]) + (exe,)


def run_harness(exe, args, timeout=600):
    rc, out, err = vlib.run_split([exe] + [str(a) for a in args], timeout=timeout, env=vlib.clean_env())
    ok = (rc == 0 and out.rstrip().endswith("END"))
    return ok, rc, out, err


def kv(line):
    """`T kind a=1 b=x ...` -> (kind, {a: 1, b: 'x'}) ; integers converted"""
    f = line.split()
    d = {}
    for t in f[2:]:
        if "=" in t:
            k, v = t.split("=", 1)
            try:
                d[k] = int(v)
            except ValueError:
                d[k] = v
    return f[1], d


def replay(res, records, what):
    """run the extracted model on F/K records; returns (#records, mismatch lines) and reports build/run problems"""
    okb, txt = vlib.ocaml_build()
    if not okb:
        res.violation("model-build", "extracted model does not build: " + txt[-1200:])
        return 0, []
    rc, mout = vlib.model_replay("os", "\n".join(records) + "\n", timeout=2400)
    mism = [l for l in mout.splitlines() if l.startswith("MISMATCH")]
    done = [l for l in mout.splitlines() if l.startswith("DONE")]
    if rc != 0 or not done:
        res.violation("model-run", "model replay (%s) failed: %s" % (what, mout[-800:]))
        return 0, []
    return int(done[0].split()[1]), mism


def td_faults(res, exe):
    """mode D of harness/t_osfree.c: thread metadata allocation with the first / second / both mmap attempts refused"""
    ok, rc, out, err = run_harness(exe, ["D", 1])
    if not ok:
        res.violation("impl:thread-data-crash", "t_osfree D (thread metadata under OS refusals) exited with %d: %s" % (rc, err[-400:]), witness="t_osfree D")
        return 0
    n = 0
    for l in out.splitlines():
        if not l.startswith("T td "): continue
        k, d = kv(l); n += 1
        what = {0: "no refusal", 1: "the first mmap refused", 2: "(second attempt never made)", 3: "both mmap attempts refused"}[d["mask"]]
        wit = "mi_thread_data_zalloc with %s; mi_thread_data_free; _mi_thread_data_collect  [%s]" % (what, l)
        if d["ok"] != d["expect_ok"]:
            res.violation("impl:thread-data-alloc", "thread metadata allocation with %s %s" % (what, "failed" if d["expect_ok"] else "succeeded"), witness=wit)
        elif d["ok"] and not d["zero"]:
            res.violation("impl:thread-data-not-zero", "thread metadata is not zero-initialised (%s)" % what, witness=wit)
        elif d["mapped_after"] != d["mapped_before"] or d["nmaps_after"] != d["nmaps_before"]:
            res.violation("impl:thread-data-not-released", "thread metadata obtained with %s is never unmapped: %d bytes in %d mappings left after mi_thread_data_free and "
                          "_mi_thread_data_collect (memid kind %d)" % (what, d["mapped_after"] - d["mapped_before"], d["nmaps_after"] - d["nmaps_before"], d["memkind"]), witness=wit)
    res.cov["evaluations"] += n
    res.cov.setdefault("input_distribution", {})["thread_data_fault_cases"] = n
    return n
