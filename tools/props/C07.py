"""C07 -- operating-system refusals are survived without crash or corruption (DESIGN.md section 3, C07).
Fault enumeration on the real allocator: the API-trace harness is linked with the OS shim; for a workload,
the k-th OS call (mmap/munmap/mprotect/madvise) after the FAIL op fails -- once (mode 0) or persistently (mode 1)
until OKAY -- for every k; the shadow oracles (content, overlap, accessibility of what is handed out, no crash)
run throughout, and after OKAY well-formed requests must succeed again."""
import os, re, collections, concurrent.futures, random
import vlib, apitrace, gen_trace

SHIM_FLAGS = ["-DVERIF_SHIM", "-Dmmap=shim_mmap", "-Dmunmap=shim_munmap", "-Dmprotect=shim_mprotect", "-Dmadvise=shim_madvise",
              "-Dclock_gettime=shim_clock_gettime"]
KINDS = {"crash", "content", "overlap", "inaccessible", "fail", "realloc-content", "zero", "rezalloc-zero", "walk", "usable", "align", "posix"}


def build(res):
    obj = os.path.join(vlib.BUILD, "shim_C07.o")
    rc, txt = vlib.run(["gcc", "-O1", "-g", "-c", os.path.join(vlib.HARN, "shim.c"), "-o", obj, "-I" + vlib.HARN])
    if rc != 0:
        res.violation("harness-build", "harness/shim.c does not compile: " + txt[-800:]); return None
    return apitrace.build(res, "t_api_shim_C07", extra=SHIM_FLAGS + [obj])


def workload(profile, seed, nops, opts):
    lines = gen_trace.make_trace(profile, seed, nops, None)
    cut = (2 * len(lines)) // 3
    head = ["OPT %d %d" % (k, v) for k, v in opts]
    return head, lines[:cut], lines[cut:]


def run(res, a):
    if a.replay:
        exe = build(res)
        if exe:
            rc, out, err = apitrace.run_one(exe, a.replay, dump=False)
            v, ended = apitrace.parse(rc, out)
            for op, kind, text in v:
                if kind in KINDS: res.violation("impl:" + kind, "replay: " + text, witness=open(a.replay).read())
            res.cov["evaluations"] += 1; res.cov["distinct_nontrivial"] += 2; res.add_samples([a.replay])
        return
    if os.path.exists(os.path.join(vlib.COQ, "Properties", "C07.v")):
        vlib.proof_stage(res, "C07")
    else:
        res.level = "fault_enumeration"
    exe = build(res)
    if exe is None:
        return
    # corpus first: the witnesses of the repaired defects (known_findings.txt, fixed: C07 ...)
    cdir = os.path.join(vlib.VERIF, "corpus", "C07"); ncorpus = 0
    for name in sorted(os.listdir(cdir)) if os.path.isdir(cdir) else []:
        if not name.endswith(".trace"): continue
        rc, out, err = apitrace.run_one(exe, os.path.join(cdir, name), dump=False)
        v, ended = apitrace.parse(rc, out); ncorpus += 1
        for op, kind, text in v:
            if kind in KINDS:
                res.violation("impl:" + kind, "corpus/C07/%s reproduces: %s" % (name, text), witness=open(os.path.join(cdir, name)).read(), replay_name="C07_corpus_%s" % name)
                break
    # thread metadata under OS refusals (function-level: mi_thread_data_zalloc / _free / _collect with the shim ledger)
    import props.oslib as oslib
    okh, txth, cmdh, exeh = oslib.build_harness("t_osfree", "C07")
    if not okh:
        res.violation("harness-build", "harness/t_osfree.c no longer compiles against the current tree: " + txth[-1000:])
    else:
        oslib.td_faults(res, exeh)
    big = a.tier == "thorough"
    import props.C13 as c13
    idx = c13.option_index()
    # option settings that change which OS calls are made
    settings = [[], [(idx["arena_eager_commit"], 0)], [(idx["eager_commit"], 0), (idx["arena_eager_commit"], 0)],
                [(idx["eager_commit"], 0), (idx["disallow_arena_alloc"], 1)], [(idx["disallow_arena_alloc"], 1)], [(idx["purge_delay"], 0)],
                [(idx["arena_reserve"], 65536)]]
    profiles = [("span", 150), ("huge", 30), ("hugechurn", 40), ("heaps", 120), ("realloc", 150), ("fillfree", 200), ("aligned", 150)]
    tdir = os.path.join(vlib.BUILD, "traces", "C07"); os.makedirs(tdir, exist_ok=True)
    jobs = []; stats = collections.Counter()
    rng = random.Random(a.seed)
    nwork = 0
    for si, opts in enumerate(settings if big else settings[:5]):
        for profile, nops in (profiles if big else profiles[:4] + ([("aligned", 60)] if si == 0 else [])):    # aligned: the posix / memalign entry points under refusals
            head, body, tail = workload(profile, a.seed * 50 + si, nops, opts)
            # reference run: how many OS calls does the window make without failures?
            ref = os.path.join(tdir, "ref_%s_%d.trace" % (profile, si))
            open(ref, "w").write("\n".join(head + ["FAIL 1000000 0"] + body + ["OKAY"] + tail) + "\n")
            rc, out, err = apitrace.run_one(exe, ref, dump=False)
            v, ended = apitrace.parse(rc, out)
            m = re.search(r'OKAY injected=\d+ oscalls=(\d+)', out)
            ncalls = int(m.group(1)) if m else 0
            for op, kind, text in v:
                if kind in KINDS: jobs.append(None); res.violation("impl:" + kind, "reference run without failures: " + text, witness=open(ref).read())
            nwork += 1; stats["os_calls_in_windows"] += ncalls
            ks = list(range(ncalls + 1))
            if not big and len(ks) > 14:
                ks = sorted(set(ks[:6] + rng.sample(ks[6:], 8)))
            for k in ks:
                for mode in (0, 1):
                    path = os.path.join(tdir, "%s_%d_k%d_m%d.trace" % (profile, si, k, mode))
                    lines = head + ["FAIL %d %d" % (k, mode)] + body + ["OKAY"] + tail
                    open(path, "w").write("\n".join(lines) + "\n")
                    jobs.append((profile, si, k, mode, path, lines))
    jobs = [j for j in jobs if j]
    found = {}
    with concurrent.futures.ThreadPoolExecutor(max_workers=int(vlib.JOBS)) as ex:
        futs = {ex.submit(apitrace.run_one, exe, j[4], False): j for j in jobs}
        for fu in concurrent.futures.as_completed(futs):
            profile, si, k, mode, path, lines = futs[fu]
            rc, out, err = fu.result()
            v, ended = apitrace.parse(rc, out)
            stats["fault_runs"] += 1
            m = re.search(r'M mapped=(\d+) accessible=(\d+) committed=(\d+) oscalls=(\d+) injected=(\d+)', out)
            if m: stats["injected_failures"] += int(m.group(5))
            for op, kind, text in v:
                stats["viol:" + kind] += 1
                if kind in KINDS and kind not in found:
                    found[kind] = (profile, si, k, mode, path, lines, text)
    for kind, (profile, si, k, mode, path, lines, text) in found.items():
        wit = "# trace for harness/t_api.c linked with the OS shim (replay: tools/check C07 --replay <this file>)\n# OS call %d after FAIL fails (%s); oracle: %s %s\n%s" % (
            k, "persistently until OKAY" if mode else "once", kind, text, "\n".join(lines))
        res.violation("impl:" + kind, "%s with OS failure injected at call %d (%s), workload %s/options#%d: %s" % (kind, k, "persistent" if mode else "single", profile, si, text),
                      witness=wit, replay_name="C07_%s_%s_%d_k%d_m%d.trace" % (kind, profile, si, k, mode))
    try:
        import commitmodel
        commitmodel.run(res, a.seed, a.tier)
    except ImportError:
        pass
    res.cov["evaluations"] += stats["fault_runs"] + nwork
    res.cov["distinct_nontrivial"] += stats["fault_runs"]
    res.cov["traces_validated_against_impl"] += stats["fault_runs"]
    res.cov.setdefault("input_distribution", {}).update({"workloads": nwork, "fault_positions_run": stats["fault_runs"], "os_calls_in_windows": stats["os_calls_in_windows"],
                                     "injected_failures_total": stats["injected_failures"],
                                     "oracle_violations_by_kind": {k[5:]: v for k, v in stats.items() if k.startswith("viol:")}})
    res.cov["rule"] = ("for each workload (API trace x option setting) every position k of the OS-call sequence of the failure window is failed once and "
                       "persistently (quick tier: first 6 positions plus a seeded sample); a run is non-trivial when at least one failure was injected; "
                       "oracles: no crash, live blocks keep content, no overlap, every block handed out is accessible per the shim ledger, requests "
                       "succeed again after OKAY")
    res.add_samples(["%s opts#%d FAIL %d %d" % (j[0], j[1], j[2], j[3]) for j in jobs[:4]])
    res.assumptions += ["failure of thread-metadata allocation (new threads) is not exercised by this single-threaded harness",
                        "the process 'never crashes' is observed (exit status / signal), not proved"]
