"""C19 -- drop-in override: every standard entry point is served by one allocator (DESIGN.md section 3, C19).

 1. proof stage: Gen/Override.v regenerated from the shared library built from the current tree
    (tools/gen_override.py), Properties/C19.v re-checked (override_ok table = true by computation).
 2. implementation-side oracle: harness/t_override.c and harness/t_override.cpp -- ordinary programs that
    neither include a mimalloc header nor link mimalloc -- are run with LD_PRELOAD=build/libmimalloc_verif.so
    and, separately, linked with build/mimalloc_verif.o first (static override); they check every entry point
    and every (allocating, releasing/resizing/querying) pair and print T records.
 3. differentials: generated table vs `nm` of the library actually preloaded; library vs static object;
    required entry points of the model vs the undefined references of the test programs (coverage);
    where the dynamic linker binds every name of the table inside the preloaded process.
"""
import os, re, collections
import vlib
from vlib import log
import gen_override

LIBNAME = os.path.basename(gen_override.LIB)
CFLAGS = ["-O0", "-g", "-fno-builtin", "-w", "-I" + vlib.HARN]
MAX_RESTARTS = 8


def parse_gen_table():
    """entries of coq/Gen/Override.v as written: sym -> (target, via, args)"""
    txt = open(gen_override.OUT).read()
    tab = {}
    for m in re.finditer(r'mkEntry "([^"]+)" "([^"]+)" (Alias|Forwarder) \[([^\]]*)\]', txt):
        tab[m.group(1)] = (m.group(2), m.group(3), [int(x) for x in m.group(4).split(";") if x.strip()])
    mi = re.search(r'Definition mi_defined : list string := \[(.*?)\]\.', txt, re.S)
    mi_defined = re.findall(r'"([^"]+)"', mi.group(1)) if mi else []
    return tab, mi_defined


def parse_required():
    """required entry points of coq/Model/Override.v: list of (sym, lang, cls, presence)"""
    txt = vlib.strip_coq_comments(open(os.path.join(vlib.COQ, "Model", "Override.v")).read())
    return [(m.group(1), m.group(2), m.group(3), m.group(4)) for m in
            re.finditer(r'mkReq\s+"([^"]+)"\s+(LC|LCxx|LGlibc)\s+(\w+)\s.*?\b(MustExport|ViaMalloc|Optional)\s*[;\n\]]', txt)]


def build_programs(res):
    """returns dict name -> (exe, mode) or None when something does not build"""
    ok, msg = gen_override.build_object()
    if not ok:
        res.violation("object-build", msg)
        return None
    progs = {}
    jobs = [
        ("c/preload", "gcc", ["-std=gnu11"], [], "t_override.c", "t_override_C19"),
        ("c++/preload", "g++", ["-std=c++17"], [], "t_override.cpp", "t_override_cpp_C19"),
        # the static override object goes FIRST on the link line (as /repo's readme and CMake document)
        ("c/static", "gcc", ["-std=gnu11", "-DSTATIC_OVERRIDE"], [gen_override.OBJ], "t_override.c", "t_override_static_C19"),
        ("c++/static", "g++", ["-std=c++17", "-DSTATIC_OVERRIDE"], [gen_override.OBJ], "t_override.cpp", "t_override_cpp_static_C19"),
    ]
    for name, comp, std, objs, src, exe in jobs:
        out = os.path.join(vlib.BUILD, exe)
        cmd = [comp] + std + CFLAGS + objs + [os.path.join(vlib.HARN, src), "-o", out, "-lpthread", "-ldl"]
        rc, txt = vlib.run(cmd, timeout=300)
        if rc != 0:
            res.violation("harness-build:" + name, "test program %s no longer builds/links in mode %s (%s): %s" % (src, name, " ".join(cmd), txt[-1500:]),
                          witness=(" ".join(cmd) if "static" in name else None))
            return None
        progs[name] = out
    return progs


def run_program(name, exe, thorough, resolve_args, first=0, last=None):
    """run one test program from pair index `first`; restarts after a crash.  returns (lines, crashes)"""
    env = vlib.clean_env()
    if "preload" in name:
        env["LD_PRELOAD"] = gen_override.LIB
    if name.endswith("/os-segments"):
        env["MIMALLOC_DISALLOW_ARENA_ALLOC"] = "1"
    if last is not None:
        env["T_OVERRIDE_LAST"] = str(last)
    lines, crashes = [], []
    exitfile = os.path.join(vlib.BUILD, "t_override_exit_%s.txt" % re.sub(r'[^a-z+]', '_', name))
    env["T_OVERRIDE_EXITFILE"] = exitfile
    for attempt in range(MAX_RESTARTS + 1):
        try: os.remove(exitfile)
        except OSError: pass
        rc, out, err = vlib.run_split([exe, str(first), "1" if thorough else "0"] + (resolve_args if first == 0 else []),
                                      timeout=900, env=env)
        ls = out.splitlines()
        lines += ls
        if ls and ls[-1].startswith("END"):
            # the program finished its checks: it must also EXIT cleanly, and the stream it left buffered must have been flushed by exit()
            try: data = open(exitfile).read()
            except OSError: data = None
            if rc != 0 or data is None or not data.startswith("written before exit"):
                crashes.append({"idx": -2, "line": "process exit (after all checks): exit status %d, buffered output of an unclosed stream %s" %
                                (rc, "lost" if rc == 0 else "not flushed"), "rc": rc, "err": err[-400:]})
            break
        if rc == 0 and ls and ls[-1].startswith("END"):
            break
        marks = [l for l in ls if l.startswith(("B ", "C "))]
        if marks and marks[-1].startswith("B "):
            f = marks[-1].split()
            crashes.append({"idx": int(f[1]), "line": marks[-1], "rc": rc, "err": err[-400:]})
            first = int(f[1]) + 1
        elif marks and "T_OVERRIDE_SKIP_CODES" not in env:
            # died inside a return-value check: report it, then run the pairs without that section
            crashes.append({"idx": -1, "line": "return-value check `%s`" % marks[-1][2:], "rc": rc, "err": err[-400:]})
            env["T_OVERRIDE_SKIP_CODES"] = "1"
        else:
            crashes.append({"idx": -1, "line": "(start-up, before any check)", "rc": rc, "err": err[-400:]})
            break
    return lines, crashes


def kv(fields):
    d = {}
    for f in fields:
        if "=" in f:
            k, v = f.split("=", 1); d[k] = v
    return d


def run(res, a):
    thorough = (a.tier == "thorough")
    proofs_ok = vlib.proof_stage(res, "C19", with_override=True)
    res.assumptions += [
        "Linux/glibc x86-64, gcc; the library is built with the defines and code-generation flags of /repo's CMake target (-O2 -DNDEBUG -fvisibility=hidden -DMI_MALLOC_OVERRIDE -DMI_SHARED_LIB_EXPORT), as C",
        "symbol resolution order of the dynamic linker (LD_PRELOAD first) and of the static linker (object before libc) is trusted; it is observed, not proved: T resolve records",
        "hypothesis H of C19_cross_entry_point_ok (a block of any allocating mi_ function is accepted by every releasing/resizing/querying mi_ function of the same instance) is the subject of C01/C03/C05",
        "strdup/strndup/realpath when not exported: glibc's versions call malloc through the PLT (observed by the harness: results lie in a mimalloc heap region)",
    ]
    if not (os.path.exists(gen_override.LIB) and os.path.exists(gen_override.STAMP)):
        return     # the library does not build: reported by proof_stage (key gen)
    with vlib.Lock("c19"):
        _run_impl(res, a, thorough, proofs_ok)


def _run_impl(res, a, thorough, proofs_ok):
    # ---- differential 1: the generated table against nm of the library that will be preloaded ----
    diffs = 0
    defined, imports = gen_override.nm_dynamic(gen_override.LIB)
    try:
        gen_tab, gen_mi = parse_gen_table()
    except OSError:
        gen_tab, gen_mi = {}, []
    nm_syms = set(n for n in defined if not n.startswith("mi_"))
    if gen_tab or proofs_ok:
        for s in sorted(nm_syms - set(gen_tab)):
            diffs += 1
            res.violation("table:missing:" + s, "the preloaded library exports `%s` but coq/Gen/Override.v has no entry for it (table is not the table of this library)" % s)
        for s in sorted(set(gen_tab) - nm_syms):
            diffs += 1
            res.violation("table:stale:" + s, "coq/Gen/Override.v has an entry for `%s` that the preloaded library does not export" % s)
        for s, (tgt, via, args) in sorted(gen_tab.items()):
            if s in defined and tgt not in defined:
                diffs += 1
                res.violation("table:target:" + s, "entry `%s` names target `%s` which the library does not define" % (s, tgt))
            elif s in defined and via == "Alias" and defined[s][0] != defined[tgt][0]:
                diffs += 1
                res.violation("table:alias:" + s, "entry `%s` is recorded as an alias of `%s` but nm shows different addresses" % (s, tgt))
        if sorted(gen_mi) != sorted(n for n in defined if n.startswith("mi_")):
            diffs += 1
            res.violation("table:mi_defined", "the mi_ function list of coq/Gen/Override.v differs from nm of the library")
    required = parse_required()
    req_names = [r[0] for r in required]

    # ---- build the test programs (and the static object) from the current tree ----
    progs = build_programs(res)
    if progs is None:
        return

    # ---- differential 2: library vs static object, and what the static executables define ----
    rc, out = vlib.run(["nm", "--defined-only", gen_override.OBJ])
    obj_defs = set(l.split()[2] for l in out.splitlines() if len(l.split()) == 3 and l.split()[1] in "TW")
    for s in sorted(nm_syms - obj_defs):
        diffs += 1
        res.violation("static:missing:" + s, "the shared library exports `%s` but the static override object does not define it: the two ways of overriding serve different sets of entry points" % s,
                      witness="nm --defined-only %s | grep -w %s" % (gen_override.OBJ, s))
    for name in ("c/static", "c++/static"):
        rc, out = vlib.run(["nm", "--defined-only", progs[name]])
        exe_defs = set(l.split()[2] for l in out.splitlines() if len(l.split()) == 3 and l.split()[1] in "TW")
        for sym, lang, cls, pres in required:
            if pres == "MustExport" and sym not in exe_defs:
                diffs += 1
                res.violation("static:unbound:" + sym, "statically overridden program (%s): required entry point `%s` is not defined by the executable, it would come from libc / the C++ runtime" % (name, sym),
                              witness="nm --defined-only %s | grep -w %s" % (progs[name], sym))

    # ---- differential 3: does the harness exercise every required entry point? ----
    undef = set()
    for name in ("c/preload", "c++/preload"):
        rc, out = vlib.run(["nm", "-u", progs[name]])
        undef |= set(l.split()[-1].split("@")[0] for l in out.splitlines() if l.split())
    uncovered = [s for s, lang, cls, pres in required if lang in ("LC", "LCxx") and s != "cfree" and s not in undef]
    for s in uncovered:
        res.violation("coverage:" + s, "the test programs do not reference required entry point `%s` (nm -u): the harness would not notice a missing or wrong forward" % s)

    # ---- run ----
    resolve_args = ["%s=%s" % (s, gen_tab[s][0]) for s in sorted(gen_tab)] + \
                   ["%s=%s" % (s, "mi_malloc") for s in req_names if s not in gen_tab]
    progs["c/preload/os-segments"] = progs["c/preload"]
    if a.replay:
        return _replay(res, a, progs, thorough)
    all_T, n_eval, pairs_seen, fails = [], 0, set(), []
    dist = collections.OrderedDict()
    info = []
    # the fifth run repeats the preloaded C program with arenas disallowed: every segment then comes straight from the OS and is known
    # to mi_is_in_heap_region / cfree only through the segment map
    for name in ("c/preload", "c++/preload", "c/static", "c++/static", "c/preload/os-segments"):
        lines, crashes = run_program(name, progs[name], thorough, resolve_args)
        tl = [l for l in lines if l.startswith("T ")]
        all_T += tl
        cnt = collections.Counter(l.split()[1] for l in tl)
        dist[name] = dict(cnt)
        for c in crashes:
            f = c["line"].split()
            what = " ".join(f[2:]) if c["idx"] >= 0 else c["line"]
            key = "impl:crash:%s:%s" % (name, "->".join(f[2:4]) if c["idx"] >= 0 else re.sub(r'[^A-Za-z0-9_(),\[\]-]', '', c["line"].split("`")[1] if "`" in c["line"] else "startup"))
            res.violation(key, "%s: the program died (exit %s) in %s %s" % (name, c["rc"], what, c["err"].strip()[-300:]),
                          witness="%s\nreplay: prog=%s idx=%d" % (what, name, c["idx"]))
        if not crashes and not any(l.startswith("END") for l in lines):
            res.violation("impl:noend:" + name, "%s: no END record" % name, witness=name)
        idx_of = {}
        for l in lines:
            f = l.split()
            if l.startswith("B "):
                idx_of[(f[2], f[3], f[4], f[5])] = int(f[1])
            elif l.startswith("T pair"):
                d = kv(f[4:]); n_eval += 1
                pairs_seen.add((name.split("/")[0], f[2], f[3]))
                if d.get("ok") != "1":
                    idx = idx_of.get((f[2], f[3], "size=" + d.get("size", ""), "align=" + d.get("align", "")), -1)
                    fails.append((name, "pair", f[2], f[3], d, idx))
            elif l.startswith("T alloc"):
                d = kv(f[3:]); n_eval += 1
                if d.get("ok") != "1":
                    fails.append((name, "alloc", f[2], "", d, -1))
            elif l.startswith("T code"):
                d = kv(f[3:]); n_eval += 1
                if d.get("ok") != "1":
                    fails.append((name, "code", f[2], "", d, -1))
            elif l.startswith("T resolve"):
                d = kv(f[3:]); n_eval += 1
                sym = f[2]
                if sym in gen_tab:
                    tgt, via, _ = gen_tab[sym]
                    if d.get("lib") != LIBNAME:
                        fails.append((name, "resolve", sym, "", {"why": "bound to %s instead of the preloaded %s" % (d.get("lib"), LIBNAME)}, -1))
                    elif via == "Alias" and d.get("eq") != "1":
                        fails.append((name, "resolve", sym, "", {"why": "alias of %s but the addresses differ in the process" % tgt}, -1))
            elif l.startswith("T info"):
                info.append(name + ": " + " ".join(f[2:]))
        # every required entry point the library should export must be bound to the preloaded library
        if "preload" in name:
            want_lang = "LC" if name.startswith("c/") else "LCxx"     # the C program does not load the C++ runtime
            bound = {l.split()[2]: kv(l.split()[3:]).get("lib") for l in tl if l.startswith("T resolve")}
            for sym, lang, cls, pres in required:
                if lang == want_lang and pres == "MustExport" and bound.get(sym) != LIBNAME:
                    fails.append((name, "resolve", sym, "", {"why": "required entry point is bound to %s, not to the preloaded %s" % (bound.get(sym), LIBNAME)}, -1))

    # ---- violations: allocation-side failures first (they name the entry point that is not served) ----
    reported = 0
    order = {"alloc": 0, "resolve": 1, "code": 2, "pair": 3}
    for name, kind, x, y, d, idx in sorted(fails, key=lambda t: order[t[1]]):
        if reported >= 8:
            break
        if kind == "alloc":
            key = "impl:alloc:" + x
            text = "%s: entry point `%s` (size=%s align=%s): %s" % (name, x, d.get("size"), d.get("align"), d.get("why"))
            wit = "%s: p = %s(size=%s, align=%s)  ->  %s" % (name, x, d.get("size"), d.get("align"), d.get("why"))
        elif kind == "resolve":
            key = "impl:resolve:" + x
            text = "%s: symbol `%s`: %s" % (name, x, d.get("why"))
            wit = "LD_PRELOAD=%s: dlsym(RTLD_DEFAULT, \"%s\"): %s" % (gen_override.LIB, x, d.get("why"))
        elif kind == "code":
            key = "impl:code:" + x
            text = "%s: documented return value violated: %s (got %s, want %s)" % (name, x, d.get("got"), d.get("want"))
            wit = "%s: %s got=%s want=%s" % (name, x, d.get("got"), d.get("want"))
        else:
            if d.get("why", "").startswith("skipped"):
                continue      # consequence of an allocation failure already reported
            key = "impl:pair:%s->%s" % (x, y)
            text = "%s: block from `%s` (size=%s align=%s) handed to `%s`: %s" % (name, x, d.get("size"), d.get("align"), y, d.get("why"))
            wit = "%s: p = %s(size=%s, align=%s); %s(p)  ->  %s\nreplay: prog=%s idx=%d" % (name, x, d.get("size"), d.get("align"), y, d.get("why"), name, idx)
        before = len(res.violations) + len(res.known_hit)
        res.violation(key, text, witness=wit)
        reported += (len(res.violations) + len(res.known_hit)) - before

    # ---- evidence ----
    res.cov["evaluations"] = n_eval
    res.cov["distinct_nontrivial"] = len(pairs_seen)
    res.cov["rule"] = ("T records of four runs (C and C++ program, each LD_PRELOADed and statically overridden): per entry point the returned pointer lies in a "
                       "mimalloc heap region, malloc_usable_size = mi_usable_size >= request, alignment, zero fill, contents; per (allocating, consuming) pair the "
                       "block is released/resized/queried through the other entry point; documented return values (posix_memalign EINVAL/ENOMEM with untouched slot, "
                       "reallocarray NULL+ENOMEM, NULL on overflow, nothrow new -> nullptr); binding of every table symbol in the process. "
                       "distinct = distinct (language, allocating entry point, consuming entry point)")
    res.cov["traces_validated_against_impl"] = n_eval
    res.cov["disagreements_checked"] = diffs
    res.cov["input_distribution"] = dist
    res.cov["table"] = {"entries": len(gen_tab), "alias": sum(1 for v in gen_tab.values() if v[1] == "Alias"),
                        "forwarder": sum(1 for v in gen_tab.values() if v[1] == "Forwarder"),
                        "mi_defined": len(gen_mi), "imports": len(imports),
                        "required": len(required), "must_export": sum(1 for r in required if r[3] == "MustExport"),
                        "required_not_exported": [r[0] for r in required if r[0] not in gen_tab]}
    res.cov["observations"] = sorted(set(info))
    res.cov["exhaustive"] = "all (allocating, consuming) entry point pairs x the size/alignment lists of the tier"
    res.add_samples([l for l in all_T if l.startswith("T pair")][::max(1, len(all_T) // 6)][:6] + [l for l in all_T if l.startswith("T code")][:2])
    res.cov["trusted_base"] = res.cov.get("trusted_base", []) + [
        "tools/gen_override.py (regex over gcc -E output; fails on anything it does not recognise) and binutils nm",
        "harness/t_override.c, t_override.cpp and the probes mi_is_in_heap_region / mi_usable_size of the library under test"]


def _replay(res, a, progs, thorough):
    """tools/check C19 --replay FILE: re-run the single pair named in a replay file"""
    txt = open(a.replay).read()
    m = re.search(r'replay: prog=(\S+) idx=(-?\d+)', txt)
    if not m or m.group(1) not in progs or int(m.group(2)) < 0:
        log("replay file has no runnable pair; running nothing")
        return
    name, idx = m.group(1), int(m.group(2))
    mt = re.search(r'^tier=(\w+)', txt, re.M)
    if mt:
        thorough = (mt.group(1) == "thorough")      # pair indices depend on the tier's size list
    lines, crashes = run_program(name, progs[name], thorough, [], first=idx, last=idx)
    for l in lines:
        log(l)
    bad = [l for l in lines if l.startswith("T ") and " ok=0" in l]
    if crashes or bad:
        res.violation("replay", "replayed pair still fails: %s" % (bad[0] if bad else crashes[0]["line"]), witness=txt)
