"""C08 -- remotely freed memory is never lost; producer/consumer use stays bounded (DESIGN.md section 3, C08)."""
import vlib, conc

def run(res, a):
    if a.replay:
        return conc.replay(res, "C08", a.replay)
    vlib.proof_stage(res, "C08")
    conc.run_conc(res, "C08", a.seed, a.tier)
    conc.run_lockstep(res, "C08", a.seed, a.tier)
    res.cov["rule"] = ("scheduler harness, mode tfree: after a random phase all blocks are freed by whichever thread gets there first, then every owner "
                       "runs a forced collect and its heap must hold no pages (page_count = 0); at quiescence the main heap must report no blocks; a run "
                       "that exhausts the step budget is reported as livelock. mode prodcons (harness/prodcons.h): 1-2 owner threads allocate into a ring "
                       "of 16 slots each (sizes 40000/70000 in stretches so that pages fill up, plus 200000, 9000, 4000, 1000; a quarter of the slots "
                       "long-lived), 1-3 consumer threads free them remotely, 4800-16000 allocations per owner; after every allocation the owner's heap "
                       "must satisfy: blocks counted as used whose free has returned <= (L + threads) + 2*D and page_count <= 2*(L + threads) + 2*D + 6 "
                       "(L = live-block bound, D = 100 = drain period of the delayed-free list, 16 with explicit collects); oracle `unbounded`. "
                       "distinct = distinct schedules")
    res.assumptions += ["'bounded memory' is checked as a bound on the owner heap's pages and on its remotely freed but unreclaimed blocks that does not "
                        "depend on the length of the run (measured maxima and bounds: input_distribution.prodcons_bounded_memory), and structurally "
                        "(nothing stays behind at quiescence); it is not a resident-set measurement"]
