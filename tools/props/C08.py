"""C08 -- remotely freed memory is never lost; producer/consumer use stays bounded (DESIGN.md section 3, C08)."""
import vlib, conc

def run(res, a):
    if a.replay:
        return conc.replay(res, "C08", a.replay)
    vlib.proof_stage(res, "C08")
    conc.run_conc(res, "C08", a.seed, a.tier)
    conc.run_lockstep(res, "C08", a.seed, a.tier)
    res.cov["rule"] = ("scheduler harness, mode tfree: after a random phase all blocks are freed by whichever thread gets there first, then every owner "
                       "runs a forced collect and its heap must hold no pages (page_count = 0); at quiescence the main heap must report no blocks; a run "
                       "that exhausts the step budget is reported as livelock. distinct = distinct schedules")
    res.assumptions += ["'bounded memory' is checked structurally (nothing stays behind at quiescence), not as a resident-set measurement"]
