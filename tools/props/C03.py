"""C03 (DESIGN.md section 3, C03)."""
import vlib, apitrace

def run(res, a):
    if a.replay:
        return apitrace.replay(res, "C03", a.replay)
    vlib.proof_stage(res, "C03", files=["C03", "C01span"])
    k = 3 if a.tier == "thorough" else 1
    plan = [("aligned", 14*k, 350), ("boundary", 4*k, 300), ("realloc", 4*k, 300), ("huge", 3*k, 40), ("malformed", 2*k, 200)]
    for sd in ([a.seed, a.seed + 1] if a.tier == "thorough" else [a.seed]):
        apitrace.run_traces(res, "C03", plan, sd, dump=False, tag="" if sd == a.seed else "_s%d" % sd, repeat=3)
    try:
        import spanmodel
        spanmodel.run(res, a.seed, a.tier)     # aligned-huge placement oracle and slice-array replay
    except ImportError:
        pass
    try:
        import apimodel
        st = apimodel.run(res, a.seed, a.tier)
        res.cov.setdefault("input_distribution", {})["f_api"] = {"F": st.get("F", {}), "T": st.get("T", {}), "records": st.get("records", 0), "distinct": st.get("distinct", 0), "mismatches": st.get("mismatches", 0)}
        res.cov["evaluations"] += st.get("records", 0)
    except ImportError:
        pass
    res.cov["rule"] = ("API traces on the real allocator: aligned grid (size x 2^k, k=0..26 x offset) on a dirty heap so that the fast small-page path, natural alignment, over-allocation and huge alignment all occur; oracles: mi_usable_size >= n, 16/8-byte minimal alignment, (p+offset) mod a = 0, interior pointers accepted by free/usable_size/expand/realloc (content and overlap oracles keep running), alignment kept by realloc_aligned. distinct = distinct traces (+ function-level records of harness/f_api.c compared with the Coq API model)")
