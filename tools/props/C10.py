"""C10 -- first-class heaps: delete migrates, destroy frees exactly its own blocks (DESIGN.md section 3, C10)."""
import vlib, conc, apitrace

def run(res, a):
    if a.replay:
        if a.replay.endswith(".sched"): return conc.replay(res, "C10", a.replay)
        return apitrace.replay(res, "C10", a.replay)
    vlib.proof_stage(res, "C10", files=["C10", "C10conc"])
    vlib.corpus_programs(res, "C10", {"heap_delete_incompatible.c": "impl:heap-delete-incompatible"})
    big = a.tier == "thorough"
    plan = [("heaps", 60 if big else 16, 400), ("boundary", 4, 200)]
    exe = apitrace.build(res)
    outs = {}
    apitrace.run_traces(res, "C10", plan, a.seed, dump=True, exe=exe, keep_outputs=outs)
    try:
        import heapmodel
        heapmodel.run_on_outputs(res, outs)
    except ImportError:
        pass
    conc.run_conc(res, "C10", a.seed, a.tier)
    conc.run_lockstep(res, "C10", a.seed, a.tier)
    res.cov["rule"] = ("sequential: API traces creating, filling, deleting and destroying several heaps in any order with set_default, checked by the shadow "
                       "table (blocks of a deleted heap stay valid and are attributed to the backing heap, destroy drops exactly its own blocks, "
                       "mi_heap_contains_block / mi_heap_check_owned agree with the shadow attribution, default falls back) and by replaying the dumped "
                       "page queues against the Coq heap model; concurrent: scheduler harness mode heap (mi_heap_delete / mi_heap_collect while other "
                       "virtual threads free blocks of that heap). distinct = distinct traces + schedules")
