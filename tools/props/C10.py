"""C10 -- first-class heaps: delete migrates, destroy frees exactly its own blocks (DESIGN.md section 3, C10)."""
import vlib, conc, apitrace

def run(res, a):
    if a.replay:
        if a.replay.endswith(".sched"): return conc.replay(res, "C10", a.replay)
        return apitrace.replay(res, "C10", a.replay)
    vlib.proof_stage(res, "C10", files=["C10", "C10conc"])
    vlib.corpus_programs(res, "C10", {"heap_delete_incompatible.c": "impl:heap-delete-incompatible", "destroy_frees_adopted.c": "impl:destroy-frees-adopted"})
    big = a.tier == "thorough"
    plan = [("heaps", 60 if big else 16, 400), ("boundary", 4, 200)]
    exe = apitrace.build(res)
    outs = {}
    apitrace.run_traces(res, "C10", plan, a.seed, dump=True, exe=exe, keep_outputs=outs)
    # the ownership queries (mi_heap_contains_block / mi_heap_check_owned / mi_is_in_heap_region) also for segments that come straight
    # from the OS (arenas disallowed): such segments are known to the allocator only through the segment map
    import props.C13 as c13
    oi = c13.option_index()
    if "disallow_arena_alloc" in oi:
        apitrace.run_traces(res, "C10", [("heaps", 20 if big else 5, 300), ("boundary", 2, 200)], a.seed + 50, dump=False, exe=exe, tag="_os",
                            options=[(oi["disallow_arena_alloc"], 1)])
    try:
        import heapmodel
        heapmodel.run_on_outputs(res, outs)
    except ImportError:
        pass
    conc.run_conc(res, "C10", a.seed, a.tier)
    conc.run_lockstep(res, "C10", a.seed, a.tier)
    # the heap program under the lockstep: C10conc.absorb_no_dangling_heap is a theorem about exactly this protocol
    conc.run_lockstep(res, "C10", a.seed, a.tier, mode="lockheap", key="corr:tfree-lockstep-heap", kinds=conc.KINDS["C10"]["heap"])
    res.cov["rule"] = ("sequential: API traces creating, filling, deleting and destroying several heaps in any order with set_default, checked by the shadow "
                       "table (blocks of a deleted heap stay valid and are attributed to the backing heap, destroy drops exactly its own blocks, "
                       "mi_heap_contains_block / mi_heap_check_owned agree with the shadow attribution, default falls back) and by replaying the dumped "
                       "page queues against the Coq heap model; concurrent: scheduler harness mode heap (mi_heap_delete / mi_heap_collect while other "
                       "virtual threads free blocks of that heap); schedule-lockstep of that heap program (s_conc mode lockheap): every atomic "
                       "access to xthread_free / xheap / thread_delayed_free of mi_heap_delete (mi_heap_absorb: first drain, xheap store and "
                       "_mi_page_use_delayed_free spin per page, final _mi_heap_delayed_free_all, mi_heap_free), mi_heap_collect, mi_heap_new and of the "
                       "concurrent remote frees must be a transition of Model/TFree.v (OpHeapDelete = frames HD2/HD3/HD4 is followed without "
                       "decomposition), inv_b evaluated on the synchronised states; histogram of the model transitions used: "
                       "input_distribution.lockheap_model_transitions. distinct = distinct traces + schedules")
