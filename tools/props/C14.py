"""C14 -- concurrent arena claims are disjoint and leave nothing reserved behind (DESIGN.md section 3, C14).

proof      : coq/Properties/C14.v (interleaving invariant of the small-step bitmap model, any number of
             threads / any schedule; sequential specifications; the multi-block limitation as `_refuted`)
tie (F)    : every function of src/bitmap.c on random bitmaps vs the extracted sequential model, and the
             small-step machine run alone vs the same records
oracle (T) : bit-exact claim/unclaim oracles, pthread stress on the raw functions with a shadow owner
             array, the real arena (mi_manage_os_memory_ex + _mi_arena_alloc_aligned/_mi_arena_free)
sched (S)  : harness/s_arena.c: the REAL src/bitmap.c / src/arena.c in 2-4 virtual threads under the deterministic
             scheduler (every mi_atomic_* a scheduling point); implementation oracles with a shadow owner array
             (witness = the deterministic schedule replay line) and SCHEDULE-LOCKSTEP replay of the atomic-access log on
             the extracted small-step machine (`replay bitmap-trace`: same field, same old/new value, same outcome at
             every step, inv_b after every step, results of completed calls)
model (M)  : MODEL-SIDE testing only: random schedules of 2-4 model threads, inv_b after every step
"""
import os, re, collections, subprocess, concurrent.futures
import vlib, conc
from vlib import log

SCHED_KINDS = {"lost-bit", "double-claim", "outside", "bad-unclaim", "not-claimed", "residue", "refill", "livelock", "crash", "setup"}
PC_KEYS = ["FLoad", "FCas.ok", "FCas.fail", "ALoad", "AScan", "AInitLoad", "AInitCas.ok", "AInitCas.fail", "AMidCas.ok", "AMidCas.fail",
           "AFinalLoad", "AFinalCas.ok", "AFinalCas.fail", "ARollStore", "ARollInitLoad", "ARollInitCas.ok", "ARollInitCas.fail",
           "UPre", "UMid", "UPost", "PLoad", "PCas.ok", "PCas.fail", "PUnclaim"]


def parse_kv(line):
    return dict(m.groups() for m in re.finditer(r'(\w+)=(-?\d+)', line))

# ---- scheduler stage: harness/s_arena.c ----------------------------------------------------------------------
def sched_build(res):
    exe = os.path.join(vlib.BUILD, "s_arena")
    ok, txt, cmd = vlib.cc(os.path.join(vlib.HARN, "s_arena.c"), exe, extra=conc.HOOK_FLAGS + ["-Dclock_gettime=verif_clock_gettime"])
    if not ok:
        res.violation("harness-build", "harness/s_arena.c no longer compiles against the current tree with the hooks on (a modelled function of bitmap.c / arena.c changed its interface): " + txt[-1500:])
        return None
    return exe


def sched_run(exe, mode, seed, nt, nops, want_log=False, timeout=120):
    cmd = [exe, mode, str(seed), str(nt), str(nops)] + (["log"] if want_log else [])
    try:
        p = subprocess.run(cmd, stdout=subprocess.PIPE, stderr=subprocess.PIPE, preexec_fn=vlib._limits, timeout=timeout, env=vlib.clean_env(), text=True, errors="replace")
        return p.returncode, p.stdout
    except subprocess.TimeoutExpired as ex:
        o = ex.stdout or b""
        return 124, (o.decode(errors="replace") if isinstance(o, bytes) else o) + "\nV livelock t0 step=0 harness timeout\n"


def sched_parse(rc, out):
    v, end, h = [], None, {}
    for l in out.splitlines():
        if l.startswith("V "):
            f = l.split(" ", 2)
            v.append((f[1], f[2] if len(f) > 2 else ""))
        elif l.startswith("H "):
            h = parse_kv(l)
        elif l.startswith("END "):
            end = parse_kv(l)
    if end is None and not v:
        v.append(("crash", "s_arena exited with status %d without END line" % rc))
    return v, end, h


def sched_lockstep(exe, job):
    """one logged run + its replay on the extracted machine"""
    mode, sd, nt, nops = job
    rc, out = sched_run(exe, mode, sd, nt, nops, want_log=True, timeout=180)
    logtxt = "\n".join(l for l in out.splitlines() if l[:2] in ("I ", "A ", "S ", "R ", "B ") or l in ("B", "I"))
    rc2, mout = vlib.model_replay("bitmap-trace", logtxt + "\n", timeout=600)
    return job, rc, out, mout


def sched_shrink(exe, mode, sd, nt, nops, kind):
    """fewer threads / shorter programs that still fail with the same oracle (same seed)"""
    for t in range(2, nt + 1):
        for n in (5, 10, 20, nops):
            if n > nops or (t == nt and n == nops):
                continue
            v, _, _ = sched_parse(*sched_run(exe, mode, sd, t, n))
            if any(k == kind for k, _ in v):
                return t, n
    return nt, nops


def sched_stage(res, a, proofs_ok):
    exe = sched_build(res)
    if exe is None:
        return
    okb, txt = vlib.ocaml_build()
    thorough = (a.tier == "thorough")
    n_oracle = 6000 if thorough else 1500         # runs per mode, oracles only
    n_lock = 240 if thorough else 48              # logged runs per mode, replayed in lockstep
    base = a.seed * 1000000
    ojobs = [(mode, base + i, 2 + i % 3, (90 if thorough else 50) if i % 4 else 20) for mode in ("raw", "arena") for i in range(n_oracle)]
    ljobs = [(mode, base + 500000 + i, 2 + i % 3, (80 if thorough else 40) if i % 3 else 16) for mode in ("raw", "arena") for i in range(n_lock)]
    stats = collections.Counter(); hsum = collections.Counter(); found = {}
    def note(job, rc, out):
        v, end, h = sched_parse(rc, out)
        stats["schedules"] += 1; stats["schedules_" + job[0]] += 1
        if end:
            stats["atomic_steps"] += int(end.get("steps", 0)); stats["context_switches"] += int(end.get("switches", 0))
        for k, x in h.items():
            if k != "fields": hsum[k] += int(x)
        for kind, text in v:
            stats["viol:" + kind] += 1
            if kind not in found or job[1] < found[kind][0][1]:
                found[kind] = (job, text)
        return v
    with concurrent.futures.ThreadPoolExecutor(max_workers=int(vlib.JOBS)) as ex:
        futs = {ex.submit(sched_run, exe, *j): j for j in ojobs}
        for fu in concurrent.futures.as_completed(futs):
            note(futs[fu], *fu.result())
    # ---- lockstep ------------------------------------------------------------------------------------------
    lstats = collections.Counter(); pcs = collections.Counter(); evs = collections.Counter(); first_mismatch = None
    if not okb:
        res.violation("model-build", "extracted model does not build: " + txt[-1200:])
    else:
        with concurrent.futures.ThreadPoolExecutor(max_workers=int(vlib.JOBS)) as ex:
            for job, rc, out, mout in ex.map(lambda j: sched_lockstep(exe, j), ljobs):
                v = note(job, rc, out)
                lstats["logs"] += 1; lstats["logs_" + job[0]] += 1
                m = re.search(r'STAT bitmap-lockstep lines=(\d+) atomic_steps=(\d+) inv_b_checks=(\d+) calls=(\d+) observer_loads=(\d+) inferred_purge_steps=(\d+) max_candidate_pcs=(\d+)', mout)
                if m:
                    lstats["atomic_steps"] += int(m.group(2)); lstats["inv_b_checks"] += int(m.group(3)); lstats["calls"] += int(m.group(4))
                    lstats["observer_loads"] += int(m.group(5)); lstats["inferred_purge_steps"] += int(m.group(6))
                for l in mout.splitlines():
                    if l.startswith("PC "):
                        for k, x in re.findall(r'([\w.]+)=(\d+)', l): pcs[k] += int(x)
                    elif l.startswith("EV "):
                        for k, x in re.findall(r'([\w().-]+)=(\d+)', l): evs[k] += int(x)
                mm = [l for l in mout.splitlines() if l.startswith("MISMATCH")]
                d = re.search(r'DONE (\d+) (\d+)', mout)
                if mm or not d or int(d.group(2)) != 0 or not m:
                    lstats["mismatching_logs"] += 1
                    if first_mismatch is None or job[1] < first_mismatch[0][1]:
                        first_mismatch = (job, mm[0] if mm else mout[-300:], bool(v))
    # ---- report ---------------------------------------------------------------------------------------------
    wit0 = None
    for kind in sorted(found, key=lambda k: found[k][0][1]):
        (mode, sd, nt, nops), text = found[kind]
        snt, snops = sched_shrink(exe, mode, sd, nt, nops, kind)
        if (snt, snops) != (nt, nops):
            v, _, _ = sched_parse(*sched_run(exe, mode, sd, snt, snops))
            text = next((x for k, x in v if k == kind), text)
        # what the interleaving model says about this schedule
        verdict = ""
        if okb:
            _, _, _, mout = sched_lockstep(exe, (mode, sd, snt, snops))
            mm = [l for l in mout.splitlines() if l.startswith("MISMATCH")]
            verdict = ("\n# lockstep replay on Model/Bitmap.v: " + (mm[0] if mm else "the model follows the log up to the violation"))
        wit = "# schedule replay (deterministic): build/s_arena %s %d %d %d\n# oracle: %s %s%s" % (mode, sd, snt, snops, kind, text, verdict)
        if wit0 is None: wit0 = wit
        res.violation("impl:sched-" + kind, "%s under the deterministic scheduler, mode %s (seed %d, %d threads, %d ops per thread): %s" % (kind, mode, sd, snt, snops, text[:900]),
                      witness=wit, replay_name="C14_%s_%s_%d.sched" % (kind, mode, sd))
    if first_mismatch:
        (mode, sd, nt, nops), text, oracle_failed = first_mismatch
        # the model cannot take the logged step of the real code: the decomposition into atomic steps (what the interleaving theorems
        # are about) no longer matches.  A concrete failing input exists only when an implementation oracle failed as well.
        res.violation("corr:bitmap-lockstep", "the small-step machine of Model/Bitmap.v cannot follow the atomic accesses of the real code (schedule: build/s_arena %s %d %d %d log | replay bitmap-trace; %d of %d logs): %s"
                      % (mode, sd, nt, nops, lstats["mismatching_logs"], lstats["logs"], text[:600]),
                      witness=(wit0 + "\n# lockstep schedule: build/s_arena %s %d %d %d log" % (mode, sd, nt, nops)) if wit0 else None,
                      replay_name="C14_lockstep_%s_%d.sched" % (mode, sd))
    never = [k for k in PC_KEYS if pcs.get(k, 0) == 0]
    res.cov["scheduler"] = dict(stats, harness_histogram=dict(hsum))
    res.cov["lockstep"] = dict(lstats, machine_pc_histogram={k: pcs.get(k, 0) for k in PC_KEYS}, machine_pcs_never_exercised=never, ghost_events=dict(evs),
                               note="one entry per program counter of Model/Bitmap.v (CAS pcs split by outcome): number of logged atomic accesses of the REAL code that the model thread took at that pc")
    res.cov["evaluations"] += stats["schedules"] + lstats["atomic_steps"]
    res.cov["distinct_nontrivial"] += stats["schedules"]
    res.cov["traces_validated_against_impl"] += lstats["logs"]
    res.add_samples(["s_arena %s %d %d %d" % j for j in (ojobs[0], ojobs[n_oracle])] + ["s_arena %s %d %d %d log | replay bitmap-trace" % j for j in (ljobs[0], ljobs[n_lock])], limit=12)
    return never


def replay(res, path):
    txt = open(path).read()
    m = re.search(r'build/s_arena (\w+) (\d+) (\d+) (\d+)', txt)
    if not m:
        res.violation("replay", "not a schedule replay file of C14: " + path); return
    exe = sched_build(res)
    if exe is None: return
    v, end, h = sched_parse(*sched_run(exe, m.group(1), int(m.group(2)), int(m.group(3)), int(m.group(4))))
    for kind, text in v:
        res.violation("impl:sched-" + kind, "replay: " + text, witness=txt)
    if vlib.ocaml_build()[0]:
        _, _, _, mout = sched_lockstep(exe, (m.group(1), int(m.group(2)), int(m.group(3)), int(m.group(4))))
        mm = [l for l in mout.splitlines() if l.startswith("MISMATCH")]
        if mm:
            res.violation("corr:bitmap-lockstep", "replay: " + mm[0][:800], witness=txt if v else None)
    res.cov["evaluations"] += 1; res.cov["distinct_nontrivial"] += 1
    res.add_samples([m.group(0)])


def run(res, a):
    if a.replay:
        return replay(res, a.replay)
    proofs_ok = vlib.proof_stage(res, "C14")
    thorough = (a.tier == "thorough")
    # ---- build + run the harness on the current tree -------------------------------------------------
    exe = os.path.join(vlib.BUILD, "f_bitmap_%s" % a.pid)
    ok, txt, cmd = vlib.cc(os.path.join(vlib.HARN, "f_bitmap.c"), exe)
    if not ok:
        res.violation("harness-build", "harness/f_bitmap.c no longer compiles against the current tree (a modelled function of bitmap.c / arena.c changed its interface): " + txt[-1500:])
        return
    seeds = [a.seed] if not thorough else [a.seed, a.seed + 1, a.seed + 2]
    flines, tlines = [], []
    for sd in seeds:
        rc, out, err = vlib.run_split([exe, str(sd), "1" if thorough else "0"], timeout=1500, env=vlib.clean_env())
        lines = out.splitlines()
        tl = [l for l in lines if l.startswith("T ")]
        fl = [l for l in lines if l.startswith("F ")]
        if rc != 0 or not out.rstrip().endswith("END"):
            # a crash or hang of the real code under the harness is itself a failing input
            fails = [l for l in tl if l.startswith("T FAIL")]
            res.violation("impl:harness-crash", "f_bitmap exited with %d before END (seed %d): %s %s" % (rc, sd, err[-600:], " | ".join(fails[:3])),
                          witness="f_bitmap %d %d" % (sd, 1 if thorough else 0))
            tlines += tl
            continue
        flines += fl
        tlines += tl
    # ---- implementation-side oracle --------------------------------------------------------------------
    fails = [l for l in tlines if l.startswith("T FAIL")]
    seen = set()
    for l in fails:
        kind = l.split()[2]
        if kind in seen:
            continue
        seen.add(kind)
        res.violation("impl:" + kind, "implementation oracle `%s` failed: %s" % (kind, l[7:1200]), witness=l[7:3000])
    findings = [l for l in tlines if l.startswith("T finding multiblock-top-bit")]
    absent = [l for l in tlines if l.startswith("T sum multiblock_top_bit_absent")]
    if findings:
        res.violation("multiblock-top-bit",
                      "a completely free arena cannot serve a request of more than 2 blocks when the top bit of the bitmap field is set "
                      "(mi_bitmap_try_find_claim_field_across returns false when mi_clz(map)==0 and the in-field attempt is commented out): "
                      + findings[0][len("T finding multiblock-top-bit "):],
                      witness=findings[0][len("T finding "):])
    elif absent and proofs_ok:
        res.violation("corr:multiblock-top-bit-absent",
                      "theorem C14_multiblock_top_bit_refuted (model) is no longer reproduced by the implementation: " + absent[0], witness=None)
    sums = {}
    runs = collections.defaultdict(list)
    for l in tlines:
        f = l.split()
        if f[1] == "sum" and len(f) == 5 and f[3].lstrip("-").isdigit():
            c = sums.setdefault(f[2], [0, 0]); c[0] += int(f[3]); c[1] += int(f[4])
        elif f[1] == "sum" and f[2] in ("stress_run", "arena_run"):
            runs[f[2]].append(parse_kv(l))
    # ---- model replay: F records, machine-alone cross-check, model-side schedules ---------------------
    okb, txt = vlib.ocaml_build()
    mism, sinfo, minfo = [], {}, {}
    nsched = 1500 if thorough else 150
    if not okb:
        res.violation("model-build", "extracted model does not build: " + txt[-1200:])
    else:
        rc, mout = vlib.model_replay("bitmap", "\n".join(flines) + "\nS %d %d\n" % (a.seed, nsched), timeout=3000)
        mlines = mout.splitlines()
        mism = [l for l in mlines if l.startswith("MISMATCH")]
        done = [l for l in mlines if l.startswith("DONE")]
        for l in mlines:
            if l.startswith("SINFO"):
                sinfo = parse_kv(l)
            if l.startswith("MINFO"):
                minfo = parse_kv(l)
        if rc != 0 or not done:
            res.violation("model-run", "model replay failed: " + mout[-800:])
        else:
            mf = [l for l in mism if l.startswith("MISMATCH F")]
            mm = [l for l in mism if l.startswith("MISMATCH M")]
            ms = [l for l in mism if l.startswith("MISMATCH S")]
            if mf and not fails:
                # model and code disagree but the implementation oracle found no failing input
                res.violation("corr:" + mf[0].split()[2], "model/implementation disagreement on %d records, e.g. %s" % (len(mf), mf[0][:1500]), witness=None)
            elif mf:
                log("[corr] %d model/implementation disagreements, e.g. %s" % (len(mf), mf[0][:400]))
            if mm:
                res.violation("model:machine-vs-sequential", "the small-step machine run alone disagrees with the sequential model: " + mm[0][:1500], witness=None)
            if ms:
                res.violation("model:schedule-invariant", "model-side schedule test failed (contradicts theorem C14_reachable_inv): " + ms[0][:1500], witness=None)
    # ---- evidence --------------------------------------------------------------------------------------
    res.cov["evaluations"] = 0; res.cov["distinct_nontrivial"] = 0; res.cov["traces_validated_against_impl"] = 0
    never = sched_stage(res, a, proofs_ok)
    fcount = collections.Counter(l.split()[1] for l in flines)
    nchecks = sum(c[0] for c in sums.values())
    res.cov["evaluations"] += len(flines) + nchecks + int(sinfo.get("steps", 0))
    res.cov["distinct_nontrivial"] += len(set(flines))
    res.cov["rule"] = ("F records: a real function of src/bitmap.c (static.c TU) on a PRNG bitmap of 1..4 fields compared bit-exactly (result + bitmap after) "
                       "with the extracted sequential Coq model; `across`/`unclaimx` records additionally with the small-step machine run alone. "
                       "T: implementation oracles (see implementation_oracles: checked / failed). "
                       "S (scheduler, lockstep): harness/s_arena.c runs the real bitmap.c (mode raw: one shared bitmap of 1-4 fields) and the real arena.c (mode arena: "
                       "mi_manage_os_memory_ex arena of 66-200 blocks, _mi_arena_alloc_aligned / _mi_arena_free / _mi_arenas_collect under a purge delay and a virtual clock) "
                       "in 2-4 virtual threads, every mi_atomic_* a scheduling point chosen by a seeded PRNG; oracles on a shadow owner array after every atomic write "
                       "(no owned or pre-claimed bit cleared, no bit handed out twice, own ranges unclaim with all bits set, bitmap back to the initial pattern at quiescence, "
                       "arena allocatable completely again); the logged runs are replayed in lockstep on the extracted small-step machine: the model thread must take exactly "
                       "the logged access (field, old value, new value, load / CAS ok / CAS fail / store / fetch-and) at every step, inv_b after every step, call results equal. "
                       "M (model_side_schedule_tests): MODEL-SIDE ONLY, inv_b after every step of random interleavings of the extracted small-step model. "
                       "distinct = distinct F record lines + distinct (mode, seed, threads, ops) schedules")
    res.cov["traces_validated_against_impl"] += len(flines)
    res.cov["disagreements_checked"] = len(mism)
    res.cov["input_distribution"] = {"F": dict(fcount)}
    res.cov["implementation_oracles"] = {k: {"checked": v[0], "failed": v[1]} for k, v in sums.items()}
    res.cov["pthread_stress_runs"] = runs.get("stress_run", [])
    res.cov["real_arena_runs"] = runs.get("arena_run", [])
    res.cov["machine_alone_vs_real_code_records"] = int(minfo.get("machine_solo_checked", 0))
    res.cov["model_side_schedule_tests"] = dict(sinfo, note="model-side testing of the extracted small-step machine (supports the theorems; NOT a comparison with the real code: that is the `lockstep` entry)")
    res.cov["exhaustive"] = False
    pick = lambda xs, k: [l for l in xs if l.startswith(k)][:1]
    res.add_samples(pick(flines, "F across") + pick(flines, "F facross") + pick(flines, "F unclaimx") + pick(flines, "F field") +
                    pick(tlines, "T sum stress_run") + pick(tlines, "T sum arena_run") + pick(tlines, "T finding"))
    res.assumptions += [
        "64-bit Linux release configuration, MI_HAVE_FAST_BITSCAN; MI_BITMAP_FIELD_BITS = 64 (checked against Gen/Consts.v by Proofs/BitmapProofs.v consts_ok)",
        "sequentially consistent interleaving of the atomic accesses of bitmap.c (all accesses are to single fields; acq_rel CAS / fetch-and, relaxed loads): weaker orderings of the C11 memory model are not modelled",
        "the decomposition of the C functions into atomic steps is tied to the code by the schedule-lockstep replay (harness/s_arena.c under the MI_VERIF_HOOKS scheduler vs the extracted machine, `lockstep` in the coverage) on the sampled schedules, besides the F records of the sequential runs and the pthread oracles; "
        "machine pcs that no sampled schedule reached are listed in lockstep.machine_pcs_never_exercised" + (" (this run: scheduler stage not run)" if never is None else (" (this run: " + ", ".join(never) + ")") if never else " (this run: none)"),
        "lockstep abstractions: (1) only accesses to the fields of the bitmap under test are compared (blocks_inuse in arena mode; accesses to blocks_purge / blocks_committed / blocks_dirty, purge_expire, statistics are scheduling points but not machine steps); "
        "(2) the arguments of the purge operations inside _mi_arena_free / _mi_arenas_collect are not visible to the harness (static functions of arena.c): the replay accepts a purge step when SOME OpPurge(bitmap_idx, len) "
        "of the accessed field can take it (set of candidate pcs, collapses at the first successful CAS); (3) _mi_bitmap_is_claimed_across is an observer, not a machine operation: its loads must read the model's field values; "
        "(4) _mi_bitmap_unclaim of an in-field range is replayed as OpFree (the same single fetch-and)",
        "the virtual threads are cooperative: an atomic access and the shadow-array update that follows a returning call are not separated by a scheduling point (the oracle sees exactly the linearisation the scheduler chose)",
        "request counts below 2^64-64 (arena block counts are below 2^39); a completed claim is freed at most once (the double-free check of _mi_arena_free is check-then-act)",
    ]
