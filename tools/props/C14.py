"""C14 -- concurrent arena claims are disjoint and leave nothing reserved behind (DESIGN.md section 3, C14).

proof      : coq/Properties/C14.v (interleaving invariant of the small-step bitmap model, any number of
             threads / any schedule; sequential specifications; the multi-block limitation as `_refuted`)
tie (F)    : every function of src/bitmap.c on random bitmaps vs the extracted sequential model, and the
             small-step machine run alone vs the same records
oracle (T) : bit-exact claim/unclaim oracles, pthread stress on the raw functions with a shadow owner
             array, the real arena (mi_manage_os_memory_ex + _mi_arena_alloc_aligned/_mi_arena_free)
model (S)  : MODEL-SIDE testing only: random schedules of 2-4 model threads, inv_b after every step
"""
import os, re, collections
import vlib
from vlib import log


def parse_kv(line):
    return dict(m.groups() for m in re.finditer(r'(\w+)=(-?\d+)', line))


def run(res, a):
    proofs_ok = vlib.proof_stage(res, "C14")
    thorough = (a.tier == "thorough")
    # ---- build + run the harness on the current tree -------------------------------------------------
    exe = os.path.join(vlib.BUILD, "f_bitmap_%s" % a.pid)
    ok, txt, cmd = vlib.cc(os.path.join(vlib.HARN, "f_bitmap.c"), exe)
    if not ok:
        res.violation("harness-build", "harness/f_bitmap.c no longer compiles against the current tree (a modelled function of bitmap.c / arena.c changed its interface): " + txt[-1500:])
        return
    seeds = [a.seed] if not thorough else [a.seed, a.seed + 1, a.seed + 2]
    flines, tlines = [], []
    for sd in seeds:
        rc, out, err = vlib.run_split([exe, str(sd), "1" if thorough else "0"], timeout=1500, env=vlib.clean_env())
        lines = out.splitlines()
        tl = [l for l in lines if l.startswith("T ")]
        fl = [l for l in lines if l.startswith("F ")]
        if rc != 0 or not out.rstrip().endswith("END"):
            # a crash or hang of the real code under the harness is itself a failing input
            fails = [l for l in tl if l.startswith("T FAIL")]
            res.violation("impl:harness-crash", "f_bitmap exited with %d before END (seed %d): %s %s" % (rc, sd, err[-600:], " | ".join(fails[:3])),
                          witness="f_bitmap %d %d" % (sd, 1 if thorough else 0))
            tlines += tl
            continue
        flines += fl
        tlines += tl
    # ---- implementation-side oracle --------------------------------------------------------------------
    fails = [l for l in tlines if l.startswith("T FAIL")]
    seen = set()
    for l in fails:
        kind = l.split()[2]
        if kind in seen:
            continue
        seen.add(kind)
        res.violation("impl:" + kind, "implementation oracle `%s` failed: %s" % (kind, l[7:1200]), witness=l[7:3000])
    findings = [l for l in tlines if l.startswith("T finding multiblock-top-bit")]
    absent = [l for l in tlines if l.startswith("T sum multiblock_top_bit_absent")]
    if findings:
        res.violation("multiblock-top-bit",
                      "a completely free arena cannot serve a request of more than 2 blocks when the top bit of the bitmap field is set "
                      "(mi_bitmap_try_find_claim_field_across returns false when mi_clz(map)==0 and the in-field attempt is commented out): "
                      + findings[0][len("T finding multiblock-top-bit "):],
                      witness=findings[0][len("T finding "):])
    elif absent and proofs_ok:
        res.violation("corr:multiblock-top-bit-absent",
                      "theorem C14_multiblock_top_bit_refuted (model) is no longer reproduced by the implementation: " + absent[0], witness=None)
    sums = {}
    runs = collections.defaultdict(list)
    for l in tlines:
        f = l.split()
        if f[1] == "sum" and len(f) == 5 and f[3].lstrip("-").isdigit():
            c = sums.setdefault(f[2], [0, 0]); c[0] += int(f[3]); c[1] += int(f[4])
        elif f[1] == "sum" and f[2] in ("stress_run", "arena_run"):
            runs[f[2]].append(parse_kv(l))
    # ---- model replay: F records, machine-alone cross-check, model-side schedules ---------------------
    okb, txt = vlib.ocaml_build()
    mism, sinfo, minfo = [], {}, {}
    nsched = 1500 if thorough else 150
    if not okb:
        res.violation("model-build", "extracted model does not build: " + txt[-1200:])
    else:
        rc, mout = vlib.model_replay("bitmap", "\n".join(flines) + "\nS %d %d\n" % (a.seed, nsched), timeout=3000)
        mlines = mout.splitlines()
        mism = [l for l in mlines if l.startswith("MISMATCH")]
        done = [l for l in mlines if l.startswith("DONE")]
        for l in mlines:
            if l.startswith("SINFO"):
                sinfo = parse_kv(l)
            if l.startswith("MINFO"):
                minfo = parse_kv(l)
        if rc != 0 or not done:
            res.violation("model-run", "model replay failed: " + mout[-800:])
        else:
            mf = [l for l in mism if l.startswith("MISMATCH F")]
            mm = [l for l in mism if l.startswith("MISMATCH M")]
            ms = [l for l in mism if l.startswith("MISMATCH S")]
            if mf and not fails:
                # model and code disagree but the implementation oracle found no failing input
                res.violation("corr:" + mf[0].split()[2], "model/implementation disagreement on %d records, e.g. %s" % (len(mf), mf[0][:1500]), witness=None)
            elif mf:
                log("[corr] %d model/implementation disagreements, e.g. %s" % (len(mf), mf[0][:400]))
            if mm:
                res.violation("model:machine-vs-sequential", "the small-step machine run alone disagrees with the sequential model: " + mm[0][:1500], witness=None)
            if ms:
                res.violation("model:schedule-invariant", "model-side schedule test failed (contradicts theorem C14_reachable_inv): " + ms[0][:1500], witness=None)
    # ---- evidence --------------------------------------------------------------------------------------
    fcount = collections.Counter(l.split()[1] for l in flines)
    nchecks = sum(c[0] for c in sums.values())
    res.cov["evaluations"] = len(flines) + nchecks + int(sinfo.get("steps", 0))
    res.cov["distinct_nontrivial"] = len(set(flines))
    res.cov["rule"] = ("F records: a real function of src/bitmap.c (static.c TU) on a PRNG bitmap of 1..4 fields compared bit-exactly (result + bitmap after) "
                       "with the extracted sequential Coq model; `across`/`unclaimx` records additionally with the small-step machine run alone. "
                       "T: implementation oracles (see implementation_oracles: checked / failed). S (model_side_schedule_tests): MODEL-SIDE ONLY, "
                       "inv_b after every step of random interleavings of the extracted small-step model. distinct = distinct F record lines")
    res.cov["traces_validated_against_impl"] = len(flines)
    res.cov["disagreements_checked"] = len(mism)
    res.cov["input_distribution"] = {"F": dict(fcount)}
    res.cov["implementation_oracles"] = {k: {"checked": v[0], "failed": v[1]} for k, v in sums.items()}
    res.cov["pthread_stress_runs"] = runs.get("stress_run", [])
    res.cov["real_arena_runs"] = runs.get("arena_run", [])
    res.cov["machine_alone_vs_real_code_records"] = int(minfo.get("machine_solo_checked", 0))
    res.cov["model_side_schedule_tests"] = dict(sinfo, note="model-side testing of the extracted small-step machine (supports the theorems; NOT a comparison with the real code: the schedule-lockstep replay needs the MI_VERIF_HOOKS scheduler, interface: `replay bitmap-trace`)")
    res.cov["exhaustive"] = False
    pick = lambda xs, k: [l for l in xs if l.startswith(k)][:1]
    res.add_samples(pick(flines, "F across") + pick(flines, "F facross") + pick(flines, "F unclaimx") + pick(flines, "F field") +
                    pick(tlines, "T sum stress_run") + pick(tlines, "T sum arena_run") + pick(tlines, "T finding"))
    res.assumptions += [
        "64-bit Linux release configuration, MI_HAVE_FAST_BITSCAN; MI_BITMAP_FIELD_BITS = 64 (checked against Gen/Consts.v by Proofs/BitmapProofs.v consts_ok)",
        "sequentially consistent interleaving of the atomic accesses of bitmap.c (all accesses are to single fields; acq_rel CAS / fetch-and, relaxed loads): weaker orderings of the C11 memory model are not modelled",
        "the decomposition of the C functions into atomic steps is tied to the code by the F records of the sequential runs and by the multi-threaded oracles, not yet by a schedule-lockstep replay (needs the MI_VERIF_HOOKS scheduler)",
        "request counts below 2^64-64 (arena block counts are below 2^39); a completed claim is freed at most once (the double-free check of _mi_arena_free is check-then-act)",
    ]
