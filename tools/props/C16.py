"""C16 -- size-class and address arithmetic (DESIGN.md section 3, C16)."""
import os, collections
import vlib
from vlib import log

MEDIUM = 65536


def oracle(tlines, res):
    """implementation-side oracle on the T records of harness/f_arith.c; returns list of (key, text, witness)"""
    bad = []
    def fail(key, text, wit):
        if len(bad) < 20:
            bad.append((key, text, wit))
    n = collections.Counter()
    for l in tlines:
        f = l.split()
        k = f[1]; n[k] += 1
        v = [int(x) for x in f[2:]]
        if k == "size":
            s, b, bs, g, gg, b1 = v
            if s <= MEDIUM:
                if bs < s: fail("bin_size_ge", "block size %d of bin %d is smaller than request %d" % (bs, b, s), "mi_bin(%d)=%d _mi_bin_size=%d" % (s, b, bs))
                if s > 64 and 4 * (bs - s) > s: fail("fragmentation", "internal fragmentation above 25%% for request %d (block %d)" % (s, bs), "mi_bin(%d)=%d size %d" % (s, b, bs))
                if g != bs: fail("good_size_eq", "mi_good_size(%d)=%d differs from the class size %d" % (s, g, bs), "mi_good_size(%d)" % s)
            if g < s and s <= (1 << 64) - 1 - 8192: fail("good_size_ge", "mi_good_size(%d)=%d < request" % (s, g), "mi_good_size(%d)" % s)
            if gg != g and s <= (1 << 63): fail("good_size_idem", "mi_good_size not idempotent at %d: %d -> %d" % (s, g, gg), "mi_good_size(%d)" % s)
            if b1 < b: fail("bin_monotone", "mi_bin not monotone: mi_bin(%d)=%d > mi_bin(%d)=%d" % (s, b, s + 1, b1), "mi_bin(%d)" % s)
        elif k == "fastdiv":
            nn, d, got, want = v
            if got != want: fail("fast_divide", "mi_fast_divide(%d by %d)=%d, true quotient %d" % (nn, d, got, want), "n=%d d=%d" % (nn, d))
        elif k == "usable":
            req, us, bs, good = v
            if us < req: fail("usable_ge", "mi_usable_size=%d < request %d" % (us, req), "mi_malloc(%d)" % req)
            if req <= MEDIUM and us != good: fail("good_eq_usable", "mi_usable_size(mi_malloc(%d))=%d but mi_good_size=%d" % (req, us, good), "mi_malloc(%d)" % req)
        elif k == "unalign":
            exp, got, i, off = v
            if exp != got: fail("unalign", "_mi_page_ptr_unalign returned %#x, block %d starts at %#x (interior offset %d)" % (got, i, exp, off), "block index %d offset %d" % (i, off))
        elif k == "page_of":
            q, sidx, ok = v
            if ok != 1: fail("page_of", "_mi_segment_page_of(%#x) (slice %d) is not the page of the block" % (q, sidx), "address %#x" % q)
        elif k == "page_start_field":
            if v[0] != v[1]: fail("page_start", "_mi_segment_page_start=%#x but page->page_start=%#x" % (v[0], v[1]), "page start")
        elif k == "malloc_null":
            fail("malloc_null", "mi_malloc(%d) returned NULL in the harness" % v[0], "mi_malloc(%d)" % v[0])
    return bad, n


def run(res, a):
    proofs_ok = vlib.proof_stage(res, "C16")
    # correspondence (F) + implementation oracle (T)
    exe = os.path.join(vlib.BUILD, "f_arith_%s" % a.pid)
    ok, txt, cmd = vlib.cc(os.path.join(vlib.HARN, "f_arith.c"), exe)
    if not ok:
        res.violation("harness-build", "harness/f_arith.c no longer compiles against the current tree (a modelled function changed its interface): " + txt[-1500:])
        return
    rc, out, err = vlib.run_split([exe, str(a.seed), "1" if a.tier == "thorough" else "0"], timeout=600, env=vlib.clean_env())
    if rc != 0 or not out.rstrip().endswith("END"):
        res.violation("harness-crash", "f_arith exited with %d: %s" % (rc, err[-800:]), witness="f_arith %d" % a.seed)
        return
    lines = out.splitlines()
    tl = [l for l in lines if l.startswith("T ")]
    fl = [l for l in lines if l.startswith("F ")]
    bad, tcount = oracle(tl, res)
    for key, text, wit in bad:
        res.violation("impl:" + key, text, witness=wit)
    okb, txt = vlib.ocaml_build()
    mism = []
    if not okb:
        res.violation("model-build", "extracted model does not build: " + txt[-1200:])
    else:
        rc, mout = vlib.model_replay("F", "\n".join(fl) + "\n")
        mism = [l for l in mout.splitlines() if l.startswith("MISMATCH")]
        done = [l for l in mout.splitlines() if l.startswith("DONE")]
        if rc != 0 or not done:
            res.violation("model-run", "model replay failed: " + mout[-800:])
        elif mism and not bad:
            # model and code disagree but the property oracle found no failing input
            res.violation("corr:" + mism[0].split()[2], "model/implementation disagreement (%d records), e.g. %s" % (len(mism), mism[0]), witness=None)
        elif mism:
            log("[corr] %d model/implementation disagreements, e.g. %s" % (len(mism), mism[0]))
    # the clause "mi_good_size(n) equals the usable size of mi_malloc(n)" also on dirty heaps / arbitrary histories
    try:
        import apitrace
        k = 3 if a.tier == "thorough" else 1
        apitrace.run_traces(res, "C16", [("boundary", 8 * k, 400), ("fillfree", 4 * k, 400), ("heaps", 3 * k, 300), ("realloc", 3 * k, 300)], a.seed, dump=False)
    except ImportError:
        pass
    fcount = collections.Counter(l.split()[1] for l in fl)
    res.cov["evaluations"] += len(fl) + len(tl)
    res.cov["distinct_nontrivial"] += len(set(fl)) + len(set(tl))
    res.cov["rule"] = ("F records: real function results compared with the extracted Coq model (exhaustive for sizes 0..2*MI_MEDIUM_OBJ_SIZE_MAX, "
                       "all bins, all slice counts; boundary + PRNG values up to 2^64); T records: property oracle on the implementation "
                       "(block >= request, monotone, fragmentation, good_size, exact quotient, unalign/page lookup on real blocks of every class). "
                       "distinct = distinct record lines")
    res.cov["traces_validated_against_impl"] += len(fl)
    res.cov["disagreements_checked"] += len(mism)
    res.cov.setdefault("input_distribution", {}).update({"F": dict(fcount), "T": dict(tcount)})
    res.cov["exhaustive"] = False
    res.add_samples([fl[0], fl[len(fl) // 2], fl[-1], tl[0], tl[len(tl) // 2], tl[-1]])
    res.assumptions += ["the 64-bit Linux release configuration (MI_ALIGN2W, MI_PADDING=0)", "gcc builtins clz/ctz/umull_overflow behave as modelled (checked by the F records)"]
