"""C16 -- size-class and address arithmetic (DESIGN.md section 3, C16)."""
import os, re, collections
import vlib
from vlib import log

MEDIUM = 65536


def oracle(tlines, res):
    """implementation-side oracle on the T records of harness/f_arith.c; returns list of (key, text, witness)"""
    bad = []
    def fail(key, text, wit):
        if len(bad) < 20:
            bad.append((key, text, wit))
    n = collections.Counter()
    for l in tlines:
        f = l.split()
        k = f[1]; n[k] += 1
        v = [int(x) for x in f[2:]]
        if k == "size":
            s, b, bs, g, gg, b1 = v
            if s <= MEDIUM:
                if bs < s: fail("bin_size_ge", "block size %d of bin %d is smaller than request %d" % (bs, b, s), "mi_bin(%d)=%d _mi_bin_size=%d" % (s, b, bs))
                if s > 64 and 4 * (bs - s) > s: fail("fragmentation", "internal fragmentation above 25%% for request %d (block %d)" % (s, bs), "mi_bin(%d)=%d size %d" % (s, b, bs))
                if g != bs: fail("good_size_eq", "mi_good_size(%d)=%d differs from the class size %d" % (s, g, bs), "mi_good_size(%d)" % s)
            if g < s and s <= (1 << 64) - 1 - 8192: fail("good_size_ge", "mi_good_size(%d)=%d < request" % (s, g), "mi_good_size(%d)" % s)
            if gg != g and s <= (1 << 63): fail("good_size_idem", "mi_good_size not idempotent at %d: %d -> %d" % (s, g, gg), "mi_good_size(%d)" % s)
            if b1 < b: fail("bin_monotone", "mi_bin not monotone: mi_bin(%d)=%d > mi_bin(%d)=%d" % (s, b, s + 1, b1), "mi_bin(%d)" % s)
        elif k == "fastdiv":
            nn, d, got, want = v
            if got != want: fail("fast_divide", "mi_fast_divide(%d by %d)=%d, true quotient %d" % (nn, d, got, want), "n=%d d=%d" % (nn, d))
        elif k == "usable":
            req, us, bs, good = v
            if us < req: fail("usable_ge", "mi_usable_size=%d < request %d" % (us, req), "mi_malloc(%d)" % req)
            if req <= MEDIUM and us != good: fail("good_eq_usable", "mi_usable_size(mi_malloc(%d))=%d but mi_good_size=%d" % (req, us, good), "mi_malloc(%d)" % req)
        elif k == "unalign":
            exp, got, i, off = v
            if exp != got: fail("unalign", "_mi_page_ptr_unalign returned %#x, block %d starts at %#x (interior offset %d)" % (got, i, exp, off), "block index %d offset %d" % (i, off))
        elif k == "page_of":
            q, sidx, ok = v
            if ok != 1: fail("page_of", "_mi_segment_page_of(%#x) (slice %d) is not the page of the block" % (q, sidx), "address %#x" % q)
        elif k == "page_start_field":
            if v[0] != v[1]: fail("page_start", "_mi_segment_page_start=%#x but page->page_start=%#x" % (v[0], v[1]), "page start")
        elif k == "malloc_null":
            fail("malloc_null", "mi_malloc(%d) returned NULL in the harness" % v[0], "mi_malloc(%d)" % v[0])
    return bad, n


# F record name -> C function (the records on which the generated functions are compared, ocaml/mode_gen.ml)
F2C = {"bin": "mi_bin", "good_size": "mi_good_size", "wsize": "_mi_wsize_from_size", "align_up": "_mi_align_up",
       "align_down": "_mi_align_down", "divide_up": "_mi_divide_up", "clz": "mi_clz", "ctz": "mi_ctz", "bsr": "mi_bsr",
       "is_pow2": "_mi_is_power_of_two", "mul_overflow": "mi_mul_overflow", "count_size_overflow": "mi_count_size_overflow",
       "bin_size": "_mi_bin_size", "os_good_alloc_size": "_mi_os_good_alloc_size", "slice_bin": "mi_slice_bin8",
       "fast_divisor": "mi_get_fast_divisor", "fast_divide": "mi_fast_divide", "ptr_segment": "_mi_ptr_segment",
       "unalign": "_mi_page_ptr_unalign"}
C2F = {v: k for k, v in F2C.items()}


def function_of_statement(stmt, translated):
    """the C function a lemma of Proofs/GenEquiv.v / GenSweeps*.v / Gen/FuncsCheck.v is about (longest name match)"""
    best = None
    for fn in translated:
        key = re.sub(r"\W", "_", fn)
        short = re.sub(r"^_?mi_", "", fn)
        if stmt and (("c_" + key) in stmt or ("fold_" + key) in stmt or ("c_" + short) in stmt or ("gen_" + short) in stmt):
            if best is None or len(fn) > len(best):
                best = fn
    return best


def run(res, a):
    # Gen/Funcs.v is regenerated from the current C source by proof_stage -> vlib.gen(); C16gen.v carries the
    # equivalence with the hand model and the C16 laws restated on the generated functions
    proofs_ok = vlib.proof_stage(res, "C16", files=["C16", "C16gen"])
    rep = None
    try:
        import c2gallina
        rep = c2gallina.load_report()
    except ImportError:
        pass
    refused = dict(rep.get("refused", {})) if rep else {}
    translated = list(rep.get("translated", [])) if rep else []
    if rep is None:
        res.violation("translator:report", "tools/c2gallina.py left no report: Gen/Funcs.v was not regenerated", witness=None)
    # correspondence (F) + implementation oracle (T)
    exe = os.path.join(vlib.BUILD, "f_arith_%s" % a.pid)
    ok, txt, cmd = vlib.cc(os.path.join(vlib.HARN, "f_arith.c"), exe)
    if not ok:
        res.violation("harness-build", "harness/f_arith.c no longer compiles against the current tree (a modelled function changed its interface): " + txt[-1500:])
        return
    rc, out, err = vlib.run_split([exe, str(a.seed), "1" if a.tier == "thorough" else "0"], timeout=600, env=vlib.clean_env())
    if rc != 0 or not out.rstrip().endswith("END"):
        res.violation("harness-crash", "f_arith exited with %d: %s" % (rc, err[-800:]), witness="f_arith %d" % a.seed)
        return
    lines = out.splitlines()
    tl = [l for l in lines if l.startswith("T ")]
    fl = [l for l in lines if l.startswith("F ")]
    bad, tcount = oracle(tl, res)
    # the overflow-detecting multiplies judged by exact integer arithmetic (not by the model): flag = (count*size >= 2^64),
    # and the product is exact when no overflow is reported (seed C16d: an unchecked fast path for one small operand)
    for l in fl:
        f = l.split()
        if f[1] in ("mul_overflow", "count_size_overflow") and len(f) == 7:
            c, sz, o, t = int(f[2]), int(f[3]), int(f[5]), int(f[6])
            tcount["mulcheck"] += 1
            if o != (1 if c * sz >= (1 << 64) else 0):
                bad.append(("overflow-flag", "%s(%d, %d) reports overflow=%d, the exact product is %d (2^64 = %d)" % (F2C[f[1]], c, sz, o, c * sz, 1 << 64),
                            "%s(%d, %d)" % (F2C[f[1]], c, sz)))
                break
            if o == 0 and t != c * sz:
                bad.append(("overflow-product", "%s(%d, %d) = %d without overflow, the exact product is %d" % (F2C[f[1]], c, sz, t, c * sz), "%s(%d, %d)" % (F2C[f[1]], c, sz)))
                break
    for key, text, wit in bad:
        res.violation("impl:" + key, text, witness=wit)
    okb, txt = vlib.ocaml_build()
    mism = []
    if not okb:
        res.violation("model-build", "extracted model does not build: " + txt[-1200:])
    else:
        rc, mout = vlib.model_replay("F", "\n".join(fl) + "\n")
        mism = [l for l in mout.splitlines() if l.startswith("MISMATCH")]
        done = [l for l in mout.splitlines() if l.startswith("DONE")]
        if rc != 0 or not done:
            res.violation("model-run", "model replay failed: " + mout[-800:])
        elif mism and not bad:
            # model and code disagree but the property oracle found no failing input
            res.violation("corr:" + mism[0].split()[2], "model/implementation disagreement (%d records), e.g. %s" % (len(mism), mism[0]), witness=None)
        elif mism:
            log("[corr] %d model/implementation disagreements, e.g. %s" % (len(mism), mism[0]))
    # ---- the generated functions (tools/c2gallina.py) on the same records: validates the translator itself ----
    gl = [l for l in lines if l.startswith("G ")]
    gmism, gub, grefused, gdone = [], [], {}, 0
    if okb:
        rc, gout = vlib.model_replay("G", "\n".join(fl + gl) + "\n")
        gmism = [l for l in gout.splitlines() if l.startswith("MISMATCH")]
        gub = [l for l in gout.splitlines() if l.startswith("UB ")]
        for l in gout.splitlines():
            if l.startswith("REFUSED"):
                grefused[l.split()[1]] = int(l.split()[2])
        done = [l for l in gout.splitlines() if l.startswith("DONE")]
        if rc != 0 or not done:
            res.violation("gen-run", "replay of the generated functions failed: " + gout[-800:])
        else:
            gdone = int(done[0].split()[1])
        if gmism:
            # the Gallina text generated from the C source does not compute what the compiled C function computes:
            # a defect of the translator / of Model/CSem.v (or clang and gcc read the source differently)
            res.violation("translator-validation:" + gmism[0].split()[2],
                          "the function generated by tools/c2gallina.py disagrees with the compiled C function (%d records), e.g. %s"
                          % (len(gmism), gmism[0]), witness=None)
        if gub:
            res.violation("undefined-behaviour:" + gub[0].split()[2],
                          "the harness ran the real function on an input where the generated model meets an undefined C operation "
                          "(c_<fn>_ok false; %d records), e.g. %s" % (len(gub), gub[0]), witness=gub[0])
    # which hand-model mismatches (mode F) / oracle failures concern which C function
    def failing_input_for(fn):
        short = C2F.get(fn)
        for l in mism:
            if short and l.split()[2] == short:
                return "real C function vs proved model: " + l
        for key, text, wit in bad:
            if short in ("bin", "good_size", "bin_size", "wsize") and key in ("bin_size_ge", "fragmentation", "good_size_eq", "good_size_ge", "good_size_idem", "bin_monotone"):
                return wit + " : " + text
            if short in ("fast_divisor", "fast_divide") and key == "fast_divide":
                return wit + " : " + text
            if short == "unalign" and key == "unalign":
                return wit + " : " + text
        return None
    # (a) a function the translator refuses: the theorems about c_<fn> are no longer about the code
    for fn, why in sorted(refused.items()):
        res.violation("translator:" + fn, "translator: %s no longer translatable (%s); the theorems of Properties/C16gen.v about c_%s "
                      "cannot be re-checked against the current source" % (fn, why, fn), witness=failing_input_for(fn))
    # (b) a proof about a generated function broke: name the function and attach a failing input when the
    #     differential harness has one (the real function differs from the model the theorems were proved for)
    fs = getattr(res, "failed_statement", None)
    if (not proofs_ok) and fs and (fs[0].startswith("Proofs/Gen") or fs[0].startswith("Gen/Funcs") or fs[0] == "Properties/C16gen.v"):
        vfile, stmt, emsg = fs
        fn = function_of_statement(stmt or "", translated + list(refused))
        wit = failing_input_for(fn) if fn else None
        if wit is None and mism:
            wit = "real C function vs proved model: " + mism[0]
        key = "proof:%s:%s" % (vfile, stmt)
        old = [v for v in res.violations if v[0] == key]
        if old and wit is not None:
            res.violations = [v for v in res.violations if v[0] != key]
            res.violation(key, "%s -- concerns the C function `%s` as translated from the current source (Gen/Funcs.v); "
                          "the differential harness shows the changed behaviour" % (old[0][3], fn or "?"), witness=wit)
        elif old:
            log("[c2g] broken lemma %s concerns the C function `%s`; the differential harness found no input on which the "
                "real function differs from the model (behaviour-preserving rewrite, or a gap of the harness)" % (stmt, fn or "?"))
    res.cov["c2g"] = {"translated": translated, "refused": refused, "records_replayed_on_generated": gdone,
                      "mismatches_generated_vs_code": len(gmism), "ub_inputs": len(gub),
                      "records_of_untranslated_functions": grefused}
    res.cov["evaluations"] += gdone
    res.cov["traces_validated_against_impl"] += gdone
    # the clause "mi_good_size(n) equals the usable size of mi_malloc(n)" also on dirty heaps / arbitrary histories
    try:
        import apitrace
        k = 3 if a.tier == "thorough" else 1
        apitrace.run_traces(res, "C16", [("boundary", 8 * k, 400), ("fillfree", 4 * k, 400), ("heaps", 3 * k, 300), ("realloc", 3 * k, 300)], a.seed, dump=False)
    except ImportError:
        pass
    fcount = collections.Counter(l.split()[1] for l in fl)
    res.cov["evaluations"] += len(fl) + len(tl)
    res.cov["distinct_nontrivial"] += len(set(fl)) + len(set(tl))
    res.cov["rule"] = ("G replay: the same F records (+ G records) evaluated by the functions GENERATED from the C source (Gen/Funcs.v); "
                       "F records: real function results compared with the extracted Coq model (exhaustive for sizes 0..2*MI_MEDIUM_OBJ_SIZE_MAX, "
                       "all bins, all slice counts; boundary + PRNG values up to 2^64); T records: property oracle on the implementation "
                       "(block >= request, monotone, fragmentation, good_size, exact quotient, unalign/page lookup on real blocks of every class). "
                       "distinct = distinct record lines")
    res.cov["traces_validated_against_impl"] += len(fl)
    res.cov["disagreements_checked"] += len(mism)
    res.cov.setdefault("input_distribution", {}).update({"F": dict(fcount), "T": dict(tcount)})
    res.cov["exhaustive"] = False
    res.add_samples([fl[0], fl[len(fl) // 2], fl[-1], tl[0], tl[len(tl) // 2], tl[-1]])
    res.assumptions += ["the 64-bit Linux release configuration (MI_ALIGN2W, MI_PADDING=0)", "gcc builtins clz/ctz/umull_overflow behave as modelled (checked by the F records)",
                        "tools/c2gallina.py + Model/CSem.v give the C semantics of the translated functions (validated per run by the G replay against the gcc-compiled functions; NOTES-c2g.md)"]
