"""C01 -- live blocks are disjoint, fully accessible and keep their contents (DESIGN.md section 3, C01)."""
import vlib, apitrace

def run(res, a):
    if a.replay:
        return apitrace.replay(res, "C01", a.replay)
    vlib.proof_stage(res, "C01", files=["C01", "C01span", "C01compose"])
    big = a.tier == "thorough"
    k = 4 if big else 1
    plan = [("boundary", 10 * k, 400), ("fillfree", 10 * k, 600), ("span", 8 * k, 350), ("aligned", 8 * k, 350), ("realloc", 6 * k, 350),
            ("heaps", 8 * k, 350), ("malformed", 4 * k, 300), ("huge", 3 * k, 40)]
    for sd in ([a.seed, a.seed + 1, a.seed + 2] if big else [a.seed]):
        apitrace.run_traces(res, "C01", plan, sd, dump=True, tag="" if sd == a.seed else "_s%d" % sd, fulldump=5)
    try:
        import spanmodel
        spanmodel.run(res, a.seed, a.tier)
    except ImportError:
        pass
    res.cov["rule"] = ("single-threaded API traces over every entry point (generators: class boundaries, page fill/free cycles, span churn, aligned grid, "
                       "realloc chains, heap lifecycle, malformed stream, huge blocks); after every call a shadow table checks that the new block's usable "
                       "range overlaps no live block, is fully writable, and that every live block still holds the byte pattern written over its whole "
                       "usable size (zero-size requests included); every page touched is dumped and checked against the Coq page invariant (page_inv_b) and "
                       "the model's transition relation; about 5 times per trace and at its end the FULL state (every segment's slice array, every page, the span queues) is dumped, "
                       "rebuilt as a state of the Coq composite model (Model/Compose.v) with the shadow table as ghost, and checked: mem_inv_b (= mem_inv), every live pointer "
                       "resolves (ptr_segment / page_of / unalign) to exactly one block, page starts and usable sizes agree, abs = shadow table. distinct = distinct traces")
    res.assumptions += ["MMU/page protections are outside the model: accessibility is observed by touching every byte (every page of blocks > 1 MiB)",
                        "composition (Properties/C01compose.v): page + span + address arithmetic + the OS layer's contract on segment addresses are composed into one "
                        "refinement theorem over Model/Compose.v; not part of it: block contents (no byte store in the composite model; disjointness + the per-layer "
                        "'the allocator writes only dead blocks' + the byte-pattern oracle), the page queues (which page is used is a choice argument), commit failure "
                        "(C07)"]
