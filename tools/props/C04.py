"""C04 (DESIGN.md section 3, C04)."""
import vlib, apitrace

def run(res, a):
    if a.replay:
        return apitrace.replay(res, "C04", a.replay)
    vlib.proof_stage(res, "C04")
    k = 3 if a.tier == "thorough" else 1
    plan = [("realloc", 14*k, 400), ("boundary", 6*k, 300), ("fillfree", 4*k, 400), ("aligned", 4*k, 300), ("huge", 3*k, 40), ("heaps", 3*k, 250)]
    for sd in ([a.seed, a.seed + 1] if a.tier == "thorough" else [a.seed]):
        apitrace.run_traces(res, "C04", plan, sd, dump=False, tag="" if sd == a.seed else "_s%d" % sd)
    try:
        import apimodel
        apimodel.run(res, a.seed, a.tier)
    except ImportError:
        pass
    res.cov["rule"] = ("API traces on the real allocator: memory is dirtied with non-zero patterns, freed and re-used; every zalloc/calloc/zalloc_aligned/small result is read back as zero over the requested size; rezalloc/recalloc monotone growth chains (in place and moving, with writes inside the requested size between steps) are checked byte by byte on [old requested, new requested). distinct = distinct traces (+ function-level records of harness/f_api.c compared with the Coq API model)")
