"""C04 (DESIGN.md section 3, C04)."""
import vlib, apitrace

def run(res, a):
    if a.replay:
        return apitrace.replay(res, "C04", a.replay)
    vlib.proof_stage(res, "C04", files=["C04", "C04zero"])
    # corpus first: the witness of the repaired rezalloc defect (known_findings.txt, fixed: C04 9a9d12e)
    import os
    cdir = os.path.join(vlib.VERIF, "corpus", "C04")
    exe0 = apitrace.build(res)
    for name in sorted(os.listdir(cdir)) if (exe0 and os.path.isdir(cdir)) else []:
        if not name.endswith(".trace"): continue
        rc, out, err = apitrace.run_one(exe0, os.path.join(cdir, name), dump=False)
        v, ended = apitrace.parse(rc, out)
        for op, kind, text in v:
            if kind in apitrace.KINDS["C04"] or kind == "crash":
                res.violation("impl:" + kind, "corpus/C04/%s reproduces: %s" % (name, text), witness=open(os.path.join(cdir, name)).read(), replay_name="C04_corpus_%s" % name)
                break
    k = 3 if a.tier == "thorough" else 1
    plan = [("realloc", 14*k, 400), ("boundary", 6*k, 300), ("fillfree", 4*k, 400), ("aligned", 4*k, 300), ("huge", 3*k, 40), ("heaps", 3*k, 250)]
    for sd in ([a.seed, a.seed + 1] if a.tier == "thorough" else [a.seed]):
        apitrace.run_traces(res, "C04", plan, sd, dump=False, tag="" if sd == a.seed else "_s%d" % sd)
    try:
        import apimodel
        st = apimodel.run(res, a.seed, a.tier)
        res.cov.setdefault("input_distribution", {})["f_api"] = {"F": st.get("F", {}), "T": st.get("T", {}), "records": st.get("records", 0), "distinct": st.get("distinct", 0), "mismatches": st.get("mismatches", 0)}
        res.cov["evaluations"] += st.get("records", 0)
    except ImportError:
        pass
    # the zero-KNOWLEDGE layer (Model/Zero.v, Properties/C04zero.v): the real flags next to what the memory really contains
    # (impl:zero-flag-wrong), and the extracted model replayed on the same calls (corr:zero, corr:zero-ghost): tools/zeromodel.py
    import zeromodel
    zeromodel.run(res, a.seed, a.tier)
    res.cov["rule"] = ("API traces on the real allocator: memory is dirtied with non-zero patterns, freed and re-used; every zalloc/calloc/zalloc_aligned/small result is read back as zero over the requested size; rezalloc/recalloc monotone growth chains (in place and moving, with writes inside the requested size between steps) are checked byte by byte on [old requested, new requested). distinct = distinct traces (+ function-level records of harness/f_api.c compared with the Coq API model) + the knowledge flags found SET by harness/f_zero.c, each confronted with a scan of the memory it speaks about (coverage.zero_layer_rule)")
