"""C13 -- guarantees hold under every option setting; purging never touches live data (DESIGN.md section 3, C13)."""
import os, re, itertools, random
import vlib, apitrace

def option_index():
    txt = open(os.path.join(vlib.COQ, "Gen", "Options.v")).read()
    return {m.group(2): int(m.group(1)) for m in re.finditer(r'\((\d+), \(-?\d+\)%Z, \d+, "([a-z_]+)"', txt)}

VALUES = {
    "purge_delay": [-1, 0, 10, 100],
    "purge_decommits": [0, 1],
    "eager_commit": [0, 1],
    "eager_commit_delay": [0, 1, 4],
    "arena_eager_commit": [0, 1, 2],
    "disallow_arena_alloc": [0, 1],
    "arena_reserve": [65536, 262144, 1048576],          # KiB: 64 MiB, 256 MiB, 1 GiB
    "abandoned_reclaim_on_free": [0, 1],
    "target_segments_per_thread": [0, 1, 3],
    "purge_extend_delay": [0, 1],
}

def pairwise_configs(rng, n):
    """greedy pairwise covering: configurations until every pair of (option,value) occurred"""
    names = sorted(VALUES)
    need = set()
    for a, b in itertools.combinations(names, 2):
        for va in VALUES[a]:
            for vb in VALUES[b]:
                need.add((a, va, b, vb))
    cfgs = []
    while need and len(cfgs) < n:
        best, bestc = None, -1
        for _ in range(60):
            c = {k: rng.choice(VALUES[k]) for k in names}
            cov = sum(1 for (a, va, b, vb) in need if c[a] == va and c[b] == vb)
            if cov > bestc: best, bestc = c, cov
        cfgs.append(best)
        need = {t for t in need if not (best[t[0]] == t[1] and best[t[2]] == t[3])}
    return cfgs, len(need)

def run(res, a):
    if a.replay:
        return apitrace.replay(res, "C13", a.replay)
    vlib.proof_stage(res, "C13", files=["C13mask"])
    idx = option_index()
    big = a.tier == "thorough"
    rng = random.Random(a.seed)
    cfgs, uncovered = pairwise_configs(rng, 40 if big else 14)
    vflags = ["-DVERIF_VCLOCK", "-Dclock_gettime=verif_clock_gettime"]
    exe_rel = apitrace.build(res, "t_api_vclock", extra=vflags)
    # MI_SECURE=1: decommit really revokes access (prim.c mprotects PROT_NONE), so a read or write of decommitted memory faults
    exe_sec = apitrace.build(res, "t_api_vclock_sec1", extra=vflags + ["-DMI_SECURE=1"])
    if exe_rel is None or exe_sec is None:
        return
    k = 3 if big else 1
    plan = [("span", 3 * k, 300), ("fillfree", 2 * k, 400), ("realloc", 2 * k, 250), ("aligned", 2 * k, 250), ("heaps", 2 * k, 250), ("huge", 2 * k, 30),
            ("hugechurn", 4 * k, 50), ("boundary", 1 * k, 250),
            # whole-segment fill, page frees at slice positions biased to the word boundaries of the commit mask (multi-word purge masks)
            ("scatter", 1 * k, 0)]
    for ci, c in enumerate(cfgs):
        opts = [(idx[n], (v if v >= 0 else (1 << 64) + v)) for n, v in sorted(c.items()) if n in idx]
        exe = exe_sec if ci % 2 == 0 else exe_rel
        # with a per-thread segment target, segments are force-abandoned: their blocks belong to no heap any more (mi_abandoned_visit_blocks
        # reports them), so the heap-walk and ownership oracles do not apply to that configuration
        skip = ("walk", "owner") if c.get("target_segments_per_thread", 0) != 0 else ()
        apitrace.run_traces(res, "C13", plan, a.seed * 100 + ci, dump=(exe is exe_rel), options=opts, exe=exe, tag="_cfg%d" % ci, clock=True, skip_kinds=skip)
    res.cov["configurations"] = [dict(c) for c in cfgs]
    res.cov["uncovered_option_value_pairs"] = uncovered
    res.cov["rule"] = ("the C01-C05/C12 oracles (overlap, content, alignment, zero, realloc, heap walk) re-run on API traces under a pairwise covering set of "
                       "option settings (purge delay off/immediate/delayed with a virtual clock advanced inside the traces, decommit or reset, eager/lazy "
                       "commit, arena on/off/small, reclaim-on-free, segment target; the `scatter` profile fills a whole segment and frees pages at slice "
                       "positions biased to the 64-bit word boundaries of the commit mask, so that purge masks with runs in several words are purged "
                       "next to pages in use -- input_distribution.harness_coverage counts the sampled multi-word pending masks); half of the configurations run a -DMI_SECURE=1 build in which "
                       "decommit revokes access, so any read or write of decommitted memory faults. distinct = distinct traces")
