"""C11 -- freed memory is given back: OS regions unmapped, footprint does not creep
(DESIGN.md section 3, C11)."""
import os, collections
import vlib
from vlib import log
from props import oslib


def oracle_roundtrips(tlines):
    bad = []; n = collections.Counter()
    for l in tlines:
        kind, d = oslib.kv(l)
        if kind != "roundtrip":
            continue
        fn = ["_mi_os_alloc", "_mi_os_alloc_aligned", "_mi_os_alloc_aligned_at_offset"][d["which"]]
        wit = "%s(size=%d, alignment=%d, offset=%d, commit=%d)%s then _mi_os_free_ex" % (
            fn, d["size"], d["align"], d["offset"], d["commit"], " with the hinted mmap answered at a misaligned address" if d["misalign"] else "")
        n[(d["which"], "trim" if d["munmaps"] > 0 else "direct", "ok" if d["ok"] else "null")] += 1
        if d["mapped_after_free"] != 0 or d["maps_after_free"] != 0 or d["digest_same"] != 1:
            bad.append(("os-free-not-inverse", "after the round trip the OS mapping ledger is not what it was: %d bytes in %d mappings left behind" % (
                d["mapped_after_free"], d["maps_after_free"]), wit))
        if d["ok"]:
            if not d["aligned"]: bad.append(("os-alloc-misaligned", "returned address does not satisfy the requested alignment", wit))
            if not d["inside"]: bad.append(("os-alloc-outside", "returned range is not inside the mapping recorded in the memid", wit))
            if not d["accessible"]: bad.append(("os-alloc-inaccessible", "committed allocation is not accessible", wit))
    return bad[:20], n


def oracle_reps(tlines, expect_creep):
    """no growth from repetition k to k+1 (k >= 1); everything direct-OS unmapped; arenas purged; TD cache empty"""
    bad = []
    reps = [oslib.kv(l)[1] for l in tlines if l.startswith("T rep")]
    for r0, r1 in zip(reps, reps[1:]):
        cfg = "workload of harness/t_osfree.c (config=%d big=%d), repetition %d -> %d" % (r1["config"], r1["big"], r0["k"], r1["k"])
        if r1["mapped"] > r0["mapped"]:
            bad.append(("creep-mapped", "mapped memory grows from %d to %d bytes between identical repetitions (arenas %d -> %d)" % (
                r0["mapped"], r1["mapped"], r0["arenas"], r1["arenas"]), cfg))
        if r1["committed"] > r0["committed"] and r1["mapped"] <= r0["mapped"]:
            bad.append(("creep-committed", "committed (accessible and not purged) memory grows from %d to %d bytes between identical repetitions" % (
                r0["committed"], r1["committed"]), cfg))
        if r1["outside_arena"] > r0["outside_arena"]:
            bad.append(("creep-os-regions", "memory mapped outside the arenas grows from %d to %d bytes" % (r0["outside_arena"], r1["outside_arena"]), cfg))
    for r in reps:
        cfg = "workload of harness/t_osfree.c (config=%d big=%d), after repetition %d (everything freed, mi_collect(true))" % (r["config"], r["big"], r["k"])
        if r["outside_arena"] > 65536:
            bad.append(("os-region-left", "%d bytes obtained directly from the OS are still mapped" % r["outside_arena"], cfg))
        if r["arena_inuse_blocks"] != 0:
            bad.append(("arena-block-left", "%d arena blocks are still in use" % r["arena_inuse_blocks"], cfg))
        if r["arena_purge_blocks"] != 0 or r["dirty_unpurged"] != 0:
            bad.append(("arena-not-purged", "after the forced collect %d blocks are still scheduled and %d bytes of used-and-freed arena blocks are still committed" % (
                r["arena_purge_blocks"], r["dirty_unpurged"]), cfg))
        if r["td_cached"] != 0:
            bad.append(("td-cache-left", "%d thread metadata blocks are still cached after the forced collect of the main thread" % r["td_cached"], cfg))
    return bad, reps


def run(res, a):
    proofs_ok = vlib.proof_stage(res, "C11", files=["C11", "C11back"])
    thorough = (a.tier == "thorough")
    ok, txt, cmd, exe = oslib.build_harness("t_osfree", a.pid)
    if not ok:
        res.violation("harness-build", "harness/t_osfree.c (or shim.c) no longer compiles against the current tree: " + txt[-1500:]); return
    oslib.td_faults(res, exe)
    # (1) OS-level round trips
    ok, rc, out, err = oslib.run_harness(exe, ["R", a.seed, "1" if thorough else "0"])
    if not ok:
        res.violation("harness-crash", "t_osfree R exited with %d: %s" % (rc, err[-600:]), witness="t_osfree R %d" % a.seed); return
    lines = out.splitlines()
    F = [l for l in lines if l.startswith(("F ", "K "))]; T = [l for l in lines if l.startswith("T ")]
    bad, rc_count = oracle_roundtrips(T)
    any_bad = bool(bad)
    for key, text, wit in bad:
        res.violation("impl:" + key, text, witness=wit)
    # (2) whole-API workloads, repeated
    reps_n = 6 if thorough else 4
    rep_summary = {}
    for config in (0, 1, 2, 3, 4):
        ok, rc, out, err = oslib.run_harness(exe, ["W", a.seed, config, reps_n, 0])
        if not ok:
            res.violation("harness-crash", "t_osfree W config=%d exited with %d: %s" % (config, rc, err[-600:]),
                          witness="workload of harness/t_osfree.c config=%d crashes" % config); continue
        tl = [l for l in out.splitlines() if l.startswith("T ")]
        bad, reps = oracle_reps(tl, False)
        for key, text, wit in bad:
            any_bad = True
            res.violation("impl:%s:config%d" % (key, config), text, witness=wit)
        T += tl
        rep_summary["config%d" % config] = [(r["k"], r["mapped"], r["committed"], r["outside_arena"]) for r in reps]
    # (3) the same with allocations of more than two arena blocks: expected known finding
    ok, rc, out, err = oslib.run_harness(exe, ["W", a.seed, 0, 3, 1])
    if ok:
        tl = [l for l in out.splitlines() if l.startswith("T ")]
        bad, reps = oracle_reps(tl, True)
        T += tl
        rep_summary["config0_big"] = [(r["k"], r["mapped"], r["arenas"]) for r in reps]
        creep = [b for b in bad if b[0] == "creep-mapped"]
        other = [b for b in bad if b[0] != "creep-mapped" and b[0] != "creep-committed"]
        if creep:
            res.violation("huge-alloc-reserves-arena",
                          "every allocation of more than 2 arena blocks (> 64 MiB) fails to be placed in an existing arena whose last bitmap field has its "
                          "top bit set (mi_bitmap_try_find_claim_field_across: initial==0 -> false), reserves a FRESH arena and then falls back to the OS: "
                          "mapped memory grows by one arena per such allocation and repetition: " + creep[0][1],
                          witness="default options; repeat { p=mi_malloc(100MiB); q=mi_malloc(200MiB); mi_free(p); mi_free(q); mi_collect(true) }: "
                                  "(repetition, mapped bytes, arenas) = %s" % rep_summary["config0_big"])
        for key, text, wit in other:
            any_bad = True
            res.violation("impl:%s:big" % key, text, witness=wit)
    else:
        res.violation("harness-crash", "t_osfree W big exited with %d: %s" % (rc, err[-600:]), witness="workload with allocations above 64MiB crashes")
    # (4) model replay of the round trips
    nrec, mism = oslib.replay(res, F, "C11")
    if mism and not any_bad:
        res.violation("corr:" + mism[0].split()[2], "model/implementation disagreement (%d records), e.g. %s" % (len(mism), mism[0][:1500]), witness=None)
    elif mism:
        log("[corr] %d model/implementation disagreements, e.g. %s" % (len(mism), mism[0][:600]))
    # (5) the whole-workload clause on the commit model (Properties/C11back.v): harness/f_commit.c runs drained at the end,
    #     the real allocator and the model state in lockstep must both have given everything back
    import commitmodel
    base_eval, base_dist = res.cov.get("evaluations", 0), res.cov.get("distinct_nontrivial", 0)
    gstats = commitmodel.run(res, a.seed, a.tier, prop="C11")
    g_eval, g_dist = res.cov.get("evaluations", 0) - base_eval, res.cov.get("distinct_nontrivial", 0) - base_dist
    res.cov["evaluations"] = len(F) + len(T) + g_eval
    res.cov["distinct_nontrivial"] = len(set(F)) + len(set(T)) + g_dist
    res.cov["rule"] = ("F os_roundtrip records: the real _mi_os_alloc/_mi_os_alloc_aligned/_mi_os_alloc_aligned_at_offset followed by _mi_os_free_ex under the "
                       "OS shim; the kernel's answers are fed to the extracted Coq model as its oracle and pointer, memid, the sequence of system calls and "
                       "the number of mappings left must be equal. T roundtrip: shim ledger digest before/after equal, alignment, range inside the mapping, "
                       "accessible. T rep: whole-API workload (small..huge, aligned-huge, two threads that exit) repeated; no growth of mapped/committed "
                       "bytes from repetition k to k+1, nothing mapped outside the arenas but the segment-map part, arenas purged, TD cache empty. "
                       "distinct = distinct record lines.  Give-back layer (commit model, Properties/C11back.v): see giveback_layer_rule; its evaluations are the API "
                       "calls replayed in lockstep, non-trivial = OS calls refused by the shim")
    res.cov["traces_validated_against_impl"] = res.cov.get("traces_validated_against_impl", 0) + nrec
    res.cov["disagreements_checked"] = res.cov.get("disagreements_checked", 0) + len(mism)
    _td = res.cov.get("input_distribution", {}).get("thread_data_fault_cases")
    res.cov["input_distribution"] = {"roundtrips": {"%s/%s/%s" % (["os_alloc", "os_alloc_aligned", "os_alloc_aligned_at_offset"][k[0]], k[1], k[2]): v for k, v in rc_count.items()},
                                     "repetitions": rep_summary,
                                     "configs": "0: arenas enabled (1GiB reserve), 1: mi_option_disallow_arena_alloc, 2: arena_reserve=32MiB, 3: arena_eager_commit=0, 4: arena_eager_commit=0 + eager_commit=0; x %d repetitions" % reps_n}
    if _td is not None: res.cov["input_distribution"]["thread_data_fault_cases"] = _td
    res.cov["models_used"] = ["Model/Os.v", "Model/Purge.v", "Model/Commit.v", "Model/GiveBack.v"]
    res.add_samples([F[0][:500], F[len(F) // 2][:500]] + [l for l in T if l.startswith("T rep")][:3])
    res.assumptions += ["resident-set size is kernel behaviour: the ledger of harness/shim.c follows mmap/munmap/mprotect/madvise (committed = read-write and not "
                        "purged since the last write-commit)", "allocations above 64MiB are checked separately (known finding huge-alloc-reserves-arena)"]
