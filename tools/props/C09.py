"""C09 -- thread exit: live blocks survive; abandoned memory adopted once, never leaked (DESIGN.md section 3, C09)."""
import vlib, conc

def run(res, a):
    if a.replay:
        return conc.replay(res, "C09", a.replay)
    vlib.proof_stage(res, "C09", files=["C09abandon"])
    conc.run_corpus(res, "C09")
    envs = [None, {"VERIF_RECLAIM_ON_FREE": "1"}, {"VERIF_NO_ARENA": "1", "VERIF_RECLAIM_ON_FREE": "1"}, {"VERIF_TARGET_SEGMENTS": "2"},
            {"VERIF_BIG_ARENA": "1"}, {"VERIF_NO_ARENA": "1"}, {"VERIF_BIG_ARENA": "1", "VERIF_RECLAIM_ON_FREE": "1"}]
    conc.run_conc(res, "C09", a.seed, a.tier, envs=envs if a.tier == "thorough" else envs[:5], nseeds_quick=24)
    res.cov["rule"] = ("scheduler harness, mode exit: virtual threads terminate through mi_thread_done at random points while blocks they allocated are "
                       "still held by other threads, which later verify the byte pattern and free them (with reclaim-on-free on and off, arena and "
                       "OS-allocated segments); at quiescence a forced collect must leave no abandoned segment and no block. distinct = distinct schedules")
    res.assumptions += ["thread exit through the pthread key destructor is not exercised here (virtual threads call mi_thread_done); the pinned suite covers it"]
