"""C09 -- thread exit: live blocks survive; abandoned memory adopted once, never leaked (DESIGN.md section 3, C09)."""
import vlib, conc

def run(res, a):
    if a.replay:
        if "abandon_lockstep" in a.replay:
            return conc.replay_abandon_lockstep(res, "C09", a.replay)
        return conc.replay(res, "C09", a.replay)
    vlib.proof_stage(res, "C09", files=["C09abandon"])
    conc.run_corpus(res, "C09")
    conc.run_exit_orders(res, "C09", a.seed, a.tier, {"content", "abandoned-leak", "segment-leak"})
    envs = [None, {"VERIF_RECLAIM_ON_FREE": "1"}, {"VERIF_NO_ARENA": "1", "VERIF_RECLAIM_ON_FREE": "1"}, {"VERIF_TARGET_SEGMENTS": "2"},
            {"VERIF_BIG_ARENA": "1"}, {"VERIF_NO_ARENA": "1"}, {"VERIF_BIG_ARENA": "1", "VERIF_RECLAIM_ON_FREE": "1"}]
    stag = [{"VERIF_NO_ARENA": "1", "VERIF_RECLAIM_ON_FREE": "1", "VERIF_STAGGER": "1"}]      # threads terminate one after the other, thread 0 frees what the last one left
    conc.run_conc(res, "C09", a.seed, a.tier, envs=(envs + stag) if a.tier == "thorough" else (envs[:5] + stag), nseeds_quick=20)
    # schedule-lockstep tie of coq/Model/Abandon.v (theorems: Properties/C09abandon.v) with the real allocator, same env variants
    # (plus a variant with two sub-processes -- odd threads join a second one -- which only exists for the lockstep: the end-of-run
    #  oracles of s_conc.c assume a single sub-process)
    sub = [{"VERIF_SUBPROC": "1", "VERIF_RECLAIM_ON_FREE": "1"}, {"VERIF_SUBPROC": "1"}, {"VERIF_SUBPROC": "1", "VERIF_NO_ARENA": "1", "VERIF_RECLAIM_ON_FREE": "1"}]
    conc.run_abandon_lockstep(res, "C09", a.seed, a.tier, envs=(envs + sub) if a.tier == "thorough" else (envs[:5] + sub[:1]))
    res.cov["rule"] = ("scheduler harness, mode exit: virtual threads terminate through mi_thread_done at random points while blocks they allocated are "
                       "still held by other threads, which later verify the byte pattern and free them (with reclaim-on-free on and off, arena and "
                       "OS-allocated segments); at quiescence a forced collect must leave no abandoned segment and no block. distinct = distinct schedules. "
                       "Lockstep: for further schedules of the same program the harness logs every access to segment->thread_id, the abandoned bit / "
                       "OS list, abandoned_count and the two abandoned-list locks, and the extracted model Model/Abandon.v must take the same transition "
                       "of the same thread with the same values, inv_b evaluated after every step (evaluations also counts these steps)")
    res.assumptions += ["under the scheduler virtual threads call mi_thread_done; real thread exit through the pthread key destructor is exercised sequentially by harness/t_exitorder.c (every order of exits and frees/adoptions) and by the pinned suite, not under adversarial schedules"]
