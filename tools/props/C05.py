"""C05 (DESIGN.md section 3, C05)."""
import vlib, apitrace

def run(res, a):
    if a.replay:
        return apitrace.replay(res, "C05", a.replay)
    vlib.proof_stage(res, "C05")
    k = 3 if a.tier == "thorough" else 1
    plan = [("realloc", 16*k, 400), ("aligned", 4*k, 300), ("heaps", 4*k, 250), ("huge", 3*k, 40), ("malformed", 3*k, 250)]
    for sd in ([a.seed, a.seed + 1] if a.tier == "thorough" else [a.seed]):
        apitrace.run_traces(res, "C05", plan, sd, dump=False, tag="" if sd == a.seed else "_s%d" % sd)
    try:
        import apimodel
        st = apimodel.run(res, a.seed, a.tier)
        res.cov.setdefault("input_distribution", {})["f_api"] = {"F": st.get("F", {}), "T": st.get("T", {}), "records": st.get("records", 0), "distinct": st.get("distinct", 0), "mismatches": st.get("mismatches", 0)}
        res.cov["evaluations"] += st.get("records", 0)
    except ImportError:
        pass
    res.cov["rule"] = ("API traces on the real allocator: old/new size pairs crossing class, page-kind and huge boundaries through every realloc-family entry point; oracles: usable >= new size, first min(old requested,new) bytes preserved, old block intact and live after a failed call (reallocf: released), mi_expand never moves and succeeds exactly up to mi_usable_size. distinct = distinct traces (+ function-level records of harness/f_api.c compared with the Coq API model)")
