"""C17 -- hardened builds detect double free, overflow, list corruption; stay consistent (DESIGN.md section 3, C17).

The harness harness/t_secure.c is compiled twice from the current tree:
  secure : -DMI_SECURE=4 -DNDEBUG -O1   (all clauses, including consistency after a detected error)
  debug  : -DMI_DEBUG=1 -O1             (only the detection clauses)
T records: implementation-side oracle (error codes per attack, shadow table of live blocks).
F records: replayed on the extracted Coq model Model/Secure.v by ocaml/mode_secure.ml.
"""
import os, collections
import vlib
from vlib import log

EAGAIN, EFAULT = 11, 14
COMMON = ["-O1", "-g", "-std=gnu11", "-Wno-unused-function", "-Wno-unused-variable", "-Wno-attributes", "-fno-builtin-malloc"]
BUILDS = [("secure", COMMON + ["-DMI_SECURE=4", "-DNDEBUG"]), ("debug", COMMON + ["-DMI_DEBUG=1"])]


def parse_ep(line):
    f = line.split()
    d = {"ep": int(f[2])}
    for kv in f[3:]:
        k, v = kv.split("=", 1)
        d[k] = v
    d["errs"] = [] if d["errs"] == "-" else [int(x) for x in d["errs"].split(",")]
    return d


def oracle(build, tlines):
    """implementation-side oracle on the T records; returns (list of (key, text, witness), counters)"""
    bad = []
    cnt = collections.Counter()
    secure = (build == "secure")

    def fail(key, text, wit):
        if len(bad) < 20:
            bad.append((key, text, "%s build, seed episode: %s" % (build, wit)))
    for l in tlines:
        f = l.split()
        if f[1] == "cyclic":
            cnt["cyclic"] += 1
            errs = [] if f[3] == "-" else [int(x) for x in f[3].split(",")]
            if not errs or errs[-1] != EFAULT or any(e != EFAULT for e in errs):
                fail("tf_cyclic", "collecting a cyclic thread-free list reported %s instead of EFAULT" % errs, l)
        elif f[1] == "ep":
            d = parse_ep(l)
            k = d["kind"]
            cnt[k] += 1
            errs = d["errs"]
            if k == "overflow_mt":
                cnt["overflow_mt_%s" % ("lt8" if int(d["req"]) < 8 else "delta0" if d["delta"] == "0" else "ge8")] += 1
                cnt["overflow_mt_%s" % ("pthread" if d["wkind"] == "0" else "direct")] += 1
                if errs != [EFAULT]:
                    fail("overflow_mt", "byte %s written at offset %s of a block of requested size %s (delta=%s) and freed through the cross-thread path (%s): reported %s, expected [EFAULT]"
                         % (d["v"], d["req"], d["req"], d["delta"], "second pthread calling mi_free" if d["wkind"] == "0" else "direct mi_free_generic_mt", errs), l)
            if k == "overflow":
                cnt["overflow_delta%s" % ("0" if d["delta"] == "0" else "1" if d["delta"] == "1" else ">1")] += 1
            if k == "link":
                cnt["link_wkind%s" % d["wkind"]] += 1
            if k == "double" and errs != [EAGAIN]:
                fail("double_free", "second free of a block of %s bytes (its page holds another live block) reported %s, expected [EAGAIN]" % (d["req"], errs), l)
            if k == "overflow" and errs != [EFAULT]:
                fail("overflow", "byte %s written at offset %s of a block of requested size %s (delta=%s) and freed: reported %s, expected [EFAULT]"
                     % (d["v"], d["req"], d["req"], d["delta"], errs), l)
            if k == "link":
                if d["reached"] != "1" or not errs or any(e != EFAULT for e in errs):
                    fail("link", "overwritten free-list link (kind %s, decodes outside the page) of a %s-byte block: %d allocations reported %s, expected EFAULT when reached"
                         % (d["wkind"], d["req"], int(d["post"]), errs), l)
            if int(d["spurious"]) != 0:
                fail("spurious", "%s regular operations reported an error (episode kind %s, size %s)" % (d["spurious"], k, d["req"]), l)
            if secure:
                cnt["post_allocs"] += int(d["post"])
                if int(d["dup"]) != 0:
                    fail("double_handout", "after a detected %s error a block overlapping a live block was handed out %s times" % (k, d["dup"]), l)
                if int(d["outside"]) != 0:
                    fail("outside", "after a detected %s error %s returned addresses were not block starts inside a heap area" % (k, d["outside"]), l)
                if int(d["patbad"]) != 0:
                    fail("content", "after a detected %s error the contents of %s live blocks changed" % (k, d["patbad"]), l)
        elif f[1] == "hang":
            fail("hang", "the allocator did not terminate (stage %s)" % " ".join(f[2:]), l)
    return bad, cnt


def run(res, a):
    vlib.proof_stage(res, "C17")
    okb, txt = vlib.ocaml_build()
    if not okb:
        res.violation("model-build", "extracted model does not build: " + txt[-1200:])
    total_f, total_t, dist, allmism, samples = 0, 0, {}, [], []
    distinct = set()
    for build, flags in BUILDS:
        exe = os.path.join(vlib.BUILD, "t_secure_%s_%s" % (build, a.pid))
        ok, txt, cmd = vlib.cc(os.path.join(vlib.HARN, "t_secure.c"), exe, cflags=flags)
        if not ok:
            res.violation("harness-build-" + build, "harness/t_secure.c no longer compiles (%s build) against the current tree (a modelled function changed its interface): %s" % (build, txt[-1500:]))
            continue
        rc, out, err = vlib.run_split([exe, str(a.seed), "1" if a.tier == "thorough" else "0"], timeout=900, env=vlib.clean_env())
        lines = out.splitlines()
        tl = [l for l in lines if l.startswith("T ")]
        fl = [l for l in lines if l.startswith("F ")]
        bad, cnt = oracle(build, tl)
        for key, text, wit in bad:
            res.violation("impl:%s:%s" % (build, key), text, witness=wit)
        if rc != 0 or not out.rstrip().endswith("END"):
            begins = [l for l in tl if l.startswith("T begin")]
            last = begins[-1] if begins else "(before the first attack)"
            if not any(k == "hang" for k, _, _ in bad):
                res.violation("impl:%s:crash" % build, "t_secure (%s build) exited with %d during/after: %s ; %s" % (build, rc, last, err[-400:]),
                              witness="t_secure(%s) seed %d, %s" % (build, a.seed, last))
        total_t += len(tl)
        total_f += len([l for l in fl if not l.startswith(("F mem", "F memf"))])
        distinct.update(l for l in fl if not l.startswith(("F mem", "F memf")))
        distinct.update(l for l in tl if l.startswith("T ep"))
        fops = collections.Counter(l.split()[4] for l in fl if l.startswith("F op "))
        fpure = collections.Counter(l.split()[1] for l in fl if not l.startswith(("F op ", "F mem", "F memf")))
        ferr = collections.Counter()
        for l in fl:
            if l.startswith("F op "):
                r = l.split("=", 1)[1].split("|")[0].split()
                if int(r[1]) > 0:
                    ferr["%s:%s" % (l.split()[4], ",".join(r[2:]))] += 1
        dist[build] = {"T": dict(cnt), "F_ops": dict(fops), "F_ops_with_errors": dict(ferr), "F_other": dict(fpure)}
        eps = [l for l in tl if l.startswith("T ep")]
        if eps:
            samples += [eps[0], eps[len(eps) // 2]]
        ops = [l for l in fl if l.startswith("F op ")]
        if ops:
            samples.append(ops[len(ops) // 3][:160])
        if okb and fl:
            rc2, mout = vlib.model_replay("secure", "\n".join(fl) + "\n")
            mism = [l for l in mout.splitlines() if l.startswith("MISMATCH")]
            done = [l for l in mout.splitlines() if l.startswith("DONE")]
            if rc2 != 0 or not done:
                res.violation("model-run-" + build, "model replay failed (%s build): %s" % (build, mout[-800:]))
            elif mism and not bad:
                res.violation("corr:%s:%s" % (build, " ".join(mism[0].split()[1:3])),
                              "model/implementation disagreement in the %s build (%d records), e.g. %s" % (build, len(mism), mism[0][:900]), witness=None)
            elif mism:
                log("[corr] %s build: %d model/implementation disagreements, e.g. %s" % (build, len(mism), mism[0][:300]))
            allmism += mism
    res.cov["evaluations"] = total_f + total_t
    res.cov["distinct_nontrivial"] = len(distinct)
    res.cov["rule"] = ("two builds of harness/t_secure.c (MI_SECURE=4 release; MI_DEBUG=1). T ep: one API-level episode on a fresh heap = random malloc/free prefix, "
                       "ONE attack (second free of a block whose page holds another live block / one foreign byte at offset `requested size` with delta 0, 1, >16, other / "
                       "first word of a freed block overwritten with random, 0, or a value decoding outside the page / overflow_mt: requested sizes 1..40, the overflowed block freed through the cross-thread path "
                       "(a real second pthread calling mi_free, or mi_free_generic_mt directly), untouched blocks freed the same way must report nothing), expected codes [EAGAIN] / [EFAULT] / EFAULT when reached / [EFAULT]; "
                       "secure build only: 200-400 further malloc/free with a shadow table (no overlap with a live block, address = block start below capacity of a page in a heap region, "
                       "contents of live blocks unchanged). F op: page-level operation on a real page (internal functions called directly) replayed by the extracted Coq model from the dumped "
                       "initial page: error codes, returned block, capacity, used and the three lists (walked with the real mi_block_next) compared after every operation, inv_b evaluated while no link is forged, "
                       "all block bytes compared at the end; F encode/decode/canary/rotl/rotr/const: value comparison. distinct = distinct record lines (memory dump lines excluded)")
    res.cov["traces_validated_against_impl"] = total_f
    res.cov["disagreements_checked"] = len(allmism)
    res.cov["input_distribution"] = dist
    res.cov["exhaustive"] = False
    res.add_samples(samples)
    res.assumptions += [
        "64-bit little-endian Linux; MI_SECURE=4 -DNDEBUG and MI_DEBUG=1 builds of the current tree (the release suite configuration has none of these checks)",
        "the model is one page: retiring/freeing of pages, the heap's delayed-free list and real concurrency of remote frees are outside it (remote free is modelled sequentially); "
        "these parts are exercised only by the T episodes",
        "a forged link that decodes to a non-block-start address inside the page area, a second free of a block whose own link was overwritten, and huge pages are outside the claim (model result Undef / not `allowed`)",
        "error callback registered (mi_register_error), so the default abort on EFAULT is replaced by collecting the code",
    ]
