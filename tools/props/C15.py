"""C15 -- arena-bound heaps stay inside their arena; exclusive arenas stay private (DESIGN.md section 3, C15).

proofs: Properties/C15.v over Model/Bind.v.  correspondence: harness/t_arena.c
  F records (real static functions vs. the extracted model, ocaml/mode_bind.ml): mi_manage_os_memory_ex2 arithmetic read
    back with mi_arena_area, blocks_inuse right after the call (the pre-claimed `post` bits), mi_arena_id_index,
    mi_arena_id_is_suitable, _mi_arena_memid_is_suitable, _mi_heap_memid_is_suitable on grids;
  T records (implementation-side oracle below): every address returned by a heap, against the arena areas and against the
    regions given to mi_manage_os_memory_ex, over seeded histories with bound / unbound heaps, thread exit, adoption,
    collects, reclaim-on-free on and off, exhaustion.
op-level trace tie: harness/t_bind.c drives the real allocator (several live threads that run in turns, heaps bound to arenas,
  tagged and destroyable heaps, thread exit with live blocks, reclaim by allocation / mi_collect / mi_free, mi_heap_delete /
  mi_heap_destroy) and dumps after every API call the projection of the real state that Model/Bind.v has; OCaml mode bind-trace
  (ocaml/mode_bindtrace.ml) evaluates bound_inv_b / placed_inv_b on every dump and explains every transition by Bind.step
  operations; the same dumps are judged by an independent oracle below (trace_oracle)."""
import os, collections
import vlib
from vlib import log

KNOWN_TAG_KEY = "impl:reclaim-by-tag-exclusive"


def oracle(lines):
    """returns (violations [(key, text, witness)], stats)"""
    bad = []
    seen = set()

    def fail(key, text, wit):
        if (key, wit.split(";")[0]) in seen:
            return
        seen.add((key, wit.split(";")[0]))
        if len(bad) < 40:
            bad.append((key, text, wit))

    scn = collections.OrderedDict()     # name -> dict(seed, arenas, allocs, ...)
    cur = None
    for l in lines:
        f = l.split()
        k = f[1]
        if k == "scenario":
            cur = {"name": f[2], "seed": f[3], "arenas": {}, "allocs": [], "nulls": [], "exhaust": [], "fallback": None,
                   "counts": {}, "ended": False, "crash": None}
            scn[f[2]] = cur
        elif k == "rss":
            if f[2] in scn:
                scn[f[2]]["rss_kb"] = int(f[3])
        elif k == "crash":
            if f[2] in scn:
                scn[f[2]]["crash"] = f[3]
        elif cur is None:
            continue
        elif k == "arena":
            aid = int(f[3])
            cur["arenas"][aid] = dict(id=aid, excl=f[4] == "1", start=int(f[5]), size=int(f[6]), rstart=int(f[7]), rsize=int(f[8]),
                                      mstart=int(f[9]), msize=int(f[10]), how=f[11])
        elif k == "alloc":
            cur["allocs"].append((f[3], f[4], int(f[5]), int(f[6]), int(f[7]), int(f[8])))   # phase label bound thread size ptr
        elif k == "null":
            cur["nulls"].append((f[3], f[4], int(f[5]), int(f[6]), int(f[7])))
        elif k == "exhaust":
            cur["exhaust"].append((int(f[3]), int(f[4]), int(f[5]), int(f[6])))
        elif k == "fallback":
            cur["fallback"] = (int(f[3]), int(f[4]))
        elif k == "count":
            cur["counts"][f[3]] = int(f[4])
        elif k == "end":
            cur["ended"] = True

    stats = collections.Counter()
    hist = collections.Counter()
    for name, s in scn.items():
        base = name.rstrip("0123456789")
        wit0 = "t_arena <seed> <tier> %s  (scenario %s, derived seed %s)" % (base, name, s["seed"])
        if s["crash"] is not None or not s["ended"]:
            fail("impl:harness-crash:" + base, "scenario %s of harness/t_arena.c died (signal/status %s) on the current tree" % (name, s["crash"]), wit0)
        stats["max_rss_kb"] = max(stats["max_rss_kb"], s.get("rss_kb", 0))
        arenas = s["arenas"]
        for a in arenas.values():
            stats["arenas"] += 1
            if a["how"] == "managed":
                stats["managed_arenas"] += 1
                if not (a["rstart"] <= a["start"] and a["start"] + a["size"] <= a["rstart"] + a["rsize"]):
                    fail("impl:area-outside-region", "arena %d: area [%#x,+%d) is not inside the region [%#x,+%d) given to mi_manage_os_memory_ex"
                         % (a["id"], a["start"], a["size"], a["rstart"], a["rsize"]), wit0 + "; mi_manage_os_memory_ex(%#x, %d)" % (a["rstart"], a["rsize"]))
                if a["start"] % (32 * 1024 * 1024) != 0:
                    fail("impl:area-misaligned", "arena %d: area start %#x is not segment aligned" % (a["id"], a["start"]),
                         wit0 + "; mi_manage_os_memory_ex(%#x, %d)" % (a["rstart"], a["rsize"]))
        excl = [a for a in arenas.values() if a["excl"]]
        mine = [a for a in arenas.values() if a["msize"] > 0]
        have_table = len(arenas) > 0
        for (phase, label, bound, thread, size, ptr) in s["allocs"]:
            stats["allocs"] += 1
            hist["bound" if bound else "unbound"] += 1
            hist["huge" if size > 16 * 1024 * 1024 else "large" if size > 64 * 1024 else "medium" if size > 1024 else "small"] += 1
            if not have_table:
                continue
            end = ptr + size
            wit = wit0 + "; %s: heap %s (bound to arena %d, thread %d) malloc(%d) = %#x" % (phase, label, bound, thread, size, ptr)
            if bound:
                a = arenas.get(bound)
                if a is None or not (a["start"] <= ptr and end <= a["start"] + a["size"]):
                    fail("impl:bound-heap-outside-arena", "a heap bound to arena %d returned %#x (+%d), outside mi_arena_area = %s"
                         % (bound, ptr, size, ("[%#x,+%d)" % (a["start"], a["size"])) if a else "unknown arena"), wit)
            for a in excl:
                if a["id"] != bound and a["start"] <= ptr < a["start"] + a["size"]:
                    key = KNOWN_TAG_KEY if base == "tag" and phase == "tag_default" else "impl:exclusive-arena-leak"
                    fail(key, "memory of EXCLUSIVE arena %d was returned by a heap that is not bound to it (%s, bound to %d)"
                         % (a["id"], label, bound), wit)
            for a in mine:
                inmap = a["mstart"] <= ptr < a["mstart"] + a["msize"] or a["mstart"] < end <= a["mstart"] + a["msize"]
                if inmap and not (a["rstart"] <= ptr and end <= a["rstart"] + a["rsize"]):
                    fail("impl:outside-managed-region", "address %#x (+%d) lies in the mapping around arena %d but outside the region [%#x,+%d) given to mi_manage_os_memory_ex"
                         % (ptr, size, a["id"], a["rstart"], a["rsize"]), wit)
        for (phase, label, bound, thread, size) in s["nulls"]:
            stats["nulls"] += 1
            if not bound and size < (1 << 30):
                fail("impl:unbound-null", "an unbound heap (%s) returned NULL for %d bytes" % (label, size), wit0 + "; %s malloc(%d)" % (phase, size))
        for (aid, blocks, okc, null_seen) in s["exhaust"]:
            stats["exhaust_runs"] += 1
            if not null_seen or okc > blocks:
                fail("impl:bound-heap-no-null", "heap bound to arena %d (%d blocks): %d whole-block allocations succeeded, NULL seen: %d (must be NULL when the arena is full, no OS fallback)"
                     % (aid, blocks, okc, null_seen), wit0 + "; exhaust arena %d" % aid)
        if s["fallback"] is not None:
            stats["fallback_allocs"] += s["fallback"][0]
        for kname, v in s["counts"].items():
            if kname.startswith("small_null_") and v != 1:
                fail("impl:bound-heap-no-null", "a bound heap whose arena is full still served small requests (%s)" % kname, wit0)
            if kname == "refill_null" and v != 0:
                fail("impl:refill-null", "a heap bound to an exclusive one-block arena returned NULL for a whole-block request although no block was live and the OS refused nothing "
                     "(%d of the rounds; after a small block was allocated and freed only a retired page keeps the segment: _mi_malloc_generic must collect and retry)" % v,
                     wit0 + "; p = mi_heap_malloc(h, small); mi_free(p); mi_heap_malloc(h, 20 MiB) == NULL")
            if kname == "full_arena_failure_bad" and v != 0:
                fail("impl:full-arena-failure", "with the default heap bound to a full exclusive arena an entry point did not report failure the documented way (bits: 1 posix_memalign "
                     "did not return ENOMEM, 2 it modified its out-parameter, 4 memalign / 8 aligned_alloc / 16 calloc returned non-NULL): %d" % v,
                     wit0 + "; mi_heap_set_default(bound heap of a full arena); mi_posix_memalign(&p, 64, 20 MiB)")
            if kname in ("setup_failed", "manage_failed", "reserve_failed"):
                fail("impl:arena-setup", "the harness could not create its arenas (%s)" % kname, wit0)
            stats[kname] += v
    return bad, stats, hist, scn


def suitable(seg_is_arena, seg_aid, seg_excl, req):
    """_mi_arena_memid_is_suitable, written down independently of the model and of the code"""
    if seg_is_arena:
        return (not seg_excl and req == 0) or seg_aid == req
    return req == 0


def trace_oracle(lines, seed, tier):
    """implementation-side oracle on the dumps of harness/t_bind.c.  Every dumped state: (1) every page that belongs to a heap
    lies in a segment whose memid is suitable for the arena of that heap; (2) a segment with an arena memid lies inside the
    area of that arena and that arena has the same exclusive flag; (3) every returned pointer lies in the segment / page
    the dump shows for it, inside the arena of a bound heap, and in no exclusive arena the heap is not bound to; (4) the area
    of a managed arena lies inside the region given to mi_manage_os_memory_ex.
    returns (violations [(key, text, witness, scenario, step)], stats, per-scenario info)"""
    BLK = 32 * 1024 * 1024
    bad = []
    stats = collections.Counter()
    scn = None; arenas = {}; regions = {}; heaps = {}; segs = {}; calls = []; offenders = set(); call = None
    scn_info = collections.OrderedDict()

    def witness(n):
        base = scn.rstrip("0123456789")
        last = "; ".join(calls[max(0, n - 8):n])
        return "t_bind %d %d %s (scenario %s): API calls 1..%d, the last ones: %s" % (seed, 1 if tier == "thorough" else 0, base, scn, n, last)

    def fail(key, text, seg=None):
        if len(bad) < 60:
            bad.append((key, text, witness(len(calls)), scn, len(calls)))

    def parse_seg(w):
        spans = []
        for sp in w[11:]:
            f = sp.split(":")
            if f[0] == "p":
                spans.append((int(f[1]), int(f[2]), int(f[3]), int(f[4]), int(f[5])))    # idx cnt heap tag live
        return dict(addr=int(w[1]), arena=(w[2] == "a"), aid=int(w[3]), excl=(w[4] == "1"), size=int(w[5]), owner=int(w[6]), pages=spans)

    changed = []
    for l in lines:
        w = l.split()
        if not w:
            continue
        k = w[0]
        if k == "T":
            if w[1] == "scenario":
                scn = w[2]; arenas = {}; regions = {}; heaps = {}; segs = {}; calls = []; offenders = set(); changed = []
                scn_info[scn] = {"calls": 0, "ended": False, "crash": None, "counts": collections.Counter()}
            elif w[1] == "end" and w[2] in scn_info:
                scn_info[w[2]]["ended"] = True
            elif w[1] == "crash" and w[2] in scn_info:
                scn_info[w[2]]["crash"] = w[3]
            elif w[1] == "count" and w[2] in scn_info:
                scn_info[w[2]]["counts"][w[3]] += int(w[4])
            elif w[1] == "rss":
                stats["max_rss_kb"] = max(stats["max_rss_kb"], int(w[3]))
            continue
        if scn is None:
            continue
        if k == "C":
            call = w
            calls.append(" ".join(w[3:]))
            changed = []
        elif k == "A":
            arenas[int(w[1])] = dict(id=int(w[1]), excl=(w[2] == "1"), start=int(w[3]), size=int(w[4]) * BLK)
            stats["arenas"] += 1
        elif k == "R":
            regions[int(w[1])] = (int(w[2]), int(w[3]), int(w[4]), int(w[5]))
        elif k == "H":
            tid = int(w[1])
            for h in [x for t, x in list(heaps.items()) if x["tid"] == tid]:
                del heaps[h["ptr"]]
            for hs in w[4:]:
                f = hs.split(":")
                heaps[int(f[0])] = dict(ptr=int(f[0]), tid=tid, arena=int(f[1]), tag=int(f[2]))
        elif k == "S":
            s = parse_seg(w); segs[s["addr"]] = s; changed.append(s["addr"])
        elif k == "X":
            segs.pop(int(w[1]), None)
        elif k == "E":
            fail("impl:dump-incomplete", "the dump of harness/t_bind.c is inconsistent: " + " ".join(w[1:]))
        elif k == "D":
            stats["calls"] += 1; scn_info[scn]["calls"] += 1
            stats["call:" + call[3]] += 1
            # (4) managed regions
            if call[3] == "manage":
                aid = int(call[-1])
                if aid in arenas and aid in regions:
                    a = arenas[aid]; (rs, rz, ms, mz) = regions[aid]
                    if not (rs <= a["start"] and a["start"] + a["size"] <= rs + rz):
                        fail("impl:area-outside-region", "arena %d: area [%#x,+%d) is not inside the region [%#x,+%d) given to mi_manage_os_memory_ex" % (aid, a["start"], a["size"], rs, rz))
                    if a["start"] % BLK != 0:
                        fail("impl:area-misaligned", "arena %d: area start %#x is not segment aligned" % (aid, a["start"]))
            # (1) (2) on the segments that changed (a heap table change re-checks everything)
            todo = list(segs.keys()) if call[3] in ("heap_new", "heap_delete", "heap_destroy", "thread_exit", "thread_start") else changed
            for addr in todo:
                s = segs.get(addr)
                if s is None:
                    continue
                stats["segment_states_checked"] += 1
                if s["arena"]:
                    a = arenas.get(s["aid"])
                    nb = (s["size"] + BLK - 1) // BLK
                    if a is None or a["excl"] != s["excl"] or not (a["start"] <= addr and addr + nb * BLK <= a["start"] + a["size"]):
                        fail("impl:segment-outside-arena", "segment %#x (+%d) carries memid arena %d (exclusive %d) but does not lie in the area of such an arena" % (addr, s["size"], s["aid"], s["excl"]), addr)
                for (idx, cnt, hp, tag, live) in s["pages"]:
                    if hp == 0:
                        continue
                    stats["page_states_checked"] += 1
                    h = heaps.get(hp)
                    if h is None:
                        fail("impl:page-of-dead-heap", "segment %#x: the page at slice %d belongs to heap %#x which is not a live heap" % (addr, idx, hp), addr)
                        continue
                    if not suitable(s["arena"], s["aid"], s["excl"], h["arena"]) and (addr, idx) not in offenders:
                        offenders.add((addr, idx))
                        if s["arena"] and s["excl"] and h["arena"] != s["aid"]:
                            fail("impl:exclusive-arena-leak", "after `%s`: a page (slice %d) of segment %#x in EXCLUSIVE arena %d belongs to heap %#x (thread %d, bound to arena %d, tag %d)"
                                 % (" ".join(call[3:6]), idx, addr, s["aid"], hp, h["tid"], h["arena"], h["tag"]), addr)
                        else:
                            fail("impl:bound-heap-outside-arena", "after `%s`: heap %#x bound to arena %d owns a page (slice %d) of segment %#x whose memory is %s"
                                 % (" ".join(call[3:6]), hp, h["arena"], idx, addr, ("arena %d" % s["aid"]) if s["arena"] else "from the OS"), addr)
            offenders = set((a_, i_) for (a_, i_) in offenders if a_ in segs and any(p[0] == i_ and p[2] != 0 for p in segs[a_]["pages"]))
            # (3) returned pointers
            if call[3] == "malloc":
                hp = int(call[4]); size = int(call[5]); ptr = int(call[7]); sg = int(call[8]); sl = int(call[9])
                h = heaps.get(hp)
                if ptr == 0:
                    stats["nulls"] += 1
                    if h is not None and h["arena"] == 0 and size < (1 << 30):
                        fail("impl:unbound-null", "an unbound heap returned NULL for %d bytes" % size)
                else:
                    stats["allocs"] += 1
                    stats["bound_allocs" if h is not None and h["arena"] != 0 else "unbound_allocs"] += 1
                    s = segs.get(sg)
                    if s is None or not (sg <= ptr and ptr + size <= sg + max(s["size"], BLK)) or not any(p[0] == sl and p[2] == hp and p[4] > 0 for p in s["pages"]):
                        fail("impl:returned-pointer-not-in-dump", "malloc(heap %#x, %d) = %#x: the dump has no live page of that heap at segment %#x slice %d" % (hp, size, ptr, sg, sl), sg)
                    if h is not None and h["arena"] != 0:
                        a = arenas.get(h["arena"])
                        if (a is None or not (a["start"] <= ptr and ptr + size <= a["start"] + a["size"])) and (sg, sl) not in offenders:   # an offending page was reported when it appeared
                            fail("impl:bound-heap-outside-arena", "a heap bound to arena %d returned %#x (+%d), outside mi_arena_area" % (h["arena"], ptr, size), sg)
                    for a in arenas.values():
                        if a["excl"] and (h is None or h["arena"] != a["id"]) and a["start"] <= ptr < a["start"] + a["size"] and (sg, sl) not in offenders:
                            fail("impl:exclusive-arena-leak", "memory of EXCLUSIVE arena %d was returned by a heap that is not bound to it (heap %#x)" % (a["id"], hp), sg)
                    for aid, (rs, rz, ms, mz) in regions.items():
                        if (ms <= ptr < ms + mz) and not (rs <= ptr and ptr + size <= rs + rz):
                            fail("impl:outside-managed-region", "address %#x (+%d) lies in the mapping around arena %d but outside the region given to mi_manage_os_memory_ex" % (ptr, size, aid), sg)
    for name, inf in scn_info.items():
        if inf["crash"] is not None or not inf["ended"]:
            scn = name; calls = []
            bad.append(("impl:harness-crash:" + name.rstrip("0123456789"), "scenario %s of harness/t_bind.c died (signal/status %s) on the current tree" % (name, inf["crash"]),
                        "t_bind %d %d %s" % (seed, 1 if tier == "thorough" else 0, name.rstrip("0123456789")), name, None))
        for kname, v in inf["counts"].items():
            stats["count:" + kname] += v
            if kname in ("setup_failed", "manage_failed", "reserve_failed"):
                bad.append(("impl:arena-setup", "harness/t_bind.c could not create its arenas (%s)" % kname, "t_bind %d %d %s" % (seed, 1 if tier == "thorough" else 0, name.rstrip("0123456789")), name, None))
    return bad, stats, scn_info


def run_trace(res, a, seeds):
    """the op-level trace tie (harness/t_bind.c + OCaml mode bind-trace + trace_oracle)"""
    exe = os.path.join(vlib.BUILD, "t_bind_%s" % a.pid)
    ok, txt, cmd = vlib.cc(os.path.join(vlib.HARN, "t_bind.c"), exe)
    if not ok:
        res.violation("harness-build", "harness/t_bind.c no longer compiles against the current tree (a modelled function changed its interface): " + txt[-1500:])
        return {}
    okb, txt = vlib.ocaml_build()
    if not okb:
        res.violation("model-build", "extracted model does not build: " + txt[-1200:])
    tot = collections.Counter(); per_scn = {}; samples = []
    for sd in seeds:
        rc, out, err = vlib.run_split(["timeout", "-k", "5", "2400" if a.tier == "thorough" else "600", exe, str(sd), "1" if a.tier == "thorough" else "0"],
                                      timeout=2500 if a.tier == "thorough" else 650, env=vlib.clean_env())
        if rc != 0 or not out.rstrip().endswith("END"):
            res.violation("harness-crash", "t_bind exited with %d: %s" % (rc, err[-800:]), witness="t_bind %d" % sd)
        lines = out.splitlines()
        bad, stats, scn_info = trace_oracle(lines, sd, a.tier)
        tot.update(stats)
        known = set(); mism = []; invs = []; other = []
        if okb:
            rc2, mout = vlib.model_replay("bind-trace", out, timeout=2400)
            ml = mout.splitlines()
            if rc2 != 0 or not any(l.startswith("DONE") for l in ml):
                res.violation("model-run", "model replay (bind-trace) failed: " + mout[-800:])
            for l in ml:
                f = l.split()
                if l.startswith("KNOWN "):
                    known.add((f[1], int(f[2].split("=")[1])))
                    res.violation(KNOWN_TAG_KEY, "trace tie, scenario %s %s: %s" % (f[1], f[2], " ".join(f[3:])[:400]), witness="t_bind %d %d %s" % (sd, 1 if a.tier == "thorough" else 0, f[1].rstrip("0123456789")))
                elif l.startswith("MISMATCH "):
                    mism.append(l)
                elif l.startswith("INV "):
                    invs.append(l)
                elif l.startswith(("RET ", "DUMP ")):
                    other.append(l)
                elif l.startswith("STAT trace "):
                    d = dict(x.split("=", 1) for x in f[3:] if "=" in x)
                    per_scn["%d/%s" % (sd, f[2])] = {k: d.get(k) for k in ("calls", "changed", "ops", "unexplained", "inv", "known", "opkinds")}
                    tot["model_ops"] += int(d.get("ops", "0"))
                    for kv in (d.get("opkinds") or "").split(","):
                        if ":" in kv:
                            tot["op:" + kv.split(":")[0]] += int(kv.split(":")[1])
        # implementation-side oracle; a broken page that the model explains as the known finding carries the known key
        fired = {}
        for key, text, wit, scn, step in bad:
            if key in ("impl:exclusive-arena-leak", "impl:bound-heap-outside-arena") and (scn, step) in known:
                key = KNOWN_TAG_KEY
            else:
                fired.setdefault(scn, wit)
            res.violation(key, text, witness=wit)
        def scn_of(l): return l.split()[2] if l.startswith("MISMATCH") else l.split()[1]
        for l in mism[:6]:
            res.violation("corr:bind-trace", "no sequence of operations of Model/Bind.v explains an observed transition of the real allocator: " + l[:1500],
                          witness=fired.get(scn_of(l)))
        for l in invs[:6]:
            f = l.split()
            n = int(f[2].split("=")[1])
            res.violation("impl:bind-trace-inv", "an invariant of Model/Bind.v is false on a dumped state of the real allocator: " + l[:600],
                          witness=fired.get(f[1]) or ("t_bind %d %d %s (scenario %s): API calls 1..%d" % (sd, 1 if a.tier == "thorough" else 0, f[1].rstrip("0123456789"), f[1], n)))
        for l in other[:4]:
            res.violation("corr:bind-trace-dump", "the dump and the returned pointers disagree: " + l[:600], witness=fired.get(scn_of(l)))
        tot["mismatch_lines"] += len(mism); tot["inv_lines"] += len(invs); tot["known_lines"] += len(known)
        if not samples:
            cl = [l for l in lines if l.startswith(("C ", "S "))]
            samples = [x[:300] for x in (cl[10:12] + cl[len(cl) // 2:len(cl) // 2 + 2])]
    return {"stats": dict(tot), "per_scenario": per_scn, "samples": samples}


def corpus_regression(res, a):
    """corpus/C15/*.c : the stored witness programs, rebuilt against the current tree"""
    cdir = os.path.join(vlib.VERIF, "corpus", "C15")
    n = 0
    for name in sorted(os.listdir(cdir)) if os.path.isdir(cdir) else []:
        if not name.endswith(".c"):
            continue
        exe = os.path.join(vlib.BUILD, "corpus_C15_%s_%s" % (name[:-2], a.pid))
        rc, txt = vlib.run(["gcc"] + vlib.CFLAGS_REL + vlib.INC + [os.path.join(cdir, name), os.path.join(vlib.REPO, "src", "static.c"), "-o", exe, "-lpthread"], timeout=300)
        if rc != 0:
            res.violation("corpus-build:" + name, "corpus program %s no longer builds: %s" % (name, txt[-600:]))
            continue
        rc, out, err = vlib.run_split([exe], timeout=120, env=vlib.clean_env())
        n += 1
        if rc != 0:
            key = KNOWN_TAG_KEY if name == "reclaim_tag_exclusive.c" else "impl:corpus:" + name[:-2]
            res.violation(key, "corpus/C15/%s reproduces again (exit %d): %s" % (name, rc, out.strip()[-300:]), witness="corpus/C15/" + name)
    return n


def run(res, a):
    vlib.proof_stage(res, "C15")
    ncorpus = corpus_regression(res, a)
    exe = os.path.join(vlib.BUILD, "t_arena_%s" % a.pid)
    ok, txt, cmd = vlib.cc(os.path.join(vlib.HARN, "t_arena.c"), exe)
    if not ok:
        res.violation("harness-build", "harness/t_arena.c no longer compiles against the current tree (a modelled function changed its interface): " + txt[-1500:])
        return
    seeds = [a.seed] if a.tier != "thorough" else [a.seed, a.seed + 1, a.seed + 2]
    lines = []
    for sd in seeds:
        # every scenario of the harness is a child with its own limits (40 GiB address space, no THP, 90/300 s); the whole run is bounded too
        rc, out, err = vlib.run_split(["timeout", "-k", "5", "2400" if a.tier == "thorough" else "600", exe, str(sd), "1" if a.tier == "thorough" else "0"],
                                      timeout=2500 if a.tier == "thorough" else 650, env=vlib.clean_env())
        lines += out.splitlines()
        if rc != 0 or not out.rstrip().endswith("END"):
            res.violation("harness-crash", "t_arena exited with %d: %s" % (rc, err[-800:]), witness="t_arena %d" % sd)
    tl = [l for l in lines if l.startswith("T ")]
    fl = [l for l in lines if l.startswith("F ")]
    bad, stats, hist, scn = oracle(tl)
    for key, text, wit in bad:
        res.violation(key, text, witness=wit)
    trace = run_trace(res, a, seeds)
    okb, txt = vlib.ocaml_build()
    mism = []
    if not okb:
        res.violation("model-build", "extracted model does not build: " + txt[-1200:])
    else:
        rc, mout = vlib.model_replay("bind", "\n".join(fl) + "\n")
        mism = [l for l in mout.splitlines() if l.startswith("MISMATCH")]
        done = [l for l in mout.splitlines() if l.startswith("DONE")]
        if rc != 0 or not done:
            res.violation("model-run", "model replay failed: " + mout[-800:])
        else:
            # model and code disagree: report per function; the witness is the record (a concrete input of the real function)
            byfn = collections.OrderedDict()
            for m in mism:
                byfn.setdefault(m.split()[2], m)
            for fn, m in byfn.items():
                res.violation("corr:" + fn, "model/implementation disagreement on %s (%d records), e.g. %s" % (fn, len([x for x in mism if x.split()[2] == fn]), m),
                              witness=(m if fn in ("manage_region", "manage_inuse") else None))
    fcount = collections.Counter(l.split()[1] for l in fl)
    tstats = trace.get("stats", {})
    res.cov["evaluations"] = len(fl) + stats["allocs"] + stats["nulls"] + tstats.get("calls", 0)
    res.cov["distinct_nontrivial"] = len(set(fl)) + len(set((x[1], x[2], x[4]) for s in scn.values() for x in s["allocs"]))
    res.cov["rule"] = ("F records: real static functions vs. the extracted Coq model (manage_os_memory arithmetic and the pre-claimed bits on random "
                       "misalignments/sizes incl. refused ones, suitability predicates on a grid of ids/kinds); T records: every address returned by "
                       "bound and unbound heaps in seeded histories (span reuse, thread exit with live blocks, mi_collect(true/false), "
                       "reclaim-on-free 0/1, try_reclaim by allocation, heap delete, exhaustion) checked against mi_arena_area of the bound arena, "
                       "against every exclusive arena, and against the region given to mi_manage_os_memory_ex. "
                       "distinct = distinct F lines + distinct (heap label, bound arena, size) of T allocations")
    res.cov["traces_validated_against_impl"] = len(scn) + len(trace.get("per_scenario", {}))
    res.cov["trace_tie"] = {"rule": "harness/t_bind.c: after every API call (manage, thread start / exit, heap new / delete / destroy, malloc, free, collect) the "
                                    "projection of the real state (arenas, heap lists, segments with memid / owner / visits, pages with heap / tag / live / slices, free spans) "
                                    "is dumped; OCaml mode bind-trace explains every transition by Bind.step operations with reconstructed choices and evaluates "
                                    "bound_inv_b / placed_inv_b / slice accounting on every dump; trace_oracle judges the same dumps independently",
                            "totals": tstats, "per_scenario": trace.get("per_scenario", {})}
    res.cov["disagreements_checked"] = len(mism)
    res.cov["input_distribution"] = {"F": dict(fcount), "T": dict(stats), "alloc_kinds": dict(hist), "scenarios": list(scn.keys()), "corpus_programs": ncorpus}
    res.cov["exhaustive"] = False
    if fl:
        res.add_samples([fl[0], fl[len(fl) // 2], fl[-1]])
    if tl:
        res.add_samples([tl[1], tl[len(tl) // 2], tl[-2]])
    if trace.get("samples"):
        res.add_samples(trace["samples"])
    res.assumptions += ["64-bit Linux release configuration; arena ids are ints, 0 = none",
                        "heap tags: the invariant is preserved by every step whose adopting heap is tag-safe (C15_bound_inv_preserved_adopter_partial), which holds for all histories of tag-0 heaps (thread init, mi_heap_new, mi_heap_new_in_arena); the remaining gap is exactly the known finding impl:reclaim-by-tag-exclusive (C15_tag_safe_is_necessary)",
                        "the arena claim hands out only zero bits of blocks_inuse inside field_count fields (property C14); C15 proves those bits are inside the region"]
