"""C15 -- arena-bound heaps stay inside their arena; exclusive arenas stay private (DESIGN.md section 3, C15).

proofs: Properties/C15.v over Model/Bind.v.  correspondence: harness/t_arena.c
  F records (real static functions vs. the extracted model, ocaml/mode_bind.ml): mi_manage_os_memory_ex2 arithmetic read
    back with mi_arena_area, blocks_inuse right after the call (the pre-claimed `post` bits), mi_arena_id_index,
    mi_arena_id_is_suitable, _mi_arena_memid_is_suitable, _mi_heap_memid_is_suitable on grids;
  T records (implementation-side oracle below): every address returned by a heap, against the arena areas and against the
    regions given to mi_manage_os_memory_ex, over seeded histories with bound / unbound heaps, thread exit, adoption,
    collects, reclaim-on-free on and off, exhaustion."""
import os, collections
import vlib
from vlib import log

KNOWN_TAG_KEY = "impl:reclaim-by-tag-exclusive"


def oracle(lines):
    """returns (violations [(key, text, witness)], stats)"""
    bad = []
    seen = set()

    def fail(key, text, wit):
        if (key, wit.split(";")[0]) in seen:
            return
        seen.add((key, wit.split(";")[0]))
        if len(bad) < 40:
            bad.append((key, text, wit))

    scn = collections.OrderedDict()     # name -> dict(seed, arenas, allocs, ...)
    cur = None
    for l in lines:
        f = l.split()
        k = f[1]
        if k == "scenario":
            cur = {"name": f[2], "seed": f[3], "arenas": {}, "allocs": [], "nulls": [], "exhaust": [], "fallback": None,
                   "counts": {}, "ended": False, "crash": None}
            scn[f[2]] = cur
        elif k == "rss":
            if f[2] in scn:
                scn[f[2]]["rss_kb"] = int(f[3])
        elif k == "crash":
            if f[2] in scn:
                scn[f[2]]["crash"] = f[3]
        elif cur is None:
            continue
        elif k == "arena":
            aid = int(f[3])
            cur["arenas"][aid] = dict(id=aid, excl=f[4] == "1", start=int(f[5]), size=int(f[6]), rstart=int(f[7]), rsize=int(f[8]),
                                      mstart=int(f[9]), msize=int(f[10]), how=f[11])
        elif k == "alloc":
            cur["allocs"].append((f[3], f[4], int(f[5]), int(f[6]), int(f[7]), int(f[8])))   # phase label bound thread size ptr
        elif k == "null":
            cur["nulls"].append((f[3], f[4], int(f[5]), int(f[6]), int(f[7])))
        elif k == "exhaust":
            cur["exhaust"].append((int(f[3]), int(f[4]), int(f[5]), int(f[6])))
        elif k == "fallback":
            cur["fallback"] = (int(f[3]), int(f[4]))
        elif k == "count":
            cur["counts"][f[3]] = int(f[4])
        elif k == "end":
            cur["ended"] = True

    stats = collections.Counter()
    hist = collections.Counter()
    for name, s in scn.items():
        base = name.rstrip("0123456789")
        wit0 = "t_arena <seed> <tier> %s  (scenario %s, derived seed %s)" % (base, name, s["seed"])
        if s["crash"] is not None or not s["ended"]:
            fail("impl:harness-crash:" + base, "scenario %s of harness/t_arena.c died (signal/status %s) on the current tree" % (name, s["crash"]), wit0)
        stats["max_rss_kb"] = max(stats["max_rss_kb"], s.get("rss_kb", 0))
        arenas = s["arenas"]
        for a in arenas.values():
            stats["arenas"] += 1
            if a["how"] == "managed":
                stats["managed_arenas"] += 1
                if not (a["rstart"] <= a["start"] and a["start"] + a["size"] <= a["rstart"] + a["rsize"]):
                    fail("impl:area-outside-region", "arena %d: area [%#x,+%d) is not inside the region [%#x,+%d) given to mi_manage_os_memory_ex"
                         % (a["id"], a["start"], a["size"], a["rstart"], a["rsize"]), wit0 + "; mi_manage_os_memory_ex(%#x, %d)" % (a["rstart"], a["rsize"]))
                if a["start"] % (32 * 1024 * 1024) != 0:
                    fail("impl:area-misaligned", "arena %d: area start %#x is not segment aligned" % (a["id"], a["start"]),
                         wit0 + "; mi_manage_os_memory_ex(%#x, %d)" % (a["rstart"], a["rsize"]))
        excl = [a for a in arenas.values() if a["excl"]]
        mine = [a for a in arenas.values() if a["msize"] > 0]
        have_table = len(arenas) > 0
        for (phase, label, bound, thread, size, ptr) in s["allocs"]:
            stats["allocs"] += 1
            hist["bound" if bound else "unbound"] += 1
            hist["huge" if size > 16 * 1024 * 1024 else "large" if size > 64 * 1024 else "medium" if size > 1024 else "small"] += 1
            if not have_table:
                continue
            end = ptr + size
            wit = wit0 + "; %s: heap %s (bound to arena %d, thread %d) malloc(%d) = %#x" % (phase, label, bound, thread, size, ptr)
            if bound:
                a = arenas.get(bound)
                if a is None or not (a["start"] <= ptr and end <= a["start"] + a["size"]):
                    fail("impl:bound-heap-outside-arena", "a heap bound to arena %d returned %#x (+%d), outside mi_arena_area = %s"
                         % (bound, ptr, size, ("[%#x,+%d)" % (a["start"], a["size"])) if a else "unknown arena"), wit)
            for a in excl:
                if a["id"] != bound and a["start"] <= ptr < a["start"] + a["size"]:
                    key = KNOWN_TAG_KEY if base == "tag" and phase == "tag_default" else "impl:exclusive-arena-leak"
                    fail(key, "memory of EXCLUSIVE arena %d was returned by a heap that is not bound to it (%s, bound to %d)"
                         % (a["id"], label, bound), wit)
            for a in mine:
                inmap = a["mstart"] <= ptr < a["mstart"] + a["msize"] or a["mstart"] < end <= a["mstart"] + a["msize"]
                if inmap and not (a["rstart"] <= ptr and end <= a["rstart"] + a["rsize"]):
                    fail("impl:outside-managed-region", "address %#x (+%d) lies in the mapping around arena %d but outside the region [%#x,+%d) given to mi_manage_os_memory_ex"
                         % (ptr, size, a["id"], a["rstart"], a["rsize"]), wit)
        for (phase, label, bound, thread, size) in s["nulls"]:
            stats["nulls"] += 1
            if not bound and size < (1 << 30):
                fail("impl:unbound-null", "an unbound heap (%s) returned NULL for %d bytes" % (label, size), wit0 + "; %s malloc(%d)" % (phase, size))
        for (aid, blocks, okc, null_seen) in s["exhaust"]:
            stats["exhaust_runs"] += 1
            if not null_seen or okc > blocks:
                fail("impl:bound-heap-no-null", "heap bound to arena %d (%d blocks): %d whole-block allocations succeeded, NULL seen: %d (must be NULL when the arena is full, no OS fallback)"
                     % (aid, blocks, okc, null_seen), wit0 + "; exhaust arena %d" % aid)
        if s["fallback"] is not None:
            stats["fallback_allocs"] += s["fallback"][0]
        for kname, v in s["counts"].items():
            if kname.startswith("small_null_") and v != 1:
                fail("impl:bound-heap-no-null", "a bound heap whose arena is full still served small requests (%s)" % kname, wit0)
            if kname in ("setup_failed", "manage_failed", "reserve_failed"):
                fail("impl:arena-setup", "the harness could not create its arenas (%s)" % kname, wit0)
            stats[kname] += v
    return bad, stats, hist, scn


def corpus_regression(res, a):
    """corpus/C15/*.c : the stored witness programs, rebuilt against the current tree"""
    cdir = os.path.join(vlib.VERIF, "corpus", "C15")
    n = 0
    for name in sorted(os.listdir(cdir)) if os.path.isdir(cdir) else []:
        if not name.endswith(".c"):
            continue
        exe = os.path.join(vlib.BUILD, "corpus_C15_%s_%s" % (name[:-2], a.pid))
        rc, txt = vlib.run(["gcc"] + vlib.CFLAGS_REL + vlib.INC + [os.path.join(cdir, name), os.path.join(vlib.REPO, "src", "static.c"), "-o", exe, "-lpthread"], timeout=300)
        if rc != 0:
            res.violation("corpus-build:" + name, "corpus program %s no longer builds: %s" % (name, txt[-600:]))
            continue
        rc, out, err = vlib.run_split([exe], timeout=120, env=vlib.clean_env())
        n += 1
        if rc != 0:
            key = KNOWN_TAG_KEY if name == "reclaim_tag_exclusive.c" else "impl:corpus:" + name[:-2]
            res.violation(key, "corpus/C15/%s reproduces again (exit %d): %s" % (name, rc, out.strip()[-300:]), witness="corpus/C15/" + name)
    return n


def run(res, a):
    vlib.proof_stage(res, "C15")
    ncorpus = corpus_regression(res, a)
    exe = os.path.join(vlib.BUILD, "t_arena_%s" % a.pid)
    ok, txt, cmd = vlib.cc(os.path.join(vlib.HARN, "t_arena.c"), exe)
    if not ok:
        res.violation("harness-build", "harness/t_arena.c no longer compiles against the current tree (a modelled function changed its interface): " + txt[-1500:])
        return
    seeds = [a.seed] if a.tier != "thorough" else [a.seed, a.seed + 1, a.seed + 2]
    lines = []
    for sd in seeds:
        # every scenario of the harness is a child with its own limits (40 GiB address space, no THP, 90/300 s); the whole run is bounded too
        rc, out, err = vlib.run_split(["timeout", "-k", "5", "2400" if a.tier == "thorough" else "600", exe, str(sd), "1" if a.tier == "thorough" else "0"],
                                      timeout=2500 if a.tier == "thorough" else 650, env=vlib.clean_env())
        lines += out.splitlines()
        if rc != 0 or not out.rstrip().endswith("END"):
            res.violation("harness-crash", "t_arena exited with %d: %s" % (rc, err[-800:]), witness="t_arena %d" % sd)
    tl = [l for l in lines if l.startswith("T ")]
    fl = [l for l in lines if l.startswith("F ")]
    bad, stats, hist, scn = oracle(tl)
    for key, text, wit in bad:
        res.violation(key, text, witness=wit)
    okb, txt = vlib.ocaml_build()
    mism = []
    if not okb:
        res.violation("model-build", "extracted model does not build: " + txt[-1200:])
    else:
        rc, mout = vlib.model_replay("bind", "\n".join(fl) + "\n")
        mism = [l for l in mout.splitlines() if l.startswith("MISMATCH")]
        done = [l for l in mout.splitlines() if l.startswith("DONE")]
        if rc != 0 or not done:
            res.violation("model-run", "model replay failed: " + mout[-800:])
        else:
            # model and code disagree: report per function; the witness is the record (a concrete input of the real function)
            byfn = collections.OrderedDict()
            for m in mism:
                byfn.setdefault(m.split()[2], m)
            for fn, m in byfn.items():
                res.violation("corr:" + fn, "model/implementation disagreement on %s (%d records), e.g. %s" % (fn, len([x for x in mism if x.split()[2] == fn]), m),
                              witness=(m if fn in ("manage_region", "manage_inuse") else None))
    fcount = collections.Counter(l.split()[1] for l in fl)
    res.cov["evaluations"] = len(fl) + stats["allocs"] + stats["nulls"]
    res.cov["distinct_nontrivial"] = len(set(fl)) + len(set((x[1], x[2], x[4]) for s in scn.values() for x in s["allocs"]))
    res.cov["rule"] = ("F records: real static functions vs. the extracted Coq model (manage_os_memory arithmetic and the pre-claimed bits on random "
                       "misalignments/sizes incl. refused ones, suitability predicates on a grid of ids/kinds); T records: every address returned by "
                       "bound and unbound heaps in seeded histories (span reuse, thread exit with live blocks, mi_collect(true/false), "
                       "reclaim-on-free 0/1, try_reclaim by allocation, heap delete, exhaustion) checked against mi_arena_area of the bound arena, "
                       "against every exclusive arena, and against the region given to mi_manage_os_memory_ex. "
                       "distinct = distinct F lines + distinct (heap label, bound arena, size) of T allocations")
    res.cov["traces_validated_against_impl"] = len(scn)
    res.cov["disagreements_checked"] = len(mism)
    res.cov["input_distribution"] = {"F": dict(fcount), "T": dict(stats), "alloc_kinds": dict(hist), "scenarios": list(scn.keys()), "corpus_programs": ncorpus}
    res.cov["exhaustive"] = False
    if fl:
        res.add_samples([fl[0], fl[len(fl) // 2], fl[-1]])
    if tl:
        res.add_samples([tl[1], tl[len(tl) // 2], tl[-2]])
    res.assumptions += ["64-bit Linux release configuration; arena ids are ints, 0 = none",
                        "heaps created with tag 0 (thread init, mi_heap_new, mi_heap_new_in_arena): the theorems are `_partial` in the heap tag, see known finding impl:reclaim-by-tag-exclusive",
                        "the arena claim hands out only zero bits of blocks_inuse inside field_count fields (property C14); C15 proves those bits are inside the region"]
