#!/usr/bin/env python3
"""Zero-KNOWLEDGE layer of C04 (coq/Model/Zero.v, coq/Properties/C04zero.v) against the real allocator.

run(res, seed, tier) -> stats
  builds harness/f_zero.c from the current tree (release flags, linked with the OS shim like tools/commitmodel.py) and runs
  its three modes (see the header of f_zero.c):
    R  the arena layer driven directly (_mi_arena_alloc_aligned / stores / _mi_arena_free / forced and clock purges) on
       arenas over fresh memory announced zero or not, over pre-dirtied memory, and made by mi_reserve_os_memory_ex
    P  one real page driven function by function (_mi_page_malloc_zero, stores, mi_free, _mi_page_free_collect,
       mi_page_extend_free), also with page->is_zero_init / free_is_zero SET by the harness over really zero memory
    A  the public API on a small arena with the OS as fallback (fresh / re-used arena blocks, OS-backed segments, re-used
       spans, purges by the virtual clock and by forced collects)
  (a) implementation-side oracle on the T records; the witness is the call sequence up to the failing call:
        T zf ... 0     a knowledge flag is SET over memory that is not zero (page->free_is_zero: a block of the free list;
                       page->is_zero_init: the never-extended part of the page; segment->memid.initially_zero: a slice that
                       never was under a page; memid.initially_zero of memory just returned by the arena layer; a clear
                       blocks_dirty bit of an initially zero arena)                        -> impl:zero-flag-wrong
        T zret ... 0   the block returned by a zeroing allocation is not zero over its whole size -> impl:zero
        T crash / no END                                                                    -> impl:crash
  (b) the extracted Coq model (ocaml mode "zero") replayed on the same call sequence must predict the same flags
        MISMATCH ghost ...  the model's ghost says zero where the real memory is not (the model misses a store) -> corr:zero-ghost
        MISMATCH ...        flags / bitmaps / lists / returned block differ                   -> corr:zero   (witness=None)
Stand-alone:  tools/zeromodel.py [seed] [tier]"""
import os, sys, collections
sys.path.insert(0, os.path.dirname(os.path.abspath(__file__)))
import vlib

SHIM_FLAGS = ["-DVERIF_SHIM", "-Dmmap=shim_mmap", "-Dmunmap=shim_munmap", "-Dmprotect=shim_mprotect", "-Dmadvise=shim_madvise",
              "-Dclock_gettime=shim_clock_gettime"]
# (mode, variant, nops) -- variant bits: see mode_R / mode_P / mode_A of harness/f_zero.c
PLAN_QUICK = [("R", 0, 120), ("R", 1, 120), ("R", 6, 100), ("R", 12, 120), ("R", 24, 120), ("R", 29, 100),
              ("P", 0, 1200), ("P", 1, 1200), ("P", 3, 1200),
              ("A", 0, 220), ("A", 1, 220), ("A", 2, 200), ("A", 6, 200), ("A", 8, 160), ("A", 5, 200), ("A", 16, 160)]
PLAN_THOROUGH = PLAN_QUICK + [("R", 2, 200), ("R", 17, 200), ("R", 13, 200), ("P", 2, 2500), ("A", 3, 400), ("A", 4, 400), ("A", 7, 400), ("A", 9, 300), ("A", 18, 300)]


def build(res):
    obj = os.path.join(vlib.BUILD, "shim_zero_%s.o" % res.pid)
    rc, txt = vlib.run(["gcc", "-O1", "-g", "-c", os.path.join(vlib.HARN, "shim.c"), "-o", obj, "-I" + vlib.HARN])
    if rc != 0:
        res.violation("harness-build", "harness/shim.c does not compile: " + txt[-800:])
        return None
    exe = os.path.join(vlib.BUILD, "f_zero_%s" % res.pid)
    ok, txt, cmd = vlib.cc(os.path.join(vlib.HARN, "f_zero.c"), exe, extra=SHIM_FLAGS + [obj])
    if not ok:
        res.violation("harness-build", "harness/f_zero.c no longer compiles against the current tree (a modelled function or field changed): %s" % txt[-1500:])
        return None
    return exe


def trace_upto(lines, op, seed, nops, mode, variant):
    """the calls up to call `op` (O lines), the arenas (N), and the oracle records (T) that are not plain confirmations"""
    out = ["# harness/f_zero.c (release build): f_zero %d %d %s %d ; calls up to the failing one (O ...), T = what the harness found" % (seed, nops, mode, variant)]
    cur = 0
    for l in lines:
        if l.startswith(("CFG ", "N ")):
            out.append(l)
        elif l.startswith("O "):
            cur = int(l.split()[1])
            if cur > op: break
            out.append(l[:200])
        elif l.startswith("T ") and cur <= op:
            f = l.split()
            if (f[1] == "zf" and f[7] == "0") or (f[1] == "zret" and f[5] == "0") or f[1] == "crash":
                out.append(l)
        elif l.startswith(("S ", "G ")) and cur == op:
            out.append(l[:200])
    return "\n".join(out if len(out) <= 400 else out[:3] + ["# ... (%d lines omitted)" % (len(out) - 399)] + out[-396:])


WHAT = {"fiz": "page->free_is_zero is set but block %s of its free list is not zero behind the link word",
        "izi": "page->is_zero_init is set but the never-extended part of the page is not zero (block %s)"}


def run(res, seed, tier, plan=None):
    stats = collections.Counter()
    exe = build(res)
    if exe is None:
        return dict(stats)
    okb, txt = vlib.ocaml_build()
    if not okb:
        res.violation("model-build", "extracted model does not build: " + txt[-1200:])
    thorough = (tier == "thorough")
    plan = plan or (PLAN_THOROUGH if thorough else PLAN_QUICK)
    nseeds = 3 if thorough else 1
    samples = []
    for mode, variant, nops in plan:
        for k in range(nseeds):
            s = seed * 100 + k
            rc, out, err = vlib.run_split([exe, str(s), str(nops), mode, str(variant)], timeout=600, env=vlib.clean_env())
            lines = out.splitlines()
            ol = [l for l in lines if l.startswith("O ")]
            stats["runs"] += 1; stats["runs_" + mode] += 1; stats["calls"] += len(ol); stats["calls_" + mode] += len(ol)
            for l in ol:
                stats["op_%s_%s" % (mode, l.split()[2])] += 1
            crashed = (rc != 0 or not lines or not lines[-1].startswith("END"))
            seen = set()
            for l in lines:
                if l.startswith("S "):
                    f = l.split(); stats["segment_dumps"] += 1
                    stats["segdump_%s_zero%s" % ("arena" if f[2] == "1" else "os", f[6])] += 1
                elif l.startswith(("G ", "D ", "I ")):
                    stats["page_dumps"] += 1
                if not l.startswith("T "):
                    continue
                f = l.split()
                kind = f[1]
                bad = None
                if kind == "zf":
                    stats["flags_set_checked"] += 1; stats["flagset_" + f[3] + ("_" + f[6] if f[3] == "page" else "")] += 1
                    if f[7] == "0":
                        what, ident, sub, where = f[3], f[4], f[6], f[8]
                        if what == "page":
                            t = "page %s: " % ident + WHAT.get(sub, "%s") % where
                        elif what == "seg":
                            t = "segment %s: memid.initially_zero is set but slice %s, which never was part of a page, is not zero (offset %s)" % (ident, sub, where)
                        elif what == "raw":
                            t = "memory returned by _mi_arena_alloc_aligned (slot %s) has memid.initially_zero set but is not zero at offset %s" % (ident, where)
                        elif what == "arena":
                            t = "arena %s is initially zero and the blocks_dirty bit of block %s is clear, but the block is not zero (offset %s)" % (ident, sub, where)
                        else:
                            t = "arena %s made by mi_reserve_os_memory_ex has memid.initially_zero set but its memory is not zero (offset %s)" % (ident, where)
                        bad = ("impl:zero-flag-wrong", t)
                elif kind == "zret":
                    stats["zalloc_results_scanned"] += 1
                    if f[5] == "0":
                        bad = ("impl:zero", "a zeroing allocation (%s) returned block %s (usable %s) with a non-zero byte at offset %s" % (
                            "_mi_page_malloc_zero on the page" if mode == "P" else "mi_zalloc", f[3], f[4], f[6]))
                elif kind == "crash":
                    bad = ("impl:crash", "signal %s during call %s" % (f[3], f[2]))
                if bad and bad[0] not in seen:
                    seen.add(bad[0]); stats["impl_violations"] += 1
                    op = int(f[2])
                    res.violation(bad[0], "f_zero mode %s, variant %d, seed %d, call %d: %s" % (mode, variant, s, op, bad[1]),
                                  witness=trace_upto(lines, op, s, nops, mode, variant))
            if crashed and "impl:crash" not in seen:
                lastop = int(ol[-1].split()[1]) if ol else 0
                stats["impl_violations"] += 1
                res.violation("impl:crash", "f_zero (mode %s, variant %d, seed %d) exited with status %d after call %d without finishing: %s" % (mode, variant, s, rc, lastop, err[-300:]),
                              witness=trace_upto(lines, lastop + 1, s, nops, mode, variant))
            if okb:
                rc2, mout = vlib.model_replay("zero", out)
                ml = mout.splitlines()
                mism = [l for l in ml if l.startswith("MISMATCH")]
                done = [l for l in ml if l.startswith("DONE")]
                for l in ml:
                    if l.startswith("STATS zero"):
                        for kv in l.split()[3:]:
                            a, b = kv.split("=")
                            stats["model_" + a] += int(b)
                if (rc2 != 0 or not done) and not crashed:
                    res.violation("model-run", "model replay (mode zero) failed: " + mout[-800:])
                stats["model_mismatches"] += len(mism)
                gh = [l for l in mism if l.startswith("MISMATCH ghost")]
                fl = [l for l in mism if not l.startswith("MISMATCH ghost")]
                if fl:
                    res.violation("corr:zero", "the zero-knowledge model and the implementation disagree (f_zero mode %s, variant %d, seed %d; %d records), first: %s" % (
                        mode, variant, s, len(fl), fl[0][:1000]), witness=None)
                if gh:
                    res.violation("corr:zero-ghost", "the model's ghost says zero over memory that is not zero: a store the model does not know (f_zero mode %s, variant %d, seed %d; %d records), first: %s" % (
                        mode, variant, s, len(gh), gh[0][:1000]), witness=None)
            if len(samples) < 9 and mode not in [x[0] for x in samples]:
                samples.append((mode, [l[:160] for l in lines if l.startswith(("CFG ", "N "))][:2] + [l[:160] for l in ol[1:4]] +
                                [l[:160] for l in lines if l.startswith(("S ", "G ", "D "))][:1]))
    res.cov["evaluations"] = res.cov.get("evaluations", 0) + stats["calls"]
    res.cov["distinct_nontrivial"] = res.cov.get("distinct_nontrivial", 0) + stats["flags_set_checked"]
    res.cov["traces_validated_against_impl"] = res.cov.get("traces_validated_against_impl", 0) + stats["runs"]
    res.cov["disagreements_checked"] = res.cov.get("disagreements_checked", 0) + stats["model_mismatches"]
    res.cov["zero_layer"] = dict(stats)
    res.cov["zero_layer_rule"] = ("every call of every f_zero run is one evaluation: the flags dumped from the real structures are compared with the extracted "
                                  "model replayed on the same calls (mode R/P: exact lockstep through Zero.step; mode A: the layer events inferred from consecutive dumps), "
                                  "and every knowledge flag that is SET is confronted with a scan of the memory it speaks about (flags_set_checked; "
                                  "non-trivial = these); model_ghost_zero counts the positions where the model's ghost claimed zero and the real memory confirmed it")
    for m, sm in samples:
        res.add_samples(sm, limit=24)
    return dict(stats)


if __name__ == "__main__":
    seed = int(sys.argv[1]) if len(sys.argv) > 1 else 1
    tier = sys.argv[2] if len(sys.argv) > 2 else "quick"
    r = vlib.Result("C04", tier, seed)
    import time
    t0 = time.time()
    st = run(r, seed, tier)
    for k in sorted(st):
        print("%-36s %d" % (k, st[k]))
    for k, p, w, t in r.violations:
        print("VIOLATION %s witness=%s :: %s" % (k, w, t[:900]))
    print("violations:", len(r.violations), "wall %.1fs" % (time.time() - t0))
    sys.exit(1 if r.violations else 0)
