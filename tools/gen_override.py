#!/usr/bin/env python3
"""Translator for property C19 (DESIGN.md 2.2): coq/Gen/Override.v.

Builds the overriding shared library from /repo's *current* working tree (same defines and code
generation flags as CMake uses for the `mimalloc` target, see /repo/_build/build.ninja; static.c is the
whole library as one translation unit), and produces one table entry per exported (dynamic, defined)
symbol that is not `mi_`-prefixed:

  * the symbol list and addresses come from `nm -D --defined-only` of the library just built;
  * the `mi_` target comes from the preprocessed source (`gcc -E ... src/alloc.c`, the compiler resolves
    MI_FORWARD*/#if exactly as in the build): either `__attribute__((alias("mi_xxx")...))` or a
    forwarder body `{ [(void)(tag);] [return] mi_xxx(a, b); }`;
  * alias entries record whether `nm` shows the same address for the symbol and its target;
  * forwarder entries record which parameter (0-based position) is passed for each target argument.

The parser is a few regular expressions on purpose; whatever it does not recognise makes generate()
return ok=False (the check then reports that the model cannot be regenerated), it never guesses.
Can be run stand-alone:  python3 tools/gen_override.py  (prints the table summary).
"""
import os, re, sys, hashlib
sys.path.insert(0, os.path.dirname(os.path.abspath(__file__)))
import vlib

LIB = os.path.join(vlib.BUILD, "libmimalloc_verif.so")
PRE = os.path.join(vlib.BUILD, "alloc_override.i")
STAMP = os.path.join(vlib.BUILD, ".libmimalloc_verif.stamp")
OUT = os.path.join(vlib.COQ, "Gen", "Override.v")

# DEFINES/FLAGS of the CMake target `mimalloc` (RelWithDebInfo) minus warnings and -g
DEFS = ["-DMI_BUILD_RELEASE", "-DMI_MALLOC_OVERRIDE", "-DMI_SHARED_LIB", "-DMI_SHARED_LIB_EXPORT"]
CGEN = ["-O2", "-DNDEBUG", "-std=gnu11", "-fPIC", "-fvisibility=hidden", "-ftls-model=initial-exec",
        "-fno-builtin-malloc", "-w"]
LINK = ["-lpthread", "-lrt", "-latomic"]
# the static override object (CMake target `mimalloc-obj` -> mimalloc.o); built by tools/props/C19.py
OBJ_DEFS = ["-DMI_BUILD_RELEASE", "-DMI_MALLOC_OVERRIDE"]


def inc():
    return ["-I" + os.path.join(vlib.REPO, "include")]


def tree_key():
    """hash of everything the build reads: sources, headers, flags, compiler"""
    h = hashlib.sha1()
    rc, ver = vlib.run(["gcc", "--version"])
    h.update(ver.encode()); h.update(" ".join(DEFS + CGEN + LINK).encode())
    for top in ("src", "include"):
        for root, dirs, files in os.walk(os.path.join(vlib.REPO, top)):
            dirs.sort()
            for f in sorted(files):
                if f.endswith((".c", ".h")):
                    p = os.path.join(root, f)
                    h.update(os.path.relpath(p, vlib.REPO).encode())
                    with open(p, "rb") as fh:
                        h.update(fh.read())
    return h.hexdigest()


def build():
    """(re)build the shared library and the preprocessed alloc.c; the work is skipped only when the
    content hash of /repo/src, /repo/include, the flags and the compiler is unchanged."""
    key = tree_key()
    try:
        if open(STAMP).read() == key and os.path.exists(LIB) and os.path.exists(PRE):
            return True, "", False
    except OSError:
        pass
    for p in (STAMP, LIB):      # nothing stale survives a failed build
        if os.path.exists(p):
            os.remove(p)
    tmp = LIB + ".tmp%d" % os.getpid()
    cmd = ["gcc", "-shared"] + CGEN + DEFS + inc() + [os.path.join(vlib.REPO, "src", "static.c"), "-o", tmp] + LINK
    rc, txt = vlib.run(cmd, timeout=300)
    if rc != 0:
        return False, "the overriding shared library no longer builds from the current tree (%s):\n%s" % (" ".join(cmd), txt[-2500:]), False
    os.replace(tmp, LIB)
    cmd = ["gcc", "-E", "-P"] + CGEN + DEFS + inc() + [os.path.join(vlib.REPO, "src", "alloc.c")]
    rc, out, err = vlib.run_split(cmd, timeout=120)
    if rc != 0:
        return False, "gcc -E of src/alloc.c failed: " + err[-2000:], False
    vlib.write_if_changed(PRE, out)
    open(STAMP, "w").write(key)
    return True, "", True


OBJ = os.path.join(vlib.BUILD, "mimalloc_verif.o")
OBJ_STAMP = os.path.join(vlib.BUILD, ".mimalloc_verif_o.stamp")


def build_object():
    """the static override object (CMake target mimalloc-obj -> mimalloc.o), from the current tree"""
    key = tree_key() + "obj" + " ".join(OBJ_DEFS)
    try:
        if open(OBJ_STAMP).read() == key and os.path.exists(OBJ):
            return True, ""
    except OSError:
        pass
    for p in (OBJ_STAMP, OBJ):
        if os.path.exists(p):
            os.remove(p)
    tmp = OBJ + ".tmp%d.o" % os.getpid()
    cmd = ["gcc", "-c"] + CGEN + OBJ_DEFS + inc() + [os.path.join(vlib.REPO, "src", "static.c"), "-o", tmp]
    rc, txt = vlib.run(cmd, timeout=300)
    if rc != 0:
        return False, "the static override object no longer builds (%s):\n%s" % (" ".join(cmd), txt[-2000:])
    os.replace(tmp, OBJ)
    open(OBJ_STAMP, "w").write(key)
    return True, ""


def nm_dynamic(lib):
    """returns (defined: name -> (addr, type letter), imports: [name]) of a shared library"""
    rc, out = vlib.run(["nm", "-D", "--defined-only", lib])
    if rc != 0:
        raise RuntimeError("nm failed on %s: %s" % (lib, out[-500:]))
    defined = {}
    for l in out.splitlines():
        f = l.split()
        if len(f) == 3:
            name = f[2].split("@")[0]
            defined[name] = (int(f[0], 16), f[1])
    rc, out = vlib.run(["nm", "-D", "--undefined-only", lib])
    imports = sorted(set(l.split()[-1].split("@")[0] for l in out.splitlines() if l.split()))
    return defined, imports


class ParseError(Exception):
    pass


def blank_strings(s):
    """same-length copy of s with the contents of string/char literals blanked (for brace counting)"""
    return re.sub(r'"(?:\\.|[^"\\\n])*"|\'(?:\\.|[^\'\\\n])*\'', lambda m: '"' + " " * (len(m.group(0)) - 2) + '"', s)


def norm_type(t):
    t = re.sub(r'\s+', ' ', t).strip()
    t = re.sub(r'\s*\*\s*', '*', t)
    return t


def split_param(p):
    """'const char* str' -> ('const char*', 'str')"""
    p = p.strip()
    m = re.match(r'^(.*?)([A-Za-z_]\w*)$', p, re.S)
    if not m or not m.group(1).strip():
        raise ParseError("cannot split parameter `%s` into type and name" % p)
    return norm_type(m.group(1)), m.group(2)


class Source:
    """the preprocessed text with string literals blanked and the brace depth of every position"""
    def __init__(self, text):
        self.text = text
        self.blank = blank_strings(text)
        self.depth, d = [0] * (len(text) + 1), 0
        for i, ch in enumerate(self.blank):
            self.depth[i] = d
            if ch == '{': d += 1
            elif ch == '}': d -= 1
        self.depth[len(text)] = d


def find_definitions(src, sym):
    """all file-scope definitions of `sym` in the preprocessed text: list of dicts"""
    text, blank = src.text, src.blank
    res = []
    for m in re.finditer(r'(?<![\w])' + re.escape(sym) + r'\s*\(', text):
        if src.depth[m.start()] != 0:       # file scope only
            continue
        # parameter list: up to the matching ')'
        i, d = m.end(), 1
        while i < len(text) and d > 0:
            if blank[i] == '(': d += 1
            elif blank[i] == ')': d -= 1
            i += 1
        params_txt = text[m.end():i - 1]
        # declaration head: back to the previous ';' or '}' (pragma lines dropped)
        j = m.start()
        while j > 0 and blank[j - 1] not in ';}':
            j -= 1
        head = re.sub(r'#pragma[^\n]*\n', ' ', text[j:m.start()])
        k = i
        while k < len(text) and text[k].isspace():
            k += 1
        if k < len(text) and text[k] == '{':
            e = k + 1
            while e < len(text) and src.depth[e] > 0:
                e += 1
            # depth[e] == 0 first holds just after the closing brace
            res.append({"kind": "body", "head": head, "params": params_txt, "body": text[k + 1:e - 1]})
        else:
            e = blank.find(';', k)
            stmt = text[k:e if e >= 0 else len(text)]
            am = re.search(r'alias\s*\(\s*"([^"]+)"\s*\)', stmt)
            if am:
                res.append({"kind": "alias", "head": head, "params": params_txt, "target": am.group(1), "attrs": stmt})
            # otherwise: a prototype (libc header or mimalloc.h) -- not a definition
    return res


def parse_head(head):
    """return type and weak flag from the text in front of the symbol name"""
    weak = bool(re.search(r'__attribute__\s*\(\(\s*weak\s*\)\)', head))
    h = re.sub(r'__attribute__\s*\(\((?:[^()]|\([^()]*\))*\)\)', ' ', head)
    h = re.sub(r'\b(extern|inline|__inline|__extension__)\b', ' ', h)
    h = norm_type(h)
    if not h or not re.match(r'^[A-Za-z_][\w \*]*$', h):
        raise ParseError("cannot read the return type from `%s`" % head.strip())
    return h, weak


def parse_params(params_txt):
    p = params_txt.strip()
    if p in ("", "void"):
        return [], []
    types, names = [], []
    for part in p.split(','):
        t, n = split_param(part)
        types.append(t); names.append(n)
    return types, names


CALL = re.compile(r'^(return\s+)?(mi_\w+)\s*\(([^()]*)\)$')


def parse_body(sym, body, names):
    """forwarder body: `[(void)(x);]* [return] mi_f(a, b, ...);` -> (target, args positions, returns)"""
    stmts = [s.strip() for s in body.split(';')]
    if stmts and stmts[-1] == "":
        stmts = stmts[:-1]
    stmts = [s for s in stmts if s != ""]          # stray `;`
    call = None
    for s in stmts:
        if re.match(r'^\(\s*void\s*\)\s*\(?\s*\w+\s*\)?$', s):   # MI_UNUSED(x)
            continue
        m = CALL.match(s)
        if m and call is None:
            call = m
            continue
        raise ParseError("forwarder `%s`: cannot parse statement `%s` of body {%s}" % (sym, s, body.strip()))
    if call is None:
        raise ParseError("forwarder `%s`: no call to a mi_ function in body {%s}" % (sym, body.strip()))
    args = []
    atxt = call.group(3).strip()
    for a in ([] if atxt == "" else atxt.split(',')):
        a = a.strip()
        if a not in names:
            raise ParseError("forwarder `%s`: argument `%s` of %s(...) is not one of its parameters %s (body {%s})"
                             % (sym, a, call.group(2), names, body.strip()))
        args.append(names.index(a))
    return call.group(2), args, call.group(1) is not None


def extract():
    """returns dict(entries=[...], mi_defined=[...], imports=[...]) for the library just built"""
    defined, imports = nm_dynamic(LIB)
    src = Source(open(PRE).read())
    entries = []
    for sym in sorted(defined):
        if sym.startswith("mi_"):
            continue
        addr, letter = defined[sym]
        if letter not in "TtWw":
            raise ParseError("exported symbol `%s` has nm type `%s`: not a function, the table has no place for it" % (sym, letter))
        defs = find_definitions(src, sym)
        if len(defs) != 1:
            raise ParseError("exported symbol `%s`: found %d definitions in the preprocessed src/alloc.c (expected exactly one alias or forwarder)" % (sym, len(defs)))
        d = defs[0]
        ret, weak_src = parse_head(d["head"])
        ptypes, pnames = parse_params(d["params"])
        if d["kind"] == "alias":
            target, args, via = d["target"], list(range(len(ptypes))), "Alias"
            returns = (ret != "void")
        else:
            target, args, returns = parse_body(sym, d["body"], pnames)
            via = "Forwarder"
        if not target.startswith("mi_"):
            raise ParseError("exported symbol `%s` resolves to `%s`, not a mi_ function" % (sym, target))
        same = target in defined and defined[target][0] == addr
        entries.append({"sym": sym, "target": target, "via": via, "args": args, "ret": ret, "params": ptypes,
                        "returns": returns, "same_addr": same, "weak": letter in "Ww", "addr": addr})
    mi_defined = sorted(n for n in defined if n.startswith("mi_"))
    return {"entries": entries, "mi_defined": mi_defined, "imports": imports}


def coq_str(s):
    return '"' + s.replace('"', '""') + '"'


def coq_list(xs):
    return "[" + "; ".join(xs) + "]"


def coq_bool(b):
    return "true" if b else "false"


HEADER = """(* GENERATED from /repo by tools/gen_override.py -- do not edit.
   One entry per exported (dynamic, defined) symbol of the overriding shared library, built from the
   current tree, that is not `mi_`-prefixed (nm -D --defined-only); targets from the preprocessed
   src/alloc.c (alias attribute or forwarder body). *)
From Coq Require Import List String Bool.
Import ListNotations.
Local Open Scope string_scope.

(* how the target was established: the symbol is an alias of the mi_ function (one address, checked in
   nm: e_same_addr), or a function whose body is a single call of the mi_ function *)
Inductive via := Alias | Forwarder.

Record entry := mkEntry {
  e_sym : string;            (* exported name *)
  e_target : string;         (* the mi_ function it aliases / calls *)
  e_via : via;
  e_args : list nat;         (* for each argument of the target, in order: 0-based position of the
                                entry point's parameter that is passed (alias: identity) *)
  e_ret : string;            (* declared return type *)
  e_params : list string;    (* declared parameter types *)
  e_returns : bool;          (* forwarder: the body is `return target(...)`; alias: return type is not void *)
  e_same_addr : bool;        (* nm: the symbol and its target have the same address *)
  e_weak : bool              (* nm: weak binding *)
}.

Record libtable := mkLib {
  l_entries : list entry;    (* exported non-mi_ symbols *)
  l_defined : list string;   (* the mi_ functions defined (exported) by the same library *)
  l_imports : list string    (* undefined dynamic symbols: what the library takes from elsewhere *)
}.
"""


def render(tab):
    lines = [HEADER]
    lines.append("Definition entries : list entry := [")
    rows = []
    for e in tab["entries"]:
        rows.append("  mkEntry %s %s %s %s %s %s %s %s %s" % (
            coq_str(e["sym"]), coq_str(e["target"]), e["via"], coq_list(str(i) for i in e["args"]),
            coq_str(e["ret"]), coq_list(coq_str(t) for t in e["params"]), coq_bool(e["returns"]),
            coq_bool(e["same_addr"]), coq_bool(e["weak"])))
    lines.append(";\n".join(rows))
    lines.append("].\n")
    lines.append("Definition mi_defined : list string := [")
    names = [coq_str(n) for n in tab["mi_defined"]]
    lines.append(";\n".join("  " + "; ".join(names[i:i + 4]) for i in range(0, len(names), 4)))
    lines.append("].\n")
    lines.append("Definition lib_imports : list string := [")
    names = [coq_str(n) for n in tab["imports"]]
    lines.append(";\n".join("  " + "; ".join(names[i:i + 4]) for i in range(0, len(names), 4)))
    lines.append("].\n")
    lines.append("Definition table : libtable := mkLib entries mi_defined lib_imports.")
    return "\n".join(lines) + "\n"


def generate():
    """called by vlib.gen(): returns (ok, message, changed_files)"""
    try:
        ok, msg, rebuilt = build()
        if not ok:
            return False, msg, []
        tab = extract()
    except ParseError as e:
        return False, "tools/gen_override.py cannot translate the override section of src/alloc-override.c: %s" % e, []
    except (OSError, RuntimeError) as e:
        return False, "tools/gen_override.py: %s" % e, []
    changed = vlib.write_if_changed(OUT, render(tab))
    return True, "", (["Override.v"] if changed else [])


def current_table():
    """the table of the library that is in build/ now (used by tools/props/C19.py)"""
    return extract()


if __name__ == "__main__":
    with vlib.Lock():
        ok, msg, ch = generate()
    print("ok" if ok else "FAILED: " + msg, ch)
    if ok:
        t = extract()
        for e in t["entries"]:
            print("%-40s -> %-24s %-9s args=%s same_addr=%d weak=%d  %s(%s)" % (
                e["sym"], e["target"], e["via"], e["args"], e["same_addr"], e["weak"], e["ret"], ", ".join(e["params"])))
        print(len(t["entries"]), "entries;", len(t["mi_defined"]), "mi_ functions;", len(t["imports"]), "imports")
