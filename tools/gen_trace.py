#!/usr/bin/env python3
"""Trace generators for harness/t_api.c (op language: DESIGN.md Appendix B).
Every random choice derives from one random.Random(seed); a trace is a list of text lines."""
import random

BIN_SIZES = [8, 16, 32, 48, 64, 80, 96, 112, 128, 160, 192, 224, 256, 320, 384, 448, 512, 640, 768, 896, 1024, 1280, 1536,
             1792, 2048, 2560, 3072, 3584, 4096, 5120, 6144, 7168, 8192, 10240, 12288, 14336, 16384, 20480, 24576, 28672,
             32768, 40960, 49152, 57344, 65536]
EDGES = [0, 1, 7, 8, 9, 15, 16, 17, 1024, 1025, 8192, 8193, 65536, 65537, 131072, 131073, 524288, 1 << 20, (1 << 21) + 1]
SIZE_MAX = (1 << 64) - 1
PTRDIFF_MAX = (1 << 63) - 1
MAX_ALLOC = 65536 * ((1 << 32) - 2)


class T:
    def __init__(self, rng, nslots=4000):
        self.r = rng
        self.lines = []
        self.live = {}          # slot -> heap
        self.free_slots = list(range(1, nslots))
        self.heaps = {0}
        self.cur = 0
        self.bytes = 0
        self.size_of = {}

    def emit(self, *a):
        self.lines.append(" ".join(str(x) for x in a))

    def slot(self):
        if not self.free_slots:
            return None
        return self.free_slots.pop(self.r.randrange(len(self.free_slots)) if len(self.free_slots) < 50 else -1)

    def heap(self):
        return self.r.choice(sorted(self.heaps))

    def boundary_size(self, maxv=70000):
        r = self.r
        k = r.random()
        if k < 0.5:
            b = r.choice([x for x in BIN_SIZES if x <= maxv])
            return max(0, b + r.choice([-9, -8, -1, 0, 0, 1, 7, 8]))
        if k < 0.7:
            return r.choice([x for x in EDGES if x <= maxv] or [0])
        return int(2 ** (r.random() * 17)) % (maxv + 1)

    def alloc(self, kind=None, size=None, heap=None, align=None, off=0, count=None):
        r = self.r
        s = self.slot()
        if s is None:
            return None
        h = self.heap() if heap is None else heap
        if size is None:
            size = self.boundary_size()
        kind = kind or r.choice(["M", "M", "Z", "C", "N", "S", "ZS"])
        if kind in ("S", "ZS") and size > 1024:
            kind = "M" if kind == "S" else "Z"
        if kind in ("C", "N"):
            c = count if count is not None else r.choice([1, 1, 2, 3, 7])
            per = max(1, size // c) if c else size
            self.emit(kind, h, s, per, c)
            size = per * c
        elif kind in ("A", "ZA", "CA"):
            self.emit(kind, h, s, size, align, off)
        else:
            self.emit(kind, h, s, size)
        self.live[s] = h
        self.size_of[s] = size
        self.bytes += size
        return s

    def dup(self):
        """mi_strdup / mi_strndup of a generated string (the copy is a block of the current default heap)"""
        s = self.slot()
        if s is None:
            return None
        r = self.r
        ln = r.choice([0, 1, 7, 8, 15, 16, 100, 1023, 1024, 5000]) if r.random() < 0.6 else r.randrange(0, 3000)
        if r.random() < 0.5:
            self.emit("D", s, ln, 0); size = ln + 1
        else:
            nmax = r.choice([0, 1, ln, ln + 1, ln // 2, 10000])
            self.emit("ND", s, ln, nmax); size = min(ln, nmax) + 1
        self.live[s] = self.cur; self.size_of[s] = size; self.bytes += size
        return s

    def free(self, s=None, mode=None):
        if not self.live:
            return
        if s is None:
            s = self.r.choice(sorted(self.live))
        if s not in self.live:
            return
        self.emit(mode or self.r.choice(["F", "F", "F", "FS", "FA"]), s)
        self.bytes -= self.size_of.pop(s, 0)
        del self.live[s]
        self.free_slots.append(s)

    def drop_heap_slots(self, h, destroyed):
        for s in [x for x in self.live if self.live[x] == h]:
            if destroyed:
                self.bytes -= self.size_of.pop(s, 0)
                del self.live[s]; self.free_slots.append(s)
            else:
                self.live[s] = 0


def g_boundary(t, n):
    for _ in range(n):
        k = t.r.random()
        if k < 0.56 or not t.live:
            t.alloc()
        elif k < 0.6:
            t.dup()
        elif k < 0.9:
            t.free()
        elif k < 0.95:
            t.emit("U", t.r.choice(sorted(t.live)))
        else:
            t.emit("COL", t.r.randrange(2))
    t.emit("W", 0)


def g_fillfree(t, n):
    r = t.r
    size = r.choice([8, 16, 24, 32, 48, 64, 100, 128, 200, 512, 1024, 2000, 4096, 8000, 16384, 40000])
    per_page = max(1, (65536 if size <= 8192 else 524288) // max(size, 8))
    rounds = 0
    while len(t.lines) < n and rounds < 6:
        rounds += 1
        cnt = min(r.choice([per_page // 2, per_page, per_page + 3, 2 * per_page + 1]), 1800, (n - len(t.lines)) // 2 + 1)
        got = [t.alloc(kind=r.choice(["M", "Z"]), size=max(0, size - r.randrange(0, 8)), heap=0) for _ in range(cnt)]
        got = [g for g in got if g is not None]
        pat = r.choice(["all", "even", "rev", "rand", "half"])
        if pat == "even": vict = got[::2]
        elif pat == "rev": vict = got[::-1]
        elif pat == "half": vict = got[: len(got) // 2]
        elif pat == "rand": vict = [g for g in got if r.random() < 0.7]
        else: vict = got
        for g in vict:
            t.free(g, "F")
        if r.random() < 0.5:
            t.emit("COL", r.randrange(2))
        if r.random() < 0.5:
            t.emit("W", 0)
    t.emit("W", 0)


def g_span(t, n):
    r = t.r
    for _ in range(n):
        k = r.random()
        if (k < 0.55 or not t.live) and t.bytes < 150 << 20:
            cls = r.random()
            if cls < 0.4: size = r.randrange(1, 8192)
            elif cls < 0.75: size = r.randrange(8193, 131072)
            elif cls < 0.95: size = r.randrange(131073, 4 << 20)
            else: size = r.randrange(4 << 20, 17 << 20)
            t.alloc(kind=r.choice(["M", "Z"]), size=size, heap=0)
        elif k < 0.93:
            t.free(mode="F")
        else:
            t.emit("COL", r.randrange(2))
    t.emit("W", 0)


def g_aligned(t, n):
    r = t.r
    # dirty the heap first so that the aligned-free-block fast path, natural alignment and over-allocation all occur
    warm = [t.alloc(kind="M", size=r.choice([16, 32, 64, 128, 256, 512, 1024]), heap=0) for _ in range(40)]
    for w in warm[::2]:
        t.free(w, "F")
    for _ in range(n):
        k = r.random()
        if (k < 0.6 or not t.live) and t.bytes < 120 << 20:
            e = r.choice(list(range(0, 17)) * 3 + list(range(17, 25)) + [25, 26])
            align = 1 << e
            size = t.boundary_size(70000) if e < 22 else r.choice([1, 100, 70000, 1 << 20])
            if r.random() < 0.15:
                size = r.choice([0, 1, align - 1 if align > 1 else 1, align, align + 1, 2 * align])
                size = min(size, 2 << 20) if e >= 22 else size
            off = 0
            if e <= 24 and r.random() < 0.35:
                off = r.choice([8, 16, 24, 100, 4096, max(1, size // 2), size])
            kind = r.choice(["A", "A", "ZA", "CA", "PM", "MA", "AA", "VA", "PV"])
            if kind in ("A", "ZA", "CA"):
                t.alloc(kind=kind, size=size, align=align, off=off)
            else:
                s = t.slot()
                if s is None: continue
                if kind == "PM" and align < 8: align = 8
                t.emit(kind, s, align, size)
                t.live[s] = t.cur; t.size_of[s] = size; t.bytes += size
        elif k < 0.8:
            t.free()
        elif k < 0.9 and t.live:
            s = r.choice(sorted(t.live))
            e = r.choice(range(0, 16))
            t.emit(r.choice(["RA", "RZA"]), s, t.boundary_size(40000), 1 << e, r.choice([0, 0, 8, 16]))
        elif k < 0.95 and t.live:
            t.emit("U", r.choice(sorted(t.live)))
        else:
            t.emit("E", r.choice(sorted(t.live)) if t.live else 1, r.randrange(0, 5000))
    t.emit("W", 0)


def g_realloc(t, n):
    r = t.r
    # dirty memory of many classes, then free, so that re-used blocks contain non-zero garbage
    for sz in [24, 100, 300, 1000, 3000, 5000, 9000, 20000, 70000, 200000]:
        ss = [t.alloc(kind="M", size=sz, heap=0) for _ in range(6)]
        for s in ss:
            t.free(s, "F")
    chains = []
    for _ in range(n):
        k = r.random()
        if k < 0.2 or not chains:
            kind = r.choice(["Z", "Z", "C", "M", "ZA"])
            s = t.alloc(kind=kind, size=r.choice([0, 1, 8, 24, 100, 900, 3000, 9000]), heap=0, align=64 if kind == "ZA" else None)
            if s is not None:
                chains.append(s)
        elif k < 0.85:
            s = r.choice(chains)
            if s not in t.live: chains.remove(s); continue
            cur = t.size_of.get(s, 0)
            m = r.random()
            if m < 0.6:   new = cur + r.choice([1, 7, 8, 16, 40, 100, 1000, cur // 2 + 1, cur + 1])
            elif m < 0.8: new = max(0, cur - r.choice([1, 8, cur // 3, cur // 2 + 1]))
            else:         new = t.boundary_size(300000)
            new = min(new, 3 << 20)
            op = r.choice(["RZ", "RZ", "RZ", "R", "RC", "RN", "RF", "RR", "RRR", "RZA", "RA"])
            if op in ("RC", "RN", "RR", "RRR"):
                c = r.choice([1, 2, 4, 8]); t.emit(op, s, c, (new + c - 1) // c); new = c * ((new + c - 1) // c)
            elif op in ("RZA", "RA"):
                t.emit(op, s, new, r.choice([16, 64, 4096]), 0)
            else:
                t.emit(op, s, new)
            t.bytes += new - cur; t.size_of[s] = new
        elif k < 0.89:
            # re-allocation of a NULL pointer (free slot), incl. size 0, through every variant
            s = t.slot()
            if s is not None:
                op = r.choice(["R", "RZ", "RC", "RN", "RF", "RA", "RZA", "RR"])
                new = r.choice([0, 0, 1, 8, 100, 5000])
                if op in ("RC", "RN", "RR"): t.emit(op, s, r.choice([1, 2]) if new else r.choice([0, 1]), new)
                elif op in ("RA", "RZA"): t.emit(op, s, new, r.choice([8, 16, 64, 4096]), 0)
                else: t.emit(op, s, new)
                t.live[s] = 0; t.size_of[s] = new; chains.append(s)
        elif k < 0.92:
            s = r.choice(chains); t.emit("E", s, r.randrange(0, 20000))
        else:
            s = r.choice(chains)
            if s in t.live: t.free(s)
            chains.remove(s)
    t.emit("W", 0)


def g_heaps(t, n):
    r = t.r
    for _ in range(n):
        k = r.random()
        if k < 0.08 and len(t.heaps) < 6:
            h = r.choice([x for x in range(1, 8) if x not in t.heaps]); t.emit("HN", h); t.heaps.add(h)
        elif k < 0.12 and len(t.heaps) > 1:
            h = r.choice(sorted(t.heaps - {0}))
            d = r.random() < 0.5
            t.emit("HX" if d else "HD", h); t.heaps.discard(h); t.drop_heap_slots(h, d)
            if t.cur == h: t.cur = 0
        elif k < 0.16:
            h = t.heap(); t.emit("HS", h); t.cur = h
        elif k < 0.05 + 0.16 and t.bytes < 60 << 20:
            # pages that sit in the FULL queue when the heap is deleted/destroyed: single-block pages (large blocks are
            # moved to the full queue at once) and a run of equal blocks that fills a page completely
            h = t.heap()
            if r.random() < 0.5:
                t.alloc(kind=r.choice(["M", "Z"]), size=r.choice([70000, 131072, 300000, 1 << 20]), heap=h)
            else:
                sz = r.choice([16384, 32768, 40000, 65536]); cnt = (524288 // sz) + r.choice([0, 1, 2])
                for _ in range(cnt): t.alloc(kind="M", size=sz, heap=h)
        elif k < 0.6 or not t.live:
            t.alloc(size=t.boundary_size(20000))
        elif k < 0.8:
            t.free()
        elif k < 0.86 and t.live:
            t.emit("K", r.choice(sorted(t.live)))
        elif k < 0.92:
            t.emit("W", t.heap())
        elif k < 0.96:
            t.emit("HC", t.heap(), r.randrange(2))
        elif t.live:
            s = r.choice(sorted(t.live)); t.emit(r.choice(["R", "RZ"]), s, t.boundary_size(20000))
    for h in sorted(t.heaps):
        t.emit("W", h)


def g_malformed(t, n):
    r = t.r
    big = [SIZE_MAX, SIZE_MAX - 1, SIZE_MAX - 7, SIZE_MAX - 8, SIZE_MAX - 4095, SIZE_MAX - 4096, PTRDIFF_MAX, PTRDIFF_MAX + 1,
           PTRDIFF_MAX - 1, MAX_ALLOC, MAX_ALLOC + 1, MAX_ALLOC - 1, 1 << 62, (1 << 63) + 8, 1 << 48, (1 << 48) + 1]
    for _ in range(n):
        k = r.random()
        if k < 0.35 or not t.live:
            t.alloc(size=t.boundary_size(5000))
        elif k < 0.5:
            t.free()
        else:
            s = t.slot()
            if s is None: continue
            m = r.randrange(10)
            if m == 0: t.emit("M", t.heap(), s, r.choice(big))
            elif m == 1:
                sz = r.choice([2, 3, 8, 16, 1 << 16, 1 << 32, (1 << 32) + 1, 1 << 33]); c = r.choice([SIZE_MAX // sz + 1, SIZE_MAX // sz + 2, SIZE_MAX, 1 << 63, (1 << 64) // sz])
                t.emit(r.choice(["C", "N"]), t.heap(), s, sz, c)
            elif m == 2: t.emit(r.choice(["A", "ZA"]), t.heap(), s, r.choice([8, 100, 5000]), r.choice([0, 3, 5, 6, 12, 24, 100, 4097, (1 << 20) + 1]), r.choice([0, 8]))
            elif m == 3: t.emit("PM", s, r.choice([0, 1, 2, 4, 3, 12, 24, 40, 100, 4097]), r.choice([0, 8, 100]))
            elif m == 4: t.emit("PM", s, r.choice([8, 16, 64, 4096]), r.choice(big))
            elif m == 5: t.emit("PV", s, 0, r.choice(big + [SIZE_MAX - 4097, SIZE_MAX - 4095]))
            elif m == 6: t.emit(r.choice(["MA", "AA"]), s, r.choice([0, 3, 24, 100]), 64)
            elif m == 7: t.emit("A", t.heap(), s, 100, 1 << 25, 8)         # huge alignment with an offset: documented failure
            elif m == 8 and t.live:
                t.free_slots.append(s)
                v = r.choice(sorted(t.live)); sz = r.choice([3, 16, 1 << 33]); t.emit(r.choice(["RC", "RN", "RR", "RRR"]), v, SIZE_MAX // sz + 1, sz); continue
            elif t.live:
                t.free_slots.append(s)
                v = r.choice(sorted(t.live)); t.emit(r.choice(["R", "RZ", "RA"]), v, r.choice(big), 64, 0); continue
            t.free_slots.append(s)     # malformed requests fail: the slot stays free
    t.emit("W", 0)


def g_huge(t, n):
    r = t.r
    for _ in range(min(n, 40)):
        k = r.random()
        if (k < 0.55 or not t.live) and t.bytes < 200 << 20 and len(t.live) < 5:
            m = r.random()
            if m < 0.5:
                t.alloc(kind=r.choice(["M", "Z"]), size=r.choice([(16 << 20) - 8, 16 << 20, (16 << 20) + 1, 20 << 20, (32 << 20) - 4096, 32 << 20, (32 << 20) + 1, 40 << 20, 65 << 20]), heap=0)
            else:
                t.alloc(kind=r.choice(["A", "ZA"]), size=r.choice([1, 100, 1 << 20, 20 << 20, 33 << 20]), align=r.choice([1 << 24, 1 << 25, 1 << 26]), off=0, heap=0)
        elif k < 0.8:
            t.free()
        elif t.live:
            s = r.choice(sorted(t.live)); t.emit(r.choice(["R", "RZ", "E", "U"]), s, r.choice([100, 8 << 20, 17 << 20, 34 << 20]))
        if r.random() < 0.15:
            t.emit("COL", r.randrange(2))
    t.emit("W", 0)


def g_hugechurn(t, n):
    """small and multi-block huge allocations alternate with frees and collects, so that arena blocks go through every
    combination of free / in use / committed / not committed / purge-scheduled before a huge block spans them"""
    r = t.r
    for _ in range(min(n, 60)):
        k = r.random()
        if (k < 0.5 or not t.live) and t.bytes < 220 << 20 and len(t.live) < 7:
            m = r.random()
            if m < 0.3:   t.alloc(kind=r.choice(["M", "Z"]), size=r.choice([100, 5000, 70000, 1 << 20]), heap=0)
            elif m < 0.7: t.alloc(kind=r.choice(["M", "Z"]), size=r.choice([17 << 20, 20 << 20, 31 << 20, 33 << 20]), heap=0)
            else:         t.alloc(kind=r.choice(["M", "Z"]), size=r.choice([40 << 20, 50 << 20, 65 << 20, 90 << 20]), heap=0)
        elif k < 0.8:
            t.free(mode="F")
        elif k < 0.93:
            t.emit("COL", 1 if r.random() < 0.7 else 0)
        elif t.live:
            t.emit("U", r.choice(sorted(t.live)))
    t.emit("W", 0)


def g_scatter(t, n):
    """one whole 32 MiB segment is filled with small (8 x 8 KiB), medium (8 x 64 KiB) and large pages; then whole pages are freed at
    slice positions biased to the 64-bit word boundaries of the commit mask (62..65, 126..129, ...) and otherwise anywhere, so that the
    pending purge mask of the segment has runs in several words, in both orders of bit position, runs that end at bit 63 / start at
    bit 0 / cross a boundary, with pages in use in between; the purge delay passes (CLK) and ordinary activity follows (page frees,
    page allocations, non-forced collects); COL/W verify the contents of every live block.  `n` is ignored (the fill needs ~2500 ops).
    The slice positions are estimates (pages of a fresh segment are carved in address order)."""
    r = t.r
    pages = []          # [estimated first slice, slices, slots]
    est = 1
    goal = 500 + r.randrange(40)
    while est < goal and len(t.live) < 3500:
        k = r.random()
        if k < 0.5:
            for _ in range(1 + r.randrange(r.choice([12, 12, 70]))):
                if len(t.live) > 3500: break
                ss = [t.alloc(kind="M", size=8192, heap=0) for _ in range(8)]
                pages.append([est, 1, [x for x in ss if x is not None]]); est += 1
        elif k < 0.7:
            for _ in range(1 + r.randrange(3)):
                ss = [t.alloc(kind="M", size=65536, heap=0) for _ in range(8)]
                pages.append([est, 8, [x for x in ss if x is not None]]); est += 8
        else:
            for _ in range(1 + r.randrange(3)):
                size = r.randrange(600000, 1500000) if r.random() < 0.33 else r.randrange(70000, 470000)
                nsl = -(-size // 65536) if size <= 524288 else -(-size // 524288) * 8
                x = t.alloc(kind="M", size=size, heap=0)
                pages.append([est, nsl, [x] if x is not None else []]); est += nsl

    def page_at(sl):
        for pg in pages:
            if pg[0] <= sl < pg[0] + pg[1] and pg[2]: return pg
        return None

    def free_page(pg):
        for x in pg[2]: t.free(x, "F")
        pg[2] = []

    def activity():
        k = r.random()
        live_pages = [pg for pg in pages if pg[2]]
        if k < 0.45 and len(live_pages) > 3:
            free_page(r.choice(live_pages))                       # a page free in the segment
        elif k < 0.8:
            t.alloc(kind="M", size=r.choice([4096, 2048, 6144, 32768, 49152, 200000, 8192, 65536]), heap=0)   # (often) a page allocation
        else:
            t.emit("COL", 0)

    for cycle in range(3):
        nv = r.choice([2, 2, 2, 3, 3, 4, 5, 6, 8, 12])
        for _ in range(nv):
            sl = (1 + r.randrange(7)) * 64 + r.randrange(4) - 2 if r.random() < 0.5 else 1 + r.randrange(511)
            pg = page_at(sl)
            if pg is None: continue
            nb = page_at(pg[0] + pg[1]) if r.random() < 0.5 else page_at(pg[0] - 1)
            free_page(pg)
            if nb is not None and r.random() < 0.33: free_page(nb)    # sometimes the neighbour too: a run that crosses the boundary
        t.emit("COL", 0)                                             # retired pages are freed; contents verified
        if r.random() < 0.5:
            t.emit("CLK", r.choice([1, 5, 9])); activity()
        t.emit("CLK", r.choice([12, 30, 150, 1001]))                 # past the delays of the option matrix (10, 100) and their extensions
        for _ in range(1 + r.randrange(3)): activity()
        t.emit("COL", 0)
        if r.random() < 0.5:
            t.emit("CLK", r.choice([150, 1001])); activity(); t.emit("W", 0)
        # re-use: new pages of the main classes go into the holes (the pending purge bits of re-used slices must be cleared)
        for _ in range(r.randrange(4)):
            ss = [t.alloc(kind="M", size=r.choice([8192, 65536]), heap=0) for _ in range(8)]
        t.emit("CLK", r.choice([5, 12, 150])); activity(); t.emit("COL", 0)
    t.emit("W", 0)


PROFILES = {"scatter": g_scatter, "hugechurn": g_hugechurn, "boundary": g_boundary, "fillfree": g_fillfree, "span": g_span, "aligned": g_aligned, "realloc": g_realloc,
            "heaps": g_heaps, "malformed": g_malformed, "huge": g_huge}


def with_clock(lines, rng):
    """sprinkle virtual-clock advances (op CLK <ms>) so that delayed purges expire during the trace"""
    out = []
    for l in lines:
        out.append(l)
        if rng.random() < 0.06:
            out.append("CLK %d" % rng.choice([1, 5, 11, 50, 101, 1001]))
    return out


def make_trace(profile, seed, nops=300, options=None, clock=False):
    rng = random.Random((hash(profile) & 0xFFFF) * 1000003 + seed)
    rng = random.Random("%s-%d" % (profile, seed))
    t = T(rng)
    for k, v in (options or []):
        t.emit("OPT", k, v)
    PROFILES[profile](t, nops)
    return with_clock(t.lines, rng) if clock else t.lines


if __name__ == "__main__":
    import sys
    print("\n".join(make_trace(sys.argv[1], int(sys.argv[2]), int(sys.argv[3]) if len(sys.argv) > 3 else 300)))
