// Correspondence harness (F) for the commit-mask arithmetic of Model/Mask.v and the page rounding of
// Model/Os.v (C13, C18; also C07/C11).  The real static functions of /repo/src/segment.c and os.c
// (visible through REPO_STATIC) are run on boundary and PRNG inputs and print
//   F <fn> <args> = <results>     (compared with the extracted Coq model by ocaml/mode_os.ml)
//   T <kind> ...                  (implementation-side oracle, checked in tools/props/C18.py:
//                                  T covers  <conservative> <pstart> <size> <start> <full> <bitidx> <bitcount> <segstart> <segsize>
//                                  T align   <conservative> <addr> <size> <start> <csize>)
// usage: f_mask <seed> <thorough 0|1>
#include REPO_STATIC
#include <stdio.h>
#include <stdlib.h>
#include <inttypes.h>
#include "prng.h"

#define U(x) ((unsigned long long)(x))
static prng_t G;

static void pm(const mi_commit_mask_t* m) { for (int i = 0; i < MI_COMMIT_MASK_FIELD_COUNT; i++) printf(" %llu", U(m->mask[i])); }

static void rnd_mask(mi_commit_mask_t* m) {
  mi_commit_mask_create_empty(m);
  switch (prng_below(&G, 10)) {
    case 0: break;                                             // empty
    case 5: case 6: {                                          // freed pages: 2..12 short runs (1, 8 or 2..24 bits) at positions biased to the
      static const int counts[] = { 2, 2, 2, 3, 3, 4, 5, 6, 8, 12 };   // word boundaries (62..65, 126..129, ...), otherwise anywhere: runs in different
      int runs = counts[prng_below(&G, 10)];                   // words, the later one at a lower OR higher bit position, runs that end at bit 63,
      for (int r = 0; r < runs; r++) {                         // start at bit 0, or cross the boundary
        size_t idx = (prng_below(&G, 2) == 0 ? (1 + prng_below(&G, 7)) * 64 + prng_below(&G, 4) - 2 : 1 + prng_below(&G, MI_COMMIT_MASK_BITS - 1));
        size_t k = prng_below(&G, 4);
        size_t cnt = (k <= 1 ? 1 : k == 2 ? 8 : 2 + prng_below(&G, 23));
        if (idx + cnt > MI_COMMIT_MASK_BITS) cnt = MI_COMMIT_MASK_BITS - idx;
        mi_commit_mask_t t; mi_commit_mask_create(idx, cnt, &t);
        mi_commit_mask_set(m, &t);
      }
      break;
    }
    case 1: mi_commit_mask_create_full(m); break;              // full
    case 2: for (int i = 0; i < MI_COMMIT_MASK_FIELD_COUNT; i++) m->mask[i] = prng_next(&G); break;                 // dense
    case 3: for (int i = 0; i < MI_COMMIT_MASK_FIELD_COUNT; i++) m->mask[i] = prng_next(&G) & prng_next(&G) & prng_next(&G); break;   // sparse
    case 4: for (int i = 0; i < MI_COMMIT_MASK_FIELD_COUNT; i++) m->mask[i] = prng_next(&G) | prng_next(&G) | prng_next(&G); break;   // nearly full
    default: {                                                 // a few runs, often touching word boundaries
      int runs = 1 + (int)prng_below(&G, 6);
      for (int r = 0; r < runs; r++) {
        size_t idx = prng_below(&G, MI_COMMIT_MASK_BITS);
        if (prng_below(&G, 3) == 0) idx = (idx / 64) * 64 + (prng_below(&G, 2) ? 0 : 63 - prng_below(&G, 3));
        size_t cnt = 1 + prng_below(&G, prng_below(&G, 2) ? 8 : 200);
        if (idx + cnt > MI_COMMIT_MASK_BITS) cnt = MI_COMMIT_MASK_BITS - idx;
        mi_commit_mask_t t; mi_commit_mask_create(idx, cnt, &t);
        mi_commit_mask_set(m, &t);
      }
    }
  }
}

static void rec_create(size_t idx, size_t cnt) {
  if (idx >= MI_COMMIT_MASK_BITS || idx + cnt > MI_COMMIT_MASK_BITS) return;
  if (cnt == MI_COMMIT_MASK_BITS && idx != 0) return;
  mi_commit_mask_t m; mi_commit_mask_create(idx, cnt, &m);
  printf("F cm_create %llu %llu =", U(idx), U(cnt)); pm(&m); printf("\n");
}

static void rec_ops(void) {
  mi_commit_mask_t a, b, r;
  rnd_mask(&a); rnd_mask(&b);
  if (prng_below(&G, 4) == 0) { mi_commit_mask_create_intersect(&a, &b, &r); b = r; }   // b subset of a
  printf("F cm_all_set"); pm(&a); pm(&b); printf(" = %d\n", mi_commit_mask_all_set(&a, &b) ? 1 : 0);
  printf("F cm_any_set"); pm(&a); pm(&b); printf(" = %d\n", mi_commit_mask_any_set(&a, &b) ? 1 : 0);
  printf("F cm_is_empty"); pm(&a); printf(" = %d\n", mi_commit_mask_is_empty(&a) ? 1 : 0);
  printf("F cm_is_full"); pm(&a); printf(" = %d\n", mi_commit_mask_is_full(&a) ? 1 : 0);
  mi_commit_mask_create_intersect(&a, &b, &r);
  printf("F cm_intersect"); pm(&a); pm(&b); printf(" ="); pm(&r); printf("\n");
  r = a; mi_commit_mask_clear(&r, &b);
  printf("F cm_clear"); pm(&a); pm(&b); printf(" ="); pm(&r); printf("\n");
  r = a; mi_commit_mask_set(&r, &b);
  printf("F cm_set"); pm(&a); pm(&b); printf(" ="); pm(&r); printf("\n");
  size_t total = (prng_below(&G, 2) ? MI_SEGMENT_SIZE : MI_COMMIT_MASK_BITS * (size_t)(1 + prng_below(&G, 1 << 20)));
  printf("F cm_committed_size"); pm(&a); printf(" %llu = %llu\n", U(total), U(_mi_commit_mask_committed_size(&a, total)));
  // next_run from several start indices, and the whole foreach enumeration
  for (int k = 0; k < 4; k++) {
    size_t idx = (k == 0 ? 0 : k == 1 ? prng_below(&G, MI_COMMIT_MASK_BITS + 1) : k == 2 ? 64 * prng_below(&G, 9) : MI_COMMIT_MASK_BITS - prng_below(&G, 3));
    size_t i2 = idx;
    size_t cnt = _mi_commit_mask_next_run(&a, &i2);
    printf("F cm_next_run"); pm(&a); printf(" %llu = %llu %llu\n", U(idx), U(i2), U(cnt));
    printf("F cmw_next_run"); pm(&a); printf(" %llu = %llu %llu\n", U(idx), U(i2), U(cnt));     // same call, compared with the word-level model
  }
  size_t idx, count, n = 0;
  size_t ri[MI_COMMIT_MASK_BITS], rc[MI_COMMIT_MASK_BITS];
  mi_commit_mask_foreach(&a, idx, count) { ri[n] = idx; rc[n] = count; n++; } mi_commit_mask_foreach_end()
  for (int pass = 0; pass < 2; pass++) {      // the same enumeration twice: bit-level model (Model/Mask.v), word-level model (Model/MaskWords.v)
    printf(pass == 0 ? "F cm_runs" : "F cmw_runs"); pm(&a); printf(" = %zu", n);
    for (size_t i = 0; i < n; i++) printf(" %llu %llu", U(ri[i]), U(rc[i]));
    printf("\n");
  }
}

static mi_segment_t* fakeseg;

static void rec_segmask(int kind, size_t info_slices, int conservative, size_t pstart, size_t size) {
  mi_segment_t* s = fakeseg;
  s->kind = (kind == 0 ? MI_SEGMENT_NORMAL : MI_SEGMENT_HUGE);
  s->segment_slices = MI_SLICES_PER_SEGMENT;
  s->segment_info_slices = info_slices;
  const size_t segsize = mi_segment_size(s), segstart = mi_segment_info_size(s);
  if (pstart < segsize && pstart + size > segsize) return;       // precondition of the C (assert)
  uint8_t* p = (uint8_t*)s + pstart;
  uint8_t* start = NULL; size_t full = 0; mi_commit_mask_t m;
  mi_segment_commit_mask(s, conservative != 0, p, size, &start, &full, &m);
  printf("F seg_commit_mask %llu %d %llu %llu %d %llu %llu = %llu %llu", U(s), kind, U(segsize), U(segstart), conservative, U(p), U(size),
         U(start), U(full)); pm(&m); printf("\n");
  if (kind != 0) return;     // the T oracle is about normal segments (a huge segment has the empty mask by definition)
  if (full > 0) {
    size_t idx = 0, cnt = 0, bitidx = MI_COMMIT_MASK_BITS;
    cnt = _mi_commit_mask_next_run(&m, &idx); bitidx = idx;
    printf("T covers %d %llu %llu %llu %llu %llu %llu %llu %llu\n", conservative, U(pstart), U(size), U(start - (uint8_t*)s), U(full), U(bitidx), U(cnt), U(segstart), U(segsize));
  }
  else {
    printf("T covers %d %llu %llu %llu 0 512 0 %llu %llu\n", conservative, U(pstart), U(size), U(start == NULL ? 0 : start - (uint8_t*)s), U(segstart), U(segsize));
  }
}

static size_t near_slice(size_t max) {      // an offset near a slice (64 KiB) boundary
  size_t b = prng_below(&G, max / MI_SEGMENT_SLICE_SIZE + 1) * MI_SEGMENT_SLICE_SIZE;
  switch (prng_below(&G, 6)) { case 0: return b; case 1: return b + 1; case 2: return (b > 0 ? b - 1 : 0); case 3: return b + 4096; case 4: return b + prng_below(&G, MI_SEGMENT_SLICE_SIZE); default: return prng_below(&G, max + 1); }
}

static void rec_align(int conservative, uintptr_t addr, size_t size) {
  size_t csize = 12345;
  void* start = mi_os_page_align_areax(conservative != 0, (void*)addr, size, &csize);
  printf("F page_align %d %llu %llu = %llu %llu\n", conservative, U(addr), U(size), U(start), U(csize));
  printf("T align %d %llu %llu %llu %llu\n", conservative, U(addr), U(size), U(start), U(csize));
}

int main(int argc, char** argv) {
  uint64_t seed = (argc > 1 ? strtoull(argv[1], NULL, 10) : 1);
  int thorough = (argc > 2 ? atoi(argv[2]) : 0);
  prng_seed(&G, seed);
  fakeseg = (mi_segment_t*)calloc(1, sizeof(mi_segment_t));

  // mi_commit_mask_create: every start index with boundary and random counts (thorough: every pair)
  for (size_t idx = 0; idx < MI_COMMIT_MASK_BITS; idx++) {
    if (thorough) { for (size_t cnt = 0; idx + cnt <= MI_COMMIT_MASK_BITS; cnt++) rec_create(idx, cnt); }
    else {
      const size_t rest = MI_COMMIT_MASK_BITS - idx;
      size_t cs[] = { 0, 1, 2, 63, 64, 65, 127, 128, 129, rest, rest - 1, 64 - (idx % 64), 65 - (idx % 64), prng_below(&G, rest + 1), prng_below(&G, rest + 1) };
      for (size_t k = 0; k < sizeof(cs) / sizeof(cs[0]); k++) rec_create(idx, cs[k]);
    }
  }
  rec_create(0, MI_COMMIT_MASK_BITS);
  const int nops = (thorough ? 10000 : 1500);
  for (int i = 0; i < nops; i++) rec_ops();

  // mi_segment_commit_mask
  const int nseg = (thorough ? 100000 : 12000);
  for (int i = 0; i < nseg; i++) {
    int kind = (prng_below(&G, 25) == 0 ? 1 : 0);
    size_t info = 1 + prng_below(&G, 3);
    int cons = (int)prng_below(&G, 2);
    size_t pstart = near_slice(MI_SEGMENT_SIZE - 1);
    size_t size;
    switch (prng_below(&G, 6)) {
      case 0: size = MI_SEGMENT_SLICE_SIZE * (1 + prng_below(&G, 8)); break;
      case 1: size = MI_SEGMENT_SLICE_SIZE * (1 + prng_below(&G, 8)) + (prng_below(&G, 2) ? 1 : -1); break;
      case 2: size = 1 + prng_below(&G, 2 * MI_SEGMENT_SLICE_SIZE); break;
      case 3: size = near_slice(MI_SEGMENT_SIZE); break;
      case 4: size = (MI_SEGMENT_SIZE > pstart ? MI_SEGMENT_SIZE - pstart : 0); break;   // up to the end of the segment
      default: size = prng_below(&G, 4) == 0 ? 0 : prng_below(&G, MI_SEGMENT_SIZE + 2); break;
    }
    if (pstart + size > MI_SEGMENT_SIZE && prng_below(&G, 8) != 0) size = MI_SEGMENT_SIZE - pstart;
    rec_segmask(kind, info, cons, pstart, size);
  }
  // whole slices (what span_free / span_allocate pass) and the info area
  for (size_t s = 0; s < MI_SLICES_PER_SEGMENT; s += (thorough ? 1 : 7)) {
    for (size_t c = 1; s + c <= MI_SLICES_PER_SEGMENT; c = c * 2 + (s % 3)) {
      rec_segmask(0, 1, 0, s * MI_SEGMENT_SLICE_SIZE, c * MI_SEGMENT_SLICE_SIZE);
      rec_segmask(0, 1, 1, s * MI_SEGMENT_SLICE_SIZE, c * MI_SEGMENT_SLICE_SIZE);
    }
  }
  rec_segmask(0, 1, 0, MI_SEGMENT_SIZE, 0); rec_segmask(0, 1, 1, MI_SEGMENT_SIZE + 4096, 4096); rec_segmask(0, 2, 0, 0, 2 * MI_SEGMENT_SLICE_SIZE);
  rec_segmask(0, 1, 1, 0, MI_SEGMENT_SIZE); rec_segmask(0, 1, 0, 0, MI_SEGMENT_SIZE); rec_segmask(0, 1, 0, 5, MI_SEGMENT_SIZE + 1);

  // mi_os_page_align_areax
  const size_t ps = _mi_os_page_size();
  const int nal = (thorough ? 100000 : 10000);
  for (int i = 0; i < nal; i++) {
    uintptr_t addr = (prng_below(&G, 3) == 0 ? (uintptr_t)prng_sized(&G) : ((uintptr_t)1 << 40) + prng_below(&G, 1 << 20) * ps);
    switch (prng_below(&G, 5)) { case 0: break; case 1: addr += 1; break; case 2: addr -= (addr > 0 ? 1 : 0); break; case 3: addr += prng_below(&G, ps); break; default: break; }
    size_t size;
    switch (prng_below(&G, 6)) {
      case 0: size = ps * prng_below(&G, 64); break;
      case 1: size = ps * prng_below(&G, 64) + 1; break;
      case 2: size = prng_below(&G, 3 * ps); break;
      case 3: size = ps * (1 + prng_below(&G, 64)) - 1; break;
      case 4: size = prng_sized(&G); break;
      default: size = prng_below(&G, 1 << 26); break;
    }
    if (prng_below(&G, 50) == 0) addr = 0;
    rec_align((int)prng_below(&G, 2), addr, size);
  }
  rec_align(1, 4096, 0); rec_align(0, 0, 4096); rec_align(1, 8192, 4096); rec_align(0, 8192, 4096); rec_align(1, 8193, 4095); rec_align(0, 8193, 4095);
  printf("END\n");
  return 0;
}
