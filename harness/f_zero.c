// C04, zero-KNOWLEDGE layer (coq/Model/Zero.v, coq/Properties/C04zero.v): the flags of the REAL allocator next to what
// the memory REALLY contains.  Built with the OS shim like harness/f_commit.c (tools/zeromodel.py):
//   -DVERIF_SHIM -Dmmap=shim_mmap -Dmunmap=shim_munmap -Dmprotect=shim_mprotect -Dmadvise=shim_madvise
//   -Dclock_gettime=shim_clock_gettime, linked with shim.o (no change to /repo), release configuration.
//
//   f_zero <seed> <nops> <mode> <variant>
//
// mode R  the arena layer driven directly: arenas made with mi_manage_os_memory_ex over fresh or pre-dirtied memory
//         (is_zero claimed only over fresh memory) and with mi_reserve_os_memory_ex; then seeded
//           r  _mi_arena_alloc_aligned of 1..3 blocks (arena first, then the OS)   w  store into such memory
//           f  _mi_arena_free                                                      p  advance the clock, force the arena purge
// mode P  ONE real page driven function by function (the page comes from mi_malloc of a size class not used before; its
//         first block stays live).  When the page's memory is really zero the harness may SET page->is_zero_init /
//         page->free_is_zero (states the pinned tree never reaches: the branches that rely on the flags are exercised
//         on truthful flags), then seeded
//           m  _mi_page_malloc_zero (free list not empty)   w  store into a live block   f  mi_free (local)
//           c  _mi_page_free_collect                         e  mi_page_extend_free
// mode A  the public API (malloc / zalloc of small, medium, large and huge sizes, stores, free, collect, clock) on an arena
//         of a few blocks with the OS as fallback: fresh segments from fresh and from re-used arena blocks, OS-backed
//         segments, pages on fresh and on re-used spans, purges by the virtual clock and by forced collects.
//
// Records (one op = its `O` line, then the dump; all flags are read from the real structures):
//   CFG <mode> <variant> ...
//   N <ai> <nblocks> <zero> <pinned> <committed> <really zero>                 an arena was added
//   O <opno> <op> ...                                                           see each mode
//   A <ai> <nblocks> <inuse bits> <dirty bits> <committed bits>                 bit strings, block 0 first
//   S <sid> <kind 1 arena|2 os> <ai> <b0> <nb> <zero> <committed> <huge> <nslices> <info>     live segment, sid = base / 64 KiB
//   G <pid> <sid> <lo> <cnt> <bsize> <psize> <huge> <reserved> <capacity> <used> <fiz> <izi> <nfree> <nlocal>
//   I / D ...                                                                   mode P page state (see dump_page)
//   T zf <opno> <what> <id> <flag> <sub> <really zero> <where>                  a knowledge flag that is SET, and whether the
//                                                                               memory it speaks about really is zero
//   T zret <opno> <ptr> <usable> <really zero> <offset>                         the block returned by a zeroing allocation
//   T ghost <opno> ...                                                          (mode R) real zero-ness of returned memory
//   T purged <opno> <ai> <block> <really zero>                                  (mode R, after p) free blocks that read as zero now
//   T crash <opno> <signal>
//   E                                                                           end of the dump of one op
//   END <ops>
#include REPO_STATIC
#include <stdio.h>
#include <stdlib.h>
#include <string.h>
#include <signal.h>
#include <unistd.h>
#include <sys/mman.h>
#include "prng.h"
#include "shim.h"

#define U(x) ((unsigned long long)(x))
#define SLICE ((size_t)MI_SEGMENT_SLICE_SIZE)
static prng_t G;
static long opno = 0;

static void on_crash(int sig) {
  char buf[96]; int n = snprintf(buf, sizeof buf, "T crash %ld %d\n", opno, sig);
  fflush(stdout); if (write(1, buf, (size_t)n) < 0) {} _exit(5);
}

// ---------------------------------------------------------------- really zero?
// every ACCESSIBLE byte of [p, p+len) is zero (memory that was never made accessible reads as zero once it is);
// *where = offset of the first non-zero byte
static int really_zero(const void* p, size_t len, size_t* where) {
  const uint8_t* b = (const uint8_t*)p; size_t off = 0;
  while (off < len) {
    size_t pg = SHIM_PAGE - (((uintptr_t)b + off) & (SHIM_PAGE - 1));
    size_t n = (len - off < pg ? len - off : pg);
    if (shim_is_accessible(b + off, 1)) {
      const uint8_t* q = b + off; size_t i = 0;
      for (; i < n && (((uintptr_t)(q + i)) & 7) != 0; i++) if (q[i]) { if (where) *where = off + i; return 0; }
      for (; i + 8 <= n; i += 8) if (*(const uint64_t*)(q + i)) { size_t j = i; while (!q[j]) j++; if (where) *where = off + j; return 0; }
      for (; i < n; i++) if (q[i]) { if (where) *where = off + i; return 0; }
    }
    off += n;
  }
  return 1;
}
static int accessible_any(const void* p, size_t len) {
  for (size_t off = 0; off < len; off += SHIM_PAGE) if (shim_is_accessible((const uint8_t*)p + off, 1)) return 1;
  return 0;
}

// ---------------------------------------------------------------- arenas
static void bits(const mi_bitmap_field_t* f, size_t n) {
  if (f == NULL) { putchar('-'); return; }
  for (size_t i = 0; i < n; i++) putchar(((mi_atomic_load_relaxed(&((mi_bitmap_field_t*)f)[i / 64]) >> (i % 64)) & 1) ? '1' : '0');
}
static void dump_arenas(int full_scan) {
  size_t n = mi_atomic_load_relaxed(&mi_arena_count);
  for (size_t ai = 0; ai < n; ai++) {
    mi_arena_t* a = mi_arena_from_index(ai);
    if (a == NULL) continue;
    printf("A %zu %zu ", ai, a->block_count); bits(a->blocks_inuse, a->block_count); putchar(' ');
    bits(a->blocks_dirty, a->block_count); putchar(' '); bits(a->blocks_committed, a->block_count); putchar('\n');
    // knowledge: arena initially zero and dirty bit clear => the block is zero
    if (a->memid.initially_zero && a->blocks_dirty != NULL) {
      for (size_t b = 0; b < a->block_count; b++) {
        if ((a->blocks_dirty[b / 64] >> (b % 64)) & 1) continue;
        uint8_t* p = a->start + b * MI_ARENA_BLOCK_SIZE; size_t where = 0; int z;
        if (full_scan) z = really_zero(p, MI_ARENA_BLOCK_SIZE, &where);
        else { z = really_zero(p, 2 * SHIM_PAGE, &where); if (z) { z = really_zero(p + MI_ARENA_BLOCK_SIZE - 2 * SHIM_PAGE, 2 * SHIM_PAGE, &where); where += MI_ARENA_BLOCK_SIZE - 2 * SHIM_PAGE; } }
        printf("T zf %ld arena %zu 1 %zu %d %zu\n", opno, ai, b, z, z ? (size_t)0 : where);
      }
    }
  }
}
static uint8_t* map_region(size_t size, int prot) {
  uint8_t* raw = (uint8_t*)mmap(NULL, size + MI_SEGMENT_ALIGN, prot, MAP_PRIVATE | MAP_ANONYMOUS | MAP_NORESERVE, -1, 0);
  if (raw == MAP_FAILED) { fprintf(stderr, "cannot reserve memory\n"); exit(2); }
  return (uint8_t*)_mi_align_up((uintptr_t)raw, MI_SEGMENT_ALIGN);
}
// an arena over memory mapped here.  dirty: the memory is written first (then it is never announced as zero)
static size_t add_arena(size_t nblocks, int committed, int claim_zero, int dirty) {
  const size_t asize = nblocks * MI_ARENA_BLOCK_SIZE;
  uint8_t* start = map_region(asize, (committed || dirty) ? (PROT_READ | PROT_WRITE) : PROT_NONE);
  if (dirty) { for (size_t b = 0; b < nblocks; b++) { start[b * MI_ARENA_BLOCK_SIZE + 4096 * (1 + b)] = 0x5a; start[(b + 1) * MI_ARENA_BLOCK_SIZE - 1] = 0x77; } claim_zero = 0; committed = 1; }
  mi_arena_id_t aid;
  if (!mi_manage_os_memory_ex(start, asize, committed != 0, false, claim_zero != 0, -1, false, &aid)) { fprintf(stderr, "mi_manage_os_memory_ex failed\n"); exit(2); }
  size_t ai = mi_arena_id_index(aid); mi_arena_t* a = mi_arena_from_index(ai);
  printf("N %zu %zu %d %d %d %d\n", ai, a->block_count, a->memid.initially_zero ? 1 : 0, a->memid.is_pinned ? 1 : 0, a->memid.initially_committed ? 1 : 0, dirty ? 0 : 1);
  return ai;
}
static size_t add_reserved_arena(size_t nblocks, int commit) {
  mi_arena_id_t aid;
  if (mi_reserve_os_memory_ex(nblocks * MI_ARENA_BLOCK_SIZE, commit != 0, false, false, &aid) != 0) { fprintf(stderr, "mi_reserve_os_memory_ex failed\n"); exit(2); }
  size_t ai = mi_arena_id_index(aid); mi_arena_t* a = mi_arena_from_index(ai);
  size_t where; int z = really_zero(a->start, a->block_count * MI_ARENA_BLOCK_SIZE, &where);
  printf("N %zu %zu %d %d %d %d\n", ai, a->block_count, a->memid.initially_zero ? 1 : 0, a->memid.is_pinned ? 1 : 0, a->memid.initially_committed ? 1 : 0, z);
  if (a->memid.initially_zero) printf("T zf 0 arenamem %zu 1 0 %d %zu\n", ai, z, z ? (size_t)0 : where);
  return ai;
}

static void common_options(long delay) {
  mi_option_set(mi_option_arena_reserve, 0);
  mi_option_set(mi_option_arena_eager_commit, 0);
  mi_option_set(mi_option_purge_delay, delay);
  mi_option_set(mi_option_purge_decommits, 1);
  mi_option_set(mi_option_verbose, 0);
  mi_option_set(mi_option_show_errors, 0);
  mi_option_set(mi_option_max_errors, 0);
  mi_option_set(mi_option_max_warnings, 0);
}

// ================================================================ mode R: the arena layer
#define MAXRAW 24
static struct { void* p; size_t size; mi_memid_t memid; int live; int committed; } raws[MAXRAW];

static void mode_R(long nops, int variant) {
  const long delay = (variant & 1) ? 0 : 10;
  common_options(delay);
  printf("CFG R %d %ld\n", variant, delay);
  // arena 0: fresh memory, announced zero unless bit 1; arena 1 (bit 2): pre-dirtied; arena 2 (bit 3): mi_reserve_os_memory_ex
  add_arena(3 + prng_below(&G, 4), (variant >> 4) & 1, !((variant >> 1) & 1), 0);
  if ((variant >> 2) & 1) add_arena(2 + prng_below(&G, 2), 1, 0, 1);
  if ((variant >> 3) & 1) add_reserved_arena(2 + prng_below(&G, 2), (variant >> 4) & 1);
  opno = 0; printf("O 0 init\n"); dump_arenas(1); printf("E\n");
  for (long k = 0; k < nops; k++) {
    opno++;
    size_t r = prng_below(&G, 100);
    int nlive = 0; for (int i = 0; i < MAXRAW; i++) nlive += raws[i].live;
    if (r < 45 && nlive < MAXRAW - 1) {
      int s = 0; while (raws[s].live) s++;
      size_t nb = 1 + (prng_below(&G, 4) == 0 ? prng_below(&G, 3) : 0);
      size_t size = nb * MI_ARENA_BLOCK_SIZE - (prng_below(&G, 3) == 0 ? prng_below(&G, 1 << 20) : 0);
      int commit = (int)prng_below(&G, 2);
      mi_memid_t memid;
      void* p = _mi_arena_alloc_aligned(size, MI_SEGMENT_ALIGN, 0, commit != 0, false, _mi_arena_id_none(), &memid);
      if (p == NULL) { printf("O %ld r %d %zu %d = 0 0 0 0 0\n", opno, s, nb, commit); }
      else {
        size_t ai = 0, b0 = 0; int kind = 2;
        if (memid.memkind == MI_MEM_ARENA) { kind = 1; mi_arena_memid_indices(memid, &ai, &b0); }
        printf("O %ld r %d %zu %d = %d %zu %zu %d %d\n", opno, s, nb, commit, kind, ai, b0, memid.initially_zero ? 1 : 0, memid.initially_committed ? 1 : 0);
        // make it readable (what mi_segment_os_alloc does for the header) and look at it
        if (!memid.initially_committed) _mi_os_commit(p, size, NULL);
        size_t where = 0; int z = really_zero(p, size, &where);
        printf("T ghost %ld %d %d %zu\n", opno, s, z, z ? (size_t)0 : where);
        if (memid.initially_zero) printf("T zf %ld raw %d 1 0 %d %zu\n", opno, s, z, z ? (size_t)0 : where);
        raws[s].p = p; raws[s].size = size; raws[s].memid = memid; raws[s].live = 1; raws[s].committed = memid.initially_committed ? 1 : 0;
      }
    }
    else if (r < 65 && nlive > 0) {
      int s; do { s = (int)prng_below(&G, MAXRAW); } while (!raws[s].live);
      uint8_t* p = (uint8_t*)raws[s].p; size_t n = raws[s].size;
      size_t where = prng_below(&G, 4);
      if (where == 0) p[0] = 0xa5; else if (where == 1) p[n - 1] = 0x5a; else p[prng_below(&G, n)] = (uint8_t)(1 + prng_below(&G, 255));
      printf("O %ld w %d\n", opno, s);
    }
    else if (r < 90 && nlive > 0) {
      int s; do { s = (int)prng_below(&G, MAXRAW); } while (!raws[s].live);
      printf("O %ld f %d %d\n", opno, s, raws[s].committed);
      _mi_arena_free(raws[s].p, raws[s].size, raws[s].committed ? raws[s].size : 0, raws[s].memid);
      raws[s].live = 0;
    }
    else {
      shim_clock_advance_ms(prng_below(&G, 3) == 0 ? 5 : 100000);
      int force = (int)prng_below(&G, 2);
      _mi_arenas_collect(force != 0);
      printf("O %ld p %d\n", opno, force);
      // which free blocks read as zero now (the kernel dropped their pages, or they were never stored into)
      size_t na = mi_atomic_load_relaxed(&mi_arena_count);
      for (size_t ai = 0; ai < na; ai++) {
        mi_arena_t* a = mi_arena_from_index(ai);
        if (a == NULL || a->memid.is_pinned) continue;
        for (size_t b = 0; b < a->block_count; b++) {
          if ((a->blocks_inuse[b / 64] >> (b % 64)) & 1) continue;
          printf("T purged %ld %zu %zu %d\n", opno, ai, b, really_zero(a->start + b * MI_ARENA_BLOCK_SIZE, MI_ARENA_BLOCK_SIZE, NULL));
        }
      }
    }
    dump_arenas(k + 1 == nops);
    printf("E\n");
  }
}

// ================================================================ mode P: one page, function by function
static void dump_page(const char* tag, mi_page_t* page) {
  const size_t bsize = mi_page_block_size(page);
  size_t psize; uint8_t* start = _mi_segment_page_start(_mi_page_segment(page), page, &psize);
  mi_segment_t* sg = _mi_page_segment(page);
  size_t lo = (size_t)((mi_slice_t*)page - sg->slices);
  printf("%s %zu %zu %zu %zu %zu %zu %d %u %u %u %d %d F", tag, (size_t)sg / SLICE + lo, (size_t)sg / SLICE, lo, (size_t)page->slice_count, bsize, psize,
         page->is_huge ? 1 : 0, page->reserved, page->capacity, page->used, page->free_is_zero ? 1 : 0, page->is_zero_init ? 1 : 0);
  for (mi_block_t* b = page->free; b != NULL; b = mi_block_next(page, b)) printf(" %zu", (size_t)((uint8_t*)b - start) / bsize);
  printf(" L");
  for (mi_block_t* b = page->local_free; b != NULL; b = mi_block_next(page, b)) printf(" %zu", (size_t)((uint8_t*)b - start) / bsize);
  // real contents per block: bit 0 = first word zero, bit 1 = the rest zero
  printf(" B ");
  for (size_t i = 0; i < page->reserved; i++) {
    const uint8_t* b = start + i * bsize;
    int w0 = really_zero(b, 8, NULL), rest = (bsize > 8 ? really_zero(b + 8, bsize - 8, NULL) : 1);
    putchar('0' + (w0 ? 1 : 0) + (rest ? 2 : 0));
  }
  putchar('\n');
  // knowledge flags that are set
  if (page->free_is_zero) {
    int z = 1; size_t bad = 0;
    for (mi_block_t* b = page->free; b != NULL && z; b = mi_block_next(page, b))
      if (bsize > 8 && !really_zero((uint8_t*)b + 8, bsize - 8, NULL)) { z = 0; bad = (size_t)((uint8_t*)b - start) / bsize; }
    printf("T zf %ld page %zu 1 fiz %d %zu\n", opno, (size_t)sg / SLICE + lo, z, bad);
  }
  if (page->is_zero_init) {
    size_t where = 0; int z = really_zero(start + (size_t)page->capacity * bsize, ((size_t)page->reserved - page->capacity) * bsize, &where);
    printf("T zf %ld page %zu 1 izi %d %zu\n", opno, (size_t)sg / SLICE + lo, z, z ? (size_t)0 : page->capacity + where / bsize);
  }
}

static void mode_P(long nops, int variant) {
  common_options(10);
  printf("CFG P %d\n", variant);
  add_arena(4, (variant >> 1) & 1, 1, 0);
  mi_heap_t* heap = mi_prim_get_default_heap();
  static const size_t classes[] = { 32, 48, 64, 80, 96, 112, 128, 160, 192, 224, 256, 320, 384, 448, 512, 640, 768, 896, 1024, 1280, 1536,
                                    2048, 2560, 3072, 4096, 5120, 6144, 8192, 10240, 12288, 16384, 20480, 24576, 32768, 40960, 49152, 65536 };
  const size_t nclasses = sizeof(classes) / sizeof(classes[0]);
  int usedc[64] = { 0 };
  long done = 0; int round = 0;
  // a first segment that stays alive (a long-lived block), and a dirtied + freed page so that later pages re-use slices
  void* keep = mi_malloc(24); (void)keep;
  while (done < nops && round < (int)nclasses) {
    size_t ci; do { ci = prng_below(&G, nclasses); } while (usedc[ci]); usedc[ci] = 1; round++;
    const size_t size = classes[ci];
    if ((variant & 1) && prng_below(&G, 2) == 0) {
      // first dirty a page of ANOTHER class and release it, so that the next page sits on re-used (dirty) slices
      size_t cj = (ci + 1) % nclasses;
      if (!usedc[cj]) { void* q = mi_malloc(classes[cj]); memset(q, 0xa5, classes[cj]); mi_free(q); mi_collect(true); }
    }
    void* anchor = mi_malloc(size);
    if (anchor == NULL) break;
    mi_page_t* page = _mi_ptr_page(anchor);
    const size_t bsize = mi_page_block_size(page);
    size_t psize; uint8_t* start = _mi_segment_page_start(_mi_page_segment(page), page, &psize);
    // may the flags be set truthfully?  all free blocks zero behind the link, the never-extended area zero
    int truth = really_zero(start + (size_t)page->capacity * bsize, ((size_t)page->reserved - page->capacity) * bsize, NULL);
    for (mi_block_t* b = page->free; b != NULL && truth; b = mi_block_next(page, b)) if (!really_zero((uint8_t*)b + 8, bsize - 8, NULL)) truth = 0;
    size_t pick = prng_below(&G, 4);
    if (truth && pick >= 1) { page->is_zero_init = 1; if (pick >= 2) page->free_is_zero = 1; }
    opno++;
    printf("O %ld I %zu %d %d\n", opno, size, truth, (int)pick);
    dump_page("I", page); printf("E\n");
    void* live[4096]; size_t nlive = 0;
    long per = 40 + (long)prng_below(&G, 160);
    for (long k = 0; k < per && done < nops; k++, done++) {
      opno++;
      size_t r = prng_below(&G, 100);
      if (r < 38 && page->free != NULL && nlive < 4096) {
        int zero = (int)prng_below(&G, 2);
        void* p = _mi_page_malloc_zero(heap, page, bsize, zero != 0);
        printf("O %ld m %d = %zu\n", opno, zero, (size_t)((uint8_t*)p - start) / bsize);
        if (zero) { size_t where = 0; int z = really_zero(p, bsize, &where); printf("T zret %ld %llu %zu %d %zu\n", opno, U(p), bsize, z, z ? (size_t)0 : where); }
        live[nlive++] = p;
      }
      else if (r < 58 && nlive > 0) {
        size_t i = prng_below(&G, nlive); uint8_t* p = (uint8_t*)live[i];
        int w0 = (int)prng_below(&G, 2), rest = (bsize > 8) ? (int)prng_below(&G, 2) : 0;
        if (!w0 && !rest) w0 = 1;
        if (w0) p[prng_below(&G, 8)] = (uint8_t)(1 + prng_below(&G, 255));
        if (rest) p[8 + prng_below(&G, bsize - 8)] = (uint8_t)(1 + prng_below(&G, 255));
        printf("O %ld w %zu %d %d\n", opno, (size_t)(p - start) / bsize, w0, rest);
      }
      else if (r < 80 && nlive > 0) {
        size_t i = prng_below(&G, nlive); void* p = live[i]; live[i] = live[--nlive];
        printf("O %ld f %zu\n", opno, (size_t)((uint8_t*)p - start) / bsize);
        mi_free(p);
      }
      else if (r < 92) {
        int force = (int)prng_below(&G, 3) == 0;
        _mi_page_free_collect(page, force != 0);
        printf("O %ld c %d\n", opno, force);
      }
      else {
        mi_page_extend_free(heap, page, heap->tld);
        printf("O %ld e\n", opno);
      }
      dump_page("D", page); printf("E\n");
    }
    // leave the page in a state the allocator can go on with: no manufactured knowledge, everything freed
    page->is_zero_init = 0; page->free_is_zero = 0;
    for (size_t i = 0; i < nlive; i++) mi_free(live[i]);
    mi_free(anchor);
    if (prng_below(&G, 2) == 0) mi_collect(true);
  }
}

// ================================================================ mode A: the public API
#define MAXSLOT 160
static struct { void* p; size_t size; int kind; } slots[MAXSLOT];   // kind: 0 free, 1 small/medium, 2 large, 3 huge
// per segment base: the slices that were ever part of a page (as far as the dumps show) since the base was first seen
#define MAXSEG 512
static int seg_overflow = 0;   // more live segments than the tables hold: the run stops before an incomplete dump is printed
static struct { size_t base; uint8_t* used; size_t nslices; int live; } segsh[MAXSEG];

static mi_segment_t* seglist[MAXSEG]; static size_t nsegl;
static void add_seg(mi_segment_t* s) { for (size_t i = 0; i < nsegl; i++) if (seglist[i] == s) return; if (nsegl < MAXSEG) seglist[nsegl++] = s; else seg_overflow = 1; }
static int seg_cmp(const void* a, const void* b) { uintptr_t x = (uintptr_t)*(mi_segment_t* const*)a, y = (uintptr_t)*(mi_segment_t* const*)b; return x < y ? -1 : x > y; }

static void dump_api(int full_scan) {
  mi_heap_t* heap = mi_prim_get_default_heap();
  nsegl = 0;
  for (size_t bin = 0; bin <= MI_BIN_FULL; bin++)
    for (mi_page_t* page = heap->pages[bin].first; page != NULL; page = page->next) add_seg(_mi_page_segment(page));
  if (seg_overflow) { printf("END %ld\n", opno); fflush(stdout); exit(0); }   // (no E: the replay ignores the unfinished op)
  qsort(seglist, nsegl, sizeof(seglist[0]), seg_cmp);
  dump_arenas(full_scan);
  for (size_t i = 0; i < MAXSEG; i++) if (segsh[i].live) segsh[i].live = 2;    // 2 = not seen in this dump yet
  for (size_t i = 0; i < nsegl; i++) {
    mi_segment_t* s = seglist[i];
    size_t ai = 0, b0 = 0, nb = 0; int kind = 2;
    if (s->memid.memkind == MI_MEM_ARENA) { kind = 1; mi_arena_memid_indices(s->memid, &ai, &b0); nb = mi_block_count_of_size(mi_segment_size(s)); }
    const size_t sid = (size_t)s / SLICE;
    printf("S %zu %d %zu %zu %zu %d %d %d %zu %zu\n", sid, kind, ai, b0, nb, s->memid.initially_zero ? 1 : 0, s->memid.initially_committed ? 1 : 0,
           s->kind == MI_SEGMENT_HUGE ? 1 : 0, s->segment_slices, s->segment_info_slices);
    // shadow: slices ever under a page
    size_t k = MAXSEG;
    for (size_t j = 0; j < MAXSEG; j++) if (segsh[j].live && segsh[j].base == sid) k = j;
    if (k == MAXSEG || segsh[k].nslices != s->segment_slices) {
      if (k == MAXSEG) { for (size_t j = 0; j < MAXSEG; j++) if (!segsh[j].live) { k = j; break; } }
      if (k == MAXSEG) continue;
      free(segsh[k].used); segsh[k].used = (uint8_t*)calloc(s->segment_slices + 1, 1); segsh[k].nslices = s->segment_slices; segsh[k].base = sid;
    }
    segsh[k].live = 1;
    const mi_slice_t* end = mi_segment_slices_end(s);
    for (mi_slice_t* sl = &s->slices[0]; sl < end; sl += sl->slice_count) {
      if (sl->slice_count == 0) break;
      if (sl->block_size == 0) continue;                                  // a free span
      size_t lo = (size_t)(sl - s->slices), cnt = sl->slice_count;
      for (size_t x = lo; x < lo + cnt && x < s->segment_slices; x++) segsh[k].used[x] = 1;
      if (sl == &s->slices[0]) continue;                                  // the header span
      mi_page_t* page = mi_slice_to_page(sl);
      if (page->block_size <= 1 || page->page_start == NULL) continue;    // allocated but not (yet) initialised
      const size_t bsize = mi_page_block_size(page);
      size_t psize; uint8_t* start = _mi_segment_page_start(s, page, &psize);
      size_t nfree = 0, nlocal = 0;
      for (mi_block_t* b = page->free; b != NULL; b = mi_block_next(page, b)) nfree++;
      for (mi_block_t* b = page->local_free; b != NULL; b = mi_block_next(page, b)) nlocal++;
      printf("G %zu %zu %zu %zu %zu %zu %d %u %u %u %d %d %zu %zu\n", sid + lo, sid, lo, cnt, bsize, psize, page->is_huge ? 1 : 0, page->reserved, page->capacity,
             page->used, page->free_is_zero ? 1 : 0, page->is_zero_init ? 1 : 0, nfree, nlocal);
      if (page->free_is_zero) {
        int z = 1; size_t bad = 0;
        for (mi_block_t* b = page->free; b != NULL && z; b = mi_block_next(page, b))
          if (bsize > 8 && !really_zero((uint8_t*)b + 8, bsize - 8, NULL)) { z = 0; bad = (size_t)((uint8_t*)b - start) / bsize; }
        printf("T zf %ld page %zu 1 fiz %d %zu\n", opno, sid + lo, z, bad);
      }
      if (page->is_zero_init && !page->is_huge) {
        size_t where = 0; int z = really_zero(start + (size_t)page->capacity * bsize, ((size_t)page->reserved - page->capacity) * bsize, &where);
        printf("T zf %ld page %zu 1 izi %d %zu\n", opno, sid + lo, z, z ? (size_t)0 : page->capacity + where / bsize);
      }
    }
    // knowledge: memid.initially_zero => every slice that never was under a page is zero
    if (s->memid.initially_zero && s->kind != MI_SEGMENT_HUGE) {
      int z = 1; size_t bad = 0, where = 0;
      for (size_t x = s->segment_info_slices; x < s->segment_slices && z; x++) {
        if (segsh[k].used[x]) continue;
        if (!really_zero((uint8_t*)s + x * SLICE, full_scan ? SLICE : 2 * SHIM_PAGE, &where)) { z = 0; bad = x; }
      }
      printf("T zf %ld seg %zu 1 %zu %d %zu\n", opno, sid, bad, z, where);
    }
  }
  for (size_t i = 0; i < MAXSEG; i++) if (segsh[i].live == 2) { segsh[i].live = 0; }
}

static void mode_A(long nops, int variant) {
  const long delay = (variant & 1) ? 0 : 10;
  common_options(delay);
  mi_option_set(mi_option_eager_commit, (variant >> 1) & 1);
  if ((variant >> 4) & 1) mi_option_set(mi_option_disallow_arena_alloc, 1);   // every segment comes from the OS
  printf("CFG A %d %ld\n", variant, delay);
  add_arena(3 + prng_below(&G, 3), (variant >> 2) & 1, !((variant >> 3) & 1), 0);
  opno = 0; printf("O 0 init\n"); dump_api(1); printf("E\n");
  for (long k = 0; k < nops; k++) {
    opno++;
    size_t r = prng_below(&G, 100);
    int nlive = 0; for (int i = 0; i < MAXSLOT; i++) nlive += (slots[i].kind != 0);
    if ((r < 50 && nlive < MAXSLOT - 1) || nlive == 0) {
      int s = 0; while (slots[s].kind) s++;
      size_t c = prng_below(&G, 100), size; int kind;
      if (c < 40)      { size = 8 + prng_below(&G, 1017); kind = 1; }
      else if (c < 62) { size = 1025 + prng_below(&G, 130000); kind = 1; }
      else if (c < 86) { size = MI_MEDIUM_OBJ_SIZE_MAX + 1 + prng_below(&G, 3 * 1024 * 1024); kind = 2; }
      else if (c < 92) { size = 4 * 1024 * 1024 + prng_below(&G, MI_LARGE_OBJ_SIZE_MAX - 4 * 1024 * 1024); kind = 2; }
      else             { size = MI_LARGE_OBJ_SIZE_MAX + 1 + prng_below(&G, 40 * 1024 * 1024); kind = 3; }
      int zero = (int)prng_below(&G, 2);
      void* p = zero ? mi_zalloc(size) : mi_malloc(size);
      printf("O %ld %c %d %zu = %llu\n", opno, zero ? 'z' : 'm', s, size, U(p));
      if (p != NULL) {
        if (zero) { size_t us = mi_usable_size(p), where = 0; int z = really_zero(p, us, &where); printf("T zret %ld %llu %zu %d %zu\n", opno, U(p), us, z, z ? (size_t)0 : where); }
        slots[s].p = p; slots[s].size = size; slots[s].kind = kind;
      }
    }
    else if (r < 66 && nlive > 0) {
      int s; do { s = (int)prng_below(&G, MAXSLOT); } while (!slots[s].kind);
      uint8_t* p = (uint8_t*)slots[s].p; size_t us = mi_usable_size(p);
      if (us <= 256 * 1024) memset(p, 0xa5, us);
      else { memset(p, 0xa5, 8192); memset(p + us - 8192, 0x5a, 8192); for (int j = 0; j < 24; j++) memset(p + (prng_below(&G, us - 4096) & ~(size_t)7), 0x3c, 64); }
      printf("O %ld w %d\n", opno, s);
    }
    else if (r < 90 && nlive > 0) {
      int s; do { s = (int)prng_below(&G, MAXSLOT); } while (!slots[s].kind);
      printf("O %ld f %d %llu\n", opno, s, U(slots[s].p));
      mi_free(slots[s].p); slots[s].kind = 0; slots[s].p = NULL;
    }
    else if (r < 96) {
      int force = (int)prng_below(&G, 2);
      printf("O %ld c %d\n", opno, force);
      mi_collect(force != 0);
    }
    else {
      shim_clock_advance_ms(100000);
      printf("O %ld t\n", opno);
      mi_collect(false);
    }
    dump_api(k + 1 == nops);
    printf("E\n");
  }
}

int main(int argc, char** argv) {
  uint64_t seed = argc > 1 ? strtoull(argv[1], NULL, 10) : 1;
  long nops = argc > 2 ? atol(argv[2]) : 200;
  const char* mode = argc > 3 ? argv[3] : "A";
  int variant = argc > 4 ? atoi(argv[4]) : 0;
  prng_seed(&G, seed ^ ((uint64_t)mode[0] << 32) ^ ((uint64_t)variant << 40));
  signal(SIGSEGV, on_crash); signal(SIGBUS, on_crash); signal(SIGABRT, on_crash);
  setvbuf(stdout, NULL, _IOFBF, 1 << 16);
  if (mode[0] == 'R') mode_R(nops, variant);
  else if (mode[0] == 'P') mode_P(nops, variant);
  else mode_A(nops, variant);
  printf("END %ld\n", opno);
  return 0;
}
