// C18 (and the purge clauses of C13): purge scheduling under the OS shim and a VIRTUAL CLOCK.
// Built with -Dmmap=shim_mmap -Dmunmap=shim_munmap -Dmprotect=shim_mprotect -Dmadvise=shim_madvise
// -Dclock_gettime=shim_clock_gettime and linked with shim.o (no change to /repo).
//
//   t_purge F <seed> <thorough>          function-level records: the REAL mi_segment_commit / ensure_committed /
//                                        purge / schedule_purge / try_purge on a segment header placed in a real
//                                        32 MiB mapping, and the REAL mi_arena_purge / schedule_purge / try_purge,
//                                        mi_arenas_try_purge, _mi_arena_free on real arenas, with random masks,
//                                        bitmaps, expiry times, options and `now`; printed as `F ...` records
//                                        (format: ocaml/mode_os.ml) with the system calls seen by the shim.
//   t_purge T <seed> <delay> <decommits> workloads through the public API for one option setting:
//                                        W1 free whole pages inside a segment, W2 free whole segments,
//                                        W3 free everything; prints `T step ...` records with what the shim saw
//                                        and what is expected, and F records of the real segment/arenas around
//                                        the non-forced purge.
//   t_purge S <seed> <delay> <decommits> <rounds>  scattered page frees inside one segment (pending purge mask with runs in several
//                                        64-bit words, positions biased to the word boundaries), virtual clock, non-forced
//                                        activity; prints `T scatter ...` records (per-slice oracles: early / missing /
//                                        livehit / content) and F records of the real mi_segment_try_purge.
//   t_purge X <seed> / t_purge X2 <seed> the two regression scenarios of `arena-global-expiry-reset` (two arenas; one arena
//                                        with a forced collect in the history): a pending arena must be purged by non-forced passes.
#include REPO_STATIC
#include <stdio.h>
#include <stdlib.h>
#include <string.h>
#include <stdarg.h>
#include <inttypes.h>
#include "prng.h"
#include "shim.h"

#define U(x) ((unsigned long long)(x))
static prng_t G;

// ---------------------------------------------------------------- record buffer
static char  B[1 << 20];
static size_t BL;
static void bclear(void) { BL = 0; B[0] = 0; }
static void bp(const char* fmt, ...) {
  va_list ap; va_start(ap, fmt);
  int n = vsnprintf(B + BL, sizeof(B) - BL, fmt, ap);
  va_end(ap);
  if (n > 0) BL += (size_t)n;
  if (BL >= sizeof(B) - 1) { fprintf(stderr, "record buffer overflow\n"); exit(3); }
}
static void bflush(void) { fputs(B, stdout); fputc('\n', stdout); bclear(); }

static void b_cfg(void) {
  bp(" %ld %d %ld %ld %d %ld", mi_option_get(mi_option_purge_delay), mi_option_is_enabled(mi_option_purge_decommits) ? 1 : 0,
     mi_option_get(mi_option_arena_purge_mult), mi_option_get(mi_option_purge_extend_delay), (MI_DEBUG || MI_SECURE) ? 1 : 0,
     mi_option_get(mi_option_allow_large_os_pages));
}
static void b_mask(const mi_commit_mask_t* m) { for (int i = 0; i < MI_COMMIT_MASK_FIELD_COUNT; i++) bp(" %llu", U(m->mask[i])); }
static void b_seg(const mi_segment_t* s) {
  bp(" %llu %d %llu %llu", U(s), s->kind == MI_SEGMENT_HUGE ? 1 : 0, U(mi_segment_size((mi_segment_t*)s)), U(mi_segment_info_size((mi_segment_t*)s)));
  b_mask(&s->commit_mask); b_mask(&s->purge_mask);
  bp(" %lld %d %d", (long long)s->purge_expire, s->allow_decommit ? 1 : 0, s->allow_purge ? 1 : 0);
}
static void b_sego(const mi_segment_t* s) { b_mask(&s->commit_mask); b_mask(&s->purge_mask); bp(" %lld", (long long)s->purge_expire); }
static void b_arena(mi_arena_t* a) {
  bp(" %llu %zu %zu", U(a->start), a->block_count, a->field_count);
  for (size_t i = 0; i < a->field_count; i++) bp(" %llu", U(a->blocks_inuse[i]));
  for (size_t i = 0; i < a->field_count; i++) bp(" %llu", U(a->blocks_committed ? a->blocks_committed[i] : 0));
  for (size_t i = 0; i < a->field_count; i++) bp(" %llu", U(a->blocks_purge ? a->blocks_purge[i] : 0));
  bp(" %lld %d", (long long)mi_atomic_loadi64_relaxed(&a->purge_expire), a->memid.is_pinned ? 1 : 0);
}
static void b_arenao(mi_arena_t* a) {
  for (size_t i = 0; i < a->field_count; i++) bp(" %llu", U(a->blocks_inuse[i]));
  for (size_t i = 0; i < a->field_count; i++) bp(" %llu", U(a->blocks_committed ? a->blocks_committed[i] : 0));
  for (size_t i = 0; i < a->field_count; i++) bp(" %llu", U(a->blocks_purge ? a->blocks_purge[i] : 0));
  bp(" %lld", (long long)mi_atomic_loadi64_relaxed(&a->purge_expire));
}
static void b_answers(size_t from) {
  size_t n = shim_log_count();
  bp(" %zu", n - from);
  for (size_t i = from; i < n; i++) { shim_call_t c; shim_log_get(i, &c); bp(" %d %llu", c.err == 0 ? 1 : 0, U(c.kind == SHIM_MMAP ? c.result : 0)); }
}
static void b_calls(size_t from) {
  size_t n = shim_log_count();
  bp(" %zu", n - from);
  for (size_t i = from; i < n; i++) { shim_call_t c; shim_log_get(i, &c); bp(" %d %llu %zu %ld", c.kind, U(c.addr), c.len, c.arg); }
}
static void b_samples(uint8_t* base, size_t len, uint8_t* p, size_t size) {
  const int n = 6;
  bp(" %d", n);
  for (int i = 0; i < n; i++) {
    uint8_t* a;
    if (i < 3 && size > 0) a = p + (i == 0 ? 0 : i == 1 ? size - 1 : prng_below(&G, size)); else a = base + prng_below(&G, len);
    if (a < base) a = base;
    if (a >= base + len) a = base + len - 1;
    bp(" %llu %d", U(a), shim_page_state(a));
  }
}
static void set_cfg(long delay, int decommits, long mult, long extend) {
  mi_option_set(mi_option_purge_delay, delay);
  mi_option_set(mi_option_purge_decommits, decommits);
  mi_option_set(mi_option_arena_purge_mult, mult);
  mi_option_set(mi_option_purge_extend_delay, extend);
}
static void rnd_cfg(void) {
  static const long delays[] = { -1, 0, 1, 5, 10, 10, 100 };
  static const long mults[] = { 1, 10, 10, 3, 0 };
  static const long exts[] = { 0, 1, 1, 3 };
  set_cfg(delays[prng_below(&G, 7)], (int)prng_below(&G, 2), mults[prng_below(&G, 5)], exts[prng_below(&G, 4)]);
}

// ---------------------------------------------------------------- F: segment functions on a header in a real mapping
static void rnd_mask_in(mi_commit_mask_t* m, size_t lo) {   // random mask with no bit below lo
  mi_commit_mask_create_empty(m);
  switch (prng_below(&G, 6)) {
    case 0: break;
    case 1: mi_commit_mask_create(lo, MI_COMMIT_MASK_BITS - lo, m); break;
    case 2: for (int i = 0; i < MI_COMMIT_MASK_FIELD_COUNT; i++) m->mask[i] = prng_next(&G); break;
    case 3: for (int i = 0; i < MI_COMMIT_MASK_FIELD_COUNT; i++) m->mask[i] = prng_next(&G) & prng_next(&G) & prng_next(&G); break;
    default: {
      int runs = 1 + (int)prng_below(&G, 5);
      for (int r = 0; r < runs; r++) {
        size_t idx = lo + prng_below(&G, MI_COMMIT_MASK_BITS - lo);
        if (prng_below(&G, 3) == 0 && idx >= 64) idx = (idx / 64) * 64 - prng_below(&G, 3);
        size_t cnt = 1 + prng_below(&G, prng_below(&G, 2) ? 6 : 150);
        if (idx + cnt > MI_COMMIT_MASK_BITS) cnt = MI_COMMIT_MASK_BITS - idx;
        mi_commit_mask_t t; mi_commit_mask_create(idx, cnt, &t); mi_commit_mask_set(m, &t);
      }
    }
  }
  if (lo > 0) { mi_commit_mask_t t; mi_commit_mask_create(0, lo, &t); mi_commit_mask_clear(m, &t); }
}

static void f_segments(int n) {
  mi_memid_t memid;
  uint8_t* base = (uint8_t*)_mi_os_alloc_aligned(MI_SEGMENT_SIZE, MI_SEGMENT_ALIGN, true, false, &memid);
  if (base == NULL) { fprintf(stderr, "cannot map a segment\n"); exit(2); }
  printf("K reset\nK map %llu %llu 1\n", U(base), U(MI_SEGMENT_SIZE));
  mi_segment_t* s = (mi_segment_t*)base;
  for (int it = 0; it < n; it++) {
    if (it > 0 && it % 250 == 0) {
      // a fresh mapping now and then: the page-state history the model has to carry stays short
      _mi_os_free_ex(base, MI_SEGMENT_SIZE, true, memid);
      base = (uint8_t*)_mi_os_alloc_aligned(MI_SEGMENT_SIZE, MI_SEGMENT_ALIGN, true, false, &memid);
      if (base == NULL) { fprintf(stderr, "cannot map a segment\n"); exit(2); }
      printf("K reset\nK map %llu %llu 1\n", U(base), U(MI_SEGMENT_SIZE));
      s = (mi_segment_t*)base;
    }
    rnd_cfg();
    const long delay = mi_option_get(mi_option_purge_delay);
    const size_t info = 1 + prng_below(&G, 2);
    memset(s, 0, offsetof(mi_segment_t, slices));
    s->kind = (prng_below(&G, 30) == 0 ? MI_SEGMENT_HUGE : MI_SEGMENT_NORMAL);
    s->segment_slices = MI_SLICES_PER_SEGMENT;
    s->segment_info_slices = info;
    mi_commit_mask_t infomask; mi_commit_mask_create(0, info, &infomask);
    rnd_mask_in(&s->commit_mask, 0); mi_commit_mask_set(&s->commit_mask, &infomask);
    rnd_mask_in(&s->purge_mask, info);
    if (prng_below(&G, 8) != 0) { mi_commit_mask_t t; mi_commit_mask_create_intersect(&s->commit_mask, &s->purge_mask, &t); s->purge_mask = t; }  // purge within commit (the invariant)
    const mi_msecs_t now = 1000000 + (mi_msecs_t)prng_below(&G, 100000);
    shim_clock_set_ms(now);
    if (mi_commit_mask_is_empty(&s->purge_mask) && prng_below(&G, 6) != 0) s->purge_expire = 0;
    else {
      switch (prng_below(&G, 7)) {
        case 0: s->purge_expire = 0; break;
        case 1: s->purge_expire = now; break;
        case 2: s->purge_expire = now + 1; break;
        case 3: s->purge_expire = now - 1; break;
        case 4: s->purge_expire = now - (mi_msecs_t)prng_below(&G, 5); break;
        case 5: s->purge_expire = now + (mi_msecs_t)prng_below(&G, 200); break;
        default: s->purge_expire = now - (mi_msecs_t)prng_below(&G, 200); break;
      }
    }
    if (s->purge_expire == 0 && !mi_commit_mask_is_empty(&s->purge_mask) && prng_below(&G, 4) != 0) s->purge_expire = now - 2 + (mi_msecs_t)prng_below(&G, 4);
    s->allow_decommit = (prng_below(&G, 12) != 0);
    s->allow_purge = (prng_below(&G, 10) == 0 ? (prng_below(&G, 2) != 0) : (s->allow_decommit && delay >= 0));
    // the range
    size_t pstart, size;
    const int op = (int)prng_below(&G, 5);
    const size_t lo = (op <= 1 ? 0 : info * MI_SEGMENT_SLICE_SIZE);     // purge/schedule never touch the info slices
    if (prng_below(&G, 4) != 0) {
      size_t s0 = lo / MI_SEGMENT_SLICE_SIZE + prng_below(&G, MI_SLICES_PER_SEGMENT - lo / MI_SEGMENT_SLICE_SIZE);
      size_t c = 1 + prng_below(&G, prng_below(&G, 2) ? 8 : 120);
      if (s0 + c > MI_SLICES_PER_SEGMENT) c = MI_SLICES_PER_SEGMENT - s0;
      pstart = s0 * MI_SEGMENT_SLICE_SIZE; size = c * MI_SEGMENT_SLICE_SIZE;
      if (prng_below(&G, 5) == 0 && size > 8192) { pstart += 4096 * prng_below(&G, 3); size -= 4096 * (2 + prng_below(&G, 2)); }
    }
    else {
      pstart = lo + prng_below(&G, MI_SEGMENT_SIZE - lo);
      size = 1 + prng_below(&G, prng_below(&G, 2) ? 3 * MI_SEGMENT_SLICE_SIZE : MI_SEGMENT_SIZE);
      if (pstart + size > MI_SEGMENT_SIZE) size = MI_SEGMENT_SIZE - pstart;
    }
    uint8_t* p = base + pstart;
    const bool force = (prng_below(&G, 3) == 0);
    const char* fn = (op == 0 ? "seg_commit" : op == 1 ? "seg_ensure" : op == 2 ? "seg_purge" : op == 3 ? "seg_schedule" : "seg_try_purge");
    bclear(); bp("F %s", fn); b_cfg(); b_seg(s);
    if (op == 4) bp(" %d %lld", force ? 1 : 0, (long long)now);
    else if (op == 2) bp(" %llu %llu", U(p), U(size));
    else bp(" %llu %llu %lld", U(p), U(size), (long long)now);
    const size_t mark = shim_log_count();
    bool ok = true;
    switch (op) {
      case 0: ok = mi_segment_commit(s, p, size); break;
      case 1: ok = mi_segment_ensure_committed(s, p, size); break;
      case 2: mi_segment_purge(s, p, size); break;
      case 3: mi_segment_schedule_purge(s, p, size); break;
      default: mi_segment_try_purge(s, force); break;
    }
    b_answers(mark); bp(" =");
    if (op <= 1) bp(" %d", ok ? 1 : 0);
    b_sego(s); b_calls(mark); b_samples(base, MI_SEGMENT_SIZE, p, (op == 4 ? 0 : size));
    bflush();
  }
}

// ---------------------------------------------------------------- F: arena functions on real arenas
#define NAR 3
static mi_arena_t* AR[NAR];

static size_t rnd_word(void) {
  switch (prng_below(&G, 5)) { case 0: return 0; case 1: return ~(size_t)0; case 2: return prng_next(&G) & prng_next(&G); case 3: return prng_next(&G) | prng_next(&G); default: return prng_next(&G); }
}
static size_t valid_word(mi_arena_t* a, size_t i) {   // bits of field i that are blocks of the arena
  size_t lo = i * MI_BITMAP_FIELD_BITS;
  if (a->block_count >= lo + MI_BITMAP_FIELD_BITS) return ~(size_t)0;
  if (a->block_count <= lo) return 0;
  return (((size_t)1 << (a->block_count - lo)) - 1);
}
static void rnd_arena(mi_arena_t* a, mi_msecs_t now) {
  for (size_t i = 0; i < a->field_count; i++) {
    size_t v = valid_word(a, i);
    a->blocks_inuse[i] = (rnd_word() & v) | ~v;            // left-over bits stay claimed
    a->blocks_committed[i] = (prng_below(&G, 2) ? ~(size_t)0 : rnd_word());
    size_t pu = rnd_word() & v;
    if (prng_below(&G, 3) != 0) pu &= ~a->blocks_inuse[i];  // scheduled blocks are normally not in use
    if (prng_below(&G, 4) == 0) pu = 0;
    a->blocks_purge[i] = pu;
  }
  mi_msecs_t e;
  switch (prng_below(&G, 6)) { case 0: e = 0; break; case 1: e = now; break; case 2: e = now + 1; break; case 3: e = now - 1 - (mi_msecs_t)prng_below(&G, 300); break; case 4: e = now + (mi_msecs_t)prng_below(&G, 300); break; default: e = 0; break; }
  mi_atomic_storei64_relaxed(&a->purge_expire, e);
}

static void f_arenas(int n) {
  static const size_t blocks[NAR] = { 5, 70, 64 };
  for (int i = 0; i < NAR; i++) {
    mi_arena_id_t id;
    if (mi_reserve_os_memory_ex(blocks[i] * MI_ARENA_BLOCK_SIZE, (i == 0), false, true, &id) != 0) { fprintf(stderr, "cannot reserve arena %d\n", i); exit(2); }
    AR[i] = mi_arena_from_index(mi_arena_id_index(id));
    printf("K map %llu %llu %d\n", U(AR[i]->start), U(AR[i]->block_count * MI_ARENA_BLOCK_SIZE), (i == 0) ? 1 : 0);
  }
  if (mi_arena_get_count() != NAR) { fprintf(stderr, "unexpected arena count %zu\n", mi_arena_get_count()); exit(2); }
  for (int it = 0; it < n; it++) {
    rnd_cfg();
    const mi_msecs_t now = 2000000 + (mi_msecs_t)prng_below(&G, 100000);
    shim_clock_set_ms(now);
    for (int i = 0; i < NAR; i++) rnd_arena(AR[i], now);
    mi_msecs_t g;
    switch (prng_below(&G, 6)) { case 0: g = 0; break; case 1: g = now; break; case 2: g = now + 1; break; case 3: g = now - 1 - (mi_msecs_t)prng_below(&G, 300); break; case 4: g = now + (mi_msecs_t)prng_below(&G, 300); break; default: g = 0; break; }
    mi_atomic_storei64_relaxed(&mi_arenas_purge_expire, g);
    mi_arena_t* a = AR[prng_below(&G, NAR)];
    size_t idx = prng_below(&G, a->block_count);
    size_t cnt = 1 + prng_below(&G, prng_below(&G, 2) ? 3 : a->block_count);
    if (idx + cnt > a->block_count) cnt = a->block_count - idx;
    const bool force = (prng_below(&G, 3) == 0);
    const bool visit_all = (prng_below(&G, 2) == 0);
    const int op = (int)prng_below(&G, 5);
    bclear();
    const size_t mark = shim_log_count();
    switch (op) {
      case 0: {
        bp("F arena_purge"); b_cfg(); b_arena(a); bp(" %zu %zu", idx, cnt);
        mi_arena_purge(a, idx, cnt);
        b_answers(mark); bp(" ="); b_arenao(a); b_calls(mark);
        break;
      }
      case 1: {
        bp("F arena_schedule"); b_cfg(); bp(" %lld", (long long)g); b_arena(a); bp(" %zu %zu %lld", idx, cnt, (long long)now);
        mi_arena_schedule_purge(a, idx, cnt);
        b_answers(mark); bp(" = %lld", (long long)mi_atomic_loadi64_relaxed(&mi_arenas_purge_expire)); b_arenao(a); b_calls(mark);
        break;
      }
      case 2: {
        bp("F arena_try_purge"); b_cfg(); b_arena(a); bp(" %lld %d", (long long)now, force ? 1 : 0);
        bool any = mi_arena_try_purge(a, now, force);
        b_answers(mark); bp(" = %d", any ? 1 : 0); b_arenao(a); b_calls(mark);
        break;
      }
      case 3: {
        bp("F arenas_try_purge"); b_cfg(); bp(" %lld %d", (long long)g, NAR);
        for (int i = 0; i < NAR; i++) b_arena(AR[i]);
        bp(" %lld %d %d", (long long)now, force ? 1 : 0, visit_all ? 1 : 0);
        mi_arenas_try_purge(force, visit_all);
        b_answers(mark); bp(" = %lld", (long long)mi_atomic_loadi64_relaxed(&mi_arenas_purge_expire));
        for (int i = 0; i < NAR; i++) b_arenao(AR[i]);
        b_calls(mark);
        break;
      }
      default: {
        // a valid free: the blocks are in use (sometimes not: "already freed")
        if (prng_below(&G, 10) != 0) _mi_bitmap_claim_across(a->blocks_inuse, a->field_count, cnt, idx, NULL, NULL);
        if (prng_below(&G, 2) != 0) _mi_bitmap_unclaim_across(a->blocks_purge, a->field_count, cnt, idx);
        const bool allc = (prng_below(&G, 3) != 0);
        int ai = 0; for (int i = 0; i < NAR; i++) if (AR[i] == a) ai = i;
        bp("F arena_free"); b_cfg(); bp(" %lld %d", (long long)g, NAR);
        for (int i = 0; i < NAR; i++) b_arena(AR[i]);
        bp(" %d %zu %zu %d %lld", ai, idx, cnt, allc ? 1 : 0, (long long)now);
        mi_memid_t memid = mi_memid_create_arena(a->id, a->exclusive, idx);
        memid.is_pinned = a->memid.is_pinned;
        const size_t size = cnt * MI_ARENA_BLOCK_SIZE;
        _mi_arena_free(a->start + idx * MI_ARENA_BLOCK_SIZE, size, allc ? size : size / 2, memid);
        b_answers(mark); bp(" = %lld", (long long)mi_atomic_loadi64_relaxed(&mi_arenas_purge_expire));
        for (int i = 0; i < NAR; i++) b_arenao(AR[i]);
        b_calls(mark);
        break;
      }
    }
    bflush();
  }
}

// ---------------------------------------------------------------- T: workloads through the public API
typedef struct { uint8_t* p; size_t len; } range_t;
static range_t TR[4096]; static size_t NTR;
static void track(uint8_t* p, size_t len) {
  for (size_t i = 0; i < NTR; i++) if (TR[i].p == p) return;
  if (NTR < 4096) { TR[NTR].p = p; TR[NTR].len = len; NTR++; }
}
static size_t track_mark;     // shim log index at which the tracked memory became unused
// total tracked bytes, bytes carrying the shim's purged mark, and bytes covered by a successful
// madvise(MADV_DONTNEED|MADV_FREE) issued since track_mark
static void tracked_stats(size_t* total, size_t* purged, size_t* covered) {
  size_t t = 0, pu = 0, cov = 0;
  const size_t nlog = shim_log_count();
  for (size_t i = 0; i < NTR; i++) {
    size_t x; shim_range_stats(TR[i].p, TR[i].len, NULL, NULL, NULL, &x); t += TR[i].len; pu += x;
    const size_t np = TR[i].len / SHIM_PAGE;
    uint8_t* bm = (uint8_t*)calloc(np ? np : 1, 1);
    for (size_t k = track_mark; k < nlog; k++) {
      shim_call_t c; shim_log_get(k, &c);
      if (c.kind != SHIM_MADVISE || c.err != 0 || !(c.arg == 4 /*MADV_DONTNEED*/ || c.arg == 8 /*MADV_FREE*/)) continue;
      uint8_t* lo = (uint8_t*)c.addr; uint8_t* hi = lo + c.len;
      if (hi <= TR[i].p || lo >= TR[i].p + TR[i].len) continue;
      if (lo < TR[i].p) lo = TR[i].p;
      if (hi > TR[i].p + TR[i].len) hi = TR[i].p + TR[i].len;
      for (size_t pg = (size_t)(lo - TR[i].p) / SHIM_PAGE; pg < (size_t)(hi - TR[i].p) / SHIM_PAGE; pg++) bm[pg] = 1;
    }
    for (size_t pg = 0; pg < np; pg++) cov += bm[pg];
    free(bm);
  }
  *total = t; *purged = pu; *covered = cov * SHIM_PAGE;
}
static size_t c_madv, c_mprot, c_mmap, c_munmap;
static void counters_mark(void) { c_madv = shim_count(SHIM_MADVISE); c_mprot = shim_count(SHIM_MPROTECT); c_mmap = shim_count(SHIM_MMAP); c_munmap = shim_count(SHIM_MUNMAP); }
static mi_msecs_t t_free;      // virtual time at which the tracked memory became unused
static void tracking_starts(void) { counters_mark(); t_free = shim_clock_now_ms(); track_mark = shim_log_count(); }
// expect: "none" no madvise/mprotect may be issued in this step; "all" every tracked byte must have been
// covered by a purging madvise since it became unused
static void t_step(const char* wl, const char* label, const char* expect, long threshold, int forced, long long expire) {
  size_t total, purged, covered; tracked_stats(&total, &purged, &covered);
  printf("T step wl=%s step=%s delay=%ld decommits=%d mult=%ld extend=%ld now=%lld since_free=%lld threshold=%ld forced=%d madvise=%zu mprotect=%zu mmap=%zu munmap=%zu covered=%zu marked=%zu tracked=%zu expire_rel=%lld expect=%s\n",
         wl, label, mi_option_get(mi_option_purge_delay), mi_option_is_enabled(mi_option_purge_decommits) ? 1 : 0, mi_option_get(mi_option_arena_purge_mult),
         mi_option_get(mi_option_purge_extend_delay),
         (long long)shim_clock_now_ms(), (long long)(shim_clock_now_ms() - t_free), threshold, forced,
         shim_count(SHIM_MADVISE) - c_madv, shim_count(SHIM_MPROTECT) - c_mprot, shim_count(SHIM_MMAP) - c_mmap, shim_count(SHIM_MUNMAP) - c_munmap,
         covered, purged, total, expire, expect);
  counters_mark();
}
static void page_span(void* p, uint8_t** start, size_t* len) {
  mi_segment_t* seg = _mi_ptr_segment(p);
  mi_page_t* page = _mi_segment_page_of(seg, p);
  mi_slice_t* slice = mi_page_to_slice(page);
  *start = (uint8_t*)seg + (size_t)(slice - seg->slices) * MI_SEGMENT_SLICE_SIZE;
  *len = (size_t)slice->slice_count * MI_SEGMENT_SLICE_SIZE;
}
static void f_real_segment_try_purge(mi_segment_t* seg) {   // the real segment, the real function, non-forced
  printf("K reset\nK map %llu %llu 1\n", U(seg), U(mi_segment_size(seg)));
  bclear(); bp("F seg_try_purge"); b_cfg(); b_seg(seg); bp(" 0 %lld", (long long)shim_clock_now_ms());
  const size_t mark = shim_log_count();
  mi_segment_try_purge(seg, false);
  b_answers(mark); bp(" ="); b_sego(seg); b_calls(mark); bp(" 0");   // no page samples: the pages have a history the model is not told
  bflush();
}
static void f_real_arenas_collect(void) {   // _mi_arenas_collect(false) through mi_collect(false), all real arenas
  const size_t n = mi_arena_get_count();
  printf("K reset\n");
  for (size_t i = 0; i < n; i++) { mi_arena_t* a = mi_arena_from_index(i); printf("K map %llu %llu 1\n", U(a->start), U(a->block_count * MI_ARENA_BLOCK_SIZE)); }
  bclear(); bp("F arenas_try_purge"); b_cfg(); bp(" %lld %zu", (long long)mi_atomic_loadi64_relaxed(&mi_arenas_purge_expire), n);
  for (size_t i = 0; i < n; i++) b_arena(mi_arena_from_index(i));
  bp(" %lld 0 0", (long long)shim_clock_now_ms());
  const size_t mark = shim_log_count();
  mi_collect(false);
  b_answers(mark); bp(" = %lld", (long long)mi_atomic_loadi64_relaxed(&mi_arenas_purge_expire));
  for (size_t i = 0; i < n; i++) b_arenao(mi_arena_from_index(i));
  b_calls(mark);
  bflush();
}

static void workloads(long delay, int decommits) {
  mi_option_set(mi_option_purge_delay, delay);
  mi_option_set(mi_option_purge_decommits, decommits);
  const long mult = mi_option_get(mi_option_arena_purge_mult);
  const long ext = mi_option_get(mi_option_purge_extend_delay);
  printf("T config delay=%ld decommits=%d mult=%ld extend=%ld overcommit=%d\n", delay, decommits, mult, ext, _mi_os_has_overcommit() ? 1 : 0);
  void* warm = mi_malloc(64); mi_free(warm);

  // ---- W1: free whole pages inside a segment (the segment stays alive)
  {
    const int N = 8; void* p[8]; void* keep0 = mi_malloc(1 << 20); void* keep1 = mi_malloc(1 << 20);
    for (int i = 0; i < N; i++) { p[i] = mi_malloc((1 << 20) + i * 70000); memset(p[i], 1, 4096); }
    mi_segment_t* seg = _mi_ptr_segment(keep0);
    NTR = 0;
    for (int i = 0; i < N; i++) { uint8_t* s; size_t l; page_span(p[i], &s, &l); if (_mi_ptr_segment(p[i]) == seg) track(s, l); }
    tracking_starts();
    for (int i = 0; i < N; i++) mi_free(p[i]);
    t_step("pages", "free", (delay == 0 ? "all" : "none"), delay, 0, 0);
    if (delay > 0) {
      shim_clock_advance_ms(delay - 1);
      void* q = mi_malloc(100 * 1024); mi_free(q);                   // ordinary activity in the same segment
      t_step("pages", "activity-before-delay", "none", delay, 0, 0);
    }
    else if (delay < 0) {
      shim_clock_advance_ms(100000);
      void* q = mi_malloc(100 * 1024); mi_free(q);
      mi_collect(false);
      t_step("pages", "activity-much-later", "none", delay, 0, 0);
    }
    // an ordinary page free in that segment after the delay: the freed pages AND the page freed now are purged
    if (_mi_ptr_segment(keep1) == seg) { uint8_t* s; size_t l; page_span(keep1, &s, &l); track(s, l); }
    shim_clock_advance_ms(delay > 0 ? 3 * delay + 10 * ext + 50 : 0);
    mi_free(keep1);
    t_step("pages", "page-free-after-delay", (delay < 0 ? "none" : "all"), delay, 0, 0);

    // second round on the same (real) segment: the non-forced mi_segment_try_purge itself, as called by the
    // next page allocation / page free of the segment
    if (delay > 0) {
      void* r[4];
      for (int i = 0; i < 4; i++) { r[i] = mi_malloc((1 << 20) + i * 4096); memset(r[i], 4, 4096); }
      NTR = 0;
      for (int i = 0; i < 4; i++) { uint8_t* s; size_t l; page_span(r[i], &s, &l); if (_mi_ptr_segment(r[i]) == seg) track(s, l); }
      tracking_starts();
      for (int i = 0; i < 4; i++) mi_free(r[i]);
      const long long erel = (long long)(seg->purge_expire - t_free);   // t_free+delay <= expire <= t_free+delay+3*extend
      t_step("pages2", "free", "none", delay, 0, erel);
      shim_clock_set_ms(seg->purge_expire - 1);
      f_real_segment_try_purge(seg);
      t_step("pages2", "try_purge-before-expiry", "none", delay, 0, erel);
      shim_clock_advance_ms(1);
      f_real_segment_try_purge(seg);
      t_step("pages2", "try_purge-at-expiry", "all", delay, 0, erel);
    }
    mi_free(keep0);
    mi_collect(false);
    counters_mark();
  }

  // ---- W2: free whole segments (huge blocks from the arena)
  {
    const int N = 4; void* p[4];
    for (int i = 0; i < N; i++) { p[i] = mi_malloc(20 * 1024 * 1024 + i * 4096); memset(p[i], 2, 8192); }
    NTR = 0;
    int in_arena = 0;
    for (int i = 0; i < N; i++) { mi_segment_t* s = _mi_ptr_segment(p[i]); track((uint8_t*)s, mi_segment_size(s)); if (s->memid.memkind == MI_MEM_ARENA) in_arena++; }
    printf("T info wl=segments in_arena=%d of=%d\n", in_arena, N);
    const long adelay = delay * mult;
    tracking_starts();
    for (int i = 0; i < N; i++) mi_free(p[i]);
    t_step("segments", "free", (delay == 0 ? "all" : "none"), adelay, 0, 0);
    if (delay > 0) {
      shim_clock_advance_ms(adelay - 1);
      mi_collect(false);
      t_step("segments", "collect-before-delay", "none", adelay, 0, 0);
      shim_clock_advance_ms(3);
      f_real_arenas_collect();                                       // mi_collect(false) just after the expiry
      t_step("segments", "collect-after-delay", "all", adelay, 0, 0);
    }
    else if (delay < 0) {
      shim_clock_advance_ms(1000000);
      mi_collect(false);
      t_step("segments", "collect-much-later", "none", adelay, 0, 0);
    }
    counters_mark();
    // second round: no pass at all before the delay has passed, then one non-forced collect
    if (delay > 0) {
      shim_clock_advance_ms(3 * adelay);
      mi_collect(false);
      void* r[2];
      for (int i = 0; i < 2; i++) { r[i] = mi_malloc(18 * 1024 * 1024 + i * 8192); memset(r[i], 6, 8192); }
      NTR = 0;
      for (int i = 0; i < 2; i++) { mi_segment_t* s = _mi_ptr_segment(r[i]); if (s->memid.memkind == MI_MEM_ARENA) track((uint8_t*)s, mi_segment_size(s)); }
      tracking_starts();
      for (int i = 0; i < 2; i++) mi_free(r[i]);
      t_step("segments2", "free", "none", adelay, 0, 0);
      shim_clock_advance_ms(adelay + 5);
      mi_collect(false);
      t_step("segments2", "first-collect-after-delay", "all", adelay, 0, 0);
    }
    counters_mark();
  }

  // ---- W3: free everything (small, medium, large in several segments)
  {
    enum { N = 3000 }; static void* p[N];
    for (int i = 0; i < N; i++) {
      size_t sz = (i % 7 == 0 ? 200000 + prng_below(&G, 800000) : i % 3 == 0 ? 9000 + prng_below(&G, 50000) : 16 + prng_below(&G, 4000));
      if (i % 100 == 99) sz = 3 * 1024 * 1024;
      p[i] = mi_malloc(sz); memset(p[i], 3, sz < 256 ? sz : 256);
    }
    NTR = 0;
    for (int i = 0; i < N; i++) { mi_segment_t* s = _mi_ptr_segment(p[i]); if (s->memid.memkind == MI_MEM_ARENA) track((uint8_t*)s + mi_segment_info_size(s), mi_segment_size(s) - mi_segment_info_size(s)); }
    printf("T info wl=everything segments=%zu\n", NTR);
    const long adelay = delay * mult;
    tracking_starts();
    for (int i = 0; i < N; i++) mi_free(p[i]);
    mi_collect(false);                                               // frees the retired pages; the segments go back to the arena
    t_step("everything", "free+collect", (delay == 0 ? "all" : "none"), adelay, 0, 0);
    if (delay > 0) {
      shim_clock_advance_ms(adelay - 1);
      mi_collect(false);
      void* q = mi_malloc(100); mi_free(q);
      t_step("everything", "collect-before-delay", "none", adelay, 0, 0);
      shim_clock_advance_ms(1);
      mi_collect(false);
      t_step("everything", "collect-at-delay", "all", adelay, 0, 0);
    }
    else if (delay < 0) {
      shim_clock_advance_ms(1000000);
      mi_collect(false);
      void* q = mi_malloc(100); mi_free(q);
      t_step("everything", "collect-much-later", "none", adelay, 0, 0);
      mi_collect(true);
      t_step("everything", "forced-collect", "none", adelay, 1, 0);
    }
  }
  printf("T total madvise=%zu mprotect=%zu mmap=%zu munmap=%zu\n", shim_count(SHIM_MADVISE), shim_count(SHIM_MPROTECT), shim_count(SHIM_MMAP), shim_count(SHIM_MUNMAP));
}

// ---------------------------------------------------------------- S: scattered page frees -> purge masks with runs in several words
// One round: fill a fresh 32 MiB segment with small (1 slice), medium (8 slices) and large (2..24 slices) pages in a PRNG
// order, free a PRNG-chosen set of whole pages whose slice positions are biased to the 64-bit word boundaries of the commit
// mask (62..65, 126..129, ...) and otherwise spread over the whole segment (so that the pending purge mask has runs in
// different words, in both orders of their bit positions), then advance the virtual clock and perform NON-forced activity
// (a page free + mi_collect(false), a direct mi_segment_try_purge(seg,false), a page allocation).  Oracles, all from the
// harness' own bookkeeping (per slice of the segment) and the shim's call log:
//   early    a freed page was handed to a purging madvise before the delay had passed
//   missing  a freed page was NOT handed to a purging madvise although the (extended) delay has passed and activity happened
//   livehit  a purging madvise / mprotect(PROT_NONE) touched a slice that holds the segment header or a page in use
//   content  a live block lost its contents
// Each check prints one `T scatter ...` record; tools/props/C18.py turns failing ones into witnesses.
#define SSL MI_SEGMENT_SLICE_SIZE
enum { ST_OTHER = 0, ST_INFO, ST_FREE0, ST_LIVE, ST_VICTIM, ST_KEPTFREE };
typedef struct { mi_segment_t* seg; size_t slice, count; int kind; int nblk; int state; } spg_t;   // kind 0 small 1 medium 2 large; state 0 live 1 freed
typedef struct { uint8_t* p; size_t size; int pg; int live; } sblk_t;
#define SMAXPG 2048
#define SMAXBLK 16384
static spg_t SP[SMAXPG]; static int NSP;
static sblk_t SB[SMAXBLK]; static int NSB;
static uint8_t SST[MI_SLICES_PER_SEGMENT];                 // per slice of the target segment: ST_*
static uint8_t SCOV[MI_SEGMENT_SIZE / SHIM_PAGE];          // per 4 KiB page: 1 purging madvise, 2 mprotect(PROT_NONE)
static char SH[1 << 16]; static size_t SHL;                // history string
static void sh(const char* fmt, ...) {
  va_list ap; va_start(ap, fmt);
  int n = vsnprintf(SH + SHL, sizeof(SH) - SHL, fmt, ap);
  va_end(ap);
  if (n > 0 && SHL + (size_t)n < sizeof(SH) - 1) SHL += (size_t)n;
}
static void s_fill(sblk_t* b, int idx) {
  const size_t n = (b->size < 64 ? b->size : 32);
  for (size_t k = 0; k < n; k++) { b->p[k] = (uint8_t)(0x80 | ((idx * 7 + (int)k) & 0x7f)); b->p[b->size - 1 - k] = (uint8_t)(0x80 | ((idx * 13 + (int)k) & 0x7f)); }
}
static int s_intact(const sblk_t* b, int idx) {
  const size_t n = (b->size < 64 ? b->size : 32);
  for (size_t k = 0; k < n; k++) { if (b->p[k] != (uint8_t)(0x80 | ((idx * 7 + (int)k) & 0x7f)) || b->p[b->size - 1 - k] != (uint8_t)(0x80 | ((idx * 13 + (int)k) & 0x7f))) return 0; }
  return 1;
}
static int s_alloc(size_t size, int kind) {          // returns the page index of the new block, -1 on failure
  if (NSB >= SMAXBLK || NSP >= SMAXPG - 1) return -1;
  uint8_t* p = (uint8_t*)mi_malloc(size);
  if (p == NULL) return -1;
  uint8_t* start; size_t len; page_span(p, &start, &len);
  mi_segment_t* seg = _mi_ptr_segment(p);
  const size_t slice = (size_t)(start - (uint8_t*)seg) / SSL;
  int pg = -1;
  for (int i = NSP - 1; i >= 0; i--) if (SP[i].seg == seg && SP[i].slice == slice && SP[i].state == 0) { pg = i; break; }
  if (pg < 0) { pg = NSP++; SP[pg].seg = seg; SP[pg].slice = slice; SP[pg].count = len / SSL; SP[pg].kind = kind; SP[pg].nblk = 0; SP[pg].state = 0; }
  SP[pg].nblk++;
  SB[NSB].p = p; SB[NSB].size = size; SB[NSB].pg = pg; SB[NSB].live = 1;
  s_fill(&SB[NSB], NSB);
  NSB++;
  return pg;
}
static void s_free_page(int pg) {                    // free every block of a page
  for (int i = 0; i < NSB; i++) if (SB[i].live && SB[i].pg == pg) { mi_free(SB[i].p); SB[i].live = 0; }
  SP[pg].state = 1;
}
static void s_coverage(mi_segment_t* seg, size_t from) {
  memset(SCOV, 0, sizeof(SCOV));
  const uint8_t* base = (const uint8_t*)seg;
  const size_t nlog = shim_log_count();
  for (size_t k = from; k < nlog; k++) {
    shim_call_t c; shim_log_get(k, &c);
    uint8_t bit;
    if (c.err != 0) continue;
    if (c.kind == SHIM_MADVISE && (c.arg == 4 /*MADV_DONTNEED*/ || c.arg == 8 /*MADV_FREE*/)) bit = 1;
    else if (c.kind == SHIM_MPROTECT && c.arg == 0 /*PROT_NONE*/) bit = 2;
    else continue;
    const uint8_t* lo = (const uint8_t*)c.addr; const uint8_t* hi = lo + c.len;
    if (hi <= base || lo >= base + MI_SEGMENT_SIZE) continue;
    if (lo < base) lo = base;
    if (hi > base + MI_SEGMENT_SIZE) hi = base + MI_SEGMENT_SIZE;
    for (size_t pg = (size_t)(lo - base) / SHIM_PAGE; pg < ((size_t)(hi - base) + SHIM_PAGE - 1) / SHIM_PAGE; pg++) SCOV[pg] |= bit;
  }
}
static int slice_cov(size_t s, int* any) {           // 1 when every 4 KiB page of the slice was handed to a purging madvise
  const size_t per = SSL / SHIM_PAGE; int all = 1; *any = 0;
  for (size_t k = 0; k < per; k++) { if (SCOV[s * per + k] & 1) *any |= 1; else all = 0; if (SCOV[s * per + k] & 2) *any |= 2; }
  return all;
}
static void print_runs(const uint8_t* flag) {        // flag[0..511] -> "a+n,b+m" or "-"
  int first = 1;
  for (size_t i = 0; i < MI_SLICES_PER_SEGMENT; ) {
    if (!flag[i]) { i++; continue; }
    size_t j = i; while (j < MI_SLICES_PER_SEGMENT && flag[j]) j++;
    printf("%s%zu+%zu", first ? "" : ",", i, j - i); first = 0; i = j;
  }
  if (first) printf("-");
}
static void print_words(const uint8_t* flag) {       // the 8 mask words with the bits of the flagged slices
  for (size_t w = 0; w < MI_COMMIT_MASK_FIELD_COUNT; w++) {
    uint64_t x = 0; for (size_t b = 0; b < 64; b++) if (w * 64 + b < MI_SLICES_PER_SEGMENT && flag[w * 64 + b]) x |= ((uint64_t)1 << b);
    printf("%s%llx", w ? "." : "", U(x));
  }
}
static int s_round_no; static uint64_t s_seed; static mi_msecs_t s_t0; static size_t s_mark; static char s_victims[4096]; static char s_layout[16384];
static long s_deadline_rel;
static int s_partial;        // this round filled only a part of the segment: a page allocation finds free slices that were never used
static void s_check(mi_segment_t* seg, const char* step, const char* expect) {
  static uint8_t early[MI_SLICES_PER_SEGMENT], missing[MI_SLICES_PER_SEGMENT], livehit[MI_SLICES_PER_SEGMENT], want[MI_SLICES_PER_SEGMENT];
  s_coverage(seg, s_mark);
  size_t nwant = 0;
  for (size_t s = 0; s < MI_SLICES_PER_SEGMENT; s++) {
    int any; const int all = slice_cov(s, &any);
    want[s] = (SST[s] == ST_VICTIM); nwant += want[s];
    early[s] = (SST[s] == ST_VICTIM && any != 0);
    missing[s] = (SST[s] == ST_VICTIM && !all);
    livehit[s] = ((SST[s] == ST_INFO || SST[s] == ST_LIVE || SST[s] == ST_OTHER) && any != 0);
  }
  int cbad = 0, cfirst = -1;
  for (int i = 0; i < NSB; i++) if (SB[i].live && !s_intact(&SB[i], i)) { if (cbad == 0) cfirst = i; cbad++; }
  printf("T scatter seed=%llu round=%d step=%s expect=%s delay=%ld decommits=%d extend=%ld since_free=%lld deadline_rel=%ld expire_rel=%lld nvictim_slices=%zu",
         U(s_seed), s_round_no, step, expect, mi_option_get(mi_option_purge_delay), mi_option_is_enabled(mi_option_purge_decommits) ? 1 : 0,
         mi_option_get(mi_option_purge_extend_delay), (long long)(shim_clock_now_ms() - s_t0), s_deadline_rel,
         (long long)(seg->purge_expire == 0 ? 0 : seg->purge_expire - s_t0), nwant);
  printf(" pending="); print_runs(want); printf(" pending_words="); print_words(want);
  printf(" early="); print_runs(early); printf(" missing="); print_runs(missing); printf(" livehit="); print_runs(livehit);
  printf(" content_bad=%d content_first=", cbad);
  if (cfirst >= 0) printf("block%d@slice%zu+%zu", cfirst, SP[SB[cfirst].pg].slice, (size_t)(SB[cfirst].p - ((uint8_t*)SP[SB[cfirst].pg].seg + SP[SB[cfirst].pg].slice * SSL))); else printf("-");
  printf(" impl_purge_mask="); for (int w = 0; w < MI_COMMIT_MASK_FIELD_COUNT; w++) printf("%s%llx", w ? "." : "", U(seg->purge_mask.mask[w]));
  printf(" victims=%s layout=%s history=%s\n", s_victims, s_layout, SH);
}
static int s_page_at(mi_segment_t* seg, size_t slice) {     // live page of ours containing that slice of the target
  for (int i = 0; i < NSP; i++) if (SP[i].seg == seg && SP[i].state == 0 && SP[i].slice <= slice && slice < SP[i].slice + SP[i].count) return i;
  return -1;
}
static int s_pick_kept(mi_segment_t* seg) {                 // a random live page of ours in the target
  int cand[SMAXPG]; int n = 0;
  for (int i = 0; i < NSP; i++) if (SP[i].seg == seg && SP[i].state == 0) cand[n++] = i;
  return (n == 0 ? -1 : cand[prng_below(&G, (size_t)n)]);
}
static int s_live_pages(mi_segment_t* seg) { int n = 0; for (int i = 0; i < NSP; i++) if (SP[i].seg == seg && SP[i].state == 0) n++; return n; }
static const char KINDC[3] = { 's', 'm', 'L' };
// non-forced activity; returns the number of additional purge schedules (page frees) it caused in the target
static int s_activity(mi_segment_t* seg, int kind) {
  const long long rel = (long long)(shim_clock_now_ms() - s_t0);
  if (kind == 0 && s_live_pages(seg) > 2) {
    const int pg = s_pick_kept(seg);
    for (size_t s = SP[pg].slice; s < SP[pg].slice + SP[pg].count; s++) SST[s] = ST_KEPTFREE;
    s_free_page(pg);
    mi_collect(false);
    sh("t+%lld:free-page@%zu+%zu%c,mi_collect(false);", rel, SP[pg].slice, SP[pg].count, KINDC[SP[pg].kind]);
    return 1;
  }
  else if (kind == 2) {
    // a page allocation: a size class that was not used in this round, so a fresh page is needed
    static const size_t fresh[] = { 4096, 2048, 6144, 32768, 49152, 200000, 2 * 1024 * 1024 };
    const size_t size = (s_partial && prng_below(&G, 4) != 0 ? fresh[3 + prng_below(&G, 4)] : fresh[prng_below(&G, sizeof(fresh) / sizeof(fresh[0]))]);
    const int before = NSP;
    const int pg = s_alloc(size, size <= MI_SMALL_OBJ_SIZE_MAX ? 0 : size <= MI_MEDIUM_OBJ_SIZE_MAX ? 1 : 2);
    if (pg >= before && SP[pg].seg == seg) {
      int reused = 0;
      // free slices that were coalesced with a freed page are scheduled together with it: look at the whole free run around the new page
      size_t lo = SP[pg].slice, hi = SP[pg].slice + SP[pg].count;
      while (lo > 0 && SST[lo - 1] == ST_FREE0) lo--;
      while (hi < MI_SLICES_PER_SEGMENT && SST[hi] == ST_FREE0) hi++;
      if (lo > 0 && (SST[lo - 1] == ST_VICTIM || SST[lo - 1] == ST_KEPTFREE)) reused = 1;
      if (hi < MI_SLICES_PER_SEGMENT && (SST[hi] == ST_VICTIM || SST[hi] == ST_KEPTFREE)) reused = 1;
      for (size_t s = SP[pg].slice; s < SP[pg].slice + SP[pg].count; s++) { if (SST[s] == ST_VICTIM || SST[s] == ST_KEPTFREE) reused = 1; SST[s] = ST_LIVE; }
      sh("t+%lld:mi_malloc(%zu)->new-page@%zu+%zu%s;", rel, size, SP[pg].slice, SP[pg].count, reused ? "(reuses-freed-slices)" : "");
      return reused ? -1 : -2;     // -1: pending slices were taken back (the expiry is pushed to now+delay); -2: a page allocation in the segment that took nothing back
    }
    sh("t+%lld:mi_malloc(%zu)->%s;", rel, size, pg < 0 ? "failed" : pg >= before ? "new-page-in-another-segment" : "existing-page");
    return 0;
  }
  else {
    f_real_segment_try_purge(seg);
    sh("t+%lld:mi_segment_try_purge(seg,false);", rel);
    return 0;
  }
}
static int cmp_pg(const void* a, const void* b) { const spg_t* x = &SP[*(const int*)a]; const spg_t* y = &SP[*(const int*)b]; return (x->slice < y->slice ? -1 : x->slice > y->slice ? 1 : 0); }

static void scatter_round(long delay) {
  NSP = 0; NSB = 0; SHL = 0; SH[0] = 0;
  const long ext = mi_option_get(mi_option_purge_extend_delay);
  // ---- layout
  const size_t goal = (prng_below(&G, 4) == 0 ? 150 + prng_below(&G, 350) : 520 + prng_below(&G, 30));
  s_partial = (goal < 500);
  size_t total = 0; int kind = (int)prng_below(&G, 3);
  while (total < goal && NSB < SMAXBLK - 200 && NSP < SMAXPG - 40) {
    const size_t k = prng_below(&G, 10);
    kind = (k < 5 ? 0 : k < 7 ? 1 : 2);
    size_t nblocks, size;
    if (kind == 0) { nblocks = 8 * (1 + prng_below(&G, prng_below(&G, 3) == 0 ? 70 : 12)); size = 8192; }
    else if (kind == 1) { nblocks = 8 * (1 + prng_below(&G, 3)); size = 65536; }
    else { nblocks = 1 + prng_below(&G, 3); size = 0; }
    for (size_t b = 0; b < nblocks; b++) {
      const int before = NSP;
      const size_t sz = (kind == 2 ? (prng_below(&G, 3) == 0 ? 600000 + prng_below(&G, 900000) : 70000 + prng_below(&G, 400000)) : size);
      if (s_alloc(sz, kind) < 0) { total = goal; break; }
      if (NSP > before) total += SP[NSP - 1].count;
    }
  }
  // the target: the segment that holds most of our slices
  mi_segment_t* seg = NULL; size_t best = 0;
  for (int i = 0; i < NSP; i++) {
    if (SP[i].seg == seg) continue;
    size_t n = 0; for (int j = 0; j < NSP; j++) if (SP[j].seg == SP[i].seg) n += SP[j].count;
    if (n > best) { best = n; seg = SP[i].seg; }
  }
  if (seg == NULL || seg->kind != MI_SEGMENT_NORMAL || mi_segment_size(seg) != MI_SEGMENT_SIZE) { printf("T info wl=scatter round=%d setup=0\n", s_round_no); goto cleanup; }
  memset(SST, ST_OTHER, sizeof(SST));
  for (size_t s = 0; s < seg->segment_info_slices; s++) SST[s] = ST_INFO;
  {
    const mi_slice_t* end = mi_segment_slices_end(seg);
    const mi_slice_t* sl = &seg->slices[0];
    while (sl < end && sl->slice_count > 0) {
      const size_t idx = (size_t)(sl - seg->slices);
      if (sl->block_size == 0) { for (size_t s = idx; s < idx + sl->slice_count && s < MI_SLICES_PER_SEGMENT; s++) SST[s] = ST_FREE0; }
      sl += sl->slice_count;
    }
  }
  int order[SMAXPG]; int npg = 0;
  for (int i = 0; i < NSP; i++) if (SP[i].seg == seg) { order[npg++] = i; for (size_t s = SP[i].slice; s < SP[i].slice + SP[i].count; s++) SST[s] = ST_LIVE; }
  qsort(order, (size_t)npg, sizeof(int), cmp_pg);
  {
    size_t L = 0; s_layout[0] = 0;
    for (int i = 0; i < npg; ) {
      const spg_t* a = &SP[order[i]]; int j = i + 1;
      if (a->kind != 2) while (j < npg && SP[order[j]].kind == a->kind && SP[order[j]].slice == SP[order[j - 1]].slice + SP[order[j - 1]].count) j++;
      int n = snprintf(s_layout + L, sizeof(s_layout) - L, "%s%zu+%zu%c", L ? "," : "", a->slice, SP[order[j - 1]].slice + SP[order[j - 1]].count - a->slice, KINDC[a->kind]);
      if (n > 0 && L + (size_t)n < sizeof(s_layout) - 1) L += (size_t)n;
      i = j;
    }
  }
  if (npg < 6) { printf("T info wl=scatter round=%d setup=0\n", s_round_no); goto cleanup; }
  // ---- victims: whole pages, positions biased to the word boundaries of the mask
  {
    static const int counts[] = { 2, 2, 2, 3, 3, 4, 5, 6, 8, 12 };
    int nv = counts[prng_below(&G, 10)]; if (nv > npg - 3) nv = npg - 3;
    int vict[16]; int n = 0; size_t L = 0; s_victims[0] = 0;
    for (int tries = 0; n < nv && tries < 200; tries++) {
      size_t s;
      if (prng_below(&G, 2) == 0) { const size_t w = 1 + prng_below(&G, 7); s = w * 64 + prng_below(&G, 4) - 2; }
      else s = 1 + prng_below(&G, MI_SLICES_PER_SEGMENT - 1);
      int pg = s_page_at(seg, s);
      if (pg < 0) continue;
      int dup = 0; for (int i = 0; i < n; i++) if (vict[i] == pg) dup = 1;
      if (dup) continue;
      vict[n++] = pg;
      if (n < nv && prng_below(&G, 3) == 0) {      // sometimes the neighbour too: a run that crosses the boundary
        const size_t s2 = (prng_below(&G, 2) ? SP[pg].slice + SP[pg].count : SP[pg].slice - 1);
        const int pg2 = (s2 < MI_SLICES_PER_SEGMENT ? s_page_at(seg, s2) : -1);
        int dup2 = (pg2 < 0); for (int i = 0; i < n; i++) if (vict[i] == pg2) dup2 = 1;
        if (!dup2) vict[n++] = pg2;
      }
    }
    if (n < 2) { printf("T info wl=scatter round=%d setup=0\n", s_round_no); goto cleanup; }
    shim_reset_log();
    s_mark = shim_log_count(); s_t0 = shim_clock_now_ms();
    sh("t+0:free-pages[");
    for (int i = 0; i < n; i++) {
      const spg_t* v = &SP[vict[i]];
      for (size_t s = v->slice; s < v->slice + v->count; s++) SST[s] = ST_VICTIM;
      int m = snprintf(s_victims + L, sizeof(s_victims) - L, "%s%zu+%zu%c", L ? "," : "", v->slice, v->count, KINDC[v->kind]);
      if (m > 0 && L + (size_t)m < sizeof(s_victims) - 1) L += (size_t)m;
      sh("%s%zu+%zu%c", i ? "," : "", v->slice, v->count, KINDC[v->kind]);
      s_free_page(vict[i]);
    }
    mi_collect(false);                 // frees pages that were only retired: every victim page is free from t0 on
    sh("],mi_collect(false);");
    int nsched = n;
    s_deadline_rel = (delay > 0 ? delay + nsched * ext : 0);
    s_check(seg, "free", delay == 0 ? "all" : "none");
    if (delay > 0) {
      if (prng_below(&G, 2) == 0) {
        shim_clock_set_ms(s_t0 + delay - 1);
        const int r = s_activity(seg, prng_below(&G, 2) ? 0 : 1);
        if (r > 0) nsched += r;
        s_deadline_rel = delay + nsched * ext;
        s_check(seg, "activity-before-delay", "none");
      }
      if (prng_below(&G, 3) == 0) {
        // the exact expiry, as the segment recorded it: nothing one ms earlier, everything at that ms
        const mi_msecs_t e = seg->purge_expire;
        if (e >= s_t0 + delay && e <= s_t0 + delay + nsched * ext) {
          shim_clock_set_ms(e - 1);
          s_activity(seg, 1);
          s_check(seg, "try_purge-before-expiry", "none");
          shim_clock_set_ms(e);
          s_activity(seg, 1);
          s_check(seg, "try_purge-at-expiry", "all");
        }
        else s_check(seg, "expiry-range", "expiry");
      }
      else {
        shim_clock_set_ms(s_t0 + s_deadline_rel + ext + 1 + (mi_msecs_t)prng_below(&G, (size_t)(3 * delay)));
        int k = (s_partial && prng_below(&G, 2) == 0 ? 2 : (int)prng_below(&G, 3));
        int r = s_activity(seg, k);
        if (k == 2 && r != -2) {
          // the allocation took pending slices back (expiry pushed to now + delay) or did not touch the segment:
          // later, a page free in the segment
          if (r == -1) s_deadline_rel = (long)(shim_clock_now_ms() - s_t0) + delay;
          shim_clock_set_ms(s_t0 + s_deadline_rel + ext + 1 + (mi_msecs_t)prng_below(&G, (size_t)delay));
          k = 0; r = s_activity(seg, 0);
          if (r == 0) s_activity(seg, 1);
        }
        else if (k == 0 && r == 0) s_activity(seg, 1);
        s_check(seg, k == 0 ? "page-free-after-delay" : k == 1 ? "try_purge-after-delay" : "page-alloc-after-delay", "all");
      }
    }
    else if (delay < 0) {
      shim_clock_advance_ms(100000);
      s_activity(seg, 0); s_activity(seg, 2); s_activity(seg, 1);
      s_check(seg, "activity-much-later", "none");
    }
    else {
      s_activity(seg, 0);
      s_check(seg, "page-free", "all");
    }
  }
cleanup:
  for (int i = 0; i < NSB; i++) if (SB[i].live) { mi_free(SB[i].p); SB[i].live = 0; }
  mi_collect(true);
  shim_clock_advance_ms(10);
}
static void scatter(long delay, int decommits, int rounds) {
  mi_option_set(mi_option_purge_delay, delay);
  mi_option_set(mi_option_purge_decommits, decommits);
  printf("T config wl=scatter delay=%ld decommits=%d mult=%ld extend=%ld rounds=%d\n", delay, decommits, mi_option_get(mi_option_arena_purge_mult), mi_option_get(mi_option_purge_extend_delay), rounds);
  void* warm = mi_malloc(64); mi_free(warm);
  mi_collect(true);                     // every round starts without any segment
  shim_clock_advance_ms(10);
  for (s_round_no = 0; s_round_no < rounds; s_round_no++) {
    if (s_round_no % 4 == 3) mi_option_set(mi_option_purge_extend_delay, (long)prng_below(&G, 4)); else mi_option_set(mi_option_purge_extend_delay, 1);
    scatter_round(delay);
  }
}

// ---------------------------------------------------------------- X: regression scenarios for `arena-global-expiry-reset`
// (repaired by c59c73f): an arena whose own expiry had not passed when a pass ran must still be purged by later
// NON-forced passes.  X1: two arenas.  X2: the default single arena with one forced collect in the history.
static void witness_two_arenas(void) {
  mi_option_set(mi_option_arena_reserve, 0);
  const long adelay = mi_option_get(mi_option_purge_delay) * mi_option_get(mi_option_arena_purge_mult);
  mi_arena_id_t ida, idb;
  if (mi_reserve_os_memory_ex(4 * MI_ARENA_BLOCK_SIZE, true, false, true, &ida) != 0 || mi_reserve_os_memory_ex(4 * MI_ARENA_BLOCK_SIZE, true, false, true, &idb) != 0) { printf("T witness scenario=two-arenas setup=0\n"); return; }
  mi_heap_t* ha = mi_heap_new_in_arena(ida);
  mi_heap_t* hb = mi_heap_new_in_arena(idb);
  void* pa = mi_heap_malloc(ha, 4 * 1024 * 1024);
  void* pb = mi_heap_malloc(hb, 4 * 1024 * 1024);
  mi_arena_t* A = mi_arena_from_index(mi_arena_id_index(ida));
  mi_arena_t* Bq = mi_arena_from_index(mi_arena_id_index(idb));
  uint8_t* sa = (uint8_t*)_mi_ptr_segment(pa); uint8_t* sb = (uint8_t*)_mi_ptr_segment(pb);
  const int ok_setup = (sa >= A->start && sa < A->start + 4 * MI_ARENA_BLOCK_SIZE && sb >= Bq->start && sb < Bq->start + 4 * MI_ARENA_BLOCK_SIZE);
  const mi_msecs_t t0 = shim_clock_now_ms();
  shim_reset_log();
  mi_free(pa);                                   // t0: the segment of arena A goes back: A.expire = t0+adelay, global = t0+adelay
  shim_clock_advance_ms(adelay / 2);
  mi_free(pb);                                   // t0+adelay/2: B.expire = t0+1.5 adelay, global unchanged
  shim_clock_advance_ms(adelay / 2 + adelay / 5);
  mi_collect(false);                             // t0+1.2 adelay: the pass purges A; B has not expired yet
  const long long g1 = (long long)mi_atomic_loadi64_relaxed(&mi_arenas_purge_expire);
  const long long eb1 = (long long)mi_atomic_loadi64_relaxed(&Bq->purge_expire);
  size_t pur_b1; shim_range_stats(sb, MI_SEGMENT_SIZE, NULL, NULL, NULL, &pur_b1);
  // idle: only non-forced collects and unrelated small allocations, beyond B's expiry and one more delay period
  for (int i = 0; i < 3; i++) { shim_clock_advance_ms(adelay); mi_collect(false); void* q = mi_malloc(100); mi_free(q); }
  size_t pur_b2; shim_range_stats(sb, MI_SEGMENT_SIZE, NULL, NULL, NULL, &pur_b2);
  printf("T witness scenario=two-arenas setup=%d adelay=%ld t0=%lld freeA=0 freeB=%ld collect1=%ld global_after_collect1=%lld B_expire_after_collect1=%lld B_purged_after_collect1=%zu idle_until=%lld global=%lld B_expire=%lld B_blocks_purge=%llu B_purged_after_idle=%zu expected=%zu\n",
         ok_setup, adelay, (long long)t0, adelay / 2, adelay + adelay / 5, g1, eb1, pur_b1,
         (long long)(shim_clock_now_ms() - t0), (long long)mi_atomic_loadi64_relaxed(&mi_arenas_purge_expire),
         (long long)mi_atomic_loadi64_relaxed(&Bq->purge_expire), U(Bq->blocks_purge[0]), pur_b2, (size_t)MI_SEGMENT_SIZE);
}
static void witness_single_arena(void) {
  const long adelay = mi_option_get(mi_option_purge_delay) * mi_option_get(mi_option_arena_purge_mult);
  void* p = mi_malloc(20 << 20); void* q = mi_malloc(20 << 20); void* keep = mi_malloc(100);
  mi_segment_t* sq = _mi_ptr_segment(q);
  const size_t qsize = mi_segment_size(sq);
  const int ok_setup = (mi_arena_get_count() == 1 && sq->memid.memkind == MI_MEM_ARENA && _mi_ptr_segment(p)->memid.memkind == MI_MEM_ARENA);
  mi_arena_t* A = (mi_arena_get_count() > 0 ? mi_arena_from_index(0) : NULL);
  const mi_msecs_t t0 = shim_clock_now_ms();
  shim_reset_log();
  mi_free(p);                                    // t0: arena expire = global = t0+adelay
  shim_clock_advance_ms(adelay / 10);
  mi_collect(true);                              // t0+0.1 adelay: forced pass purges p's block; the global expiry stays armed
  shim_clock_advance_ms(adelay / 2 - adelay / 10);
  mi_free(q);                                    // t0+0.5 adelay: arena expire = t0+1.5 adelay
  shim_clock_advance_ms(adelay / 2 + adelay / 5);
  mi_collect(false);                             // t0+1.2 adelay: pass runs (global passed), the arena has not expired yet
  const long long g1 = (long long)mi_atomic_loadi64_relaxed(&mi_arenas_purge_expire);
  const long long e1 = (A ? (long long)mi_atomic_loadi64_relaxed(&A->purge_expire) : -1);
  size_t pur1; shim_range_stats((uint8_t*)sq, qsize, NULL, NULL, NULL, &pur1);
  for (int i = 0; i < 3; i++) { shim_clock_advance_ms(adelay); mi_collect(false); void* x = mi_malloc(64); mi_free(x); }
  size_t pur2; shim_range_stats((uint8_t*)sq, qsize, NULL, NULL, NULL, &pur2);
  printf("T witness scenario=single-arena setup=%d adelay=%ld t0=%lld free_p=0 forced_collect=%ld free_q=%ld collect1=%ld global_after_collect1=%lld A_expire_after_collect1=%lld q_purged_after_collect1=%zu idle_until=%lld global=%lld A_expire=%lld A_blocks_purge=%llu B_purged_after_idle=%zu expected=%zu\n",
         ok_setup, adelay, (long long)t0, adelay / 10, adelay / 2, adelay + adelay / 5, g1, e1, pur1,
         (long long)(shim_clock_now_ms() - t0), (long long)mi_atomic_loadi64_relaxed(&mi_arenas_purge_expire),
         (A ? (long long)mi_atomic_loadi64_relaxed(&A->purge_expire) : -1), (A ? U(A->blocks_purge[0]) : 0), pur2, qsize);
  mi_free(keep);
}

int main(int argc, char** argv) {
  const char* mode = (argc > 1 ? argv[1] : "F");
  uint64_t seed = (argc > 2 ? strtoull(argv[2], NULL, 10) : 1);
  prng_seed(&G, seed);
  if (mode[0] == 'F') {
    int thorough = (argc > 3 ? atoi(argv[3]) : 0);
    mi_option_set(mi_option_arena_reserve, 0);
    f_segments(thorough ? 25000 : 2500);
    f_arenas(thorough ? 25000 : 2500);
  }
  else if (mode[0] == 'T') {
    long delay = (argc > 3 ? atol(argv[3]) : 10);
    int dec = (argc > 4 ? atoi(argv[4]) : 1);
    workloads(delay, dec);
  }
  else if (mode[0] == 'S') {
    long delay = (argc > 3 ? atol(argv[3]) : 10);
    int dec = (argc > 4 ? atoi(argv[4]) : 1);
    int rounds = (argc > 5 ? atoi(argv[5]) : 20);
    s_seed = seed;
    scatter(delay, dec, rounds);
  }
  else if (mode[1] == '2') {
    witness_single_arena();
  }
  else {
    witness_two_arenas();
  }
  printf("END\n");
  return 0;
}
