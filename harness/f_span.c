// Segment / span layer harness (C01 segment layer, C03 huge alignment).
// Drives the REAL allocator through the public API with size mixes that make spans split and
// coalesce, and after EVERY call dumps the slice array of every live segment of the thread and the
// thread's span queues.  Records:
//   O <op#> <M|A|F|C> <args> = <p> <usable>          the API call
//   G <op#> <segment> <kind> <slice_entries> <info_slices> <used> <segment_slices> | <count>:<offset>:<bsz> ...
//        entries 0 .. slice_entries (inclusive); `z<k>` abbreviates k entries 0:0:0
//   G <op#> <segment> =                               unchanged since its previous dump
//   Q <op#> <bin> <segment>:<idx> ...                 tld->segments.spans[bin], head first (empty bins omitted)
//   E <op#>                                           end of the dump of this call
//   T pof <op#> <q> <seg_got> <seg_exp> <first_got> <first_exp>    pointer -> segment -> page
//   T blk <op#> <p> <usable> <page_start> <page_size>               block inside its page area
//   T area <op#> <segment> <idx> <count> <start> <psize> <segment_size>   page area of a used span
// usage: f_span <seed> <tier 0|1> [nops]
#include REPO_STATIC
#include "prng.h"
#include <stdio.h>
#include <stdlib.h>
#include <string.h>
#include <inttypes.h>

#define MAXSLOT 192
#define MAXSEG  512
typedef struct { uint8_t* p; size_t size; size_t usable; size_t align; int live; } slot_t;
static slot_t slots[MAXSLOT];
static long opno = 0;
static prng_t G;

typedef struct { mi_segment_t* seg; uint64_t hash; int seen; } segrec_t;
static segrec_t known[MAXSEG]; static int nknown = 0;
static mi_segment_t* cur[MAXSEG]; static int ncur = 0;
static int changed[MAXSEG];

static void add_seg(mi_segment_t* s) {
  if (s == NULL) return;
  for (int i = 0; i < ncur; i++) if (cur[i] == s) return;
  if (ncur < MAXSEG) cur[ncur++] = s;
}

// the segment whose memory range contains p (independent of _mi_ptr_segment)
static mi_segment_t* seg_by_range(const uint8_t* p) {
  for (int i = 0; i < ncur; i++) {
    uint8_t* s = (uint8_t*)cur[i];
    if (p > s && p < s + cur[i]->segment_slices * MI_SEGMENT_SLICE_SIZE) return cur[i];
  }
  return NULL;
}

static void collect_segments(void) {
  ncur = 0;
  mi_heap_t* heap = mi_prim_get_default_heap();
  for (size_t b = 0; b <= MI_BIN_FULL; b++)
    for (mi_page_t* pg = heap->pages[b].first; pg != NULL; pg = pg->next)
      add_seg(_mi_page_segment(pg));
  // segments referenced by the span queues
  mi_segments_tld_t* tld = &heap->tld->segments;
  for (size_t b = 0; b <= MI_SEGMENT_BIN_MAX; b++)
    for (mi_slice_t* s = tld->spans[b].first; s != NULL; s = s->next)
      add_seg(_mi_ptr_segment(s));
}

static uint64_t seg_hash(mi_segment_t* s) {
  uint64_t h = 1469598103934665603ull;
  #define MIX(v) do { h ^= (uint64_t)(v); h *= 1099511628211ull; } while (0)
  MIX(s->slice_entries); MIX(s->used); MIX(s->segment_info_slices); MIX(s->kind); MIX(s->segment_slices);
  for (size_t i = 0; i <= s->slice_entries; i++) { MIX(s->slices[i].slice_count); MIX(s->slices[i].slice_offset); MIX(s->slices[i].block_size); }
  return h;
}

// own walk: first index of the span that contains slice index `sidx` (and its count)
static size_t span_of(mi_segment_t* s, size_t sidx, size_t* count) {
  size_t i = 0;
  while (i < s->slice_entries) {
    size_t c = s->slices[i].slice_count; if (c == 0) break;
    if (sidx >= i && (sidx < i + c || i + c >= s->slice_entries)) { *count = c; return i; }
    i += c;
  }
  *count = 0; return (size_t)-1;
}

static void dump_all(void) {
  collect_segments();
  for (int i = 0; i < ncur; i++) {
    mi_segment_t* s = cur[i];
    uint64_t h = seg_hash(s);
    int k; for (k = 0; k < nknown; k++) if (known[k].seg == s) break;
    changed[i] = 1;
    if (k < nknown && known[k].hash == h) { printf("G %ld %p =\n", opno, (void*)s); changed[i] = 0; known[k].seen = 1; continue; }
    if (k == nknown && nknown < MAXSEG) nknown++;
    if (k < MAXSEG) { known[k].seg = s; known[k].hash = h; known[k].seen = 1; }
    printf("G %ld %p %d %zu %zu %zu %zu |", opno, (void*)s, (int)(s->kind == MI_SEGMENT_HUGE), s->slice_entries, s->segment_info_slices, s->used, s->segment_slices);
    size_t z = 0;
    for (size_t j = 0; j <= s->slice_entries; j++) {
      mi_slice_t* e = &s->slices[j];
      if (e->slice_count == 0 && e->slice_offset == 0 && e->block_size == 0) { z++; continue; }
      if (z > 0) { printf(" z%zu", z); z = 0; }
      printf(" %u:%u:%zu", e->slice_count, e->slice_offset, e->block_size);
    }
    if (z > 0) printf(" z%zu", z);
    printf("\n");
  }
  // forget segments that are gone (their address may be reused by a fresh segment)
  int w = 0;
  for (int k = 0; k < nknown; k++) { if (known[k].seen) { known[k].seen = 0; known[w++] = known[k]; } }
  nknown = w;
  mi_segments_tld_t* tld = &mi_prim_get_default_heap()->tld->segments;
  for (size_t b = 0; b <= MI_SEGMENT_BIN_MAX; b++) {
    if (tld->spans[b].first == NULL) continue;
    printf("Q %ld %zu", opno, b);
    for (mi_slice_t* sl = tld->spans[b].first; sl != NULL; sl = sl->next) {
      mi_segment_t* s = _mi_ptr_segment(sl);
      printf(" %p:%zu", (void*)s, (size_t)(sl - s->slices));
    }
    printf("\n");
  }
  printf("E %ld\n", opno);
  // page areas of the used spans of the changed segments
  for (int i = 0; i < ncur; i++) {
    if (!changed[i]) continue;
    mi_segment_t* s = cur[i];
    size_t j = 0;
    while (j < s->slice_entries) {
      mi_slice_t* e = &s->slices[j];
      size_t c = e->slice_count; if (c == 0) break;
      if (e->block_size > 0 && j > 0) {
        size_t psize; uint8_t* st = _mi_segment_page_start(s, (mi_page_t*)e, &psize);
        printf("T area %ld %p %zu %zu %p %zu %zu\n", opno, (void*)s, j, c, (void*)st, psize, s->segment_slices * MI_SEGMENT_SLICE_SIZE);
      }
      j += c;
    }
  }
}

// can q be resolved by design?  (inside the first MI_MAX_SLICE_OFFSET_COUNT+1 slices of its span, or in
// the last slice entry of the span; and not beyond segment + MI_SEGMENT_SIZE)
static void t_pof(const uint8_t* q) {
  mi_segment_t* s = seg_by_range(q);
  if (s == NULL) { printf("T pof %ld %p %p 0x0 0 0\n", opno, (void*)q, (void*)_mi_ptr_segment(q)); return; }
  if (q > (uint8_t*)s + MI_SEGMENT_SIZE) return;
  size_t sidx = (size_t)(q - (uint8_t*)s) >> MI_SEGMENT_SLICE_SHIFT;
  size_t count; size_t first = span_of(s, sidx, &count);
  if (first == (size_t)-1) { printf("T pof %ld %p %p %p 0 99999\n", opno, (void*)q, (void*)_mi_ptr_segment(q), (void*)s); return; }
  size_t lastidx = first + count - 1; if (lastidx > s->slice_entries) lastidx = s->slice_entries;
  if (!(sidx - first <= MI_MAX_SLICE_OFFSET_COUNT || sidx == lastidx)) return;
  mi_segment_t* sg = _mi_ptr_segment(q);
  size_t got = 99998;
  if (sg == s) { mi_page_t* pg = _mi_segment_page_of(sg, q); got = (size_t)((mi_slice_t*)pg - s->slices); }
  printf("T pof %ld %p %p %p %zu %zu\n", opno, (void*)q, (void*)sg, (void*)s, got, first);
}

static void t_block(int i) {
  slot_t* sl = &slots[i];
  uint8_t* p = sl->p;
  t_pof(p);
  if (sl->usable > 1) t_pof(p + sl->usable - 1);
  size_t lim = sl->usable < MI_BLOCK_ALIGNMENT_MAX ? sl->usable : MI_BLOCK_ALIGNMENT_MAX;
  for (int k = 0; k < 2; k++) t_pof(p + prng_below(&G, lim));
  mi_segment_t* s = seg_by_range(p);
  if (s != NULL) {
    size_t sidx = (size_t)(p - (uint8_t*)s) >> MI_SEGMENT_SLICE_SHIFT;
    if (sidx >= s->slice_entries) sidx = s->slice_entries - 1;   // inside a huge span that has more slices than entries
    size_t count; size_t first = span_of(s, sidx, &count);
    if (first != (size_t)-1) {
      size_t psize; uint8_t* st = _mi_segment_page_start(s, (mi_page_t*)&s->slices[first], &psize);
      printf("T blk %ld %p %zu %p %zu\n", opno, (void*)p, sl->usable, (void*)st, psize);
    }
  }
}

static size_t pick_size(int* align_out) {
  *align_out = 0;
  size_t r = prng_below(&G, 100);
  if (r < 22) return 2048 + prng_below(&G, 6145);                         // small pages (1 slice), few blocks per page
  if (r < 30) return 8 + prng_below(&G, 2040);
  if (r < 50) return 8193 + prng_below(&G, 57344);                        // medium pages (8 slices)
  if (r < 88) {                                                           // large pages: 2 .. 250 slices
    size_t k = (prng_below(&G, 3) == 0 ? 2 + prng_below(&G, 249) : 2 + prng_below(&G, 30));
    return k * MI_SEGMENT_SLICE_SIZE - prng_below(&G, 4096);
  }
  if (r < 95) return MI_LARGE_OBJ_SIZE_MAX + 1 + prng_below(&G, (size_t)50 << 20);   // huge
  *align_out = (prng_below(&G, 2) == 0 ? 32 : 64);                        // aligned huge
  return (prng_below(&G, 2) == 0 ? 1 + prng_below(&G, 100000) : 1 + prng_below(&G, (size_t)40 << 20));
}

int main(int argc, char** argv) {
  uint64_t seed = argc > 1 ? strtoull(argv[1], NULL, 10) : 1;
  int tier = argc > 2 ? atoi(argv[2]) : 0;
  long nops = argc > 3 ? atol(argv[3]) : (tier ? 2500 : 700);
  prng_seed(&G, seed);
  static char obuf[1 << 20]; setvbuf(stdout, obuf, _IOFBF, sizeof(obuf));
  void* warm = mi_malloc(8); mi_free(warm);
  opno = 0; printf("O 0 I = 0x0 0\n"); dump_all();
  size_t live_bytes = 0; int nlive = 0;
  for (opno = 1; opno <= nops; opno++) {
    size_t r = prng_below(&G, 100);
    int phase = (int)((opno / 120) % 3);          // grow / churn / shrink phases
    size_t palloc = phase == 0 ? 70 : phase == 1 ? 50 : 30;
    int fresh = -1;
    if (r < 3) {
      int force = (int)prng_below(&G, 2);
      mi_collect(force);
      printf("O %ld C %d = 0x0 0\n", opno, force);
    }
    else if ((r < 3 + palloc && nlive < MAXSLOT && live_bytes < ((size_t)1200 << 20)) || nlive == 0) {
      int s = 0; while (slots[s].live) s++;
      int al; size_t size = pick_size(&al);
      uint8_t* p;
      if (al) { p = (uint8_t*)mi_malloc_aligned(size, (size_t)al << 20); }
      else    { p = (uint8_t*)mi_malloc(size); }
      size_t us = p ? mi_usable_size(p) : 0;
      if (al) printf("O %ld A %d %zu %zu = %p %zu\n", opno, s, size, (size_t)al << 20, (void*)p, us);
      else    printf("O %ld M %d %zu = %p %zu\n", opno, s, size, (void*)p, us);
      if (p != NULL) {
        slots[s].p = p; slots[s].size = size; slots[s].usable = us; slots[s].align = (size_t)al << 20; slots[s].live = 1;
        p[0] = (uint8_t)s; p[size - 1] = (uint8_t)s;
        nlive++; live_bytes += us; fresh = s;
      }
    }
    else {
      int s = (int)prng_below(&G, MAXSLOT); while (!slots[s].live) s = (s + 1) % MAXSLOT;
      printf("O %ld F %d = %p %zu\n", opno, s, (void*)slots[s].p, slots[s].usable);
      mi_free(slots[s].p);
      slots[s].live = 0; nlive--; live_bytes -= slots[s].usable;
    }
    dump_all();
    if (fresh >= 0) t_block(fresh);
    if (nlive > 0) for (int k = 0; k < 3; k++) { int s = (int)prng_below(&G, MAXSLOT); while (!slots[s].live) s = (s + 1) % MAXSLOT; t_block(s); }
    if (opno % 64 == 0) for (int s = 0; s < MAXSLOT; s++) if (slots[s].live) t_block(s);
    fflush(stdout);
  }
  // free everything (coalescing down to empty segments)
  for (int s = 0; s < MAXSLOT; s++) if (slots[s].live) {
    printf("O %ld F %d = %p %zu\n", opno, s, (void*)slots[s].p, slots[s].usable);
    mi_free(slots[s].p); slots[s].live = 0;
    dump_all(); opno++;
  }
  printf("O %ld C 1 = 0x0 0\n", opno); mi_collect(true); dump_all();
  printf("END\n");
  return 0;
}
