// Correspondence harness for C20: options, environment parsing, bounded string helpers and the
// allocator's own formatted output.  Includes the whole allocator as one TU so that the static
// functions (mi_option_init, mi_out_buf, mi_buffered_out, mi_heap_buf_print ...) are the real ones.
//   F <fn> <args> = <results>   compared with the extracted Coq model (ocaml/mode_opt.ml)
//   T <kind> ...                implementation-side oracle records, judged in tools/props/C20.py
// Byte strings are printed in hex ("-" = empty).  Destination buffers of the string/printf
// functions end exactly at a PROT_NONE page, the bytes before them hold a canary.
// usage: f_opt <seed> <thorough 0|1> [jobfile]     (jobfile: "V <fmthex> <k> <args...>" lines)
#include REPO_STATIC
#include <stdio.h>
#include <stdlib.h>
#include <string.h>
#include <signal.h>
#include <unistd.h>
#include <limits.h>
#include <sys/mman.h>
#include <sys/wait.h>
#include "prng.h"

extern char** environ;
#define U(x) ((unsigned long long)(x))

// ------------------------------------------------------------------------------------------
// context for the fault handler, guard pages
// ------------------------------------------------------------------------------------------
static char ctx[1 << 16];          // the record being produced (input part)
static size_t PG;
static uint8_t* gmap;              // [canary page][data page][PROT_NONE page]
static unsigned long guarded_calls, canary_bad;
#define CANARY 0xC5
#define CANARY_LEN 256

static void on_fault(int sig) {
  fflush(stdout);
  const char* a = "T fault ";
  (void)!write(1, a, strlen(a));
  char num[32]; int n = snprintf(num, sizeof(num), "sig%d ", sig);
  (void)!write(1, num, (size_t)n);
  (void)!write(1, ctx, strlen(ctx));
  (void)!write(1, "\n", 1);
  _exit(3);
}

static char* gbuf(size_t n) {      // a buffer of n bytes (n <= PG) that ends at the guard page
  uint8_t* p = gmap + 2 * PG - n;
  memset(p - CANARY_LEN, CANARY, CANARY_LEN);
  memset(p, 0xAA, n);
  guarded_calls++;
  return (char*)p;
}
static void gcheck(char* p) {
  const uint8_t* q = (const uint8_t*)p - CANARY_LEN;
  for (size_t i = 0; i < CANARY_LEN; i++) {
    if (q[i] != CANARY) { canary_bad++; printf("T canarybad %s\n", ctx); return; }
  }
}

static char* hexs(char* out, const void* data, size_t n) {   // appends hex, returns end
  static const char* H = "0123456789abcdef";
  const uint8_t* d = (const uint8_t*)data;
  if (n == 0) { *out++ = '-'; *out = 0; return out; }
  for (size_t i = 0; i < n; i++) { *out++ = H[d[i] >> 4]; *out++ = H[d[i] & 15]; }
  *out = 0;
  return out;
}
static void puthex(const void* data, size_t n) {
  static char tmp[1 << 17];
  if (n * 2 + 2 > sizeof(tmp)) { printf("TOOLONG"); return; }
  hexs(tmp, data, n); fputs(tmp, stdout);
}
static char* ctx_begin(const char* s) { strcpy(ctx, s); return ctx + strlen(ctx); }
static char* ctx_hex(char* p, const void* d, size_t n) { *p++ = ' '; return hexs(p, d, n); }
static char* ctx_num(char* p, unsigned long long v) { return p + sprintf(p, " %llu", v); }

static void silent_out(const char* msg, void* arg) { (void)msg; (void)arg; }

// ------------------------------------------------------------------------------------------
// libc.c string helpers
// ------------------------------------------------------------------------------------------
static void rec_strlcpy(int cat, size_t size, const uint8_t* init, const char* src) {
  char* p = ctx_begin(cat ? "F strlcat" : "F strlcpy");
  p = ctx_num(p, size); p = ctx_hex(p, init, size); p = ctx_hex(p, src, strlen(src));
  char* b = gbuf(size);
  memcpy(b, init, size);
  if (cat) _mi_strlcat(b, src, size); else _mi_strlcpy(b, src, size);
  gcheck(b);
  printf("%s = ", ctx); puthex(b, size); printf(" 0\n");
  // implementation-side oracle: terminated within size, prefix of the source
  if (size > 0) {
    size_t l = strnlen(b, size);
    size_t start = 0;
    if (cat) { start = strnlen((const char*)init, size); if (start > size - 1) start = size - 1; }
    int ok = (l < size) && (l >= start) && memcmp(b + start, src, l - start) == 0 &&
             (l - start == strlen(src) || l == size - 1) && (!cat || memcmp(b, init, start) == 0);
    printf("T strl %d %llu %d\n", cat, U(size), ok);
  }
}

static void strings_section(prng_t* g, int thorough) {
  for (int c = 0; c < 256; c++) printf("F toupper %d = %d\n", c, (int)(uint8_t)_mi_toupper((char)c));
  const char* srcs[] = { "", "a", "ab", "mimalloc_", "purge_delay", "0123456789abcdef0123456789abcdef",
                         "0123456789abcdef0123456789abcdef0123456789abcdef0123456789abcdefX",
                         "\x01\xff\x80zZ", "target_segments_per_thread" };
  const size_t nsrc = sizeof(srcs) / sizeof(srcs[0]);
  uint8_t init[128];
  for (size_t si = 0; si < nsrc; si++) {
    for (size_t size = 0; size <= 70; size++) {
      // strlcpy: arbitrary prior contents
      for (size_t i = 0; i < size; i++) init[i] = (uint8_t)(1 + prng_below(g, 255));
      rec_strlcpy(0, size, init, srcs[si]);
      // strlcat: prior contents = a string of length 0, size/2, size-1, or no terminator at all
      size_t lens[4] = { 0, size / 2, size > 0 ? size - 1 : 0, size };
      for (int k = 0; k < 4; k++) {
        for (size_t i = 0; i < size; i++) init[i] = (uint8_t)('a' + (i % 26));
        if (lens[k] < size) init[lens[k]] = 0;
        rec_strlcpy(1, size, init, srcs[si]);
      }
    }
  }
  // strnicmp / strlen / strnlen
  const char* cs[] = { "", "a", "A", "abc", "ABC", "abd", "mimalloc_verbose", "MIMALLOC_VERBOSE=1", "MIMALLOC_VERBOS", "Z", "z",
                       "\xe9t\xe9", "\xc9T\xc9", "[", "{", "@", "`", "1;TRUE;YES;ON", "TRUE" };
  const size_t ncs = sizeof(cs) / sizeof(cs[0]);
  for (size_t i = 0; i < ncs; i++) {
    printf("F strlen "); puthex(cs[i], strlen(cs[i])); printf(" = %llu\n", U(_mi_strlen(cs[i])));
    for (size_t m = 0; m <= 20; m += (m < 6 ? 1 : 7)) {
      printf("F strnlen "); puthex(cs[i], strlen(cs[i])); printf(" %llu = %llu\n", U(m), U(_mi_strnlen(cs[i], m)));
    }
    for (size_t j = 0; j < ncs; j++) {
      size_t ns[] = { 0, 1, 2, 3, 4, 16, 17, 100 };
      for (size_t k = 0; k < sizeof(ns) / sizeof(ns[0]); k++) {
        printf("F strnicmp "); puthex(cs[i], strlen(cs[i])); printf(" "); puthex(cs[j], strlen(cs[j]));
        printf(" %llu = %d\n", U(ns[k]), _mi_strnicmp(cs[i], cs[j], ns[k]));
      }
    }
  }
  int nr = thorough ? 20000 : 2000;
  for (int r = 0; r < nr; r++) {
    char a[12], b[12];
    size_t la = prng_below(g, 8), lb = prng_below(g, 8);
    const char* alpha = "aAbBzZ@[`{=_1";
    for (size_t i = 0; i < la; i++) a[i] = alpha[prng_below(g, 13)];
    for (size_t i = 0; i < lb; i++) b[i] = alpha[prng_below(g, 13)];
    a[la] = 0; b[lb] = 0;
    size_t n = prng_below(g, 10);
    printf("F strnicmp "); puthex(a, la); printf(" "); puthex(b, lb); printf(" %llu = %d\n", U(n), _mi_strnicmp(a, b, n));
  }
}

// ------------------------------------------------------------------------------------------
// _mi_getenv / _mi_prim_getenv on a constructed environment
// ------------------------------------------------------------------------------------------
static void rec_getenv(size_t size, const char* name, char** env, int k) {
  char* p = ctx_begin("F getenv");
  p = ctx_num(p, size); p = ctx_hex(p, name, strlen(name)); p = ctx_num(p, (unsigned)k);
  for (int i = 0; i < k; i++) p = ctx_hex(p, env[i], strlen(env[i]));
  char** saved = environ;
  char* b = gbuf(size);
  environ = env;
  bool found = _mi_getenv(name, b, size);
  environ = saved;
  gcheck(b);
  printf("%s = %d ", ctx, found ? 1 : 0); puthex(b, size); printf(" 0\n");
  if (found) printf("T getenv %llu %d\n", U(size), strnlen(b, size) < size ? 1 : 0);
}

static char long_entry[6000];
static void getenv_section(void) {
  memset(long_entry, 'v', sizeof(long_entry) - 1);
  memcpy(long_entry, "MIMALLOC_LONG=", 14);
  char* env1[] = { "HOME=/root", "MIMALLOC_VERBOSE=1", "mimalloc_show_stats=yes", "MIMALLOC_VERBOSE=2", "MIMALLOC_VERBOSEX=3",
                   "MIMALLOC_EMPTY=", "NOEQ", "=x", long_entry, "mimalloc_purge_delay=  25", NULL };
  const char* names[] = { "mimalloc_verbose", "MIMALLOC_VERBOSE", "mimalloc_show_stats", "mimalloc_verbos", "mimalloc_verbosex",
                          "mimalloc_empty", "noeq", "", "mimalloc_long", "mimalloc_purge_delay", "home", "mimalloc_absent" };
  size_t sizes[] = { 0, 1, 63, 64, 65, 66, 100, 200 };
  for (size_t n = 0; n < sizeof(names) / sizeof(names[0]); n++)
    for (size_t s = 0; s < sizeof(sizes) / sizeof(sizes[0]); s++)
      rec_getenv(sizes[s], names[n], env1, 10);
  char* env0[] = { NULL };
  rec_getenv(65, "mimalloc_verbose", env0, 0);
}

// ------------------------------------------------------------------------------------------
// options
// ------------------------------------------------------------------------------------------
static mi_option_desc_t pristine[_mi_option_last];

static void options_reset(void) {
  for (int j = 0; j < _mi_option_last; j++) { options[j] = pristine[j]; options[j].init = UNINIT; }
}
static void upper(char* d, const char* s) { for (; *s; s++, d++) *d = (char)((*s >= 'a' && *s <= 'z') ? *s - 32 : *s); *d = 0; }

// environment = the given entries; reads option i through mi_option_get
static void rec_optinit(int i, char** env, int k, const char* tvalue /* value given through MIMALLOC_<NAME>, or NULL */) {
  char* p = ctx_begin("F optinit");
  p = ctx_num(p, (unsigned)i); p = ctx_num(p, (unsigned)k);
  for (int e = 0; e < k; e++) p = ctx_hex(p, env[e], strlen(env[e]));
  options_reset();
  char** saved = environ;
  environ = env;
  long v = mi_option_get((mi_option_t)i);
  environ = saved;
  printf("%s = %ld %d %ld %ld 0\n", ctx, v, (int)options[i].init, options[mi_option_guarded_min].value, options[mi_option_guarded_max].value);
  if (tvalue != NULL) {
    printf("T opt %d %d %ld ", i, mi_option_has_size_in_kib((mi_option_t)i) ? 1 : 0, pristine[i].value);
    puthex(tvalue, strlen(tvalue)); printf(" %ld %d\n", v, (int)options[i].init);
  }
}

static char entry[8192];
static void opt_value(int i, const char* value) {
  char name[128];
  upper(name, options[i].name);
  snprintf(entry, sizeof(entry), "MIMALLOC_%s=%s", name, value);
  char* env[] = { entry, NULL };
  rec_optinit(i, env, 1, value);
}

#define MAXV 6000
static char* values[MAXV]; static int nvalues;       // well-formed stream
static char* badvalues[MAXV]; static int nbad;       // malformed stream
static void addv(const char* s) { if (nvalues < MAXV) values[nvalues++] = strdup(s); }
static void addb(const char* s) { if (nbad < MAXV) badvalues[nbad++] = strdup(s); }

static void gen_values(prng_t* g, int thorough) {
  char t[8192];
  // the 8 boolean words in every letter case
  const char* words[] = { "1", "true", "yes", "on", "0", "false", "no", "off" };
  for (int w = 0; w < 8; w++) {
    size_t l = strlen(words[w]);
    for (unsigned m = 0; m < (1u << l); m++) {
      for (size_t c = 0; c < l; c++) t[c] = (char)(((m >> c) & 1) && words[w][c] >= 'a' ? words[w][c] - 32 : words[w][c]);
      t[l] = 0;
      if (m == 0 || l > 1 || t[0] != words[w][0]) addv(t);
      if (l == 1) break;
    }
  }
  addv("");
  // decimal numbers: around 0, +-1, LONG_MAX, LONG_MIN, 20 and 25 digits; leading space / sign forms
  const char* nums[] = { "0", "1", "7", "10", "00012", "1023", "1024", "1025", "2147483647", "2147483648", "4294967296",
                         "9223372036854775806", "9223372036854775807", "9223372036854775808", "9223372036854775809",
                         "18446744073709551615", "18446744073709551616", "99999999999999999999", "1234567890123456789012345" };
  const char* pre[] = { "", " ", "  ", "\t", " \n\t ", "\v\f\r" };
  const char* sign[] = { "", "+", "-" };
  for (size_t n = 0; n < sizeof(nums) / sizeof(nums[0]); n++)
    for (size_t p = 0; p < sizeof(pre) / sizeof(pre[0]); p++)
      for (size_t s = 0; s < 3; s++) { snprintf(t, sizeof(t), "%s%s%s", pre[p], sign[s], nums[n]); addv(t); }
  // every suffix combination K/M/G/T/"" x ""/B/iB in upper, lower and mixed case
  const char* snums[] = { "0", "1", "3", "1023", "1025", "4194303", "1099511627776", "9007199254740993", "274877906943", "274877906944",
                          "274877906945", "268435455", "268435456", "262144", "8796093022207", "8796093022208", "17592186044416",
                          "9223372036854775807", "9223372036854775808", "36028797018963968", "99999999999999999999", "-5", "+12", " 2" };
  const char* unit[] = { "", "k", "K", "m", "M", "g", "G", "t", "T" };
  const char* tail[] = { "", "b", "B", "ib", "IB", "iB", "Ib" };
  for (size_t n = 0; n < sizeof(snums) / sizeof(snums[0]); n++)
    for (size_t u = 0; u < 9; u++)
      for (size_t b = 0; b < 7; b++) { snprintf(t, sizeof(t), "%s%s%s", snums[n], unit[u], tail[b]); addv(t); }

  // malformed stream: fragments of the boolean words, separators, trailing garbage, bare suffixes
  const char* bad[] = { "E", ";", "RUE", "1;TRUE", "TRUE;", "TRU", "TRUEE", "YES;NO", "O", "N", "FALS", "F", "T", "Y", "ES", ";ON", "ON;",
                        "1;", ";1", "0;FALSE", "TRUE;YES", "NO;OFF", "U", "S", "A", "L", "1;TRUE;YES;ON", "0;FALSE;NO;OFF", ";;",
                        "12x", "12 ", "1 2", " ", "  ", "\t", "+", "-", "+-1", "--1", "-+1", "+ 1", "- 1", "0x10", "1e3", "1.5", "1,5", ".5",
                        "K", "M", "G", "T", "B", "iB", "IB", "KiB", "MiB", "GiB", "TiB", "KB", "kb", "mb", "gib", "tIb", " K", "+K", "-M", "0xK",
                        "1KK", "1KiBB", "1KBi", "1Ki", "1iBK", "1BB", "1K B", "1 K", "1P", "1E", "1KiB ", "1k;", "1MM", "1TG",
                        "\xef\xbc\x91", "1\x01", "\x7f", "true ", " true", "yes\n", "on\t", "1 ", " 1 ", "0 ", "tr\xfc" "e" };
  for (size_t i = 0; i < sizeof(bad) / sizeof(bad[0]); i++) addb(bad[i]);
  // very long values: 63, 64, 65, 200, 5000 bytes
  size_t lens[] = { 63, 64, 65, 66, 200, 5000 };
  for (size_t li = 0; li < sizeof(lens) / sizeof(lens[0]); li++) {
    size_t L = lens[li];
    memset(t, '1', L); t[L] = 0; addv(t);                       // digits only (saturates)
    memset(t, 'x', L); t[L] = 0; addb(t);                       // garbage only
    memset(t, ' ', L); t[L - 1] = '7'; addv(t);                 // spaces then one digit
    memset(t, ' ', L); t[L - 2] = '1'; t[L - 1] = 'x'; addb(t); // spaces, digit, garbage at the very end
    memset(t, ' ', L); t[L - 2] = '1'; t[L - 1] = '2'; addv(t); // spaces, two digits at the very end
    memset(t, '0', L); t[L - 1] = 'K'; addv(t);                 // zeros then K (well-formed for KiB options only)
    memset(t, '9', L); t[L / 2] = ';'; addb(t);
    memset(t, 'x', L); memcpy(t, "TRUE", 4); addb(t);           // word followed by garbage
    memset(t, 0, L + 1); memcpy(t, "TRUE", 4); memset(t + 4, ' ', L - 4); addb(t);
  }
  // random short strings over the alphabet of the grammar (well-formed or not: classified by the oracle)
  const char* alpha = " \t+-0123456789KMGTIBkmgibxE;1";
  int nr = thorough ? 20000 : 2500;
  for (int r = 0; r < nr; r++) {
    size_t l = 1 + prng_below(g, 7);
    for (size_t c = 0; c < l; c++) t[c] = alpha[prng_below(g, strlen(alpha))];
    t[l] = 0; addb(t);
  }
}

static void options_section(prng_t* g, int thorough) {
  gen_values(g, thorough);
  // options on which the complete streams are run: the two KiB options, verbose, show_errors, purge_delay
  // (legacy name), guarded_min/max (coupled), reserve_huge_os_pages_at (default -1)
  int full[] = { mi_option_reserve_os_memory, mi_option_arena_reserve, mi_option_verbose, mi_option_show_errors,
                 mi_option_purge_delay, mi_option_guarded_min, mi_option_guarded_max, mi_option_reserve_huge_os_pages_at };
  for (size_t f = 0; f < sizeof(full) / sizeof(full[0]); f++) {
    for (int v = 0; v < nvalues; v++) opt_value(full[f], values[v]);
    for (int v = 0; v < nbad; v++) opt_value(full[f], badvalues[v]);
  }
  // every option: a slice of both streams (all in the thorough tier)
  for (int i = 0; i < _mi_option_last; i++) {
    int stepv = thorough ? 1 : 23, stepb = thorough ? 1 : 17;
    for (int v = i % stepv; v < nvalues; v += stepv) opt_value(i, values[v]);
    for (int v = i % stepb; v < nbad; v += stepb) opt_value(i, badvalues[v]);
  }
  // environments with several entries: legacy names, lower-case names, near-miss names, duplicates, no entry
  for (int i = 0; i < _mi_option_last; i++) {
    char up[128], e1[256], e2[256], e3[256], e4[256];
    upper(up, options[i].name);
    char* none[] = { "HOME=/root", "MIMALLOC=1", NULL };
    rec_optinit(i, none, 2, NULL);
    snprintf(e1, sizeof(e1), "mimalloc_%s=7", options[i].name);
    snprintf(e2, sizeof(e2), "MIMALLOC_%s=8", up);
    { char* env[] = { "PATH=/bin", e1, e2, NULL }; rec_optinit(i, env, 3, NULL); }
    snprintf(e3, sizeof(e3), "MIMALLOC_%sX=9", up);
    snprintf(e4, sizeof(e4), "MIMALLOC_%.*s=9", (int)strlen(up) - 1, up);
    { char* env[] = { e3, e4, "MIMALLOC_=3", NULL }; rec_optinit(i, env, 3, NULL); }
    { char* env[] = { e3, e4, e2, NULL }; rec_optinit(i, env, 3, NULL); }
    if (options[i].legacy_name != NULL) {
      char lup[128], l1[256], l2[256];
      upper(lup, options[i].legacy_name);
      snprintf(l1, sizeof(l1), "MIMALLOC_%s=5", lup);
      snprintf(l2, sizeof(l2), "MIMALLOC_%s=bogus", lup);
      { char* env[] = { l1, NULL }; rec_optinit(i, env, 1, NULL); }
      { char* env[] = { l2, NULL }; rec_optinit(i, env, 1, NULL); }
      { char* env[] = { l1, e2, NULL }; rec_optinit(i, env, 2, NULL); }
    }
  }
  // mi_option_is_word directly
  const char* ws[] = { "1;TRUE;YES;ON", "0;FALSE;NO;OFF", "", ";", "A;;B", "AB" };
  const char* ss[] = { "", "1", "TRUE", "true", "YES", "ON", "O", "N", ";", "1;TRUE", "E", "RUE", "0", "FALSE", "NO", "OFF", "A", "B", "AB", "TRUEX" };
  for (size_t w = 0; w < sizeof(ws) / sizeof(ws[0]); w++)
    for (size_t s = 0; s < sizeof(ss) / sizeof(ss[0]); s++) {
      printf("F isword "); puthex(ss[s], strlen(ss[s])); printf(" "); puthex(ws[w], strlen(ws[w]));
      printf(" = %d\n", mi_option_is_word(ss[s], ws[w]) ? 1 : 0);
    }
  // libc strtol against the ISO C model, on the upper-cased values (as mi_option_init calls it) and as they are
  for (int pass = 0; pass < 2; pass++) {
    int n = pass == 0 ? nvalues : nbad;
    char** arr = pass == 0 ? values : badvalues;
    for (int v = 0; v < n; v++) {
      if (strlen(arr[v]) > 300) continue;
      char t[512]; char* end;
      upper(t, arr[v]);
      long val = strtol(t, &end, 10);
      printf("F strtol "); puthex(t, strlen(t)); printf(" = %ld %llu %d\n", val, U(end - t), end != t ? 1 : 0);
    }
  }
  // mi_option_set / mi_option_set_default / mi_option_get sequences (empty environment)
  int nseq = thorough ? 3000 : 400;
  char* env0[] = { NULL };
  for (int s = 0; s < nseq; s++) {
    options_reset();
    char** saved = environ; environ = env0;
    int k = 1 + (int)prng_below(g, 6);
    printf("F optseq %d", k);
    for (int o = 0; o < k; o++) {
      int op = (int)prng_below(g, 3);
      int idx;
      switch (prng_below(g, 8)) {
        case 0: idx = mi_option_guarded_min; break;
        case 1: idx = mi_option_guarded_max; break;
        case 2: idx = _mi_option_last + (int)prng_below(g, 3); break;   // out of range: ignored
        default: idx = (int)prng_below(g, _mi_option_last); break;
      }
      long vals[] = { 0, 1, -1, 5, 100, 1000000, LONG_MAX, LONG_MIN, (long)MI_GiB, (long)MI_GiB + 1, 4096 };
      long v = vals[prng_below(g, sizeof(vals) / sizeof(vals[0]))];
      if (op == 0) mi_option_set((mi_option_t)idx, v);
      else if (op == 1) mi_option_set_default((mi_option_t)idx, v);
      else { long r = mi_option_get((mi_option_t)idx); (void)r; }
      printf(" %d %d %ld", op, idx, v);
      if (op == 0 && idx < _mi_option_last) printf("%s", "");   // (T record below)
    }
    environ = saved;
    printf(" =");
    for (int j = 0; j < _mi_option_last; j++) printf(" %ld %d", options[j].value, (int)options[j].init);
    printf("\n");
  }
  // out-of-range option indices must be ignored: nothing behind the option table may change (the bytes that follow the table in
  // the data segment are snapshotted; they belong to whatever static object the linker placed there)
  {
    enum { TAILN = 3 * sizeof(mi_option_desc_t) };
    uint8_t before[TAILN]; uint8_t* tail = (uint8_t*)&options[_mi_option_last];
    options_reset();
    memcpy(before, tail, TAILN);
    int bad = 0; long got = 0;
    for (int d = 0; d < 3; d++) {
      mi_option_set((mi_option_t)(_mi_option_last + d), 0x5A5A5A5A + d);
      mi_option_set_default((mi_option_t)(_mi_option_last + d), 0x3C3C3C3C + d);
      mi_option_set_enabled((mi_option_t)(_mi_option_last + d), true);
      got |= mi_option_get((mi_option_t)(_mi_option_last + d));
      if (memcmp(before, tail, TAILN) != 0) { bad = 1 + d; break; }
    }
    mi_option_set((mi_option_t)(-1), 77); got |= mi_option_get((mi_option_t)(-1));
    if (bad) memcpy(tail, before, TAILN);
    printf("T optrange %d %ld\n", bad, got);
  }
  // set -> get round trip on every option (implementation-side oracle)
  for (int i = 0; i < _mi_option_last; i++) {
    long vals[] = { 0, 1, -1, 123456, LONG_MAX, LONG_MIN };
    for (size_t v = 0; v < 6; v++) {
      options_reset();
      mi_option_set((mi_option_t)i, vals[v]);
      long r = mi_option_get((mi_option_t)i);
      printf("T setget %d %ld %ld %d\n", i, vals[v], r, (int)options[i].init);
    }
  }
  options_reset();
}

// ------------------------------------------------------------------------------------------
// _mi_vsnprintf
// ------------------------------------------------------------------------------------------
typedef struct { int kind; /* 0 int, 1 string, 2 NULL */ uint64_t v; const char* s; } varg_t;

static void rec_vsn(size_t bufsize, const char* fmt, const varg_t* a, int k) {
  char* b = gbuf(bufsize);
  char* p = ctx_begin("F vsn");
  p = ctx_num(p, U((uintptr_t)b)); p = ctx_num(p, bufsize); p = ctx_hex(p, fmt, strlen(fmt)); p = ctx_num(p, (unsigned)k);
  uint64_t w[8] = { 0, 0, 0, 0, 0, 0, 0, 0 };
  for (int i = 0; i < k && i < 8; i++) {
    if (a[i].kind == 0) { p += sprintf(p, " i%llu", U(a[i].v)); w[i] = a[i].v; }
    else if (a[i].kind == 1) { *p++ = ' '; *p++ = 's'; p = hexs(p, a[i].s, strlen(a[i].s)); w[i] = (uint64_t)(uintptr_t)a[i].s; }
    else { *p++ = ' '; *p++ = 'n'; *p = 0; w[i] = 0; }
  }
  int ret = _mi_snprintf(b, bufsize, fmt, w[0], w[1], w[2], w[3], w[4], w[5], w[6], w[7]);
  gcheck(b);
  printf("%s = %d ", ctx, ret); puthex(b, bufsize); printf(" 0\n");
  // implementation-side oracle: return value inside the buffer, terminator at the returned length
  int ok = (bufsize == 0) ? (ret == 0) : (ret >= 0 && (size_t)ret < bufsize && b[ret] == 0 && b[bufsize - 1] == 0 && strlen(b) == (size_t)ret);
  if (!ok) printf("T vsnbad %s\n", ctx);
}

static const uint64_t ivals[] = { 0, 1, 42, 255, 4096, 0x7fffffffull, 0x80000000ull, 0xffffffffull, 0x100000000ull, 123456789012345ull,
                                  0x7fffffffffffffffull, 0x8000000000000000ull, 0xffffffffffffffffull, 0xffffffffffffff85ull, 0x0000ffff12345678ull };
static const char* svals[] = { "", "a", "hello", "0123456789012345678901234567890123456789", "tab\there\x01\x02|" };

static void vsn_sizes(const char* fmt, const varg_t* a, int k, int all) {
  if (all) { for (size_t n = 0; n <= 40; n++) rec_vsn(n, fmt, a, k); rec_vsn(64, fmt, a, k); rec_vsn(511, fmt, a, k); }
  else { size_t ns[] = { 0, 1, 2, 3, 7, 13, 24, 40 }; for (size_t i = 0; i < 8; i++) rec_vsn(ns[i], fmt, a, k); }
}

static void vsn_section(prng_t* g, int thorough) {
  const char* flags[] = { "", "-", "0", "+", " ", "-0", "+0", "+-", " -0" };
  const char* width[] = { "", "1", "5", "12", "45" };
  const char* lens[] = { "", "z", "t", "l", "ll", "L" };
  const char* conv = "diuxpsc%q";
  char fmt[128];
  unsigned long count = 0;
  for (size_t f = 0; f < 9; f++) for (size_t w = 0; w < 5; w++) for (size_t l = 0; l < 6; l++) for (const char* c = conv; *c; c++) {
    snprintf(fmt, sizeof(fmt), "[%%%s%s%s%c]", flags[f], width[w], lens[l], *c);
    varg_t a[2];
    int core = (l == 0 || (l == 1 && (*c == 'u' || *c == 'd')) || (l == 3 && (*c == 'd' || *c == 'u')) || (l == 4 && (*c == 'd' || *c == 'u')) || (l == 2 && (*c == 'u' || *c == 'd' || *c == 'x')));
    int nv = (core || thorough) ? 3 : 1;
    for (int r = 0; r < nv; r++) {
      if (*c == 's') { int si = (int)((count + (unsigned)r) % 6); if (si == 5) { a[0].kind = 2; a[0].v = 0; a[0].s = NULL; } else { a[0].kind = 1; a[0].s = svals[si]; a[0].v = 0; } }
      else { a[0].kind = 0; a[0].s = NULL; a[0].v = (r == 0 ? ivals[count % 15] : ivals[prng_below(g, 15)]); }
      a[1].kind = 0; a[1].v = 77; a[1].s = NULL;
      vsn_sizes(fmt, a, 2, core && r == 0);
    }
    count++;
  }
  // every value with the plain directives and the ones used by the allocator
  const char* plain[] = { "%d", "%i", "%u", "%x", "%p", "%zu", "%zd", "%ld", "%lu", "%lld", "%llu", "%tu", "%td", "%zx", "%lx", "%tx", "%llx", "%8zu", "%-8ld", "%08x", "%3d", "%+d", "% d", "%10p" };
  for (size_t f = 0; f < sizeof(plain) / sizeof(plain[0]); f++)
    for (size_t v = 0; v < 15; v++) {
      varg_t a[1] = { { 0, ivals[v], NULL } };
      rec_vsn(40, plain[f], a, 1); rec_vsn(5, plain[f], a, 1); rec_vsn(12, plain[f], a, 1);
    }
  // composite formats, unprintable characters, truncated directives, %% and unknown directives
  const char* comp[] = { "abc", "", "%", "%-", "%0", "%5", "%12", "%l", "%ll", "%z", "%+", "% ", "%5l", "a%", "%%", "%%%%", "100%% sure\n", "%q%w%e",
                         "a\x01" "b\x7f" "c\xe9" "d\te\rf\ng", "%s: %d", "x=%d y=%u z=%x %s|", "%5s|%-5s|%05s|", "%s%s%s", "[%3c]", "%5%|", "%-5%|",
                         "%d%d%d%d%d%d%d%d", "%1$d", "%*d", "%.3s", "%#x", "%hd", "%hhu", "%jd", "%Lf", "%ls", "%lc",
                         "%123456789012345678901234567890d", "%99999d", "%-99999s|" };
  for (size_t f = 0; f < sizeof(comp) / sizeof(comp[0]); f++) {
    varg_t a[8];
    for (int r = 0; r < 3; r++) {
      for (int i = 0; i < 8; i++) { a[i].kind = 0; a[i].v = ivals[prng_below(g, 15)]; a[i].s = NULL; }
      // give string directives a string: scan the format for 's' conversions in order (approximation: all args strings when it has %s or %ls)
      if (strstr(comp[f], "s") != NULL && strstr(comp[f], "sure") == NULL) {
        const char* q = comp[f]; int ai = 0;
        while (*q && ai < 8) {
          if (*q == '%') { q++; while (*q && strchr("+-0 123456789ztlL", *q)) q++;
            if (*q == 's') { a[ai].kind = 1; a[ai].s = svals[prng_below(g, 5)]; ai++; }
            else if (*q && strchr("diuxp", *q)) ai++;
            if (*q) q++; }
          else q++;
        }
      }
      vsn_sizes(comp[f], a, 8, r == 0);
    }
  }
}

// formats found in the sources (tools/props/C20.py scans /repo/src/*.c and chooses the arguments)
static uint8_t unhex1(char c) { return (uint8_t)(c <= '9' ? c - '0' : (c | 32) - 'a' + 10); }
static char* unhexdup(const char* h) {
  if (h[0] == '-' ) return strdup("");
  size_t n = strlen(h) / 2; char* s = (char*)malloc(n + 1);
  for (size_t i = 0; i < n; i++) s[i] = (char)((unhex1(h[2 * i]) << 4) | unhex1(h[2 * i + 1]));
  s[n] = 0; return s;
}
static void jobs_section(const char* path) {
  FILE* f = fopen(path, "r");
  if (f == NULL) { printf("T nojobs\n"); return; }
  static char line[1 << 16];
  unsigned long n = 0;
  while (fgets(line, sizeof(line), f) != NULL) {
    char* tok = strtok(line, " \n");
    if (tok == NULL || strcmp(tok, "V") != 0) continue;
    char* fmt = unhexdup(strtok(NULL, " \n"));
    int k = atoi(strtok(NULL, " \n"));
    varg_t a[8]; memset(a, 0, sizeof(a));
    for (int i = 0; i < k && i < 8; i++) {
      char* t = strtok(NULL, " \n");
      if (t[0] == 'i') { a[i].kind = 0; a[i].v = strtoull(t + 1, NULL, 10); }
      else if (t[0] == 's') { a[i].kind = 1; a[i].s = unhexdup(t + 1); }
      else a[i].kind = 2;
    }
    for (size_t sz = 0; sz <= 40; sz++) rec_vsn(sz, fmt, a, k);
    rec_vsn(64, fmt, a, k); rec_vsn(127, fmt, a, k); rec_vsn(128, fmt, a, k); rec_vsn(511, fmt, a, k);
    n++;
  }
  fclose(f);
  printf("T jobs %lu\n", n);
}

// ------------------------------------------------------------------------------------------
// delayed output buffer, line buffer, JSON buffer
// ------------------------------------------------------------------------------------------
static char msgs[8][700];
static int gen_msgs(prng_t* g, int maxlen) {
  int k = 1 + (int)prng_below(g, 6);
  for (int i = 0; i < k; i++) {
    size_t l = prng_below(g, (size_t)maxlen + 1);
    for (size_t c = 0; c < l; c++) msgs[i][c] = (prng_below(g, 9) == 0 ? '\n' : (char)('a' + prng_below(g, 26)));
    msgs[i][l] = 0;
  }
  return k;
}

static void outbuf_section(prng_t* g, int thorough) {
  const size_t MAXD = MI_MAX_DELAY_OUTPUT;
  int n = thorough ? 200 : 12;
  for (int r = 0; r < n; r++) {
    size_t starts[] = { MAXD - 650, MAXD - 300, MAXD - 10, MAXD - 2, MAXD - 1, MAXD, MAXD + 5, 0 };
    size_t start = starts[r % 8];
    if (start == 0) start = MAXD - 700 + prng_below(g, 690);
    int k = gen_msgs(g, 330);
    memset(out_buf, 0xAA, sizeof(out_buf));
    mi_atomic_store_release(&out_len, start);
    char* p = ctx_begin("F outbuf"); p = ctx_num(p, start); p = ctx_num(p, (unsigned)k);
    for (int i = 0; i < k; i++) p = ctx_hex(p, msgs[i], strlen(msgs[i]));
    for (int i = 0; i < k; i++) mi_out_buf(msgs[i], NULL);
    printf("%s = %llu ", ctx, U(mi_atomic_load_relaxed(&out_len))); puthex(out_buf + MAXD - 700, 701); printf(" 0\n");
  }
  size_t fl[] = { 0, 1, 100, MAXD - 1, MAXD, MAXD + 1, MAXD + 100, 5 * MAXD };
  for (size_t i = 0; i < sizeof(fl) / sizeof(fl[0]); i++) for (int nomore = 0; nomore < 2; nomore++) {
    memset(out_buf, 0xAA, sizeof(out_buf));
    mi_atomic_store_release(&out_len, fl[i]);
    snprintf(ctx, sizeof(ctx), "F outflush %llu %d", U(fl[i]), nomore);
    mi_out_buf_flush(&silent_out, nomore != 0, NULL);
    size_t shown = fl[i] > MAXD ? MAXD : fl[i];
    printf("%s = %llu %llu ", ctx, U(mi_atomic_load_relaxed(&out_len)), U(shown)); puthex(out_buf + MAXD - 700, 701); printf(" 0\n");
  }
  memset(out_buf, 0, sizeof(out_buf));
  mi_atomic_store_release(&out_len, 2 * MAXD);
}

static char flushed[4096][260]; static int nflushed;
static void collect_out(const char* msg, void* arg) { (void)arg; if (nflushed < 4096) { strncpy(flushed[nflushed], msg, 259); flushed[nflushed][259] = 0; nflushed++; } }

static void bufout_section(prng_t* g, int thorough) {
  int n = thorough ? 400 : 60;
  for (int r = 0; r < n; r++) {
    size_t counts[] = { 1, 2, 3, 8, 255 };
    size_t count = counts[r % 5];
    int k = gen_msgs(g, count == 255 ? 600 : 12);
    char* b = gbuf(count + 1);
    buffered_t bf = { &collect_out, NULL, b, 0, count };
    nflushed = 0;
    char* p = ctx_begin("F bufout"); p = ctx_num(p, count); p = ctx_num(p, (unsigned)k);
    for (int i = 0; i < k; i++) p = ctx_hex(p, msgs[i], strlen(msgs[i]));
    for (int i = 0; i < k; i++) mi_buffered_out(msgs[i], &bf);
    gcheck(b);
    printf("%s = %llu 0 %d", ctx, U(bf.used), nflushed);
    size_t maxl = 0;
    for (int i = 0; i < nflushed; i++) { printf(" "); puthex(flushed[i], strlen(flushed[i])); if (strlen(flushed[i]) > maxl) maxl = strlen(flushed[i]); }
    printf("\n");
    printf("T bufout %llu %llu %llu\n", U(count), U(bf.used), U(maxl));
  }
}

static void hbuf_section(prng_t* g, int thorough) {
  int n = thorough ? 600 : 120;
  for (int r = 0; r < n; r++) {
    size_t size = (r < 40 ? (size_t)r : 1 + prng_below(g, 200));
    if (size == 0) continue;
    int k = gen_msgs(g, 60);
    char* b = gbuf(size);
    mi_heap_buf_t hb = { b, size, 0, false };
    char* p = ctx_begin("F hbuf"); p = ctx_num(p, size); p = ctx_num(p, 0); p = ctx_num(p, (unsigned)k);
    for (int i = 0; i < k; i++) p = ctx_hex(p, msgs[i], strlen(msgs[i]));
    for (int i = 0; i < k; i++) mi_heap_buf_print(&hb, msgs[i]);
    gcheck(b);
    printf("%s = %llu ", ctx, U(hb.used)); puthex(b, size); printf(" 0\n");
  }
}

static size_t nchunks, maxchunk;
static void count_out(const char* msg, void* arg) { (void)arg; nchunks++; size_t l = strlen(msg); if (l > maxchunk) maxchunk = l; }

static void json_section(int thorough) {
  // make the statistics non-trivial
  void* ps[200];
  for (int i = 0; i < 200; i++) ps[i] = mi_malloc((size_t)(i * 37 + 1));
  for (int i = 0; i < 200; i += 2) mi_free(ps[i]);
  for (size_t size = 0; size <= (thorough ? 3000u : 300u); size++) {
    char* b = gbuf(size);
    snprintf(ctx, sizeof(ctx), "mi_stats_get_json(%llu, buf)", U(size));
    char* r = mi_stats_get_json(size, b);
    gcheck(b);
    if (size == 0) { printf("T json 0 %d %d %llu\n", r != NULL && r != b, r != NULL, U(r ? strlen(r) : 0)); mi_free(r); }
    else printf("T json %llu %d %d %llu\n", U(size), r == b, memchr(b, 0, size) != NULL, U(strnlen(b, size)));
  }
  size_t big[] = { 1000, 2047, 2048, 2049, 4095, 4096, 10000, 20000, 40000, 65536, 262144 };
  for (size_t i = 0; i < sizeof(big) / sizeof(big[0]); i++) {
    size_t size = big[i], span = ((size + PG - 1) / PG + 2) * PG;
    uint8_t* m = (uint8_t*)mmap(NULL, span, PROT_READ | PROT_WRITE, MAP_PRIVATE | MAP_ANONYMOUS, -1, 0);
    if (m == MAP_FAILED) continue;
    mprotect(m + span - PG, PG, PROT_NONE);
    memset(m, CANARY, span - PG);
    char* b = (char*)(m + span - PG - size);
    snprintf(ctx, sizeof(ctx), "mi_stats_get_json(%llu, buf)", U(size));
    char* r = mi_stats_get_json(size, b);
    int can = 1; for (size_t c = 0; c < PG; c++) if (m[c] != CANARY) can = 0;
    for (uint8_t* q = m + PG; q < (uint8_t*)b; q++) if (*q != CANARY) can = 0;
    if (!can) { canary_bad++; printf("T canarybad %s\n", ctx); }
    printf("T json %llu %d %d %llu\n", U(size), r == b, memchr(b, 0, size) != NULL, U(strnlen(b, size)));
    munmap(m, span);
  }
  for (int i = 1; i < 200; i += 2) mi_free(ps[i]);
  // the other formatted outputs of the allocator: must run to completion, chunks bounded by the line buffer
  nchunks = 0; maxchunk = 0;
  snprintf(ctx, sizeof(ctx), "mi_stats_print_out");
  mi_stats_print_out(&count_out, NULL);
  printf("T printed stats %llu %llu\n", U(nchunks), U(maxchunk));
  nchunks = 0; maxchunk = 0;
  snprintf(ctx, sizeof(ctx), "mi_options_print");
  mi_register_output(&count_out, NULL);
  mi_options_print();
  _mi_message("%s %d %zu %p\n", "message", -1, (size_t)-1, (void*)&nchunks);
  mi_option_set(mi_option_verbose, 2);
  _mi_verbose_message("verbose %s\n", "x"); _mi_trace_message("trace %5d\n", 5);
  _mi_warning_message("warning %lu\n", 1UL);
  char longs[700]; memset(longs, 'L', sizeof(longs) - 1); longs[sizeof(longs) - 1] = 0;
  _mi_message("%s|%s\n", longs, longs);        // longer than the 512-byte message buffer
  mi_option_set(mi_option_verbose, 0);
  mi_register_output(&silent_out, NULL);
  printf("T printed options %llu %llu\n", U(nchunks), U(maxchunk));
}

// a field width that wraps the address computation in mi_out_alignright: run in a child process
static void widthwrap_probe(void) {
  fflush(stdout);
  pid_t pid = fork();
  if (pid == 0) {
    signal(SIGSEGV, SIG_DFL); signal(SIGBUS, SIG_DFL);
    char* b = gbuf(32);
    char fmt[64];
    // start + width wraps to just below `start`
    snprintf(fmt, sizeof(fmt), "%%%llud", U((uint64_t)0 - (uint64_t)8));
    _mi_snprintf(b, 32, fmt, 5);
    _exit(0);
  }
  int st = 0;
  waitpid(pid, &st, 0);
  printf("T widthwrap %d %d\n", WIFSIGNALED(st) ? 1 : 0, WIFSIGNALED(st) ? WTERMSIG(st) : 0);
}

int main(int argc, char** argv) {
  uint64_t seed = (argc > 1 ? strtoull(argv[1], NULL, 10) : 1);
  int thorough = (argc > 2 && atoi(argv[2]) > 0);
  const char* jobs = (argc > 3 ? argv[3] : NULL);
  prng_t g; prng_seed(&g, seed);
  static char obuf[1 << 20];
  setvbuf(stdout, obuf, _IOFBF, sizeof(obuf));

  PG = (size_t)sysconf(_SC_PAGESIZE);
  gmap = (uint8_t*)mmap(NULL, 3 * PG, PROT_READ | PROT_WRITE, MAP_PRIVATE | MAP_ANONYMOUS, -1, 0);
  if (gmap == MAP_FAILED || mprotect(gmap + 2 * PG, PG, PROT_NONE) != 0) { printf("T nomap\n"); return 2; }
  memset(gmap, CANARY, 2 * PG);
  signal(SIGSEGV, on_fault); signal(SIGBUS, on_fault); signal(SIGABRT, on_fault);

  mi_register_output(&silent_out, NULL);
  for (int j = 0; j < _mi_option_last; j++) { long l = mi_option_get((mi_option_t)j); (void)l; pristine[j] = options[j]; }
  printf("T table %d\n", (int)_mi_option_last);

  strings_section(&g, thorough);
  getenv_section();
  options_section(&g, thorough);
  vsn_section(&g, thorough);
  if (jobs != NULL) jobs_section(jobs);
  outbuf_section(&g, thorough);
  bufout_section(&g, thorough);
  hbuf_section(&g, thorough);
  json_section(thorough);
  widthwrap_probe();
  printf("T summary %lu %lu\n", guarded_calls, canary_bad);
  printf("END\n");
  return 0;
}
