// Translator (tie 1): compiled against /repo's *current* sources on every run.
// It includes the whole allocator as one translation unit so that every macro, #if and
// static table is resolved exactly as in the build, and prints Coq source for coq/Gen/*.v.
// Output format: lines "@@FILE <name>" start a new file; tools/vlib.py splits and writes
// each file only when its content changed.
#include REPO_STATIC   // -DREPO_STATIC='"/repo/src/static.c"'
#include <stdio.h>
#include <stddef.h>

#define CN(name) printf("Definition %s : N := %llu%%N.\n", #name, (unsigned long long)(name))
#define CNV(name,val) printf("Definition %s : N := %llu%%N.\n", name, (unsigned long long)(val))
#define CZV(name,val) printf("Definition %s : Z := (%lld)%%Z.\n", name, (long long)(val))

static void coq_string(const char* s) {
  putchar('"');
  for (; *s; s++) { if (*s=='"') printf("\"\""); else putchar(*s); }
  putchar('"');
}

// added for C11/C13/C18/C07 (Model/Os.v, Mask.v, Purge.v): a separate generated file Gen/OsConsts.v
static void dump_os_consts(void) {
  printf("@@FILE OsConsts.v\n");
  printf("(* GENERATED from /repo by harness/gen_dump.c -- do not edit *)\n");
  printf("From Coq Require Import NArith ZArith.\n");
  CNV("MI_SEGMENT_ALIGN_", MI_SEGMENT_ALIGN);
  CNV("MI_HINT_BASE_", MI_HINT_BASE); CNV("MI_HINT_AREA_", MI_HINT_AREA); CNV("MI_HINT_MAX_", MI_HINT_MAX);
  CNV("MI_VIRTUAL_ADDRESS_BITS_", MI_DEFAULT_VIRTUAL_ADDRESS_BITS);
  CNV("PROT_NONE_", PROT_NONE); CNV("PROT_RW_", PROT_READ | PROT_WRITE);
  CNV("MADV_DONTNEED_", MADV_DONTNEED);
#if defined(MADV_FREE)
  CNV("MADV_FREE_", MADV_FREE);
#else
  CNV("MADV_FREE_", MADV_DONTNEED);
#endif
#if !MI_DEBUG && !MI_SECURE
  CNV("PRIM_DECOMMIT_NEEDS_RECOMMIT_", 0);   // _mi_prim_decommit: madvise only
#else
  CNV("PRIM_DECOMMIT_NEEDS_RECOMMIT_", 1);   // ... plus mprotect(PROT_NONE)
#endif
  CNV("sizeof_mi_thread_data_t", sizeof(mi_thread_data_t));
  CNV("sizeof_mi_arena_t", sizeof(mi_arena_t));
  CZV("default_purge_delay", options[mi_option_purge_delay].value);
  CZV("default_purge_decommits", options[mi_option_purge_decommits].value);
  CZV("default_arena_purge_mult", options[mi_option_arena_purge_mult].value);
  CZV("default_purge_extend_delay", options[mi_option_purge_extend_delay].value);
  CZV("default_arena_eager_commit", options[mi_option_arena_eager_commit].value);
  CZV("default_eager_commit", options[mi_option_eager_commit].value);
  CZV("default_eager_commit_delay", options[mi_option_eager_commit_delay].value);
  CZV("default_allow_large_os_pages", options[mi_option_allow_large_os_pages].value);
#if defined(MADV_HUGEPAGE)
  CNV("MADV_HUGEPAGE_", MADV_HUGEPAGE);
#else
  CNV("MADV_HUGEPAGE_", 0);
#endif
  CNV("LARGE_PAGE_SIZE_", 2*MI_MiB);   // config->large_page_size set by _mi_prim_mem_init
}

int main(void) {
  printf("@@FILE Consts.v\n");
  printf("(* GENERATED from /repo by harness/gen_dump.c -- do not edit *)\n");
  printf("From Coq Require Import NArith ZArith.\n");
  CN(MI_INTPTR_SIZE); CN(MI_INTPTR_SHIFT); CN(MI_SIZE_BITS); CN(MI_SIZE_SIZE);
  CN(MI_SEGMENT_SLICE_SHIFT); CN(MI_SEGMENT_SHIFT); CN(MI_SEGMENT_SIZE); CN(MI_SEGMENT_MASK);
  CN(MI_SEGMENT_SLICE_SIZE); CN(MI_SLICES_PER_SEGMENT);
  CN(MI_SMALL_PAGE_SIZE); CN(MI_MEDIUM_PAGE_SIZE);
  CN(MI_SMALL_OBJ_SIZE_MAX); CN(MI_MEDIUM_OBJ_SIZE_MAX); CN(MI_MEDIUM_OBJ_WSIZE_MAX);
  CN(MI_LARGE_OBJ_SIZE_MAX); CN(MI_LARGE_OBJ_WSIZE_MAX);
  CN(MI_MAX_ALIGN_SIZE); CN(MI_MAX_ALIGN_GUARANTEE); CN(MI_BLOCK_ALIGNMENT_MAX);
  CN(MI_MAX_SLICE_OFFSET_COUNT); CN(MI_MAX_ALLOC_SIZE);
  CN(MI_BIN_HUGE); CN(MI_BIN_FULL); CN(MI_PAGES_DIRECT); CN(MI_SMALL_WSIZE_MAX); CN(MI_SMALL_SIZE_MAX);
  CN(MI_PADDING_SIZE); CN(MI_PADDING_WSIZE);
  CN(MI_SEGMENT_BIN_MAX);
  CN(MI_COMMIT_SIZE); CN(MI_MINIMAL_COMMIT_SIZE); CN(MI_COMMIT_MASK_BITS); CN(MI_COMMIT_MASK_FIELD_BITS); CN(MI_COMMIT_MASK_FIELD_COUNT);
  CN(MI_ARENA_BLOCK_SIZE); CN(MI_ARENA_MIN_OBJ_SIZE); CN(MI_MAX_ARENAS);
  CN(MI_BITMAP_FIELD_BITS); CN(MI_BITMAP_FIELD_FULL);
  CN(MI_MAX_EXTEND_SIZE); CN(MI_MIN_EXTEND);
  CN(MI_MAX_RETIRE_SIZE); CN(MI_RETIRE_CYCLES);
  CN(MI_SECURE); CN(MI_DEBUG);
#if MI_PADDING
  CNV("MI_PADDING_", 1);
#else
  CNV("MI_PADDING_", 0);
#endif
#ifdef MI_ENCODE_FREELIST
  CNV("MI_ENCODE_FREELIST_", 1);
#else
  CNV("MI_ENCODE_FREELIST_", 0);
#endif
  CN(MI_MALLOC_VERSION);
#if defined(MI_ALIGN4W)
  CNV("MI_ALIGN_VARIANT", 4);
#elif defined(MI_ALIGN2W)
  CNV("MI_ALIGN_VARIANT", 2);
#else
  CNV("MI_ALIGN_VARIANT", 1);
#endif
  CNV("SIZE_MAX_", SIZE_MAX); CNV("PTRDIFF_MAX_", PTRDIFF_MAX); CNV("UINT32_MAX_", UINT32_MAX);
  CNV("sizeof_mi_page_t", sizeof(mi_page_t)); CNV("sizeof_mi_segment_t", sizeof(mi_segment_t));
  CNV("sizeof_mi_slice_t", sizeof(mi_slice_t)); CNV("sizeof_mi_block_t", sizeof(mi_block_t));
  CNV("sizeof_mi_heap_t", sizeof(mi_heap_t));
  CNV("offsetof_segment_slices", offsetof(mi_segment_t, slices));
  CNV("os_page_size_default", 4096);
  CNV("MI_USE_DELAYED_FREE_", MI_USE_DELAYED_FREE); CNV("MI_DELAYED_FREEING_", MI_DELAYED_FREEING);
  CNV("MI_NO_DELAYED_FREE_", MI_NO_DELAYED_FREE); CNV("MI_NEVER_DELAYED_FREE_", MI_NEVER_DELAYED_FREE);
  CNV("TD_CACHE_SIZE_", TD_CACHE_SIZE);
  CNV("MI_MAX_PURGE_PER_PUSH_OR_ZERO", 0);
  CNV("EAGAIN_", EAGAIN); CNV("EFAULT_", EFAULT); CNV("ENOMEM_", ENOMEM); CNV("EINVAL_", EINVAL); CNV("EOVERFLOW_", EOVERFLOW);

  printf("@@FILE Bins.v\n");
  printf("(* GENERATED from /repo by harness/gen_dump.c -- do not edit *)\n");
  printf("From Coq Require Import NArith List.\nImport ListNotations.\nLocal Open Scope N_scope.\n");
  printf("(* _mi_heap_empty.pages[i].block_size for i = 0 .. MI_BIN_FULL *)\n");
  printf("Definition bin_sizes : list N := [");
  for (size_t i = 0; i <= MI_BIN_FULL; i++) printf("%s%zu", i? "; ":"", _mi_heap_empty.pages[i].block_size);
  printf("].\n");
  printf("(* tld_empty.segments.spans[i].slice_count for i = 0 .. MI_SEGMENT_BIN_MAX *)\n");
  printf("Definition span_bin_counts : list N := [");
  for (size_t i = 0; i <= MI_SEGMENT_BIN_MAX; i++) printf("%s%zu", i? "; ":"", tld_empty.segments.spans[i].slice_count);
  printf("].\n");

  dump_os_consts();

  printf("@@FILE Options.v\n");
  printf("(* GENERATED from /repo by harness/gen_dump.c -- do not edit *)\n");
  printf("From Coq Require Import ZArith List String.\nImport ListNotations.\nLocal Open Scope string_scope.\n");
  printf("(* options[] : (index, default value, initial state (0=UNINIT,1=DEFAULTED,2=INITIALIZED), name, legacy name or \"\") *)\n");
  printf("Definition options_table : list (nat * Z * nat * string * string) := [\n");
  for (int i = 0; i < _mi_option_last; i++) {
    printf("  (%d, (%ld)%%Z, %d, ", (int)options[i].option, options[i].value, (int)options[i].init);
    coq_string(options[i].name); printf(", ");
    coq_string(options[i].legacy_name ? options[i].legacy_name : "");
    printf(")%s\n", i+1 < _mi_option_last ? ";" : "");
  }
  printf("].\n");
  printf("Definition option_count : nat := %d.\n", (int)_mi_option_last);
  printf("Definition opt_reserve_os_memory : nat := %d.\n", (int)mi_option_reserve_os_memory);
  printf("Definition opt_arena_reserve : nat := %d.\n", (int)mi_option_arena_reserve);
  printf("Definition LONG_MAX_ : Z := (%ld)%%Z.\n", LONG_MAX);
  printf("Definition MI_MAX_DELAY_OUTPUT_ : Z := (%ld)%%Z.\n", (long)MI_MAX_DELAY_OUTPUT);
  // appended for C20 (Model/Opt.v)
  printf("Definition opt_guarded_min : nat := %d.\n", (int)mi_option_guarded_min);
  printf("Definition opt_guarded_max : nat := %d.\n", (int)mi_option_guarded_max);
  printf("Definition opt_verbose : nat := %d.\n", (int)mi_option_verbose);
  printf("Definition LONG_MIN_ : Z := (%ld)%%Z.\n", LONG_MIN);
  printf("Definition MI_KiB_ : N := %zu%%N.\n", (size_t)MI_KiB);
  printf("Definition MI_MiB_ : N := %zu%%N.\n", (size_t)MI_MiB);
  printf("Definition MI_GiB_ : N := %zu%%N.\n", (size_t)MI_GiB);
  return 0;
}
