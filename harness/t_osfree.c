// C11: freed memory is given back.  Built with the OS shim renames and linked with shim.o.
//
//   t_osfree R <seed> <thorough>    round trips _mi_os_alloc / _mi_os_alloc_aligned / _mi_os_alloc_aligned_at_offset
//                                   -> _mi_os_free_ex for random sizes / alignments / offsets, incl. the
//                                   over-allocate-and-trim path (forced by making the kernel answer the hinted
//                                   mmap with a misaligned address, and natural for alignments above 32 MiB).
//                                   F os_roundtrip records (format: ocaml/mode_os.ml) + T roundtrip records
//                                   (ledger before/after).
//   t_osfree W <seed> <config> <reps> <big>
//                                   whole-API workload repeated <reps> times: allocate everything (small, medium,
//                                   large, huge, aligned-huge, from a second thread that exits), free everything,
//                                   mi_collect(true).  config 0: arenas enabled, 1: disallow_arena_alloc,
//                                   2: tiny arena_reserve (32 MiB), 3: arena_eager_commit=0, 4: arena_eager_commit=0 and
//                                   eager_commit=0 (segments returned partially committed).  big=1 adds allocations above 64 MiB (more
//                                   than two arena blocks: known finding huge-alloc-reserves-arena).
//                                   T rep records: ledger totals after each repetition.
//   t_osfree D <seed>               thread metadata under OS refusals: mi_thread_data_zalloc with the first / second / both mmap
//                                   attempts refused, then mi_thread_data_free + _mi_thread_data_collect (T td records).
#include REPO_STATIC
#include <stdio.h>
#include <stdlib.h>
#include <string.h>
#include <pthread.h>
#include <inttypes.h>
#include "prng.h"
#include "shim.h"

#define U(x) ((unsigned long long)(x))
static prng_t G;

// ---------------------------------------------------------------- R: OS-level round trips
static int    misalign_next;          // make the next hinted mmap land on a misaligned address
static size_t misalign_align;
static void* where_hook(int seq, void* hint, size_t len) {
  (void)seq;
  if (misalign_next && hint != NULL) {
    misalign_next = 0;
    return shim_find_free_range(len, misalign_align, 4096 * (1 + (len / 4096) % 7));
  }
  return NULL;
}

static void print_cfg(void) {
  printf(" %ld %d %ld %ld %d %ld", mi_option_get(mi_option_purge_delay), mi_option_is_enabled(mi_option_purge_decommits) ? 1 : 0,
         mi_option_get(mi_option_arena_purge_mult), mi_option_get(mi_option_purge_extend_delay), (MI_DEBUG || MI_SECURE) ? 1 : 0,
         mi_option_get(mi_option_allow_large_os_pages));
}

static void roundtrip(int which, size_t size, size_t align, size_t offset, bool commit, bool allow_large, bool misalign) {
  const uintptr_t hint0 = mi_atomic_load_relaxed(&aligned_base);
  const size_t maps0 = shim_mapping_count(), mapped0 = shim_total_mapped();
  const uint64_t dig0 = shim_ledger_digest(1);
  const size_t mark = shim_log_count();
  misalign_next = misalign ? 1 : 0; misalign_align = (align < 4096 ? 4096 : align);
  mi_memid_t memid = _mi_memid_none();
  void* p = NULL;
  if (which == 0) p = _mi_os_alloc(size, &memid);
  else if (which == 1) p = _mi_os_alloc_aligned(size, align, commit, allow_large, &memid);
  else p = _mi_os_alloc_aligned_at_offset(size, align, offset, commit, allow_large, &memid);
  misalign_next = 0;
  const size_t maps1 = shim_mapping_count(), mapped1 = shim_total_mapped();
  // the mapping that holds p
  void* mbase = NULL; size_t mlen = 0;
  if (p != NULL) {
    for (size_t i = 0; i < shim_mapping_count(); i++) {
      void* b; size_t l; shim_mapping_get(i, &b, &l);
      if ((uint8_t*)b <= (uint8_t*)memid.mem.os.base && (uint8_t*)memid.mem.os.base < (uint8_t*)b + l) { mbase = b; mlen = l; }
    }
  }
  size_t trimmed = 0;
  for (size_t i = mark; i < shim_log_count(); i++) { shim_call_t c; shim_log_get(i, &c); if (c.kind == SHIM_MUNMAP) trimmed++; }
  int aligned_ok = 1, inside_ok = 1, accessible_ok = 1;
  if (p != NULL) {
    const size_t a = (which == 0 ? 1 : _mi_align_up(align, 4096));
    if (which == 2 && offset > 0) aligned_ok = (((uintptr_t)p + offset) % a == 0); else aligned_ok = ((uintptr_t)p % a == 0);
    inside_ok = (mbase != NULL && (uint8_t*)p >= (uint8_t*)mbase && (uint8_t*)p + size <= (uint8_t*)mbase + mlen);
    if (commit || which == 0) accessible_ok = shim_is_accessible(p, size);
  }
  if (p != NULL) _mi_os_free_ex(p, size, commit || which == 0, memid);
  const size_t maps2 = shim_mapping_count(), mapped2 = shim_total_mapped();
  const uint64_t dig2 = shim_ledger_digest(1);
  printf("F os_roundtrip"); print_cfg();
  printf(" %d %llu %llu %llu %d %d %llu %llu", which, U(size), U(align), U(offset), (commit || which == 0) ? 1 : 0, allow_large ? 1 : 0, U(hint0), U(size));
  printf(" %zu", shim_log_count() - mark);
  for (size_t i = mark; i < shim_log_count(); i++) { shim_call_t c; shim_log_get(i, &c); printf(" %d %llu", c.err == 0 ? 1 : 0, U(c.kind == SHIM_MMAP ? c.result : 0)); }
  printf(" =");
  if (p == NULL) printf(" 0 0 0 0 0 0 0 0 %zu 0 0", maps1 - maps0);
  else printf(" 1 %llu %d %llu %llu %d %d %d %zu %llu %llu", U(p), (int)memid.memkind, U(memid.mem.os.base), U(memid.mem.os.size),
              memid.initially_committed ? 1 : 0, memid.initially_zero ? 1 : 0, memid.is_pinned ? 1 : 0, maps1 - maps0, U(mbase), U(mlen));
  printf(" %zu", shim_log_count() - mark);
  for (size_t i = mark; i < shim_log_count(); i++) { shim_call_t c; shim_log_get(i, &c); printf(" %d %llu %zu %ld", c.kind, U(c.addr), c.len, c.arg); }
  printf(" %zu\n", maps2 - maps0);
  printf("T roundtrip which=%d size=%llu align=%llu offset=%llu commit=%d misalign=%d ok=%d aligned=%d inside=%d accessible=%d munmaps=%zu mapped_after_alloc=%lld mapped_after_free=%lld maps_after_free=%lld digest_same=%d\n",
         which, U(size), U(align), U(offset), commit ? 1 : 0, misalign ? 1 : 0, p != NULL, aligned_ok, inside_ok, accessible_ok, trimmed,
         (long long)mapped1 - (long long)mapped0, (long long)mapped2 - (long long)mapped0, (long long)maps2 - (long long)maps0, dig0 == dig2);
}

static size_t rnd_size(void) {
  switch (prng_below(&G, 8)) {
    case 0: return 1 + prng_below(&G, 4096);
    case 1: return 4096 * (1 + prng_below(&G, 64));
    case 2: return 512 * 1024 - 1 + prng_below(&G, 3);
    case 3: return (2 << 20) - 4096 + prng_below(&G, 8192);
    case 4: return MI_SEGMENT_SIZE;
    case 5: return MI_SEGMENT_SIZE + 4096 * prng_below(&G, 1024);
    case 6: return (8 << 20) + prng_below(&G, 64 << 20);
    default: return 1 + prng_below(&G, 3 * MI_SEGMENT_SIZE);
  }
}

static void roundtrips(int n) {
  shim_mmap_where = where_hook;
  // initialise aligned_base (its first value is random) before the recorded calls
  { mi_memid_t m; void* p = _mi_os_alloc_aligned(MI_SEGMENT_SIZE, MI_SEGMENT_ALIGN, true, false, &m); if (p) _mi_os_free_ex(p, MI_SEGMENT_SIZE, true, m); }
  for (int i = 0; i < n; i++) {
    const int which = (int)prng_below(&G, 3);
    const size_t size = rnd_size();
    size_t align = (size_t)4096 << prng_below(&G, 17);                   // 4 KiB .. 256 MiB
    if (prng_below(&G, 3) == 0) align = MI_SEGMENT_ALIGN;
    if (prng_below(&G, 40) == 0) align = 4096 * 3;                        // not a power of two: refused
    if (which != 2 && prng_below(&G, 40) == 0) align = 100;              // rounded up to the page size (at_offset requires page multiples)
    size_t offset = 0;
    if (which == 2) {
      switch (prng_below(&G, 4)) { case 0: offset = 0; break; case 1: offset = MI_SEGMENT_SLICE_SIZE; break; case 2: offset = 4096 * (1 + prng_below(&G, 64)); break; default: offset = 4096 * prng_below(&G, MI_SEGMENT_SIZE / 4096 + 1); break; }
      if (offset > size) offset = (size / 4096) * 4096;
    }
    const bool commit = (prng_below(&G, 3) != 0);
    const bool allow_large = (prng_below(&G, 4) == 0);
    const bool misalign = (which != 0 && prng_below(&G, 3) == 0);
    roundtrip(which, size, align, offset, commit, allow_large, misalign);
  }
  // fixed cases
  roundtrip(0, 0, 0, 0, true, false, false);
  roundtrip(1, MI_SEGMENT_SIZE, MI_SEGMENT_ALIGN, 0, true, false, true);
  roundtrip(1, MI_SEGMENT_SIZE, MI_SEGMENT_ALIGN, 0, false, false, true);
  roundtrip(2, 3 * MI_SEGMENT_SIZE, 64 << 20, MI_SEGMENT_SLICE_SIZE, true, false, false);
  roundtrip(2, 3 * MI_SEGMENT_SIZE, 64 << 20, MI_SEGMENT_SLICE_SIZE, true, true, true);
  roundtrip(2, MI_SEGMENT_SIZE, MI_SEGMENT_ALIGN, MI_SEGMENT_SIZE + 4096, true, false, false);   // offset too large
  roundtrip(1, 200 << 20, MI_SEGMENT_ALIGN, 0, true, true, false);
  roundtrip(0, sizeof(mi_thread_data_t), 0, 0, true, false, false);
  shim_mmap_where = NULL;
}

// ---------------------------------------------------------------- W: whole-API workloads
#define NSLOT 6000
static void* slot[NSLOT]; static size_t nslot;
static void keep(void* p) { if (p != NULL && nslot < NSLOT) slot[nslot++] = p; }
typedef struct { int free_own; uint64_t seed; void* blocks[400]; int n; } targ_t;
static void* thread_fn(void* a) {
  targ_t* t = (targ_t*)a; prng_t g; prng_seed(&g, t->seed);
  t->n = 0;
  for (int i = 0; i < 400; i++) {
    size_t sz = (i % 50 == 49 ? (size_t)(3 << 20) : i % 9 == 0 ? 70000 + prng_below(&g, 300000) : 16 + prng_below(&g, 3000));
    void* p = mi_malloc(sz); if (p) { memset(p, 5, sz < 128 ? sz : 128); t->blocks[t->n++] = p; }
  }
  if (t->free_own) { for (int i = 0; i < t->n; i++) mi_free(t->blocks[i]); t->n = 0; }
  return NULL;     // thread exit: mi_thread_done abandons what is still live
}

static void one_rep(int big) {
  nslot = 0;
  for (int i = 0; i < 3000; i++) keep(mi_malloc(8 + prng_below(&G, 2000)));
  for (int i = 0; i < 300; i++) keep(mi_malloc(9000 + prng_below(&G, 120000)));
  for (int i = 0; i < 30; i++) keep(mi_zalloc(200000 + prng_below(&G, 3000000)));
  keep(mi_malloc(20 << 20)); keep(mi_malloc(40 << 20)); keep(mi_zalloc(17 << 20));                   // huge: own segment, at most 2 arena blocks
  keep(mi_malloc_aligned(1 << 20, 32 << 20)); keep(mi_malloc_aligned(5 << 20, 64 << 20));             // aligned-huge (alignment > MI_BLOCK_ALIGNMENT_MAX)
  keep(mi_malloc_aligned(100, 4096)); keep(mi_malloc_aligned(70000, 1 << 20));
  if (big) { keep(mi_malloc(100 << 20)); keep(mi_malloc(200 << 20)); }                                // more than 2 arena blocks
  for (size_t i = 0; i < nslot; i++) ((uint8_t*)slot[i])[0] = 7;
  targ_t t1 = { 1, prng_next(&G), {0}, 0 }, t2 = { 0, prng_next(&G), {0}, 0 };
  pthread_t th1, th2;
  pthread_create(&th1, NULL, thread_fn, &t1); pthread_join(th1, NULL);
  pthread_create(&th2, NULL, thread_fn, &t2); pthread_join(th2, NULL);
  // free everything (the blocks of the second thread are freed here, after it exited)
  for (int i = 0; i < t2.n; i++) mi_free(t2.blocks[i]);
  for (size_t i = 0; i < nslot; i++) mi_free(slot[i]);
  nslot = 0;
  mi_collect(true);
}

static void report(int config, int k, int big) {
  // bytes mapped outside every arena area
  size_t outside = 0, arena_bytes = 0;
  const size_t na = mi_arena_get_count();
  for (size_t i = 0; i < shim_mapping_count(); i++) {
    void* b; size_t l; shim_mapping_get(i, &b, &l);
    int in = 0;
    for (size_t j = 0; j < na; j++) { mi_arena_t* a = mi_arena_from_index(j); if (a && (uint8_t*)b >= a->start && (uint8_t*)b + l <= a->start + a->block_count * MI_ARENA_BLOCK_SIZE) in = 1; }
    if (!in) outside += l;
  }
  size_t inuse_blocks = 0, purge_blocks = 0, dirty_blocks = 0, dirty_unpurged = 0, td_cached = 0;
  for (int i = 0; i < TD_CACHE_SIZE; i++) if (mi_atomic_load_ptr_relaxed(mi_thread_data_t, &td_cache[i]) != NULL) td_cached++;
  for (size_t j = 0; j < na; j++) {
    mi_arena_t* a = mi_arena_from_index(j); if (!a) continue;
    arena_bytes += a->block_count * MI_ARENA_BLOCK_SIZE;
    for (size_t b = 0; b < a->block_count; b++) {
      if (a->blocks_inuse[b / 64] & ((size_t)1 << (b % 64))) inuse_blocks++;
      if (a->blocks_purge && (a->blocks_purge[b / 64] & ((size_t)1 << (b % 64)))) purge_blocks++;
      if (a->blocks_dirty && (a->blocks_dirty[b / 64] & ((size_t)1 << (b % 64)))) {   // the block was handed out at some time
        size_t c; shim_range_stats(a->start + b * MI_ARENA_BLOCK_SIZE, MI_ARENA_BLOCK_SIZE, NULL, NULL, &c, NULL);
        dirty_blocks++; dirty_unpurged += c;
      }
    }
  }
  printf("T rep config=%d big=%d k=%d mapped=%zu accessible=%zu committed=%zu nmaps=%zu outside_arena=%zu arenas=%zu arena_bytes=%zu arena_inuse_blocks=%zu arena_purge_blocks=%zu arena_dirty_blocks=%zu dirty_unpurged=%zu td_cached=%zu mmap=%zu munmap=%zu madvise=%zu mprotect=%zu\n",
         config, big, k, shim_total_mapped(), shim_total_accessible(), shim_total_committed(), shim_mapping_count(), outside, na, arena_bytes,
         inuse_blocks, purge_blocks, dirty_blocks, dirty_unpurged, td_cached, shim_count(SHIM_MMAP), shim_count(SHIM_MUNMAP), shim_count(SHIM_MADVISE), shim_count(SHIM_MPROTECT));
}

// ---------------------------------------------------------------- D: thread metadata under OS refusals (C07 / C11)
// mi_thread_data_zalloc tries the OS twice (issue #257); whichever attempt succeeds, the metadata must be zero up to its memid,
// carry the memid of THAT mapping, and be unmapped again by mi_thread_data_free + _mi_thread_data_collect.
static int td_fail_mask = 0, td_calls = 0;
static int td_fail_hook(int seq, int kind, void* addr, size_t len) { (void)seq; (void)addr; (void)len; if (kind != SHIM_MMAP) return 0; int k = td_calls++; return (td_fail_mask >> k) & 1; }
static void td_faults(void) {
  _mi_thread_data_collect();
  for (int round = 0; round < 3; round++) for (int mask = 0; mask < 4; mask++) {
    const size_t mapped0 = shim_total_mapped(); const size_t nmaps0 = shim_mapping_count();
    td_fail_mask = mask; td_calls = 0; shim_fail = td_fail_hook;
    mi_thread_data_t* td = mi_thread_data_zalloc();
    shim_fail = NULL;
    int zero = 1, memkind = -1;
    if (td != NULL) {
      for (size_t i = 0; i < offsetof(mi_thread_data_t, memid); i++) if (((uint8_t*)td)[i] != 0) { zero = 0; break; }
      memkind = (int)td->memid.memkind;
      memset(td, 0xA5, offsetof(mi_thread_data_t, memid));           // a thread would dirty it
      mi_thread_data_free(td);
    }
    const size_t mapped1 = shim_total_mapped();
    _mi_thread_data_collect();
    printf("T td round=%d mask=%d ok=%d expect_ok=%d zero=%d memkind=%d mmaps=%d mapped_before=%zu mapped_cached=%zu mapped_after=%zu nmaps_before=%zu nmaps_after=%zu\n",
           round, mask, td != NULL, mask != 3, zero, memkind, td_calls, mapped0, mapped1, shim_total_mapped(), nmaps0, shim_mapping_count());
  }
}

int main(int argc, char** argv) {
  const char* mode = (argc > 1 ? argv[1] : "R");
  uint64_t seed = (argc > 2 ? strtoull(argv[2], NULL, 10) : 1);
  prng_seed(&G, seed);
  if (mode[0] == 'R') {
    int thorough = (argc > 3 ? atoi(argv[3]) : 0);
    roundtrips(thorough ? 6000 : 500);
  }
  else if (mode[0] == 'D') { td_faults(); }
  else {
    int config = (argc > 3 ? atoi(argv[3]) : 0);
    int reps = (argc > 4 ? atoi(argv[4]) : 4);
    int big = (argc > 5 ? atoi(argv[5]) : 0);
    if (config == 1) mi_option_set(mi_option_disallow_arena_alloc, 1);
    if (config == 2) mi_option_set(mi_option_arena_reserve, 32 * 1024);     // KiB: one 32 MiB block per arena
    if (config == 3) mi_option_set(mi_option_arena_eager_commit, 0);        // arena memory committed on demand: segments are returned partially committed
    if (config == 4) { mi_option_set(mi_option_arena_eager_commit, 0); mi_option_set(mi_option_eager_commit, 0); }
    printf("T config config=%d big=%d overcommit=%d purge_delay=%ld\n", config, big, _mi_os_has_overcommit() ? 1 : 0, mi_option_get(mi_option_purge_delay));
    for (int k = 1; k <= reps; k++) { one_rep(big); report(config, k, big); }
  }
  printf("END\n");
  return 0;
}
