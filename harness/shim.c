// OS / clock shim -- see shim.h.  Compiled WITHOUT the -Dmmap=... renames: the calls below are the
// real system calls.
#define _GNU_SOURCE
#include "shim.h"
#include <sys/mman.h>
#include <errno.h>
#include <stdlib.h>
#include <string.h>
#include <pthread.h>
#include <inttypes.h>

#ifndef MAP_FIXED_NOREPLACE
#define MAP_FIXED_NOREPLACE 0x100000
#endif

int   (*shim_fail)(int seq, int kind, void* addr, size_t len) = NULL;
void* (*shim_mmap_where)(int seq, void* hint, size_t len) = NULL;

static pthread_mutex_t g_lock = PTHREAD_MUTEX_INITIALIZER;
#define LOCK()   pthread_mutex_lock(&g_lock)
#define UNLOCK() pthread_mutex_unlock(&g_lock)

// ---------------------------------------------------------------- ledger
typedef struct { uintptr_t base; size_t npages; uint8_t* st; } map_t;   // st[i]: SHIM_PG_* of page i
static map_t*  g_maps = NULL;      // sorted by base, pairwise disjoint
static size_t  g_nmaps = 0, g_capmaps = 0;

static size_t pages_of(size_t len) { return (len + SHIM_PAGE - 1) / SHIM_PAGE; }

static void maps_insert_at(size_t i, map_t m) {
  if (g_nmaps == g_capmaps) {
    g_capmaps = g_capmaps ? 2 * g_capmaps : 64;
    g_maps = (map_t*)realloc(g_maps, g_capmaps * sizeof(map_t));
    if (!g_maps) abort();
  }
  memmove(&g_maps[i + 1], &g_maps[i], (g_nmaps - i) * sizeof(map_t));
  g_maps[i] = m; g_nmaps++;
}
static void maps_remove_at(size_t i) {
  memmove(&g_maps[i], &g_maps[i + 1], (g_nmaps - i - 1) * sizeof(map_t));
  g_nmaps--;
}
static map_t map_make(uintptr_t base, size_t npages, const uint8_t* from) {
  map_t m; m.base = base; m.npages = npages;
  m.st = (uint8_t*)malloc(npages ? npages : 1);
  if (!m.st) abort();
  if (from) memcpy(m.st, from, npages); else memset(m.st, 0, npages);
  return m;
}
// remove [lo,hi) (page aligned) from the ledger, splitting mappings
static void ledger_remove(uintptr_t lo, uintptr_t hi) {
  for (size_t i = 0; i < g_nmaps; ) {
    map_t m = g_maps[i];
    uintptr_t mlo = m.base, mhi = m.base + m.npages * SHIM_PAGE;
    if (mhi <= lo || mlo >= hi) { i++; continue; }
    maps_remove_at(i);
    size_t at = i;
    if (mlo < lo) { maps_insert_at(at++, map_make(mlo, (lo - mlo) / SHIM_PAGE, m.st)); }
    if (mhi > hi) { maps_insert_at(at++, map_make(hi, (mhi - hi) / SHIM_PAGE, m.st + (hi - mlo) / SHIM_PAGE)); }
    free(m.st);
    i = at;
  }
}
static void ledger_add(uintptr_t base, size_t len, uint8_t state) {
  size_t np = pages_of(len);
  ledger_remove(base, base + np * SHIM_PAGE);     // (a MAP_FIXED mapping replaces what was there)
  size_t i = 0;
  while (i < g_nmaps && g_maps[i].base < base) i++;
  map_t m = map_make(base, np, NULL);
  memset(m.st, state, np);
  maps_insert_at(i, m);
}
// apply f to the state byte of every mapped page in [lo,hi)
static void ledger_update(uintptr_t lo, uintptr_t hi, uint8_t and_mask, uint8_t or_mask) {
  for (size_t i = 0; i < g_nmaps; i++) {
    map_t* m = &g_maps[i];
    uintptr_t mlo = m->base, mhi = m->base + m->npages * SHIM_PAGE;
    if (mhi <= lo || mlo >= hi) continue;
    uintptr_t a = (lo > mlo ? lo : mlo), b = (hi < mhi ? hi : mhi);
    for (size_t p = (a - mlo) / SHIM_PAGE; p < (b - mlo) / SHIM_PAGE; p++) m->st[p] = (uint8_t)((m->st[p] & and_mask) | or_mask);
  }
}

// ---------------------------------------------------------------- log
static shim_call_t* g_log = NULL;
static size_t g_nlog = 0, g_caplog = 0;
static int    g_seq = 0;
static size_t g_count[SHIM_KINDS], g_count_ok[SHIM_KINDS];

static void log_add(int kind, void* addr, size_t len, long arg, long arg2, long result, int err, int injected) {
  if (g_nlog == g_caplog) {
    g_caplog = g_caplog ? 2 * g_caplog : 1024;
    g_log = (shim_call_t*)realloc(g_log, g_caplog * sizeof(shim_call_t));
    if (!g_log) abort();
  }
  shim_call_t* c = &g_log[g_nlog++];
  c->seq = g_seq++; c->kind = kind; c->addr = addr; c->len = len; c->arg = arg; c->arg2 = arg2;
  c->result = result; c->err = err; c->injected = injected;
  g_count[kind]++;
  if (err == 0) g_count_ok[kind]++;
}

// ---------------------------------------------------------------- interposed calls
void* shim_mmap(void* addr, size_t len, int prot, int flags, int fd, off_t off) {
  LOCK();
  if (shim_fail && shim_fail(g_seq, SHIM_MMAP, addr, len)) {
    log_add(SHIM_MMAP, addr, len, prot, flags, 0, ENOMEM, 1);
    UNLOCK(); errno = ENOMEM; return MAP_FAILED;
  }
  void* where = (shim_mmap_where ? shim_mmap_where(g_seq, addr, len) : NULL);
  void* p;
  if (where != NULL) p = mmap(where, len, prot, flags | MAP_FIXED_NOREPLACE, fd, off);
                else p = mmap(addr, len, prot, flags, fd, off);
  int err = (p == MAP_FAILED ? errno : 0);
  if (p != MAP_FAILED) {
    uint8_t st = ((prot & (PROT_READ | PROT_WRITE)) == (PROT_READ | PROT_WRITE)) ? SHIM_PG_RW : 0;
    ledger_add((uintptr_t)p, len, st);
  }
  log_add(SHIM_MMAP, addr, len, prot, flags, (p == MAP_FAILED ? 0 : (long)(uintptr_t)p), err, 0);
  UNLOCK();
  errno = err;
  return p;
}

int shim_munmap(void* addr, size_t len) {
  LOCK();
  if (shim_fail && shim_fail(g_seq, SHIM_MUNMAP, addr, len)) {
    log_add(SHIM_MUNMAP, addr, len, 0, 0, -1, ENOMEM, 1);
    UNLOCK(); errno = ENOMEM; return -1;
  }
  int r = munmap(addr, len);
  int err = (r != 0 ? errno : 0);
  if (r == 0) ledger_remove((uintptr_t)addr, (uintptr_t)addr + pages_of(len) * SHIM_PAGE);
  log_add(SHIM_MUNMAP, addr, len, 0, 0, r, err, 0);
  UNLOCK();
  errno = err;
  return r;
}

int shim_mprotect(void* addr, size_t len, int prot) {
  LOCK();
  if (shim_fail && shim_fail(g_seq, SHIM_MPROTECT, addr, len)) {
    log_add(SHIM_MPROTECT, addr, len, prot, 0, -1, ENOMEM, 1);
    UNLOCK(); errno = ENOMEM; return -1;
  }
  int r = mprotect(addr, len, prot);
  int err = (r != 0 ? errno : 0);
  if (r == 0) {
    uintptr_t lo = (uintptr_t)addr, hi = lo + pages_of(len) * SHIM_PAGE;
    if ((prot & (PROT_READ | PROT_WRITE)) == (PROT_READ | PROT_WRITE))
      ledger_update(lo, hi, 0, SHIM_PG_RW);                       // write-commit: RW, purged mark cleared
    else
      ledger_update(lo, hi, (uint8_t)~SHIM_PG_RW, 0);             // PROT_NONE (or read-only): not accessible
  }
  log_add(SHIM_MPROTECT, addr, len, prot, 0, r, err, 0);
  UNLOCK();
  errno = err;
  return r;
}

int shim_madvise(void* addr, size_t len, int advice) {
  LOCK();
  if (shim_fail && shim_fail(g_seq, SHIM_MADVISE, addr, len)) {
    log_add(SHIM_MADVISE, addr, len, advice, 0, -1, ENOMEM, 1);
    UNLOCK(); errno = ENOMEM; return -1;
  }
  int r = madvise(addr, len, advice);
  int err = (r != 0 ? errno : 0);
  if (r == 0 && (advice == MADV_DONTNEED
#ifdef MADV_FREE
                 || advice == MADV_FREE
#endif
                 )) {
    uintptr_t lo = (uintptr_t)addr, hi = lo + pages_of(len) * SHIM_PAGE;
    ledger_update(lo, hi, 0xFF, SHIM_PG_PURGED);
  }
  log_add(SHIM_MADVISE, addr, len, advice, 0, r, err, 0);
  UNLOCK();
  errno = err;
  return r;
}

// ---------------------------------------------------------------- virtual clock
static int64_t g_now_ms = 1000000;
static size_t  g_clock_reads = 0;

int shim_clock_gettime(clockid_t id, struct timespec* ts) {
  (void)id;
  LOCK();
  int64_t t = g_now_ms; g_clock_reads++;
  UNLOCK();
  ts->tv_sec = (time_t)(t / 1000);
  ts->tv_nsec = (long)((t % 1000) * 1000000L);
  return 0;
}
void    shim_clock_set_ms(int64_t ms)     { LOCK(); g_now_ms = ms; UNLOCK(); }
void    shim_clock_advance_ms(int64_t ms) { LOCK(); g_now_ms += ms; UNLOCK(); }
int64_t shim_clock_now_ms(void)           { LOCK(); int64_t t = g_now_ms; UNLOCK(); return t; }
size_t  shim_clock_reads(void)            { LOCK(); size_t n = g_clock_reads; UNLOCK(); return n; }

// ---------------------------------------------------------------- queries
void shim_reset_log(void) {
  LOCK();
  g_nlog = 0; g_seq = 0;
  memset(g_count, 0, sizeof(g_count)); memset(g_count_ok, 0, sizeof(g_count_ok));
  UNLOCK();
}
size_t shim_log_count(void) { LOCK(); size_t n = g_nlog; UNLOCK(); return n; }
int shim_log_get(size_t i, shim_call_t* out) {
  LOCK();
  int ok = (i < g_nlog);
  if (ok) *out = g_log[i];
  UNLOCK();
  return ok;
}
size_t shim_count(int kind)    { LOCK(); size_t n = (kind >= 0 && kind < SHIM_KINDS ? g_count[kind] : 0); UNLOCK(); return n; }
size_t shim_count_ok(int kind) { LOCK(); size_t n = (kind >= 0 && kind < SHIM_KINDS ? g_count_ok[kind] : 0); UNLOCK(); return n; }

static const char* kind_name(int k) {
  static const char* n[] = { "mmap", "munmap", "mprotect", "madvise" };
  return (k >= 0 && k < SHIM_KINDS ? n[k] : "?");
}
static void print_call(FILE* f, const char* prefix, const shim_call_t* c) {
  fprintf(f, "%s%d %s %" PRIuPTR " %zu %ld %ld %d%s\n", prefix, c->seq, kind_name(c->kind), (uintptr_t)c->addr, c->len,
          c->arg, c->result, c->err, c->injected ? " injected" : "");
}
void shim_dump_log_from(FILE* f, size_t first, const char* prefix) {
  LOCK();
  for (size_t i = first; i < g_nlog; i++) print_call(f, prefix, &g_log[i]);
  UNLOCK();
}

size_t shim_mapping_count(void) { LOCK(); size_t n = g_nmaps; UNLOCK(); return n; }
int shim_mapping_get(size_t i, void** base, size_t* len) {
  LOCK();
  int ok = (i < g_nmaps);
  if (ok) { *base = (void*)g_maps[i].base; *len = g_maps[i].npages * SHIM_PAGE; }
  UNLOCK();
  return ok;
}
static void totals(size_t* mapped, size_t* rw, size_t* committed) {
  size_t m = 0, a = 0, c = 0;
  for (size_t i = 0; i < g_nmaps; i++) {
    m += g_maps[i].npages;
    for (size_t p = 0; p < g_maps[i].npages; p++) {
      uint8_t s = g_maps[i].st[p];
      if (s & SHIM_PG_RW) { a++; if (!(s & SHIM_PG_PURGED)) c++; }
    }
  }
  *mapped = m * SHIM_PAGE; *rw = a * SHIM_PAGE; *committed = c * SHIM_PAGE;
}
size_t shim_total_mapped(void)     { size_t m, a, c; LOCK(); totals(&m, &a, &c); UNLOCK(); return m; }
size_t shim_total_accessible(void) { size_t m, a, c; LOCK(); totals(&m, &a, &c); UNLOCK(); return a; }
size_t shim_total_committed(void)  { size_t m, a, c; LOCK(); totals(&m, &a, &c); UNLOCK(); return c; }

static int page_state_nolock(uintptr_t a) {
  for (size_t i = 0; i < g_nmaps; i++) {
    uintptr_t mlo = g_maps[i].base, mhi = mlo + g_maps[i].npages * SHIM_PAGE;
    if (a >= mlo && a < mhi) return g_maps[i].st[(a - mlo) / SHIM_PAGE];
  }
  return -1;
}
int shim_page_state(const void* addr) { LOCK(); int s = page_state_nolock((uintptr_t)addr); UNLOCK(); return s; }

void shim_range_stats(const void* addr, size_t len, size_t* mapped, size_t* rw, size_t* committed, size_t* purged) {
  size_t m = 0, a = 0, c = 0, pu = 0;
  if (len > 0) {
    uintptr_t lo = (uintptr_t)addr & ~(uintptr_t)(SHIM_PAGE - 1), hi = (uintptr_t)addr + len;
    LOCK();
    for (size_t i = 0; i < g_nmaps; i++) {
      uintptr_t mlo = g_maps[i].base, mhi = mlo + g_maps[i].npages * SHIM_PAGE;
      if (mhi <= lo || mlo >= hi) continue;
      uintptr_t x = (lo > mlo ? lo : mlo), y = (hi < mhi ? hi : mhi);
      for (size_t p = (x - mlo) / SHIM_PAGE; p < (y - mlo + SHIM_PAGE - 1) / SHIM_PAGE; p++) {
        uint8_t s = g_maps[i].st[p];
        m++;
        if (s & SHIM_PG_RW) { a++; if (!(s & SHIM_PG_PURGED)) c++; }
        if (s & SHIM_PG_PURGED) pu++;
      }
    }
    UNLOCK();
  }
  if (mapped) *mapped = m * SHIM_PAGE;
  if (rw) *rw = a * SHIM_PAGE;
  if (committed) *committed = c * SHIM_PAGE;
  if (purged) *purged = pu * SHIM_PAGE;
}
int shim_is_mapped(const void* addr, size_t len) {
  if (len == 0) return 1;
  size_t m; shim_range_stats(addr, len, &m, NULL, NULL, NULL);
  uintptr_t lo = (uintptr_t)addr & ~(uintptr_t)(SHIM_PAGE - 1), hi = (uintptr_t)addr + len;
  return m == pages_of(hi - lo) * SHIM_PAGE;
}
int shim_is_accessible(const void* addr, size_t len) {
  if (len == 0) return 1;
  size_t a; shim_range_stats(addr, len, NULL, &a, NULL, NULL);
  uintptr_t lo = (uintptr_t)addr & ~(uintptr_t)(SHIM_PAGE - 1), hi = (uintptr_t)addr + len;
  return a == pages_of(hi - lo) * SHIM_PAGE;
}

uint64_t shim_ledger_digest(int with_page_state) {
  uint64_t h = 0xcbf29ce484222325ull;
  LOCK();
  for (size_t i = 0; i < g_nmaps; i++) {
    uint64_t v[2] = { (uint64_t)g_maps[i].base, (uint64_t)g_maps[i].npages };
    for (int k = 0; k < 2; k++) for (int b = 0; b < 8; b++) { h ^= (v[k] >> (8 * b)) & 0xFF; h *= 0x100000001b3ull; }
    if (with_page_state) for (size_t p = 0; p < g_maps[i].npages; p++) { h ^= g_maps[i].st[p]; h *= 0x100000001b3ull; }
  }
  UNLOCK();
  return h;
}

void shim_dump(FILE* f) {
  LOCK();
  size_t m, a, c; totals(&m, &a, &c);
  fprintf(f, "# shim: clock=%" PRId64 "ms calls mmap=%zu munmap=%zu mprotect=%zu madvise=%zu | mapped=%zu accessible=%zu committed=%zu in %zu mappings\n",
          g_now_ms, g_count[0], g_count[1], g_count[2], g_count[3], m, a, c, g_nmaps);
  for (size_t i = 0; i < g_nmaps; i++) {
    size_t rw = 0, pu = 0;
    for (size_t p = 0; p < g_maps[i].npages; p++) { if (g_maps[i].st[p] & SHIM_PG_RW) rw++; if (g_maps[i].st[p] & SHIM_PG_PURGED) pu++; }
    fprintf(f, "# map %" PRIuPTR " len=%zu rw_pages=%zu purged_pages=%zu\n", g_maps[i].base, g_maps[i].npages * (size_t)SHIM_PAGE, rw, pu);
  }
  for (size_t i = 0; i < g_nlog; i++) print_call(f, "# call ", &g_log[i]);
  UNLOCK();
}

void* shim_find_free_range(size_t len, size_t align, size_t offset) {
  if (align < SHIM_PAGE) align = SHIM_PAGE;
  size_t total = len + 2 * align;
  void* p = mmap(NULL, total, PROT_NONE, MAP_PRIVATE | MAP_ANONYMOUS | MAP_NORESERVE, -1, 0);
  if (p == MAP_FAILED) return NULL;
  munmap(p, total);
  uintptr_t a = ((uintptr_t)p + align - 1) & ~(uintptr_t)(align - 1);
  return (void*)(a + (offset % align));
}
