// Heap-walk harness (C12): mi_heap_visit_blocks with a visitor that refuses its k-th call, on heaps built by
// seeded allocation/free scenarios (empty heap, full pages, hole patterns on free/local_free, pending and drained
// cross-thread frees, large and huge single-block pages, fully freed heaps with retired pages).
// Records:  "P <run> w <page> ..."  state of every page of the heap in the order of mi_heap_visit_pages, before a walk
//           "VC <run> a <page> <used> <reserved> <committed> <full_block_size>" / "VC <run> b <page> <index>"  each visitor call
//           "VR <run> <visit_blocks> <k> <result> <calls>"   end of a walk   (compared with Model/Walk.v:walk_stop_at by ocaml mode "walk")
//           "T walk <run> ok|bad <text>"   implementation-side oracle (shadow table of live blocks, early-stop rule)
#include REPO_STATIC
#include <stdio.h>
#include <pthread.h>
#include "prng.h"
#define U(x) ((unsigned long long)(x))
#define MAXB 600

static long runno = 0; static long calls, stop_at; static int log_calls = 1;
typedef struct { uint8_t* b; size_t sz; } vis_t;
static vis_t vis[MAXB * 4]; static size_t nvis, area_used, bad_bsize;
typedef struct { uintptr_t pg; long idx; } call_t;      // the calls of the last walk (idx -1: area call)
static call_t clog[MAXB * 8]; static long nclog;

static bool visitor(const mi_heap_t* heap, const mi_heap_area_t* area, void* block, size_t block_size, void* arg) {
  (void)heap; (void)arg;
  calls++;
  mi_page_t* pg = _mi_ptr_page(area->blocks);
  if (nclog < MAXB * 8) { clog[nclog].pg = (uintptr_t)pg; clog[nclog].idx = block == NULL ? -1 : (long)(((uint8_t*)block - pg->page_start) / pg->block_size); nclog++; }
  if (block == NULL) {
    area_used += area->used;
    if (log_calls) printf("VC %ld a %llu %llu %llu %llu %llu\n", runno, U((uintptr_t)pg), U(area->used), U(area->reserved), U(area->committed), U(area->full_block_size));
  } else {
    if (block_size != area->block_size) bad_bsize++;
    if (nvis < MAXB * 4) { vis[nvis].b = (uint8_t*)block; vis[nvis].sz = block_size; nvis++; }
    if (log_calls) printf("VC %ld b %llu %llu\n", runno, U((uintptr_t)pg), U(((uint8_t*)block - pg->page_start) / pg->block_size));
  }
  return !(stop_at > 0 && calls == stop_at);
}

static void dump_list(const mi_page_t* page, mi_block_t* b) {
  size_t n = 0;
  while (b != NULL && n <= page->capacity) { printf(" %llu", U(((uint8_t*)b - page->page_start) / page->block_size)); b = mi_block_next(page, b); n++; }
}
static void dump_pages(mi_heap_t* h) {
  for (size_t bin = 0; bin <= MI_BIN_FULL; bin++)
    for (mi_page_t* page = h->pages[bin].first; page != NULL; page = page->next) {
      printf("P %ld w %llu %llu %u %u %u %d %d %d %d %u |", runno, U((uintptr_t)page), U(page->block_size), page->reserved, page->capacity,
             page->used, page->free_is_zero, page->is_zero_init, mi_page_has_aligned(page), mi_page_is_in_full(page), page->retire_expire);
      dump_list(page, page->free); printf(" |"); dump_list(page, page->local_free); printf(" |"); dump_list(page, mi_page_thread_free(page)); printf("\n");
    }
}

static long one_walk(mi_heap_t* h, bool vb, long k) {
  runno++; calls = 0; stop_at = k; nvis = 0; area_used = 0; bad_bsize = 0; nclog = 0;
  dump_pages(h);
  bool r = mi_heap_visit_blocks(h, vb, &visitor, NULL);
  printf("VR %ld %d %ld %d %ld\n", runno, vb ? 1 : 0, k, r ? 1 : 0, calls);
  return r ? calls : -calls;
}

typedef struct { void* p; size_t usable; int live; } blk_t;
static blk_t blk[MAXB]; static int nblk;
typedef struct { void* p[MAXB]; int n; } rf_t;
static void* remote_free(void* a) { rf_t* r = (rf_t*)a; for (int i = 0; i < r->n; i++) mi_free(r->p[i]); return NULL; }

static void shadow_check(mi_heap_t* h, int pending) {
  // a full walk just ran (vb, k = 0): compare with the table of live blocks
  size_t live = 0; for (int i = 0; i < nblk; i++) if (blk[i].live) live++;
  const char* bad = NULL; static char msg[256];
  for (int i = 0; i < nblk && bad == NULL; i++) {
    int hits = 0;
    for (size_t v = 0; v < nvis; v++) if ((uint8_t*)blk[i].p >= vis[v].b && (uint8_t*)blk[i].p < vis[v].b + vis[v].sz) {
      hits++;
      if ((uint8_t*)blk[i].p + blk[i].usable > vis[v].b + vis[v].sz) { snprintf(msg, sizeof msg, "range-does-not-enclose-usable block=%d", i); bad = msg; }
    }
    if (blk[i].live && hits != 1) { snprintf(msg, sizeof msg, "live-block-visited-%d-times block=%d size=%zu", hits, i, blk[i].usable); bad = msg; }
    if (!blk[i].live && hits != 0 && !pending) { /* the address may have been handed out again to a later block */
      int reused = 0; for (int j = 0; j < nblk; j++) if (j != i && blk[j].live && blk[j].p == blk[i].p) reused = 1;
      if (!reused) { snprintf(msg, sizeof msg, "freed-block-reported block=%d", i); bad = msg; }
    }
  }
  if (bad == NULL && !pending && nvis != live) { snprintf(msg, sizeof msg, "visited-%zu-live-%zu", nvis, live); bad = msg; }
  if (bad == NULL && !pending && area_used != nvis) { snprintf(msg, sizeof msg, "area-used-%zu-visited-%zu", area_used, nvis); bad = msg; }
  if (bad == NULL && bad_bsize) { snprintf(msg, sizeof msg, "block-size-argument-differs-from-area-%zu-times", bad_bsize); bad = msg; }
  (void)h;
  printf("T walk %ld %s %s\n", runno, bad ? "bad" : "ok", bad ? bad : "-");
}

static void stop_check(long total, long k, long got) {
  // got: +calls when the walk returned true, -calls when false
  long want = (k >= 1 && k <= total) ? -k : total;
  printf("T walk %ld %s stop k=%ld total=%ld result=%s calls=%ld\n", runno, got == want ? "ok" : "bad", k, total, got > 0 ? "true" : "false", got > 0 ? got : -got);
}

int main(int argc, char** argv) {
  uint64_t seed = argc > 1 ? strtoull(argv[1], NULL, 10) : 1;
  int nscen = argc > 2 ? atoi(argv[2]) : 48;
  prng_t g; prng_seed(&g, seed);
  for (int scen = 0; scen < nscen; scen++) {
    int prof = scen % 8;
    mi_heap_t* h = mi_heap_new();
    nblk = 0; int pending = 0;
    int band = (prof == 1 && (scen / 8) % 4 == 2);      // blocks 64..127 (and sometimes 192..255) freed: a bitmap word that is entirely free between used ones (seed C12e)
    int lowfull = (prof == 1 && (scen / 8) % 2 == 1);   // the first 70 blocks stay live: a fully used bitmap word on a page with holes
    size_t fixed = (lowfull || band) ? 64 + 16 * prng_below(&g, 20) : 64 + 16 * prng_below(&g, 120);
    int n = prof == 0 ? 0 : band ? (int)(260 + prng_below(&g, 200)) : lowfull ? (int)(150 + prng_below(&g, 300)) : (int)(1 + prng_below(&g, prof == 1 ? 500 : 200));
    printf("S %d profile=%d n=%d\n", scen, prof, n);
    for (int i = 0; i < n && nblk < MAXB; i++) {
      size_t sz;
      switch (prof) {
        case 1: case 5: sz = fixed; break;                                   // one size class: full pages
        case 3: sz = prng_below(&g, 8) == 0 ? (prng_below(&g, 4) == 0 ? ((size_t)33 << 20) + prng_below(&g, 4096) : (size_t)70000 + prng_below(&g, 3000000)) : 32 + prng_below(&g, 2000); break;
        case 6: sz = 1 + prng_below(&g, 64); break;                          // smallest classes (large capacities)
        default: sz = 24 + prng_below(&g, prng_below(&g, 3) == 0 ? 16000 : 1000); break;
      }
      void* p = (prof == 7 && prng_below(&g, 3) == 0) ? mi_heap_malloc_aligned(h, sz, (size_t)16 << prng_below(&g, 6)) : mi_heap_malloc(h, sz);
      if (p == NULL) continue;
      blk[nblk].p = p; blk[nblk].usable = mi_usable_size(p); blk[nblk].live = 1; nblk++;
    }
    // frees: local (holes on local_free/free), remote (profile 4), everything (profile 5)
    rf_t* rf = (rf_t*)calloc(1, sizeof(rf_t));
    int fr = prof == 5 ? 100 : (int)prng_below(&g, 90);
    if (lowfull && fr < 5) fr = 5;
    if (band) { fr = (int)prng_below(&g, 10); int two = (int)prng_below(&g, 2);
      for (int i = 64; i < nblk && i < 256; i++) if (i < 128 || (two && i >= 192)) { if (blk[i].live) { blk[i].live = 0; mi_free(blk[i].p); } } }
    for (int i = lowfull ? 70 : band ? 256 : 0; i < nblk; i++) if (blk[i].live && (int)prng_below(&g, 100) < fr) {
      blk[i].live = 0;
      if (prof == 4 && prng_below(&g, 2) == 0) rf->p[rf->n++] = blk[i].p; else mi_free(blk[i].p);
    }
    if (rf->n > 0) { pthread_t t; pthread_create(&t, NULL, &remote_free, rf); pthread_join(t, NULL); pending = 1; }
    if (prof == 2 && nblk > 0) {   // allocate again after the frees: local_free and free both populated, addresses re-used
      int m = (int)prng_below(&g, 40);
      for (int i = 0; i < m && nblk < MAXB; i++) { void* p = mi_heap_malloc(h, 24 + prng_below(&g, 1000)); if (p) { blk[nblk].p = p; blk[nblk].usable = mi_usable_size(p); blk[nblk].live = 1; nblk++; } }
    }
    for (int phase = 0; phase < (pending ? 2 : 1); phase++) {
      if (phase == 1) { mi_heap_collect(h, false); pending = 0; printf("S %d drained\n", scen); }
      long total = one_walk(h, true, 0);
      // stops aimed at the case split of _mi_heap_area_visit_blocks: the middle of every page's block calls, and a block inside a
      // bitmap word whose 64 blocks are all in use on a page that is not full (the `free_map[i] == 0` loop)
      long aimed[12]; int naimed = 0;
      for (long c = 0; c < nclog && naimed < 10; ) {
        long e = c + 1; while (e < nclog && clog[e].idx >= 0) e++;          // calls c (area) .. e-1 belong to one page
        if (e - c > 2 && naimed < 8 && prng_below(&g, 2) == 0) aimed[naimed++] = c + 1 + (e - c) / 2;
        const mi_page_t* pgp = (const mi_page_t*)clog[c].pg;
        if ((size_t)(e - c - 1) < pgp->capacity)
          for (long j = c + 1; j + 63 < e; j++) if (clog[j].idx % 64 == 0 && clog[j + 63].idx == clog[j].idx + 63) { aimed[naimed++] = j + 1 + 1 + (long)prng_below(&g, 62); printf("S %d zero-word-stop page=%llu\n", scen, U(clog[c].pg)); break; }
        c = e;
      }
      if (h->page_count == 0) { printf("T walk %ld %s empty-heap result=%s calls=%ld\n", runno, total == 0 ? "ok" : "bad", total > 0 ? "true" : "false", total > 0 ? total : -total); total = 0; }
      else { shadow_check(h, pending); if (total <= 0) printf("T walk %ld bad accepting-visitor-but-result-false\n", runno); }
      long areas = one_walk(h, false, 0); if (areas < 0) areas = -areas;
      if (h->page_count != 0 && (size_t)areas != h->page_count) printf("T walk %ld bad areas-only-walk-made-%ld-calls-for-%zu-pages\n", runno, areas, h->page_count);
      if (total > 0) {
        long ks[7] = { 1, 2, total, total + 1, 1 + (long)prng_below(&g, (size_t)total), 1 + (long)prng_below(&g, (size_t)total), 1 + (long)prng_below(&g, (size_t)total + 3) };
        for (int j = 0; j < 7; j++) { long got = one_walk(h, true, ks[j]); stop_check(total, ks[j], got); }
        for (int j = 0; j < naimed; j++) { long got = one_walk(h, true, aimed[j]); stop_check(total, aimed[j], got); }
        long ka = 1 + (long)prng_below(&g, (size_t)areas + 1);
        long got = one_walk(h, false, ka); stop_check(areas, ka, got);
      }
    }
    free(rf);
    for (int i = 0; i < nblk; i++) if (blk[i].live) mi_free(blk[i].p);
    if (scen % 2) mi_heap_delete(h); else mi_heap_destroy(h);
  }
  printf("END\n");
  return 0;
}
