// C15 op-level trace tie: the REAL allocator is driven through PRNG histories (arenas exclusive / shared, managed / reserved;
// heaps bound to arenas, tagged heaps, destroyable heaps; several live threads that run in turns and exit with live blocks;
// reclaim by allocation, by mi_collect, by mi_free; mi_heap_delete / mi_heap_destroy) and after EVERY API call the projection
// of the real state that coq/Model/Bind.v has is dumped.  ocaml/mode_bindtrace.ml (mode bind-trace) abstracts every dump to a
// Bind.state, evaluates bound_inv_b / placed_inv_b on it and explains every transition by Bind.step operations.
//
//   t_bind <seed> <thorough 0|1> [scenario]
//
// Every scenario runs in a forked child.  Records (all numbers decimal):
//
//   T scenario <name> <derived seed>            T end <name>     T rss <name> <KiB>     T crash <name> <signal>
//   K <name> <value>                            constants / options of the scenario (heap_bsize, arena_reserve, opts ...)
//   C <step> <tid> <call> <args> [= <results>]  the API call just made by thread <tid> (1 = main thread); see emit_* below
//   A <id> <exclusive> <start> <block_count> <is_large> <numa_node>                 a new arena (arenas never change)
//   R <id> <region start> <region size> <map start> <map size>                      what the harness gave to mi_manage_os_memory_ex
//   H <tid> <default heap> <n> {<ptr>:<arena_id>:<tag>:<backing>:<no_reclaim>}*n    tld->heaps of thread <tid>, list order (changed)
//   S <addr> <a|o> <arena id> <exclusive> <size> <owner tid, 0 abandoned> <abandoned_visits> <huge> <slices> <n> {span}*n
//        span = h:<count>                                        the segment info slices
//             | p:<index>:<count>:<heap or 0>:<tag>:<live blocks>:<block size>      a page (live = used - thread_free - delayed)
//             | f:<index>:<count>                                a free span
//   X <addr>                                    the segment is gone
//   E <text>                                    the dump is inconsistent (a live block of the harness in no enumerated segment ...)
//   D <step>                                    end of the dump after call <step>
//
// Reproducibility: every decision of the harness comes from the seed; the allocator's own randomness (the arena at which an
// abandoned-segment cursor starts: _mi_heap_random_next, seeded from OS entropy) and the addresses (ASLR) differ from run to run.
//
// Segments are enumerated from the allocator's own bookkeeping: every page queue of every heap of every live thread, the span
// queues of the thread, the blocks_abandoned bitmaps of the arenas and the abandoned OS list.  Only changed segments are printed.
#include REPO_STATIC
#include <stdio.h>
#include <stdlib.h>
#include <stdarg.h>
#include <string.h>
#include <inttypes.h>
#include <pthread.h>
#include <semaphore.h>
#include <signal.h>
#include <sys/mman.h>
#include <sys/wait.h>
#include <sys/resource.h>
#include <sys/prctl.h>
#include <unistd.h>
#include "prng.h"

#define U(x) ((unsigned long long)(uintptr_t)(x))
#define BLK ((size_t)MI_ARENA_BLOCK_SIZE)
static prng_t G;
static const char* SCN = "?";
static int THOROUGH = 0;
static int STEP = 0;

// ------------------------------------------------------------------ threads
#define MAXTHR 64
typedef struct {
  int alive; mi_tld_t* tld; mi_threadid_t mi_tid;
  pthread_t pt; sem_t go, done; int cmd_ops; int cmd_exit; void (*cmd_fn)(int tid);     // workers only
} thr_t;
static thr_t THR[MAXTHR]; static int NTHR = 2;                  // index 0 unused, 1 = main

static int tid_of(mi_threadid_t id) {
  if (id == 0) return 0;
  for (int i = 1; i < NTHR; i++) if (THR[i].alive && THR[i].mi_tid == id) return i;
  return 999;
}

// ------------------------------------------------------------------ heaps and blocks known to the harness
#define MAXHEAP 512
typedef struct { mi_heap_t* h; int tid; int arena; int tag; int destroyable; int alive; } hrec_t;
static hrec_t HP[MAXHEAP]; static int NHP;
typedef struct { void* p; size_t size; int hslot; } blk_t;
#define MAXLIVE 40000
static blk_t POOL[MAXLIVE]; static int NPOOL;

// ------------------------------------------------------------------ arenas made by the harness
typedef struct { mi_arena_id_t id; int exclusive; } myarena_t;
static myarena_t MY[32]; static int NMY;
static size_t ARENAS_PRINTED = 0;

// ------------------------------------------------------------------ the dump
#define MAXSEG 4096
static mi_segment_t* SEGS[MAXSEG]; static int NSEG;
typedef struct { uintptr_t addr; uint64_t hash; int gen; } seen_t;
static seen_t SEEN[MAXSEG * 2]; static int GEN = 0;
static uint64_t HEAPHASH[MAXTHR];

static void add_seg(mi_segment_t* s) {
  if (s == NULL) return;
  for (int i = 0; i < NSEG; i++) if (SEGS[i] == s) return;
  if (NSEG < MAXSEG) SEGS[NSEG++] = s;
}
static int cmp_seg(const void* a, const void* b) {
  uintptr_t x = (uintptr_t)*(mi_segment_t* const*)a, y = (uintptr_t)*(mi_segment_t* const*)b;
  return x < y ? -1 : x > y ? 1 : 0;
}
static uint64_t fnv(const char* s, size_t n) { uint64_t h = 1469598103934665603ull; for (size_t i = 0; i < n; i++) { h ^= (unsigned char)s[i]; h *= 1099511628211ull; } return h; }

static seen_t* seen_slot(uintptr_t addr) {
  size_t n = sizeof(SEEN) / sizeof(SEEN[0]);
  size_t i = (size_t)((addr >> 22) * 0x9E3779B97F4A7C15ull) % n;
  for (size_t k = 0; k < n; k++, i = (i + 1) % n) {
    if (SEEN[i].addr == addr) return &SEEN[i];
    if (SEEN[i].addr == 0) { SEEN[i].addr = addr; SEEN[i].hash = 0; SEEN[i].gen = -1; return &SEEN[i]; }
  }
  fprintf(stderr, "seen table full\n"); exit(3);
}

// blocks on the delayed-free lists of the heaps (freed by another thread, not yet on the thread_free list of their page)
static mi_page_t* DELAYED[4096]; static int NDELAYED;

static void enumerate(void) {
  NSEG = 0; NDELAYED = 0;
  for (int t = 1; t < NTHR; t++) {
    if (!THR[t].alive) continue;
    mi_tld_t* tld = THR[t].tld;
    for (mi_heap_t* h = tld->heaps; h != NULL; h = h->next) {
      for (size_t b = 0; b <= MI_BIN_FULL; b++)
        for (mi_page_t* pg = h->pages[b].first; pg != NULL; pg = pg->next) add_seg(_mi_page_segment(pg));
      for (mi_block_t* blk = mi_atomic_load_ptr_relaxed(mi_block_t, &h->thread_delayed_free); blk != NULL; blk = mi_block_nextx(h, blk, h->keys))
        if (NDELAYED < 4096) DELAYED[NDELAYED++] = _mi_ptr_page(blk);
    }
    for (size_t b = 0; b <= MI_SEGMENT_BIN_MAX; b++)
      for (mi_slice_t* sl = tld->segments.spans[b].first; sl != NULL; sl = sl->next) add_seg(_mi_ptr_segment(sl));
  }
  size_t na = mi_arena_get_count();
  for (size_t i = 0; i < na; i++) {
    mi_arena_t* a = mi_arena_from_index(i);
    if (a == NULL || a->blocks_abandoned == NULL) continue;
    for (size_t f = 0; f < a->field_count; f++) {
      size_t w = mi_atomic_load_relaxed(&a->blocks_abandoned[f]);
      for (size_t b = 0; b < MI_BITMAP_FIELD_BITS; b++)
        if ((w >> b) & 1) add_seg((mi_segment_t*)mi_arena_block_start(a, mi_bitmap_index_create(f, b)));
    }
  }
  mi_subproc_t* sp = THR[1].tld->segments.subproc;
  for (mi_segment_t* s = sp->abandoned_os_list; s != NULL; s = s->abandoned_os_next) add_seg(s);
  qsort(SEGS, (size_t)NSEG, sizeof(SEGS[0]), cmp_seg);
}

static char LINE[1 << 17];
static void dump_state(void) {
  enumerate();
  GEN++;
  // arenas
  size_t na = mi_arena_get_count();
  for (; ARENAS_PRINTED < na; ARENAS_PRINTED++) {
    mi_arena_t* a = mi_arena_from_index(ARENAS_PRINTED);
    if (a == NULL) continue;
    printf("A %d %d %llu %zu %d %d\n", a->id, a->exclusive ? 1 : 0, U(mi_atomic_load_ptr_relaxed(uint8_t, &a->start)), a->block_count, a->is_large ? 1 : 0, a->numa_node);
  }
  // heaps
  for (int t = 1; t < NTHR; t++) {
    size_t n = 0; int cnt = 0;
    if (THR[t].alive) {
      mi_tld_t* tld = THR[t].tld;
      for (mi_heap_t* h = tld->heaps; h != NULL; h = h->next) cnt++;
      // the default heap of another thread cannot be read (thread local): the harness never changes it, so it is the backing heap
      n += (size_t)snprintf(LINE + n, sizeof(LINE) - n, "H %d %llu %d", t, U(tld->heap_backing), cnt);
      for (mi_heap_t* h = tld->heaps; h != NULL; h = h->next)
        n += (size_t)snprintf(LINE + n, sizeof(LINE) - n, " %llu:%d:%d:%d:%d", U(h), h->arena_id, (int)h->tag, h == tld->heap_backing ? 1 : 0, h->no_reclaim ? 1 : 0);
    }
    else n += (size_t)snprintf(LINE + n, sizeof(LINE) - n, "H %d 0 0", t);
    uint64_t hh = fnv(LINE, n);
    if (hh != HEAPHASH[t]) { HEAPHASH[t] = hh; if (THR[t].alive || THR[t].tld != NULL) puts(LINE); }
  }
  // segments
  for (int i = 0; i < NSEG; i++) {
    mi_segment_t* s = SEGS[i];
    size_t n = 0; int spans = 0;
    static char SP[1 << 17]; size_t m = 0;
    const mi_slice_t* end = &s->slices[s->slice_entries];
    size_t idx = 0; int first = 1;
    for (mi_slice_t* sl = &s->slices[0]; sl < end && sl->slice_count > 0; sl += sl->slice_count) {
      idx = (size_t)(sl - s->slices);
      if (first) { m += (size_t)snprintf(SP + m, sizeof(SP) - m, " h:%u", sl->slice_count); first = 0; }
      else if (sl->block_size > 0) {
        mi_page_t* pg = mi_slice_to_page(sl);
        long live = (long)pg->used;
        for (mi_block_t* b = mi_page_thread_free(pg); b != NULL; b = mi_block_next(pg, b)) live--;
        for (int d = 0; d < NDELAYED; d++) if (DELAYED[d] == pg) live--;
        m += (size_t)snprintf(SP + m, sizeof(SP) - m, " p:%zu:%u:%llu:%d:%ld:%zu", idx, sl->slice_count, U(mi_page_heap(pg)), (int)pg->heap_tag, live, mi_page_block_size(pg));
      }
      else m += (size_t)snprintf(SP + m, sizeof(SP) - m, " f:%zu:%u", idx, sl->slice_count);
      spans++;
      if (m > sizeof(SP) - 256) break;
    }
    const int isarena = (s->memid.memkind == MI_MEM_ARENA);
    n = (size_t)snprintf(LINE, sizeof(LINE), "S %llu %c %d %d %zu %d %zu %d %zu %d%s", U(s), isarena ? 'a' : 'o',
                         isarena ? s->memid.mem.arena.id : 0, isarena && s->memid.mem.arena.is_exclusive ? 1 : 0, mi_segment_size(s),
                         tid_of(mi_atomic_load_relaxed(&s->thread_id)), s->abandoned_visits, s->kind == MI_SEGMENT_HUGE ? 1 : 0,
                         s->segment_slices, spans, SP);
    seen_t* e = seen_slot((uintptr_t)s);
    uint64_t hh = fnv(LINE, n);
    if (e->gen < 0 || e->hash != hh || e->gen != GEN - 1) puts(LINE);
    e->hash = hh; e->gen = GEN;
  }
  for (size_t i = 0; i < sizeof(SEEN) / sizeof(SEEN[0]); i++)
    if (SEEN[i].addr != 0 && SEEN[i].gen == GEN - 1) { printf("X %llu\n", U(SEEN[i].addr)); SEEN[i].gen = -2; }
  // every live block of the harness lies in an enumerated segment
  int lost = 0;
  for (int i = 0; i < NPOOL && lost < 3; i++) {
    mi_segment_t* s = _mi_ptr_segment(POOL[i].p);
    mi_segment_t** f = (mi_segment_t**)bsearch(&s, SEGS, (size_t)NSEG, sizeof(SEGS[0]), cmp_seg);
    if (f == NULL) { printf("E lost-segment %llu block %llu\n", U(s), U(POOL[i].p)); lost++; }
  }
  printf("D %d\n", STEP);
}

static void emit(int tid, const char* fmt, ...) {
  va_list ap; va_start(ap, fmt);
  printf("C %d %d ", ++STEP, tid);
  vprintf(fmt, ap);
  va_end(ap);
  putchar('\n');
  dump_state();
}

// ------------------------------------------------------------------ API calls (each one ends with a dump)
static uint8_t* map_noreserve(size_t size) {
  void* p = mmap(NULL, size, PROT_READ | PROT_WRITE, MAP_PRIVATE | MAP_ANONYMOUS | MAP_NORESERVE, -1, 0);
  if (p == MAP_FAILED) { fprintf(stderr, "mmap of %zu failed\n", size); exit(3); }
  return (uint8_t*)p;
}

// an arena over a fresh mapping (see harness/t_arena.c:make_managed): misaligned start, size not a multiple of the block size
static myarena_t* make_managed(size_t blocks, size_t head_pages, size_t tail_bytes, bool exclusive) {
  size_t msize = (blocks + 6) * BLK;
  uint8_t* map = map_noreserve(msize);
  uint8_t* al = (uint8_t*)_mi_align_up((uintptr_t)map, BLK);
  uint8_t* region; size_t rsize;
  if (head_pages == 0) { region = al; rsize = blocks * BLK + tail_bytes; }
  else { region = al + head_pages * 4096; rsize = (BLK - head_pages * 4096) + blocks * BLK + tail_bytes; }
  mi_arena_id_t id = 0;
  bool ok = mi_manage_os_memory_ex(region, rsize, true /*committed*/, false, true /*zero*/, -1, exclusive, &id);
  if (ok) printf("R %d %llu %zu %llu %zu\n", id, U(region), rsize, U(map), msize);
  emit(1, "manage %llu %zu %d 0 -1 = %d", U(region), rsize, exclusive ? 1 : 0, ok ? id : 0);
  if (!ok) { printf("T count %s manage_failed 1\n", SCN); return NULL; }
  myarena_t* m = &MY[NMY++]; m->id = id; m->exclusive = exclusive;
  return m;
}

static myarena_t* make_reserved(size_t size, bool exclusive) {
  mi_arena_id_t id = 0;
  int err = mi_reserve_os_memory_ex(size, false /*commit*/, false, exclusive, &id);
  if (err != 0) { emit(1, "reserve %zu %d = 0", size, exclusive ? 1 : 0); printf("T count %s reserve_failed 1\n", SCN); return NULL; }
  size_t asize = 0; uint8_t* astart = (uint8_t*)mi_arena_area(id, &asize);
  // the region the OS gave is not observable: the call is replayed as a manage of the area itself
  emit(1, "manage %llu %zu %d 0 -1 = %d", U(astart), asize, exclusive ? 1 : 0, id);
  myarena_t* m = &MY[NMY++]; m->id = id; m->exclusive = exclusive;
  return m;
}

static size_t pick_size(int big_ok) {
  switch (prng_below(&G, 16)) {
    case 0: case 1: case 2: case 3: return 8 + prng_below(&G, 1017);
    case 4: case 5: case 6: return 1024 + prng_below(&G, 64 * 1024);
    case 7: case 8: case 9: case 10: return 64 * 1024 + prng_below(&G, 900 * 1024);            // large pages: many slices
    case 11: return (size_t)1 << (3 + prng_below(&G, 18));
    case 12: return 2 * 1024 * 1024 + prng_below(&G, 6 * 1024 * 1024);
    case 13: return big_ok ? 16 * 1024 * 1024 + 1 + prng_below(&G, 24 * 1024 * 1024) : 4096;  // huge: own segment
    default: return 16 + 16 * prng_below(&G, 8);
  }
}

static int new_heap_slot(mi_heap_t* h, int tid, int arena, int tag, int destroyable) {
  if (NHP >= MAXHEAP) { fprintf(stderr, "too many heaps\n"); exit(3); }
  HP[NHP].h = h; HP[NHP].tid = tid; HP[NHP].arena = arena; HP[NHP].tag = tag; HP[NHP].destroyable = destroyable; HP[NHP].alive = 1;
  return NHP++;
}

static void do_thread_start(int tid) {
  mi_thread_init();
  mi_heap_t* d = mi_heap_get_default();
  THR[tid].tld = d->tld; THR[tid].mi_tid = _mi_thread_id(); THR[tid].alive = 1;
  emit(tid, "thread_start");
  new_heap_slot(d->tld->heap_backing, tid, 0, 0, 0);
}

static int do_heap_new(int tid, int arena, int tag, int destroyable) {
  mi_heap_t* h = mi_heap_new_ex(tag, destroyable != 0, arena);
  if (h == NULL) { emit(tid, "heap_new %d %d %d = 0 0 0", arena, tag, destroyable); return -1; }
  mi_segment_t* s = _mi_ptr_segment(h);
  emit(tid, "heap_new %d %d %d = %llu %llu %zu", arena, tag, destroyable, U(h), U(s), (size_t)(mi_slice_first((mi_slice_t*)_mi_segment_page_of(s, h)) - s->slices));
  return new_heap_slot(h, tid, arena, tag, destroyable);
}

static void* do_malloc(int tid, int hslot, size_t size) {
  mi_heap_t* h = HP[hslot].h;
  void* p = mi_heap_malloc(h, size);
  if (p == NULL) { emit(tid, "malloc %llu %zu = 0 0 0 0", U(h), size); return NULL; }
  ((volatile char*)p)[0] = 1; ((volatile char*)p)[size - 1] = 2;
  mi_segment_t* s = _mi_ptr_segment(p);
  mi_page_t* pg = _mi_segment_page_of(s, p);
  emit(tid, "malloc %llu %zu = %llu %llu %zu %llu", U(h), size, U(p), U(s), (size_t)((mi_slice_t*)pg - s->slices), U(mi_page_heap(pg)));
  if (NPOOL < MAXLIVE) { POOL[NPOOL].p = p; POOL[NPOOL].size = size; POOL[NPOOL].hslot = hslot; NPOOL++; }
  return p;
}

// a free that the unchanged allocator cannot survive (known finding of C10, impl:heap-delete-incompatible): a local free of
// a block of an abandoned page (its heap was deleted) inside a segment that the thread still owns
static int free_is_unsafe(void* p) {
  mi_segment_t* s = _mi_ptr_segment(p);
  mi_page_t* pg = _mi_segment_page_of(s, p);
  return (mi_atomic_load_relaxed(&s->thread_id) == _mi_thread_id() && mi_page_heap(pg) == NULL);
}

static int do_free_at(int tid, int k) {
  void* p = POOL[k].p;
  if (free_is_unsafe(p)) return 0;
  mi_segment_t* s = _mi_ptr_segment(p);
  size_t slice = (size_t)((mi_slice_t*)_mi_segment_page_of(s, p) - s->slices);
  mi_heap_t* def = mi_prim_get_default_heap();
  long rof = mi_option_get(mi_option_abandoned_reclaim_on_free);
  POOL[k] = POOL[--NPOOL];
  mi_free(p);
  emit(tid, "free %llu %llu %zu %llu %ld", U(p), U(s), slice, U(def), rof);
  return 1;
}

static void do_collect(int tid, int force) {
  mi_heap_t* def = mi_prim_get_default_heap();
  mi_collect(force != 0);
  emit(tid, "collect %d %llu", force, U(def));
}

static void do_heap_delete(int tid, int hslot, int destroy) {
  mi_heap_t* h = HP[hslot].h;
  mi_segment_t* s = _mi_ptr_segment(h);
  size_t slice = (size_t)(mi_slice_first((mi_slice_t*)_mi_segment_page_of(s, h)) - s->slices);
  if (destroy && h->no_reclaim) {          // the blocks die with the heap: every block in a page that belongs to the heap NOW
    int foreign = 0;                       // (a heap made with allow_destroy adopts abandoned pages of its tag like any other heap)
    for (int i = 0; i < NPOOL; ) {
      if (mi_page_heap(_mi_ptr_page(POOL[i].p)) == h) { if (POOL[i].hslot != hslot) foreign++; POOL[i] = POOL[--NPOOL]; } else i++;
    }
    if (foreign > 0) printf("T count %s destroy_foreign_blocks %d\n", SCN, foreign);
  }
  if (destroy) mi_heap_destroy(h); else mi_heap_delete(h);
  HP[hslot].alive = 0;
  emit(tid, "%s %llu %llu %zu", destroy ? "heap_destroy" : "heap_delete", U(h), U(s), slice);
}

static void do_option(int tid, const char* name, mi_option_t opt, long v) {
  mi_option_set(opt, v);
  emit(tid, "option %s %ld", name, v);
}

// ------------------------------------------------------------------ random programs
typedef struct { int tagged; int destroy_ok; int big_ok; int delete_bound_ok; } mixcfg_t;
static mixcfg_t CFG;

static int pick_own_heap(int tid) {
  int cand[64]; int n = 0;
  for (int i = 0; i < NHP && n < 64; i++) if (HP[i].alive && HP[i].tid == tid) cand[n++] = i;
  return n == 0 ? -1 : cand[prng_below(&G, (size_t)n)];
}
static int count_own_heaps(int tid) { int n = 0; for (int i = 0; i < NHP; i++) if (HP[i].alive && HP[i].tid == tid) n++; return n; }

static void random_heap_new(int tid) {
  int arena = 0, tag = 0, destroyable = 0;
  size_t c = prng_below(&G, 10);
  if (c < 6 && NMY > 0) arena = MY[prng_below(&G, (size_t)NMY)].id;        // bound (mi_heap_new_in_arena when tag 0 and not destroyable)
  if (CFG.tagged && prng_below(&G, 3) == 0) tag = 1 + (int)prng_below(&G, 3);
  if (CFG.destroy_ok && arena == 0 && prng_below(&G, 2) == 0) destroyable = 1;    // mi_heap_new() when tag 0
  do_heap_new(tid, arena, tag, destroyable);
}

static void random_op(int tid, int is_main) {
  size_t c = prng_below(&G, 100);
  if (c < 38) {
    int hs = pick_own_heap(tid);
    if (hs >= 0) do_malloc(tid, hs, pick_size(CFG.big_ok && HP[hs].arena == 0 ? (prng_below(&G, 4) == 0) : CFG.big_ok));
  }
  else if (c < 66) {
    int n = 1 + (int)prng_below(&G, 3);
    for (int i = 0; i < n && NPOOL > 0; i++) do_free_at(tid, (int)prng_below(&G, (size_t)NPOOL));
  }
  else if (c < 70) do_collect(tid, (int)prng_below(&G, 2));
  else if (c < 76) { if (count_own_heaps(tid) < 7) random_heap_new(tid); }
  else if (c < 80) {
    int hs = pick_own_heap(tid);
    if (hs >= 0 && HP[hs].h != THR[tid].tld->heap_backing) {
      // deleting a heap that is not compatible with the backing heap abandons its pages inside segments that stay owned; later
      // local frees of their blocks are filtered (free_is_unsafe)
      int compatible = (HP[hs].arena == 0 && HP[hs].tag == 0);
      if (compatible || CFG.delete_bound_ok) do_heap_delete(tid, hs, HP[hs].destroyable && prng_below(&G, 2) == 0);
    }
  }
  else if (c < 83) do_option(tid, "abandoned_reclaim_on_free", mi_option_abandoned_reclaim_on_free, (long)prng_below(&G, 2));
  else if (c < 90 || !is_main) {   // a burst of one size class: fresh pages are needed
    int hs = pick_own_heap(tid);
    size_t sz = pick_size(0); int n = 3 + (int)prng_below(&G, 20);
    for (int k = 0; k < n && hs >= 0; k++) do_malloc(tid, hs, sz);
  }
  else {
    // frees of many blocks: whole pages and segments become free
    int n = 5 + (int)prng_below(&G, 40);
    for (int i = 0; i < n && NPOOL > 0; i++) do_free_at(tid, (int)prng_below(&G, (size_t)NPOOL));
  }
}

// ------------------------------------------------------------------ worker threads: run in turns with the main thread
static void* worker_main(void* arg) {
  int tid = (int)(intptr_t)arg;
  sem_wait(&THR[tid].go);
  do_thread_start(tid);
  for (;;) {
    if (THR[tid].cmd_fn != NULL) THR[tid].cmd_fn(tid);
    for (int i = 0; i < THR[tid].cmd_ops; i++) random_op(tid, 0);
    if (THR[tid].cmd_exit) break;
    sem_post(&THR[tid].done);
    sem_wait(&THR[tid].go);
  }
  // the heaps of this thread die with it (mi_heap_delete in _mi_thread_heap_done)
  for (int i = 0; i < NHP; i++) if (HP[i].alive && HP[i].tid == tid) HP[i].alive = 0;
  THR[tid].alive = 0;     // the dump after the exit is made by the main thread and must not read this tld any more
  return NULL;            // _mi_thread_done: thread exit with live blocks
}

static int spawn_worker(int ops) {
  if (NTHR >= MAXTHR) return -1;
  int tid = NTHR++;
  memset(&THR[tid], 0, sizeof(THR[tid]));
  sem_init(&THR[tid].go, 0, 0); sem_init(&THR[tid].done, 0, 0);
  THR[tid].cmd_ops = ops; THR[tid].cmd_exit = 0;
  if (pthread_create(&THR[tid].pt, NULL, worker_main, (void*)(intptr_t)tid) != 0) { fprintf(stderr, "pthread_create failed\n"); exit(3); }
  sem_post(&THR[tid].go); sem_wait(&THR[tid].done);
  return tid;
}
static void run_worker(int tid, int ops) { THR[tid].cmd_fn = NULL; THR[tid].cmd_ops = ops; THR[tid].cmd_exit = 0; sem_post(&THR[tid].go); sem_wait(&THR[tid].done); }
static void script_worker(int tid, void (*fn)(int)) { THR[tid].cmd_fn = fn; THR[tid].cmd_ops = 0; THR[tid].cmd_exit = 0; sem_post(&THR[tid].go); sem_wait(&THR[tid].done); THR[tid].cmd_fn = NULL; }
static void exit_worker(int tid, int ops) {
  THR[tid].cmd_fn = NULL; THR[tid].cmd_ops = ops; THR[tid].cmd_exit = 1; sem_post(&THR[tid].go);
  pthread_join(THR[tid].pt, NULL);
  emit(tid, "thread_exit");
}
static int pick_worker(void) {
  int cand[MAXTHR]; int n = 0;
  for (int i = 2; i < NTHR; i++) if (THR[i].alive) cand[n++] = i;
  return n == 0 ? -1 : cand[prng_below(&G, (size_t)n)];
}
static int count_workers(void) { int n = 0; for (int i = 2; i < NTHR; i++) if (THR[i].alive) n++; return n; }

// ------------------------------------------------------------------ scenarios
static void start_main(long arena_reserve_kib) {
  mi_option_set(mi_option_arena_reserve, arena_reserve_kib);
  printf("K heap_bsize %zu\nK arena_reserve %ld\nK disallow_arena_alloc %d\nK disallow_os_alloc %d\n", mi_good_size(sizeof(mi_heap_t)), arena_reserve_kib,
         mi_option_is_enabled(mi_option_disallow_arena_alloc) ? 1 : 0, mi_option_is_enabled(mi_option_disallow_os_alloc) ? 1 : 0);
  memset(&THR[1], 0, sizeof(THR[1]));
  do_thread_start(1);
}

static void finish_all(void) {
  int w; int skipped = 0;
  while ((w = pick_worker()) >= 0) exit_worker(w, 0);
  do_option(1, "abandoned_reclaim_on_free", mi_option_abandoned_reclaim_on_free, 1);
  for (int guard = 0; NPOOL > 0 && guard < 4 * MAXLIVE; guard++) {
    int k = (int)prng_below(&G, (size_t)NPOOL);
    if (!do_free_at(1, k)) { POOL[k] = POOL[--NPOOL]; skipped++; }    // an unsafe free: leave the block (reported as a count)
  }
  if (skipped > 0) printf("T count %s unsafe_free_skipped %d\n", SCN, skipped);
  do_collect(1, 1);
}

// the mixed history: arenas A exclusive managed, B shared managed, C exclusive reserved, D shared (tiny) managed
static void mixed(int steps, long arena_reserve_kib) {
  start_main(arena_reserve_kib);
  myarena_t* A = make_managed(3 + prng_below(&G, 3), 1 + prng_below(&G, 8191), 1 + prng_below(&G, BLK - 1), true);
  myarena_t* B = make_managed(2 + prng_below(&G, 3), 1 + prng_below(&G, 8191), 1 + prng_below(&G, BLK - 1), false);
  myarena_t* C = make_reserved(2 * BLK + 1 + prng_below(&G, BLK - 1), true);
  myarena_t* D = make_managed(1, prng_below(&G, 8192), prng_below(&G, BLK), false);
  if (!A || !B || !C || !D) { printf("T count %s setup_failed 1\n", SCN); return; }
  for (int i = 0; i < 3; i++) random_heap_new(1);
  int threads = 0;
  for (int s = 0; s < steps; s++) {
    size_t c = prng_below(&G, 100);
    if (c < 72) random_op(1, 1);
    else if (c < 78) { if (count_workers() < 3) { spawn_worker(3 + (int)prng_below(&G, 25)); threads++; } }
    else if (c < 94) { int w = pick_worker(); if (w >= 0) run_worker(w, 1 + (int)prng_below(&G, 25)); }
    else { int w = pick_worker(); if (w >= 0) exit_worker(w, (int)prng_below(&G, 6)); }
  }
  finish_all();
  printf("T count %s threads %d\n", SCN, threads);
}

static void scenario_mix(void)    { CFG = (mixcfg_t){ 0, 1, 1, 1 }; mixed(THOROUGH ? 900 : 320, prng_below(&G, 2) == 0 ? 0 : 1024 * 1024); }
// tagged heaps in the mix: the known finding impl:reclaim-by-tag-exclusive can strike (reported as such by the replay)
static void scenario_tagmix(void) { CFG = (mixcfg_t){ 1, 1, 0, 1 }; mixed(THOROUGH ? 700 : 260, prng_below(&G, 2) == 0 ? 0 : 1024 * 1024); }

// span reuse inside one thread: bound and unbound heaps alternate, whole pages become free and are reused
static void scenario_spans(void) {
  CFG = (mixcfg_t){ 0, 1, 0, 0 };
  start_main(0);
  myarena_t* A = make_managed(4, 1 + prng_below(&G, 8191), 777, true);
  myarena_t* B = make_managed(4, 1 + prng_below(&G, 8191), 999, false);
  if (!A || !B) return;
  int hA = do_heap_new(1, A->id, 0, 0), hB = do_heap_new(1, B->id, 0, 0), hF = do_heap_new(1, 0, 0, 1);
  int hs[4] = { 0, hA, hB, hF };
  for (int round = 0; round < (THOROUGH ? 10 : 4); round++) {
    for (int i = 0; i < 90; i++) do_malloc(1, hs[prng_below(&G, 4)], pick_size(0));
    int n = (NPOOL * 2) / 3;
    for (int i = 0; i < n && NPOOL > 0; i++) do_free_at(1, (int)prng_below(&G, (size_t)NPOOL));
    do_collect(1, (int)prng_below(&G, 2));
  }
  finish_all();
}

// adoption: threads with heaps bound to A (exclusive) and B (shared) exit with live blocks; the main thread frees some of
// their blocks (reclaim-on-free on / off) and allocates from bound and unbound heaps (try_reclaim), collects (reclaim_all,
// abandoned_collect)
static mi_arena_id_t SC_A, SC_B; static int SC_PER;
static void adopt_worker(int tid) {
  int wa = do_heap_new(tid, SC_A, 0, 0), wb = do_heap_new(tid, SC_B, 0, 0);
  int own = pick_own_heap(tid); (void)own;
  int def = -1; for (int i = 0; i < NHP; i++) if (HP[i].alive && HP[i].tid == tid && HP[i].h == THR[tid].tld->heap_backing) def = i;
  for (int r = 0; r < SC_PER; r++) {
    if (wa >= 0) do_malloc(tid, wa, pick_size(0));
    if (wb >= 0) do_malloc(tid, wb, pick_size(0));
    do_malloc(tid, def, pick_size(0));
    if (prng_below(&G, 4) == 0 && NPOOL > 0) do_free_at(tid, (int)prng_below(&G, (size_t)NPOOL));
  }
}
static void scenario_adopt(void) {
  CFG = (mixcfg_t){ 0, 0, 0, 0 };
  start_main(prng_below(&G, 2) == 0 ? 0 : 1024 * 1024);
  myarena_t* A = make_managed(5, 1 + prng_below(&G, 8191), 4242, true);
  myarena_t* B = make_managed(5, 1 + prng_below(&G, 8191), 2424, false);
  if (!A || !B) return;
  SC_A = A->id; SC_B = B->id; SC_PER = 25;
  int hA = do_heap_new(1, A->id, 0, 0), hB = do_heap_new(1, B->id, 0, 0);
  int hs[3] = { 0, hA, hB };
  for (int round = 0; round < (THOROUGH ? 6 : 3); round++) {
    for (int t = 0; t < 2; t++) { int w = spawn_worker(0); script_worker(w, adopt_worker); if (t == 0 || prng_below(&G, 2) == 0) exit_worker(w, 0); }
    do_option(1, "abandoned_reclaim_on_free", mi_option_abandoned_reclaim_on_free, round % 2);
    int n = NPOOL / 3;
    for (int i = 0; i < n && NPOOL > 0; i++) do_free_at(1, (int)prng_below(&G, (size_t)NPOOL));   // abandoned pages get free blocks / die
    for (int i = 0; i < 120; i++) do_malloc(1, hs[prng_below(&G, 3)], pick_size(0));
    do_collect(1, round % 2 == 0);
    n = NPOOL / 2;
    for (int i = 0; i < n && NPOOL > 0; i++) do_free_at(1, (int)prng_below(&G, (size_t)NPOOL));
  }
  finish_all();
}

// arena exhaustion: a bound heap gets NULL (mi_heap_collect inside the allocation), the default heap goes on
static void scenario_exhaust(void) {
  CFG = (mixcfg_t){ 0, 0, 1, 0 };
  start_main(0);
  myarena_t* E = make_managed(1 + prng_below(&G, 2), 1 + prng_below(&G, 8191), 1 + prng_below(&G, BLK - 1), true);
  myarena_t* S = make_managed(2, 1 + prng_below(&G, 8191), 1 + prng_below(&G, BLK - 1), false);
  if (!E || !S) return;
  int hE = do_heap_new(1, E->id, 0, 0), hS = do_heap_new(1, S->id, 0, 0);
  for (int k = 0; k < 2; k++) {
    int h = (k == 0 ? hE : hS);
    for (int i = 0; i < 6; i++) if (do_malloc(1, h, 17 * 1024 * 1024 + prng_below(&G, 8 * 1024 * 1024)) == NULL) break;
    int nulls = 0;
    for (int i = 0; i < 400 && nulls < 3; i++) if (do_malloc(1, h, 4096 + 640 * (size_t)i) == NULL) nulls++;
    printf("T count %s small_null_%d %d\n", SCN, k, nulls);
  }
  for (int i = 0; i < 4; i++) do_malloc(1, 0, 17 * 1024 * 1024 + 4096 * (size_t)i);
  for (int i = 0; i < 200; i++) do_malloc(1, 0, pick_size(0));
  finish_all();
}

// known finding impl:reclaim-by-tag-exclusive (corpus/C15/reclaim_tag_exclusive.c) as a trace: the replay must explain it
// with the model (which reproduces it) and report the broken invariant as the known finding
static void tagx_worker(int tid) {
  int wa = do_heap_new(tid, SC_A, 0, 0);
  for (int r = 0; r < 60 && wa >= 0; r++) do_malloc(tid, wa, 8 + 8 * (size_t)(r % 128));
}
static void scenario_tagx(void) {
  CFG = (mixcfg_t){ 1, 0, 0, 0 };
  start_main(0);
  myarena_t* A = make_managed(4, 0, 0, true);
  if (!A) return;
  SC_A = A->id;
  int w = spawn_worker(0); script_worker(w, tagx_worker); exit_worker(w, 0);
  int h2 = do_heap_new(1, A->id, 7, 0);
  if (h2 >= 0) do_malloc(1, h2, 1000);                 // needs a fresh page: mi_segment_try_reclaim(h2) adopts the segment of the worker
  for (int i = 0; i < 60; i++) do_malloc(1, 0, 8 + 8 * (size_t)(i % 128));
  finish_all();
}

// ------------------------------------------------------------------ driver
typedef struct { const char* name; void (*fn)(void); int repeat_quick; int repeat_thorough; } scn_t;
static const scn_t SCNS[] = {
  { "spans", scenario_spans, 1, 3 }, { "mix", scenario_mix, 4, 12 }, { "tagmix", scenario_tagmix, 2, 6 },
  { "adopt", scenario_adopt, 2, 6 }, { "exhaust", scenario_exhaust, 1, 3 }, { "tagx", scenario_tagx, 1, 1 },
};

static void on_fatal(int sig) { fflush(stdout); signal(sig, SIG_DFL); raise(sig); }

int main(int argc, char** argv) {
  uint64_t seed = argc > 1 ? strtoull(argv[1], NULL, 10) : 1;
  THOROUGH = argc > 2 ? atoi(argv[2]) : 0;
  const char* only = argc > 3 ? argv[3] : NULL;
  setvbuf(stdout, NULL, _IOFBF, 1 << 16);
  for (size_t i = 0; i < sizeof(SCNS) / sizeof(SCNS[0]); i++) {
    if (only != NULL && strcmp(only, SCNS[i].name) != 0) continue;
    int reps = THOROUGH ? SCNS[i].repeat_thorough : SCNS[i].repeat_quick;
    for (int r = 0; r < reps; r++) {
      char name[32]; snprintf(name, sizeof(name), "%s%d", SCNS[i].name, r);
      prng_t sg; prng_seed(&sg, seed); sg.s ^= (uint64_t)(i * 64 + (size_t)r + 1) * 0xD6E8FEB86659FD93ull;
      uint64_t s = prng_next(&sg);
      printf("T scenario %s %llu\n", name, (unsigned long long)s);
      fflush(stdout);
      pid_t pid = fork();
      if (pid == 0) {
        struct rlimit rl; rl.rlim_cur = rl.rlim_max = (rlim_t)40 << 30; setrlimit(RLIMIT_AS, &rl);
        prctl(PR_SET_THP_DISABLE, 1, 0, 0, 0);
        prctl(PR_SET_PDEATHSIG, SIGKILL);
        alarm(THOROUGH ? 300 : 90);
        signal(SIGSEGV, on_fatal); signal(SIGBUS, on_fatal); signal(SIGFPE, on_fatal); signal(SIGABRT, on_fatal); signal(SIGALRM, on_fatal);
        SCN = name; prng_seed(&G, s);
        SCNS[i].fn();
        printf("T end %s\n", name);
        fflush(stdout);
        _exit(0);
      }
      int status = 0; struct rusage ru; memset(&ru, 0, sizeof(ru)); wait4(pid, &status, 0, &ru);
      printf("T rss %s %ld\n", name, (long)ru.ru_maxrss);
      if (!WIFEXITED(status) || WEXITSTATUS(status) != 0)
        printf("T crash %s %d\n", name, WIFSIGNALED(status) ? WTERMSIG(status) : 1000 + WEXITSTATUS(status));
      fflush(stdout);
    }
  }
  printf("END\n");
  return 0;
}
