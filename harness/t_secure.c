// Harness for property C17 (hardened builds).  Compiled twice by tools/props/C17.py:
//   (a) -DMI_SECURE=4 -DNDEBUG -O1   (secure release)        (b) -DMI_DEBUG=1 -O1   (debug)
// The error callback collects the codes delivered by _mi_error_message (no abort), output is muted.
//
// T records (implementation-side oracle, checked in Python):
//   T cfg secure=<0|1> debug=<n> padding=<n> encode=<0|1> pad_size=<n>
//   T begin <ep> <kind> ...        printed (and flushed) before an attack, so that a crash has a witness
//        (kind overflow_mt: the overflowed block is freed through the cross-thread path, wkind=0 by a real
//         second pthread calling mi_free, wkind=1 by a direct call of mi_free_generic_mt; before it up to three
//         untouched blocks are freed the same way and must report nothing; requested sizes 1..40)
//   T ep <ep> kind=<double|overflow|link|overflow_mt> req=<n> bsu=<n> delta=<n> v=<n> wkind=<n> errs=<a,b,..> pre=<n> post=<n>
//        dup=<n> outside=<n> spurious=<n> patbad=<n> reached=<0|1>
// F records (compared with the extracted Coq model Model/Secure.v by ocaml/mode_secure.ml):
//   F const <name> <value>
//   F cfg <ep> bsz rsv k0 k1 pgaddr seg pstart psize dbg seclvl
//   F mem <ep> <i> <hex>           initial bytes of block i (i < reserved; all-zero blocks are omitted)
//   F st  <ep> cap used free lfree tfree             (heads: index+1, 0 = NULL)
//   F op  <ep> <strong> <name> <args> = <ret> <nerr> <errs..> | cap used | nF F.. | nL L.. | nT T..
//   F memf <ep> <i> <hex>          final bytes of block i
//   F end <ep>
#include REPO_STATIC
#include <stdio.h>
#include <inttypes.h>
#include <signal.h>
#include <unistd.h>
#include <pthread.h>
#include "prng.h"

#define U(x) ((unsigned long long)(x))

#if !MI_PADDING || !defined(MI_ENCODE_FREELIST)
#error "t_secure.c must be compiled with MI_SECURE>=3 or MI_DEBUG>=1"
#endif

static int g_errs[256];
static int g_nerr = 0;
static int g_mute = 0;
static void on_error(int err, void* arg) { (void)arg; if (!g_mute && g_nerr < 256) g_errs[g_nerr++] = err; }
static void on_output(const char* msg, void* arg) { (void)msg; (void)arg; }
static const char* g_stage = "init";
static void on_alarm(int sig) {
  (void)sig;
  // async-signal-safe enough for a dying harness
  char buf[256]; int n = snprintf(buf, sizeof(buf), "\nT hang %s\n", g_stage);
  if (write(1, buf, (size_t)n)) {}
  _exit(3);
}

static const int SECURE_BUILD = (MI_SECURE >= 4 ? 1 : 0);

static void print_errs(void) {
  printf("%d", g_nerr);
  for (int i = 0; i < g_nerr; i++) printf(" %d", g_errs[i]);
}
static void print_errs_csv(void) {
  if (g_nerr == 0) { printf("-"); return; }
  for (int i = 0; i < g_nerr; i++) printf("%s%d", i ? "," : "", g_errs[i]);
}

// ------------------------------------------------------------------------------------------
// T: API level episodes on a fresh heap, one attack each
// ------------------------------------------------------------------------------------------
typedef struct { uint8_t* p; size_t sz; uint8_t pat; } slot_t;
#define MAXLIVE 8192
static slot_t live[MAXLIVE];
static int nlive;
static int n_dup, n_outside, n_spurious, n_patbad;

static void check_new_block(uint8_t* p, size_t sz) {
  // no block is handed out twice / overlapping a live one; every address lies inside a heap area
  for (int i = 0; i < nlive; i++) {
    if (p < live[i].p + (live[i].sz ? live[i].sz : 1) && live[i].p < p + (sz ? sz : 1)) { n_dup++; break; }
  }
  if (!mi_is_in_heap_region(p)) { n_outside++; return; }
  mi_page_t* page = _mi_ptr_page(p);
  size_t bs = mi_page_block_size(page);
  uint8_t* ps = mi_page_start(page);
  if (bs == 0 || p < ps || (size_t)(p - ps) % bs != 0 || (size_t)(p - ps) / bs >= page->capacity) n_outside++;
}

static uint8_t* t_alloc(mi_heap_t* heap, size_t sz, prng_t* g, int check) {
  g_nerr = 0;
  uint8_t* p = (uint8_t*)mi_heap_malloc(heap, sz);
  if (p == NULL) return NULL;
  if (check) check_new_block(p, sz);
  uint8_t pat = (uint8_t)(prng_next(g) | 1);
  memset(p, pat, sz);
  if (nlive < MAXLIVE) { live[nlive].p = p; live[nlive].sz = sz; live[nlive].pat = pat; nlive++; }
  return p;
}
static void t_check_pattern(int k) {
  for (size_t j = 0; j < live[k].sz; j++) if (live[k].p[j] != live[k].pat) { n_patbad++; break; }
}
static void t_free_slot(int k) {
  t_check_pattern(k);
  g_nerr = 0;
  mi_free(live[k].p);
  if (g_nerr != 0) n_spurious++;
  live[k] = live[--nlive];
}
// another live block in the same page?
static int has_page_mate(int k) {
  mi_page_t* page = _mi_ptr_page(live[k].p);
  for (int i = 0; i < nlive; i++) if (i != k && _mi_ptr_page(live[i].p) == page) return 1;
  return 0;
}

// free p through the cross-thread path: a real second thread, or mi_free_generic_mt called directly
static void* mt_free_thread(void* p) { mi_free(p); return NULL; }
static void free_cross_thread(void* p, int direct) {
  if (direct) {
    mi_segment_t* seg = _mi_ptr_segment(p);
    mi_free_generic_mt(_mi_segment_page_of(seg, p), seg, p);
  }
  else {
    pthread_t t;
    if (pthread_create(&t, NULL, &mt_free_thread, p) == 0) pthread_join(t, NULL);
    else mi_free_generic_mt(_mi_ptr_page(p), _mi_ptr_segment(p), p);
  }
}

static const size_t t_sizes[] = { 8, 24, 40, 56, 72, 1, 7, 9, 16, 23, 39, 55, 100, 104, 119, 120, 200, 248, 500, 504, 1000, 1016, 2000, 4088, 8000 };
#define NT_SIZES (sizeof(t_sizes)/sizeof(t_sizes[0]))

static void t_episode(prng_t* g, int ep, int kind, int full_check, size_t fixed_req) {
  mi_heap_t* heap = mi_heap_new();
  nlive = 0; n_dup = n_outside = n_spurious = n_patbad = 0;
  size_t req = (kind == 3 ? fixed_req : t_sizes[prng_below(g, NT_SIZES)]);
  // usable block size of the class
  uint8_t* probe = t_alloc(heap, req, g, full_check);
  size_t bsu = mi_page_usable_block_size(_mi_ptr_page(probe));
  if (kind == 1) {   // overflow: choose the distance to the trailer
    switch (prng_below(g, 4)) {
      case 0: req = bsu; break;                       // delta = 0: the byte is the first canary byte
      case 1: req = bsu - 1; break;                   // delta = 1: only one fill byte
      case 2: req = (bsu > 17 ? bsu - 17 : 1); break; // delta > MI_MAX_ALIGN_SIZE
      default: break;
    }
    if (req == 0) req = 1;
  }
  size_t other = (bsu >= 1000 ? 40 : 2000);   // a size of a different class
  int pre = 3 + (int)prng_below(g, (bsu > 2000 ? 30 : 150));
  if (g_nerr) n_spurious++;
  for (int i = 0; i < pre; i++) {
    int r = (int)prng_below(g, 10);
    if (r < 6 || nlive < 3) { t_alloc(heap, req, g, full_check); if (g_nerr) n_spurious++; }
    else if (r < 7) { t_alloc(heap, other, g, full_check); if (g_nerr) n_spurious++; }
    else t_free_slot((int)prng_below(g, (size_t)nlive));
  }
  size_t delta = 0, v = 0, wkind = 0; int reached = 0; int post = 0;
  int aerr[64]; int anerr = 0;
  if (kind == 0 || kind == 2) {
    // a block of the class that has another live block in its page
    int k = -1;
    for (int tries = 0; tries < 50 && k < 0; tries++) {
      int c = (int)prng_below(g, (size_t)nlive);
      if (live[c].sz == req && has_page_mate(c)) k = c;
    }
    if (k < 0) { t_alloc(heap, req, g, full_check); t_alloc(heap, req, g, full_check); k = nlive - 1; if (!has_page_mate(k)) { printf("T skip %d\n", ep); mi_heap_destroy(heap); return; } }
    uint8_t* x = live[k].p;
    mi_page_t* page = _mi_ptr_page(x);
    printf("T begin %d %s req=%llu\n", ep, kind == 0 ? "double" : "link", U(req)); fflush(stdout);
    t_free_slot(k);                           // the regular free
    if (kind == 0) {
      if (prng_below(g, 2)) { t_alloc(heap, other, g, full_check); if (g_nerr) n_spurious++; }
      // half of the time the first free is old: a forced collect has moved the block from local_free to the page's free list
      if (prng_below(g, 2)) { wkind = 1; mi_heap_collect(heap, true); if (g_nerr) n_spurious++; }
      g_stage = "double-free";
      g_nerr = 0;
      mi_free(x);                             // the second free
      anerr = g_nerr; memcpy(aerr, g_errs, sizeof(int) * (size_t)(anerr < 64 ? anerr : 64));
      reached = 1;
    }
    else {
      // overwrite the link of the freed block
      uintptr_t w;
      size_t psize; uint8_t* pstart = _mi_segment_page_start(_mi_page_segment(page), page, &psize);
      for (;;) {
        wkind = prng_below(g, 4);
        if (wkind == 0) w = prng_next(g);
        else if (wkind == 1) w = 0;
        else if (wkind == 2) w = mi_ptr_encode(page, pstart + psize + 64 * prng_below(g, 1000), page->keys);   // decodes just past the area
        else w = mi_ptr_encode(page, (void*)(uintptr_t)(prng_next(g) & ~(uintptr_t)7), page->keys);          // decodes to a random aligned address
        void* d = mi_ptr_decode(page, w, page->keys);
        if (d != NULL && !mi_is_in_same_page(x, d)) break;
      }
      memcpy(x, &w, sizeof(w));
      g_stage = "link-reach";
      // continue allocating from the class until the allocator reaches the link
      g_nerr = 0;
      int total = 0;
      for (int i = 0; i < 6000 && g_nerr == 0; i++) {
        uint8_t* p = (uint8_t*)mi_heap_malloc(heap, req); total++;
        if (p == NULL) break;
        int saved = g_nerr;
        if (full_check) check_new_block(p, req);
        memset(p, 0x5b, req);
        if (nlive < MAXLIVE) { live[nlive].p = p; live[nlive].sz = req; live[nlive].pat = 0x5b; nlive++; }
        g_nerr = saved;
      }
      anerr = g_nerr; memcpy(aerr, g_errs, sizeof(int) * (size_t)(anerr < 64 ? anerr : 64));
      reached = (anerr > 0);
      post += total;
    }
  }
  else if (kind == 3) {
    wkind = prng_below(g, 2);
    printf("T begin %d overflow_mt req=%llu direct=%llu\n", ep, U(req), U(wkind)); fflush(stdout);
    g_stage = "overflow-mt-clean";
    // untouched blocks freed through the cross-thread path report nothing
    for (int c = 0; c < 3 && nlive > 1; c++) {
      int k = -1;
      for (int i = 0; i < nlive; i++) if (live[i].sz == req) { k = i; break; }
      if (k < 0) break;
      t_check_pattern(k);
      g_nerr = 0;
      free_cross_thread(live[k].p, (int)wkind);
      if (g_nerr != 0) n_spurious++;
      live[k] = live[--nlive];
    }
    uint8_t* p = t_alloc(heap, req, g, full_check);
    if (g_nerr) n_spurious++;
    int k = nlive - 1;
    size_t bsu2 = mi_page_usable_block_size(_mi_ptr_page(p));
    delta = bsu2 - req;
    uint8_t expected = (delta > 0 ? MI_DEBUG_PADDING : 0);
    do { v = prng_next(g) & 0xff; } while (v == expected);
    p[req] = (uint8_t)v;                      // one foreign byte just past the requested size
    g_stage = "overflow-mt-free";
    t_check_pattern(k);
    g_nerr = 0;
    free_cross_thread(p, (int)wkind);         // freed by "another thread"
    anerr = g_nerr; memcpy(aerr, g_errs, sizeof(int) * (size_t)(anerr < 64 ? anerr : 64));
    live[k] = live[--nlive];
    reached = 1;
  }
  else {
    printf("T begin %d overflow req=%llu\n", ep, U(req)); fflush(stdout);
    uint8_t* p = t_alloc(heap, req, g, full_check);
    if (g_nerr) n_spurious++;
    int k = nlive - 1;
    size_t bsu2 = mi_page_usable_block_size(_mi_ptr_page(p));
    delta = bsu2 - req;
    uint8_t expected = (delta > 0 ? MI_DEBUG_PADDING : 0);
    do { v = prng_next(g) & 0xff; } while (v == expected);
    p[req] = (uint8_t)v;                      // one foreign byte just past the requested size
    g_stage = "overflow-free";
    t_check_pattern(k);
    g_nerr = 0;
    mi_free(p);
    anerr = g_nerr; memcpy(aerr, g_errs, sizeof(int) * (size_t)(anerr < 64 ? anerr : 64));
    live[k] = live[--nlive];
    reached = 1;
  }
  // afterwards (secure build): the heap stays usable
  // (not after a cross-thread free: the owner checks the block again when it processes its delayed frees)
  if (full_check && kind != 3) {
    g_stage = "after";
    int n = 200 + (int)prng_below(g, 200);
    for (int i = 0; i < n; i++) {
      int r = (int)prng_below(g, 10);
      if (r < 7 || nlive < 3) { t_alloc(heap, (r == 0 ? other : req), g, 1); if (g_nerr) n_spurious++; post++; }
      else t_free_slot((int)prng_below(g, (size_t)nlive));
    }
    while (nlive > 0) t_free_slot(nlive - 1);
  }
  printf("T ep %d kind=%s req=%llu bsu=%llu delta=%llu v=%llu wkind=%llu errs=", ep, kind == 0 ? "double" : kind == 1 ? "overflow" : kind == 2 ? "link" : "overflow_mt",
         U(req), U(bsu), U(delta), U(v), U(wkind));
  g_nerr = anerr; memcpy(g_errs, aerr, sizeof(int) * (size_t)(anerr < 64 ? anerr : 64)); print_errs_csv();
  printf(" pre=%d post=%d dup=%d outside=%d spurious=%d patbad=%d reached=%d\n", pre, post, n_dup, n_outside, n_spurious, n_patbad, reached);
  fflush(stdout);
  g_stage = "destroy";
  mi_heap_destroy(heap);
}

// ------------------------------------------------------------------------------------------
// F: page level episodes, replayed by the model from the dumped initial state
// ------------------------------------------------------------------------------------------
static mi_page_t* fpage; static mi_segment_t* fseg; static uint8_t* fstart; static size_t fbs; static size_t fpsize;

static long idx_of(const void* b) {
  if (b == NULL) return 0;
  size_t d = (size_t)((const uint8_t*)b - fstart);
  if ((const uint8_t*)b < fstart || d % fbs != 0) return -1;   // wild
  return (long)(d / fbs) + 1;
}
static mi_block_t* blk_at(size_t i) { return (mi_block_t*)(fstart + i * fbs); }

static void dump_list(mi_block_t* head) {
  static long buf[70000]; int n = 0;
  size_t limit = (size_t)fpage->capacity + 1;
  g_mute = 1;
  mi_block_t* b = head;
  while (b != NULL && (size_t)n < limit) {
    long ix = idx_of(b);
    buf[n++] = ix;
    if (ix < 0) break;
    b = mi_block_next(fpage, b);
  }
  g_mute = 0;
  printf(" | %d", n);
  for (int i = 0; i < n; i++) printf(" %ld", buf[i]);
}
static void dump_obs(void) {
  printf(" | %u %u", (unsigned)fpage->capacity, (unsigned)fpage->used);
  dump_list(fpage->free); dump_list(fpage->local_free); dump_list(mi_page_thread_free(fpage));
  printf("\n");
}
static void dump_mem(const char* tag, int ep) {
  static const char hx[] = "0123456789abcdef";
  for (size_t i = 0; i < fpage->reserved; i++) {
    const uint8_t* p = fstart + i * fbs;
    int allzero = 1;
    for (size_t j = 0; j < fbs && allzero; j++) if (p[j] != 0) allzero = 0;
    if (allzero) continue;     // blocks that are not printed are all zero
    printf("F %s %d %llu ", tag, ep, U(i));
    for (size_t j = 0; j < fbs; j++) { putchar(hx[p[j] >> 4]); putchar(hx[p[j] & 15]); }
    putchar('\n');
  }
}

#define FMAX 4096
static long f_live[FMAX]; static size_t f_req[FMAX]; static int f_nlive;   // blocks the program holds (index, requested size)
static long f_freed[FMAX]; static int f_nfreed;                             // blocks it has freed (dangling pointers)

static void f_episode(prng_t* g, int ep, size_t cls, int nops, int attack) {
  mi_heap_t* heap = mi_heap_new();
  uint8_t* anchor = (uint8_t*)mi_heap_malloc(heap, cls);
  uint8_t* sacr = (uint8_t*)mi_heap_malloc(heap, cls);
  fpage = _mi_ptr_page(anchor); fseg = _mi_ptr_segment(anchor);
  if (_mi_ptr_page(sacr) != fpage) { printf("T fskip %d\n", ep); mi_heap_destroy(heap); return; }
  fstart = _mi_segment_page_start(fseg, fpage, &fpsize);
  fbs = mi_page_block_size(fpage);
  size_t bsu = mi_page_usable_block_size(fpage);
  // the first remote free of a page goes to the heap's delayed list and switches the page to
  // "push on the page's thread_free list"; do it with a sacrificial block before the dump
  if (mi_page_thread_free_flag(fpage) == MI_USE_DELAYED_FREE) mi_free_block_mt(fpage, fseg, (mi_block_t*)sacr);
  int can_remote = (mi_page_thread_free_flag(fpage) == MI_NO_DELAYED_FREE);
  g_nerr = 0;
  printf("F cfg %d %llu %u %llu %llu %llu %llu %llu %llu %d %d\n", ep, U(fbs), (unsigned)fpage->reserved, U(fpage->keys[0]), U(fpage->keys[1]),
         U(fpage), U(fseg), U(fstart), U(fpsize), (MI_DEBUG > 0 ? 1 : 0), (int)MI_SECURE);
  dump_mem("mem", ep);
  printf("F st %d %u %u %ld %ld %ld\n", ep, (unsigned)fpage->capacity, (unsigned)fpage->used, idx_of(fpage->free), idx_of(fpage->local_free), idx_of(mi_page_thread_free(fpage)));
  f_nlive = 0; f_nfreed = 0;
  int strong = 1;        // no link has been overwritten and no double remote free yet: the strong invariant is expected
  int attacks_left = attack ? 1 + (int)prng_below(g, 3) : 0;
  for (int t = 0; t < nops; t++) {
    int r = (int)prng_below(g, 100);
    g_nerr = 0;
    if (r < 38) {
      if (fpage->free == NULL) {
        // refill: collect or extend
        if (fpage->local_free != NULL || mi_page_thread_free(fpage) != NULL || fpage->capacity >= fpage->reserved) {
          bool force = (prng_below(g, 4) == 0);
          _mi_page_free_collect(fpage, force);
          printf("F op %d %d collect %d = 0 ", ep, strong, force ? 1 : 0); print_errs(); dump_obs();
        }
        else {
          size_t c0 = fpage->capacity;
          mi_page_extend_free(heap, fpage, heap->tld);
          size_t n = fpage->capacity - c0;
          if (SECURE_BUILD) {
            printf("F op %d %d extend_secure %llu", ep, strong, U(n));
            g_mute = 1; mi_block_t* b = fpage->free;
            for (size_t i = 0; i < n; i++) { printf(" %ld", idx_of(b) - 1); b = mi_block_next(fpage, b); }
            g_mute = 0;
            printf(" = 0 "); print_errs(); dump_obs();
          }
          else { printf("F op %d %d extend_seq = 0 ", ep, strong); print_errs(); dump_obs(); }
        }
        continue;
      }
      size_t req;
      switch (prng_below(g, 6)) { case 0: req = bsu; break; case 1: req = bsu - 1; break; case 2: req = 1 + prng_below(g, 8); break; default: req = 1 + prng_below(g, bsu); }
      if (req > bsu) req = bsu;
      void* p = _mi_page_malloc(heap, fpage, req + MI_PADDING_SIZE);
      long ix = idx_of(p);
      if (f_nlive < FMAX) { f_live[f_nlive] = ix - 1; f_req[f_nlive] = req; f_nlive++; }
      for (int k = 0; k < f_nfreed; k++) if (f_freed[k] == ix - 1) { f_freed[k] = f_freed[--f_nfreed]; break; }
      printf("F op %d %d malloc %llu = %ld ", ep, strong, U(req), ix); print_errs(); dump_obs();
    }
    else if (r < 58 && f_nlive > 0) {
      int k = (int)prng_below(g, (size_t)f_nlive);
      long ix = f_live[k];
      mi_free_block_local(fpage, blk_at((size_t)ix), false, false);
      f_live[k] = f_live[f_nlive - 1]; f_req[k] = f_req[f_nlive - 1]; f_nlive--;
      if (f_nfreed < FMAX) f_freed[f_nfreed++] = ix;
      printf("F op %d %d free %ld = 0 ", ep, strong, ix); print_errs(); dump_obs();
    }
    else if (r < 66 && f_nlive > 0 && can_remote) {
      int k = (int)prng_below(g, (size_t)f_nlive);
      long ix = f_live[k];
      mi_free_block_mt(fpage, fseg, blk_at((size_t)ix));
      f_live[k] = f_live[f_nlive - 1]; f_req[k] = f_req[f_nlive - 1]; f_nlive--;
      if (f_nfreed < FMAX) f_freed[f_nfreed++] = ix;
      printf("F op %d %d remote_free %ld = 0 ", ep, strong, ix); print_errs(); dump_obs();
    }
    else if (r < 68 && fpage->capacity < fpage->reserved && fpage->capacity < 400 && (SECURE_BUILD || (fpage->free == NULL && fpage->local_free == NULL))) {
      size_t c0 = fpage->capacity;
      mi_page_extend_free(heap, fpage, heap->tld);
      size_t n = fpage->capacity - c0;
      if (SECURE_BUILD) {
        printf("F op %d %d extend_secure %llu", ep, strong, U(n));
        g_mute = 1; mi_block_t* b = fpage->free;
        for (size_t i = 0; i < n; i++) { printf(" %ld", idx_of(b) - 1); b = mi_block_next(fpage, b); }
        g_mute = 0;
        printf(" = 0 "); print_errs(); dump_obs();
      }
      else { printf("F op %d %d extend_seq = 0 ", ep, strong); print_errs(); dump_obs(); }
    }
    else if (r < 72) {
      _mi_page_thread_free_collect(fpage);
      printf("F op %d %d tf_collect = 0 ", ep, strong); print_errs(); dump_obs();
    }
    else if (r < 78) {
      bool force = (prng_below(g, 3) == 0);
      _mi_page_free_collect(fpage, force);
      printf("F op %d %d collect %d = 0 ", ep, strong, force ? 1 : 0); print_errs(); dump_obs();
    }
    else if (r < 86 && f_nlive > 0) {
      int k = (int)prng_below(g, (size_t)f_nlive);
      size_t o = prng_below(g, f_req[k]); unsigned v = (unsigned)(prng_next(g) & 0xff);
      ((uint8_t*)blk_at((size_t)f_live[k]))[o] = (uint8_t)v;
      printf("F op %d %d write %ld %llu %u = 0 ", ep, strong, f_live[k], U(o), v); print_errs(); dump_obs();
    }
    else if (attacks_left > 0) {
      int a = (int)prng_below(g, 4);
      if (a == 0 && f_nfreed > 0) {
        // second free of a block the program has freed (it is on one of the lists)
        long ix = f_freed[prng_below(g, (size_t)f_nfreed)];
        mi_free_block_local(fpage, blk_at((size_t)ix), false, false);
        printf("F op %d %d free %ld = 0 ", ep, strong, ix); print_errs(); dump_obs();
        attacks_left--;
      }
      else if (a == 1 && f_nlive > 0) {
        int k = (int)prng_below(g, (size_t)f_nlive);
        unsigned v = (unsigned)(prng_next(g) & 0xff);
        ((uint8_t*)blk_at((size_t)f_live[k]))[f_req[k]] = (uint8_t)v;
        printf("F op %d %d overflow %ld %u = 0 ", ep, strong, f_live[k], v); print_errs(); dump_obs();
        // and free it right away
        long ix = f_live[k];
        g_nerr = 0;
        mi_free_block_local(fpage, blk_at((size_t)ix), false, false);
        f_live[k] = f_live[f_nlive - 1]; f_req[k] = f_req[f_nlive - 1]; f_nlive--;
        if (f_nfreed < FMAX) f_freed[f_nfreed++] = ix;
        printf("F op %d %d free %ld = 0 ", ep, strong, ix); print_errs(); dump_obs();
        attacks_left--;
      }
      else if (a == 2 && f_nfreed > 0) {
        // (the block is then no longer a candidate for a second free: overwriting the link of a block AND
        //  freeing that same block again is a combination of two attacks, outside the claim of C17)
        int kf = (int)prng_below(g, (size_t)f_nfreed);
        long ix = f_freed[kf];
        f_freed[kf] = f_freed[--f_nfreed];
        uintptr_t w;
        for (;;) {
          size_t wk = prng_below(g, 3);
          if (wk == 0) w = prng_next(g); else if (wk == 1) w = 0;
          else w = mi_ptr_encode(fpage, fstart + fpsize + 8 * prng_below(g, 100000), fpage->keys);
          void* d = mi_ptr_decode(fpage, w, fpage->keys);
          if (d == NULL || !mi_is_in_same_page(blk_at((size_t)ix), d)) break;
        }
        memcpy(blk_at((size_t)ix), &w, sizeof(w));
        strong = 0;
        printf("F op %d %d overwrite_link %ld %llu = 0 ", ep, strong, ix, U(w)); print_errs(); dump_obs();
        attacks_left--;
      }
      else if (a == 3 && f_nlive > 0 && can_remote) {
        // double remote free: the block links to itself, the thread-free list becomes cyclic
        int k = (int)prng_below(g, (size_t)f_nlive);
        long ix = f_live[k];
        mi_free_block_mt(fpage, fseg, blk_at((size_t)ix));
        f_live[k] = f_live[f_nlive - 1]; f_req[k] = f_req[f_nlive - 1]; f_nlive--;
        printf("F op %d %d remote_free %ld = 0 ", ep, strong, ix); print_errs(); dump_obs();
        g_nerr = 0; strong = 0;
        mi_free_block_mt(fpage, fseg, blk_at((size_t)ix));
        printf("F op %d %d remote_free %ld = 0 ", ep, strong, ix); print_errs(); dump_obs();
        g_nerr = 0;
        g_stage = "tf-collect-cyclic";
        _mi_page_thread_free_collect(fpage);
        printf("F op %d %d tf_collect = 0 ", ep, strong); print_errs(); dump_obs();
        printf("T cyclic %d ", ep); print_errs_csv(); printf("\n");
        g_stage = "f";
        attacks_left--;
      }
    }
  }
  dump_mem("memf", ep);
  printf("F end %d\n", ep);
  fflush(stdout);
  mi_heap_destroy(heap);
}

static const size_t f_classes[] = { 8, 24, 40, 56, 72, 100, 120, 248, 500 };
#define NF_CLASSES (sizeof(f_classes)/sizeof(f_classes[0]))

int main(int argc, char** argv) {
  uint64_t seed = (argc > 1 ? strtoull(argv[1], NULL, 10) : 1);
  int thorough = (argc > 2 ? atoi(argv[2]) : 0);
  prng_t g; prng_seed(&g, seed);
  mi_register_output(&on_output, NULL);
  mi_register_error(&on_error, NULL);
  signal(SIGALRM, on_alarm);
  alarm(thorough ? 300 : 30);
  printf("T cfg secure=%d debug=%d padding=%d encode=1 pad_size=%d\n", (int)MI_SECURE, (int)MI_DEBUG, (int)MI_PADDING, (int)MI_PADDING_SIZE);
  printf("F const PAD = %d\n", (int)MI_PADDING_SIZE);
  printf("F const DBG_UNINIT = %d\n", (int)MI_DEBUG_UNINIT);
  printf("F const DBG_FREED = %d\n", (int)MI_DEBUG_FREED);
  printf("F const DBG_PADDING = %d\n", (int)MI_DEBUG_PADDING);
  printf("F const MIN_EXTEND = %d\n", (int)MI_MIN_EXTEND);
  printf("F const MAX_EXTEND_SIZE = %d\n", (int)MI_MAX_EXTEND_SIZE);
  printf("F const MAX_ALIGN_SIZE = %d\n", (int)MI_MAX_ALIGN_SIZE);
  printf("F const EAGAIN = %d\n", EAGAIN);
  printf("F const EFAULT = %d\n", EFAULT);
  // a first allocation so that the process is initialised
  mi_free(mi_malloc(32));
  g_nerr = 0;
  // F: pure function records for encode/decode/canary on real keys and random values
  for (int i = 0; i < (thorough ? 4000 : 600); i++) {
    uintptr_t keys[2] = { prng_sized(&g), prng_sized(&g) };
    if (i % 7 == 0) keys[0] = (uintptr_t)(i / 7) % 130;      // all rotation amounts
    uintptr_t null = (uintptr_t)prng_sized(&g);
    uintptr_t p = (i % 5 == 0 ? 0 : (uintptr_t)prng_sized(&g));
    mi_encoded_t e = mi_ptr_encode((void*)null, (void*)p, keys);
    printf("F encode %llu %llu %llu %llu = %llu\n", U(null), U(p), U(keys[0]), U(keys[1]), U(e));
    uintptr_t x = (i % 3 == 0 ? e : (uintptr_t)prng_sized(&g));
    printf("F decode %llu %llu %llu %llu = %llu\n", U(null), U(x), U(keys[0]), U(keys[1]), U(mi_ptr_decode((void*)null, x, keys)));
    printf("F canary %llu %llu %llu %llu = %llu\n", U(null), U(p), U(keys[0]), U(keys[1]), U(mi_ptr_encode_canary((void*)null, (void*)p, keys)));
    printf("F rotl %llu %llu = %llu\n", U(p), U(keys[0]), U(mi_rotl(p, keys[0])));
    printf("F rotr %llu %llu = %llu\n", U(p), U(keys[0]), U(mi_rotr(p, keys[0])));
  }
  // T: API-level episodes (the consistency-after-error clause only in the secure build)
  int nt = thorough ? 2000 : 320;
  for (int ep = 0; ep < nt; ep++) t_episode(&g, ep, ep % 4, SECURE_BUILD, 1 + (size_t)((ep / 4) % 40));
  // F: page-level episodes
  int nf = thorough ? 240 : 45;
  for (int ep = 0; ep < nf; ep++) {
    g_stage = "f";
    f_episode(&g, ep, f_classes[(size_t)ep % NF_CLASSES], 25 + (int)prng_below(&g, thorough ? 120 : 50), ep % 4 != 0);
  }
  printf("END\n");
  return 0;
}
