// Abandonment / adoption step log of the scheduler harness (included by s_conc.c; mode `exit` with the 6th argument `alog`).
// It is the real-code side of the schedule-lockstep tie of coq/Model/Abandon.v (property C09): ocaml/mode_abandon.ml
// (`replay abandon-lockstep`) makes the extracted model take, for every logged access, a transition of the same thread on
// the same location with the same old -> new value, and evaluates the model's inv_b on the synchronised states.
//
// LOG (one record per line; threads t = virtual thread index, thread ids are printed as t+1, 0 = abandoned;
//      segments s are numbered in the order in which the harness first meets them; a segment address that is re-used after
//      the segment was freed gets a new number)
//   H <rof> <nthreads> <sp of t0> <sp of t1> ...   header: option abandoned_reclaim_on_free, number of virtual threads, the sub-process
//                                           (0 = main, 1 = the second one of the VERIF_SUBPROC variant) each thread belongs to
//   N <s> <arena 0|1> <tid> <marked 0|1> <arena index> <block index> <sub-process>
//                                           the harness meets segment s (a block of it was returned by mi_malloc / passed to mi_free)
//   G <s> <u> <tf> <nv> <lv> <v>            page-level summary of segment s, read from the real pages: u = sum of page->used over its
//                                           pages, tf = blocks on page thread-free lists, nv = 1 when every used page carries
//                                           MI_NEVER_DELAYED_FREE, lv = blocks of s the test program holds (incl. the block of a running
//                                           mi_free), v = segment->abandoned_visits.  Printed (when changed) before a record on s.
//   A <t> malloc | A <t> free <s> <he> | A <t> collect <force> | A <t> done   API call brackets (mi_malloc, mi_free of a block of
//   R <t>                                   segment s (he = 1: the thread's default heap is not initialised), mi_collect,
//                                           mi_thread_done) of thread t; R = the call returned
//   D <t> <s>                               segment s was freed (mi_segment_free -> mi_segment_os_free) by thread t
//   S <t> <k> <loc> <id> <old> -> <new> [: <ids>]    one access, in scheduler order
//        k/loc   L tid  load of segment->thread_id          W tid  store (mi_atomic_store_release)
//                P tid  PLAIN store `segment->thread_id = x` (mi_segment_abandon), detected by comparing the field with
//                       its last logged value at the next scheduling point of the same thread (no other thread runs in between)
//                A bit  atomic-and (_mi_bitmap_unclaim) / O bit  atomic-or (_mi_bitmap_claim) of the bit of segment <id> in
//                       arena->blocks_abandoned; old/new = the bit
//                L field  load of a blocks_abandoned field by a cursor: id = <arena>.<field>, ids = segments whose bit is set
//                + count / - count / L count    subproc->abandoned_count (id = sub-process number: 0 = the main one, 1 = the second
//                       one of the VERIF_SUBPROC variant, which odd threads join before their first allocation)
//                + oscount / - oscount / L oscount   subproc->abandoned_os_list_count
//                K lock  try-acquire of abandoned_os_lock (new = 1, old = 1 when it failed)   B lock  blocking acquire succeeded
//                U lock  release; ids = the abandoned_os_list (head first) at the release
//                K/B/U vlock   abandoned_os_visit_lock          K/B/U alock   arena->abandoned_visit_lock (id = arena)
//   T <t> push <s> <flag> | T <t> delayed <s>   successful CAS on page->xthread_free of a page of s by a freeing thread: the block
//                                           went on the page list (flag = the delayed-free flag of the word) / USE -> DELAYED_FREEING
//   X <t> <text>                            an access to a modelled location that the harness cannot attribute to a known segment
#include <setjmp.h>

static int ablog = 0, ab_debug = 0;     // ab_debug (VERIF_AB_DEBUG): extra `#` lines (pages of a segment, blocks_inuse changes)
#define AB_MAXSEG 4096
typedef struct {
  mi_segment_t* seg; int alive; uintptr_t shadow;      // shadow = last logged value of thread_id
  int arena; size_t aidx; size_t bidx;                 // arena index / block index of its abandoned bit
  long gu, gtf, gnv, glv, gv; int gvalid;              // last printed G record
} abseg_t;
static abseg_t absegs[AB_MAXSEG]; static int nabsegs = 0;
static int ab_live[AB_MAXSEG]; static int nab_live = 0;   // numbers of the segments that are not freed
static void* ab_hold[MAXT];                               // block of the running mi_free / returned by the last mi_malloc of each thread
static int ab_lastseg[MAXT];                              // the segment of the last record of each thread
static long ab_lines = 0;
static mi_subproc_t* ab_sps[2] = { NULL, NULL };                // sub-processes: 0 = the main one, 1 = a second one (VERIF_SUBPROC: odd threads join it)
static int ab_joined[MAXT];
static int ab_spnum(mi_subproc_t* sp) { return (ab_sps[1] != NULL && sp == ab_sps[1]) ? 1 : 0; }

static int ab_tid(uintptr_t raw) { return (int)(raw / 0x10000); }
static int ab_find(mi_segment_t* sg) { for (int i = 0; i < nab_live; i++) if (absegs[ab_live[i]].seg == sg) return ab_live[i]; return -1; }
static mi_arena_t* ab_arena(size_t i) { return *(mi_arena_t* volatile*)&mi_arenas[i]; }
static size_t ab_arena_count(void) { return *(volatile size_t*)&mi_arena_count; }
static int ab_bit(abseg_t* e) {   // the abandoned bit of an arena segment
  mi_arena_t* a = ab_arena(e->aidx); if (a == NULL || a->blocks_abandoned == NULL) return 0;
  return (int)((*(volatile size_t*)&a->blocks_abandoned[e->bidx / MI_BITMAP_FIELD_BITS] >> (e->bidx % MI_BITMAP_FIELD_BITS)) & 1);
}
static int ab_in_oslist(mi_segment_t* sg) { return (sg->abandoned_os_next != NULL || sg->abandoned_os_prev != NULL || sg->subproc->abandoned_os_list == sg); }

static void ab_kill(int s) {
  absegs[s].alive = 0;
  for (int i = 0; i < nab_live; i++) if (ab_live[i] == s) { ab_live[i] = ab_live[--nab_live]; break; }
  for (int t = 0; t < MAXT; t++) if (ab_lastseg[t] == s) ab_lastseg[t] = -1;
}
static int ab_register(mi_segment_t* sg) {
  int s = ab_find(sg); if (s >= 0) return s;
  if (nabsegs >= AB_MAXSEG) { printf("X %d segment table full\n", cur); return -1; }
  s = nabsegs++; abseg_t* e = &absegs[s];
  memset(e, 0, sizeof *e);
  e->seg = sg; e->alive = 1; e->shadow = *(volatile uintptr_t*)&sg->thread_id;
  e->arena = (sg->memid.memkind == MI_MEM_ARENA);
  if (e->arena) { mi_bitmap_index_t bi; mi_arena_memid_indices(sg->memid, &e->aidx, &bi); e->bidx = bi; }
  ab_live[nab_live++] = s;
  printf("N %d %d %d %d %zu %zu %d\n", s, e->arena, ab_tid(e->shadow), e->arena ? ab_bit(e) : ab_in_oslist(sg), e->aidx, e->bidx, ab_spnum(sg->subproc));
  return s;
}

// ---- plain writes to thread_id and freed segments: compare every known segment with its shadow ----
static sigjmp_buf ab_jmp; static volatile int ab_guard = 0; static volatile int ab_scan_i = 0;
static void on_segv(int sig);
static void ab_snap(int s);
static void ab_segv(int sig) { if (ab_guard) siglongjmp(ab_jmp, 1); on_segv(sig); }
static void ab_scan(void) {
  ab_guard = 1;
  ab_scan_i = 0;
  if (sigsetjmp(ab_jmp, 0) != 0) {
    // the memory of segment ab_live[ab_scan_i] is gone (unmapped between two scheduling points)
    int s = ab_live[ab_scan_i]; printf("D %d %d\n", cur, s); ab_kill(s);
  }
  while (ab_scan_i < nab_live) {
    int s = ab_live[ab_scan_i]; abseg_t* e = &absegs[s];
    uintptr_t raw = *(volatile uintptr_t*)&e->seg->thread_id;
    if (raw != e->shadow) {
      if (raw == 0 && e->seg->used == 0) { printf("D %d %d\n", cur, s); ab_kill(s); continue; }     // mi_segment_os_free
      ab_snap(s);
      printf("S %d P tid %d %d -> %d\n", cur, s, ab_tid(e->shadow), ab_tid(raw)); e->shadow = raw; ab_lastseg[cur] = s;
    }
    ab_scan_i++;
  }
  ab_guard = 0;
}

// ---- page-level summary ----
static void ab_snap(int s) {
  if (s < 0 || !absegs[s].alive) return;
  abseg_t* e = &absegs[s]; mi_segment_t* sg = e->seg;
  long u = 0, tf = 0, nv = 1, lv = 0;
  const mi_slice_t* end = mi_segment_slices_end(sg);
  mi_slice_t* slice = &sg->slices[0];
  int guard = 0;
  if (slice->slice_count > 0) slice = slice + slice->slice_count;      // skip the page of the segment header
  while (slice < end && slice->slice_count > 0 && guard++ < 1024) {
    if (mi_slice_is_used(slice) && slice->block_size != 1) {     // (block_size 1: a page inside mi_segment_page_clear)
      mi_page_t* pg = mi_slice_to_page(slice);
      u += pg->used;
      uintptr_t w = *(volatile uintptr_t*)&pg->xthread_free;
      if ((w & 3) != MI_NEVER_DELAYED_FREE) nv = 0;
      mi_block_t* b = (mi_block_t*)(w & ~(uintptr_t)3); int cnt = 0;
      while (b != NULL && cnt++ < 100000) { tf++; b = (mi_block_t*)b->next; }
    }
    slice = slice + slice->slice_count;
  }
  size_t ssz = mi_segment_size(sg);
  for (int j = 0; j < NSLOTX; j++) if (slots[j].p != NULL && slots[j].p >= (uint8_t*)sg && slots[j].p < (uint8_t*)sg + ssz) lv++;
  for (int t = 0; t < MAXT; t++) if (ab_hold[t] != NULL && (uint8_t*)ab_hold[t] >= (uint8_t*)sg && (uint8_t*)ab_hold[t] < (uint8_t*)sg + ssz) {
    int dup = 0; for (int j = 0; j < NSLOTX; j++) if (slots[j].p == (uint8_t*)ab_hold[t]) dup = 1;
    for (int t2 = 0; t2 < t; t2++) if (ab_hold[t2] == ab_hold[t]) dup = 1;
    if (!dup) lv++;
  }
  long v = (long)sg->abandoned_visits;
  if (e->gvalid && e->gu == u && e->gtf == tf && e->gnv == nv && e->glv == lv && e->gv == v) return;
  e->gvalid = 1; e->gu = u; e->gtf = tf; e->gnv = nv; e->glv = lv; e->gv = v;
  printf("G %d %ld %ld %ld %ld %ld\n", s, u, tf, nv, lv, v);
  if (ab_debug) {
    printf("# seg %d used=%zu abandoned=%zu entries=%zu:", s, sg->used, sg->abandoned, sg->slice_entries);
    for (mi_slice_t* sl = &sg->slices[0]; sl < end && sl->slice_count > 0; sl += sl->slice_count) printf(" [%zu+%u bs=%zu used=%u fl=%d]", (size_t)(sl - sg->slices), sl->slice_count, (size_t)sl->block_size, (unsigned)((mi_page_t*)sl)->used, (int)(((mi_page_t*)sl)->xthread_free & 3));
    printf("\n");
  }
}
// before a record of thread `cur` on segment s: the summaries of the segment of its previous record and of s
static void ab_before(int s) {
  if (ab_lastseg[cur] >= 0 && ab_lastseg[cur] != s) ab_snap(ab_lastseg[cur]);
  if (s >= 0) { ab_snap(s); ab_lastseg[cur] = s; }
  ab_lines++;
}

static void ab_pre(int op, volatile void* p) { (void)op; (void)p; int so = sched_on; sched_on = 0; ab_scan(); sched_on = so; }

static void ab_oslist(mi_subproc_t* sp) {
  int cnt = 0;
  for (mi_segment_t* g = sp->abandoned_os_list; g != NULL && cnt < 4096; g = g->abandoned_os_next, cnt++) { int s = ab_find(g); if (s >= 0) printf(" %d", s); else printf(" ?"); }
}

static void ab_post(int op, volatile void* p, int ok, uintptr_t oldv) {
  int so = sched_on; sched_on = 0;
  uintptr_t newv = (op == VOP_LOCK || op == VOP_LOCKB || op == VOP_UNLOCK) ? 0 : *(volatile uintptr_t*)p;
  const char* lk = (op == VOP_LOCK) ? "K" : (op == VOP_LOCKB) ? "B" : (op == VOP_UNLOCK) ? "U" : NULL;
  // sub-process words
  for (int spn = 0; spn < 2; spn++) {
    mi_subproc_t* sp = ab_sps[spn]; if (sp == NULL) continue;
    if (p == (void*)&sp->abandoned_count || p == (void*)&sp->abandoned_os_list_count) {
      const char* loc = (p == (void*)&sp->abandoned_count) ? "count" : "oscount";
      const char* k = (op == VOP_LOAD) ? "L" : (op == VOP_ADD) ? "+" : (op == VOP_SUB) ? "-" : "?";
      ab_before(-1); printf("S %d %s %s %d %ld -> %ld\n", cur, k, loc, spn, (long)oldv, (long)newv); goto done;
    }
    if (p == (void*)&sp->abandoned_os_lock || p == (void*)&sp->abandoned_os_visit_lock) {
      const char* loc = (p == (void*)&sp->abandoned_os_lock) ? "lock" : "vlock";
      ab_before(-1);
      if (op == VOP_UNLOCK) { printf("S %d U %s %d 1 -> 0", cur, loc, spn); if (p == (void*)&sp->abandoned_os_lock) { printf(" :"); ab_oslist(sp); } printf("\n"); }
      else printf("S %d %s %s %d %d -> 1\n", cur, lk ? lk : "?", loc, spn, (op == VOP_LOCK && !ok) ? 1 : 0);
      goto done;
    }
  }
  // arena words
  for (size_t i = 0; i < ab_arena_count(); i++) {
    mi_arena_t* a = ab_arena(i); if (a == NULL) continue;
    if (p == (void*)&a->abandoned_visit_lock) {
      ab_before(-1);
      if (op == VOP_UNLOCK) printf("S %d U alock %zu 1 -> 0\n", cur, i); else printf("S %d %s alock %zu %d -> 1\n", cur, lk ? lk : "?", i, (op == VOP_LOCK && !ok) ? 1 : 0);
      goto done;
    }
    if (ab_debug && (mi_bitmap_field_t*)p >= a->blocks_inuse && (mi_bitmap_field_t*)p < a->blocks_inuse + a->field_count && oldv != newv) {
      printf("# inuse t%d arena %zu field %zu: %lx -> %lx\n", cur, i, (size_t)((mi_bitmap_field_t*)p - a->blocks_inuse), (unsigned long)oldv, (unsigned long)newv); goto done;
    }
    if (a->blocks_abandoned != NULL && (mi_bitmap_field_t*)p >= a->blocks_abandoned && (mi_bitmap_field_t*)p < a->blocks_abandoned + a->field_count) {
      size_t f = (size_t)((mi_bitmap_field_t*)p - a->blocks_abandoned);
      if (op == VOP_LOAD) {
        ab_before(-1); printf("S %d L field %zu.%zu 0 -> 0 :", cur, i, f);
        for (size_t b = 0; b < MI_BITMAP_FIELD_BITS; b++) if ((newv >> b) & 1) { int s = ab_find((mi_segment_t*)(a->start + (f * MI_BITMAP_FIELD_BITS + b) * MI_ARENA_BLOCK_SIZE)); if (s >= 0) printf(" %d", s); else printf(" ?"); }
        printf("\n"); goto done;
      }
      if (op == VOP_AND || op == VOP_OR) {
        size_t mask = (op == VOP_AND) ? ~(size_t)verif_opnd : (size_t)verif_opnd;
        for (size_t b = 0; b < MI_BITMAP_FIELD_BITS; b++) if ((mask >> b) & 1) {
          int s = ab_find((mi_segment_t*)(a->start + (f * MI_BITMAP_FIELD_BITS + b) * MI_ARENA_BLOCK_SIZE));
          if (s < 0) { printf("X %d %s of the abandoned bit %zu.%zu of an unknown segment (%d -> %d)\n", cur, op == VOP_AND ? "and" : "or", i, f * MI_BITMAP_FIELD_BITS + b, (int)((oldv >> b) & 1), (int)((newv >> b) & 1)); continue; }
          ab_before(s); printf("S %d %s bit %d %d -> %d\n", cur, op == VOP_AND ? "A" : "O", s, (int)((oldv >> b) & 1), (int)((newv >> b) & 1));
        }
        goto done;
      }
      ab_before(-1); printf("X %d operation %d on the abandoned field %zu.%zu\n", cur, op, i, f); goto done;
    }
  }
  // segment words
  for (int i = 0; i < nab_live; i++) {
    int s = ab_live[i]; abseg_t* e = &absegs[s]; mi_segment_t* sg = e->seg;
    if (p == (void*)&sg->thread_id) {
      ab_before(s);
      if (op == VOP_LOAD) printf("S %d L tid %d %d -> %d\n", cur, s, ab_tid(newv), ab_tid(newv));
      else if (op == VOP_STORE) printf("S %d W tid %d %d -> %d\n", cur, s, ab_tid(oldv), ab_tid(newv));
      else printf("X %d operation %d on thread_id of segment %d\n", cur, op, s);
      e->shadow = newv; goto done;
    }
    if ((uint8_t*)p >= (uint8_t*)&sg->slices[0] && (uint8_t*)p < (uint8_t*)&sg->slices[sg->slice_entries + 1]) {
      size_t off = (size_t)((uint8_t*)p - (uint8_t*)&sg->slices[0]);
      if (off % sizeof(mi_slice_t) != offsetof(mi_page_t, xthread_free)) goto done;
      if (!((op == VOP_CASW || op == VOP_CASS) && ok == 1)) goto done;
      // a successful CAS: push of one block (list grows at the head, flag unchanged), or USE_DELAYED_FREE -> DELAYED_FREEING
      uintptr_t ol = oldv & ~(uintptr_t)3, nl = newv & ~(uintptr_t)3;
      if ((oldv & 3) == (newv & 3) && nl != 0 && nl != ol && (uintptr_t)((mi_block_t*)nl)->next == ol) { ab_before(s); printf("T %d push %d %d\n", cur, s, (int)(newv & 3)); }
      else if ((oldv & 3) == MI_USE_DELAYED_FREE && (newv & 3) == MI_DELAYED_FREEING && ol == nl) { ab_before(s); printf("T %d delayed %d\n", cur, s); }
      goto done;
    }
  }
done:
  sched_on = so;
}

// ---- API call brackets (the program code of s_conc.c calls the allocator through these) ----
static void ab_call(const char* what, void* p, int arg) {
  int so = sched_on; sched_on = 0;
  ab_scan();
  if (p != NULL) { int s = ab_register(_mi_ptr_segment(p)); ab_before(s); printf("A %d %s %d %d\n", cur, what, s, mi_prim_get_default_heap() == (mi_heap_t*)&_mi_heap_empty ? 1 : 0); }
  else if (arg >= 0) { ab_before(-1); printf("A %d %s %d\n", cur, what, arg); }
  else { ab_before(-1); printf("A %d %s\n", cur, what); }
  sched_on = so;
}
static void ab_ret(void* newp) {
  int so = sched_on; sched_on = 0;
  ab_scan();
  int s = -1;
  if (newp != NULL) s = ab_register(_mi_ptr_segment(newp));
  ab_before(s);
  printf("R %d\n", cur);
  sched_on = so;
}
static void ab_free(void* p) {
  if (!ablog || !sched_on || p == NULL) { (mi_free)(p); return; }
  int me = cur; ab_hold[me] = p; ab_call("free", p, -1); (mi_free)(p); ab_hold[me] = NULL; ab_ret(NULL);
}
static void* ab_malloc(size_t size) {
  if (!ablog || !sched_on) return (mi_malloc)(size);
  if (ab_sps[1] != NULL && (cur & 1) && !ab_joined[cur]) { ab_joined[cur] = 1; int so = sched_on; sched_on = 0; mi_subproc_add_current_thread((mi_subproc_id_t)ab_sps[1]); sched_on = so; }
  int me = cur; ab_hold[me] = NULL; ab_call("malloc", NULL, -1); void* p = (mi_malloc)(size); ab_hold[me] = p; ab_ret(p); return p;
}
static void ab_collect(bool force) {
  if (!ablog || !sched_on) { (mi_collect)(force); return; }
  ab_hold[cur] = NULL; ab_call("collect", NULL, force ? 1 : 0); (mi_collect)(force); ab_ret(NULL);
}
static void ab_thread_done(void) {
  if (!ablog || !sched_on) { (mi_thread_done)(); return; }
  ab_hold[cur] = NULL; ab_call("done", NULL, -1); (mi_thread_done)(); ab_ret(NULL);
}
static void ab_init(void) {
  for (int t = 0; t < MAXT; t++) ab_lastseg[t] = -1;
  ab_debug = getenv("VERIF_AB_DEBUG") != NULL;
  struct sigaction sa; memset(&sa, 0, sizeof sa); sa.sa_handler = ab_segv; sa.sa_flags = SA_NODEFER; sigemptyset(&sa.sa_mask);
  sigaction(SIGSEGV, &sa, NULL); sigaction(SIGBUS, &sa, NULL);
  ab_sps[0] = &mi_subproc_default;
  if (getenv("VERIF_SUBPROC")) ab_sps[1] = (mi_subproc_t*)mi_subproc_new();
  printf("H %d %d", (int)mi_option_get(mi_option_abandoned_reclaim_on_free), nthreads);
  for (int t = 0; t < nthreads; t++) printf(" %d", (ab_sps[1] != NULL && (t & 1)) ? 1 : 0);
  printf("\n");
}
#define mi_free(p)        ab_free(p)
#define mi_malloc(n)      ab_malloc(n)
#define mi_collect(f)     ab_collect(f)
#define mi_thread_done()  ab_thread_done()
