// Exhaustive small-scope harness for thread exit / adoption ORDERS (C09, C12): real pthreads, sequentially orchestrated.
// n worker threads each allocate a few blocks (so each owns at least one segment of its own), then the main thread runs every
// ordering of the 2n events   E_i = "worker i terminates" (real thread exit: the pthread key destructor calls mi_thread_done)
//                             F_i = "main frees the blocks worker i left behind / still holds"
// (n = 3: all 720 orders; n = 4: a PRNG sample).  With reclaim-on-free an F_i after E_i adopts worker i's abandoned segment
// through mi_free; without it the blocks go to the abandoned pages' thread-free lists and a later collect adopts and frees.
// Removal of the head / a middle entry / the tail of the abandoned-segment list followed by further abandonments, adoption of
// a segment while others are still abandoned, etc. are all covered by construction.
// Oracles after EVERY event: the byte patterns of all blocks not yet freed; mi_abandoned_visit_blocks reports exactly the blocks of
// terminated workers that were not freed yet (each once).  At the end of an order (everything freed, mi_collect(true)):
// abandoned_count == 0, the abandoned OS list is empty, no arena block of a worker segment is still claimed / no OS segment of a
// worker is still mapped.
// usage: t_exitorder <no_arena 0|1> <reclaim_on_free 0|1> <n 3|4> <seed> ; output "T fail <kind> order=... : text", "T sum ...", END
#include REPO_STATIC
#include <stdio.h>
#include <string.h>
#include <pthread.h>
#include <semaphore.h>
#include <sys/mman.h>
#include "prng.h"

#define MAXW 4
#define NB 3
typedef struct { int id; sem_t ready, go; uint8_t* blk[NB]; size_t sz[NB]; uint8_t* segs[NB]; } worker_t;
static worker_t W[MAXW];
static long nfail = 0;
static int PARTIAL = 0;   // 1: F<i> frees all but the LAST block of worker i (the adopted segment keeps a live block); the last blocks are freed after the last event
#define FREED(w, k) (freed[w] && (!PARTIAL || (k) < NB - 1))
static char order_txt[64];
static void fail(const char* kind, const char* fmt, ...) { va_list ap; va_start(ap, fmt); printf("T fail %s order=%s : ", kind, order_txt); vprintf(fmt, ap); printf("\n"); va_end(ap); nfail++; }
static uint8_t pat(int w, int k, size_t i) { return (uint8_t)(1 + ((w * 37 + k * 11 + i * 7) & 0x7f)); }

static void* worker_main(void* arg) {
  worker_t* w = (worker_t*)arg;
  static const size_t sizes[NB] = { 64, 40000, 300000 };
  for (int k = 0; k < NB; k++) {
    w->sz[k] = sizes[k] + (size_t)w->id * 16;
    w->blk[k] = (uint8_t*)mi_malloc(w->sz[k]);
    for (size_t i = 0; i < w->sz[k]; i += 97) w->blk[k][i] = pat(w->id, k, i);
    w->segs[k] = (uint8_t*)_mi_ptr_segment(w->blk[k]);
  }
  sem_post(&w->ready);
  sem_wait(&w->go);
  return NULL;                       // thread exit: mi_thread_done through the pthread key destructor
}

static uint8_t* vis[64]; static size_t vissz[64]; static int nvis;
static bool visitor(const mi_heap_t* h, const mi_heap_area_t* a, void* block, size_t bsize, void* arg) {
  (void)h; (void)a; (void)arg; if (block != NULL && nvis < 64) { vis[nvis] = (uint8_t*)block; vissz[nvis] = bsize; nvis++; } return true;
}

static void check_state(int n, const int* exited, const int* freed, const char* when) {
  for (int w = 0; w < n; w++) for (int k = 0; k < NB; k++) if (!FREED(w, k))
    for (size_t i = 0; i < W[w].sz[k]; i += 97) if (W[w].blk[k][i] != pat(w, k, i)) { fail("content", "%s: block %d of worker %d changed at byte %zu", when, k, w, i); break; }
  nvis = 0;
  if (!mi_abandoned_visit_blocks(mi_subproc_main(), -1, true, &visitor, NULL)) { fail("abandoned-visit", "%s: mi_abandoned_visit_blocks returned false", when); return; }
  int expect = 0;
  for (int w = 0; w < n; w++) if (exited[w]) for (int k = 0; k < NB; k++) {
    if (FREED(w, k)) continue;
    // a block of a terminated worker that was not adopted by a free: its segment is abandoned unless main adopted it already
    mi_segment_t* sg = _mi_ptr_segment(W[w].blk[k]);
    if (mi_atomic_load_relaxed(&sg->thread_id) != 0) continue;
    expect++;
    int hits = 0; for (int v = 0; v < nvis; v++) if (W[w].blk[k] >= vis[v] && W[w].blk[k] < vis[v] + vissz[v]) hits++;
    if (hits != 1) fail("abandoned-visit", "%s: live block %d of terminated worker %d reported %d times", when, k, w, hits);
  }
  if (nvis != expect) fail("abandoned-visit", "%s: %d blocks visited, %d live blocks in abandoned segments", when, nvis, expect);
}

static void run_order(int n, const int* ev, int nev, int no_arena) {
  int exited[MAXW] = {0}, freed[MAXW] = {0}; pthread_t th[MAXW];
  size_t k = 0; for (int i = 0; i < nev; i++) k += (size_t)snprintf(order_txt + k, sizeof(order_txt) - k, "%c%d", ev[i] < n ? 'E' : 'F', ev[i] % n);
  for (int w = 0; w < n; w++) { W[w].id = w; sem_init(&W[w].ready, 0, 0); sem_init(&W[w].go, 0, 0); pthread_create(&th[w], NULL, worker_main, &W[w]); sem_wait(&W[w].ready); }
  uint8_t* segs[MAXW * NB]; int nsegs = 0;
  for (int w = 0; w < n; w++) for (int b = 0; b < NB; b++) { int dup = 0; for (int j = 0; j < nsegs; j++) if (segs[j] == W[w].segs[b]) dup = 1; if (!dup) segs[nsegs++] = W[w].segs[b]; }
  check_state(n, exited, freed, "start");
  for (int i = 0; i < nev; i++) {
    int w = ev[i] % n;
    if (ev[i] < n) { sem_post(&W[w].go); pthread_join(th[w], NULL); exited[w] = 1; }
    else { for (int b = 0; b < (PARTIAL ? NB - 1 : NB); b++) mi_free(W[w].blk[b]); freed[w] = 1; }
    char when[32]; snprintf(when, sizeof when, "after event %d", i); check_state(n, exited, freed, when);
  }
  if (PARTIAL) { for (int w = 0; w < n; w++) mi_free(W[w].blk[NB - 1]); PARTIAL = 0; check_state(n, exited, freed, "after the last blocks"); PARTIAL = 1; }
  for (int r = 0; r < 2; r++) mi_collect(true);
  size_t ac = mi_atomic_load_relaxed(&mi_subproc_default.abandoned_count);
  if (ac != 0) fail("abandoned-leak", "abandoned_count = %zu after everything was freed and force-collected", ac);
  if (mi_subproc_default.abandoned_os_list != NULL || mi_atomic_load_relaxed(&mi_subproc_default.abandoned_os_list_count) != 0)
    fail("abandoned-leak", "the abandoned OS list is not empty at the end (count %zu)", (size_t)mi_atomic_load_relaxed(&mi_subproc_default.abandoned_os_list_count));
  for (int j = 0; j < nsegs; j++) {
    if (no_arena) { unsigned char vec[1]; if (mincore(segs[j], 4096, vec) == 0) fail("segment-leak", "OS segment %p of a worker is still mapped after everything was freed", (void*)segs[j]); }
    else {
      for (size_t a = 0; a < mi_arena_get_count(); a++) { mi_arena_t* ar = mi_arena_from_index(a); if (ar == NULL || segs[j] < ar->start || segs[j] >= ar->start + ar->block_count * MI_ARENA_BLOCK_SIZE) continue;
        size_t b = (size_t)(segs[j] - ar->start) / MI_ARENA_BLOCK_SIZE;
        mi_segment_t* mine = _mi_ptr_segment(order_txt);  (void)mine;
        if ((mi_atomic_load_relaxed(&ar->blocks_inuse[b / 64]) >> (b % 64)) & 1) {
          // the block may have been taken again by the main thread's own segment: only a segment nobody owns is a leak
          mi_segment_t* sg = (mi_segment_t*)segs[j];
          if (mi_atomic_load_relaxed(&sg->thread_id) != _mi_thread_id()) fail("segment-leak", "arena block %zu (worker segment %p) is still claimed by a segment the main thread does not own", b, (void*)segs[j]);
        } }
    }
  }
  for (int w = 0; w < n; w++) { sem_destroy(&W[w].ready); sem_destroy(&W[w].go); }
}

static long norders = 0;
static void permute(int n, int* ev, int pos, int nev, unsigned used, int no_arena) {
  if (pos == nev) { run_order(n, ev, nev, no_arena); norders++; return; }
  for (int e = 0; e < nev; e++) if (!(used & (1u << e))) { ev[pos] = e; permute(n, ev, pos + 1, nev, used | (1u << e), no_arena); }
}

int main(int argc, char** argv) {
  int no_arena = argc > 1 ? atoi(argv[1]) : 0, rof = argc > 2 ? atoi(argv[2]) : 0, n = argc > 3 ? atoi(argv[3]) : 3;
  uint64_t seed = argc > 4 ? strtoull(argv[4], NULL, 10) : 1;
  PARTIAL = argc > 5 ? atoi(argv[5]) : 0;
  if (n < 2) n = 2; if (n > MAXW) n = MAXW;
  mi_option_set(mi_option_visit_abandoned, 1);
  if (no_arena) mi_option_set(mi_option_disallow_arena_alloc, 1);
  mi_option_set(mi_option_abandoned_reclaim_on_free, rof);
  setvbuf(stdout, NULL, _IOFBF, 1 << 16);
  void* warm = mi_malloc(100); mi_free(warm);
  int ev[2 * MAXW];
  if (n <= 3) permute(n, ev, 0, 2 * n, 0, no_arena);
  else { prng_t g; prng_seed(&g, seed); for (int r = 0; r < 400; r++) { for (int i = 0; i < 2 * n; i++) ev[i] = i; for (int i = 2 * n - 1; i > 0; i--) { int j = (int)prng_below(&g, (size_t)i + 1); int t = ev[i]; ev[i] = ev[j]; ev[j] = t; } run_order(n, ev, 2 * n, no_arena); norders++; } }
  printf("T sum orders=%ld workers=%d no_arena=%d reclaim_on_free=%d partial=%d failures=%ld\nEND\n", norders, n, no_arena, rof, PARTIAL, nfail);
  return 0;
}
