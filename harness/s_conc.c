// Deterministic-scheduler harness (S): runs the REAL allocator in cooperative virtual threads
// (ucontext) on one OS thread; every atomic operation of mimalloc is a scheduling point
// (hooks.h through the MI_VERIF_HOOKS points of atomic.h), weak CAS may fail spuriously, thread ids
// come from the MI_PRIM_THREAD_ID extension point, `_mi_heap_default` is swapped per context.
// All choices derive from the seed.   usage: s_conc <mode> <seed> <nthreads> <nops> [log]
//   modes: tfree  (C02/C08)  random malloc/free of blocks handed between threads, then everything is
//                            freed by random threads and every owner collects: its heap must hold no pages
//          exit   (C09)      threads terminate (mi_thread_done) with live blocks, others free/reclaim
//          heap   (C10)      heaps are deleted / collected while other threads free into them
//                            with a 6th argument `alog` the output is the step log of harness/s_conc_abandon.h (lockstep replay of
//                            coq/Model/Abandon.v by `replay abandon-lockstep`)
//          lock   (C02/C08)  the tfree program, but the output is the schedule-lockstep log for the Coq model
//                            coq/Model/TFree.v (format: header of ocaml/mode_tfree.ml, replayed by `replay tfree-lockstep`):
//                            A/R call brackets, B live blocks, H heaps, G page snapshots at call return, S atomic steps
//          lockheap (C10)    the heap program (mi_heap_new / mi_heap_delete / mi_heap_collect of per-thread extra heaps while
//                            other threads free into their pages) with the lockstep log; at the end everything is freed,
//                            the extra heaps are deleted and the owners collect
//          prodcons (C08)    producer/consumer with a bounded number of live blocks, oracle `unbounded` (prodcons.h)
// Output: "V <kind> ..." oracle violations, "S ..." atomic step log (with `log`), "END steps=.. viol=.."
#include REPO_STATIC
#include <stdio.h>
#include <string.h>
#include <ucontext.h>
#include <signal.h>
#include "prng.h"

// ---- determinism: everything the allocator could observe from outside is a function of the seed ----
// (compiled with -Dclock_gettime=verif_clock_gettime -Dsyscall=verif_syscall, see tools/conc.py; main() switches
// address-space randomisation off and re-executes itself)
static long steps = 0;
int verif_clock_gettime(clockid_t id, struct timespec* ts) {     // virtual clock: 1 microsecond per atomic step
  (void)id; ts->tv_sec = 1000 + steps / 1000000; ts->tv_nsec = (steps % 1000000) * 1000; return 0;
}
#include "determ.h"

#define MAXT 6
#define NSLOT 96
#define STACKSZ (1u << 20)

typedef struct { ucontext_t ctx; char* stack; int alive; int exited; mi_heap_t* defheap; int idx; long ops_done; } vt_t;
static vt_t vts[MAXT];
static int cur = 0, nthreads = 3, sched_on = 0, do_log = 0;
static long max_steps = 4000000, nviol = 0, spurious = 0, switches = 0;
static prng_t G;       // scheduler choices
static prng_t GP;      // program choices
static int mode = 0;   // 0 tfree, 1 exit, 2 heap, 3 prodcons
static int stagger = 0, last_exited = -1;   // VERIF_STAGGER: staggered thread exits (mode exit)
static int many_segments = 0;   // VERIF_TARGET_SEGMENTS: threads own more segments than the target, so segments are force-abandoned
static int big_arena = 0;   // VERIF_BIG_ARENA: a 4 GiB arena (128 blocks, two bitmap fields) and huge farewell blocks
static int lockfmt = 0; // mode `lock`: tfree program, log in the lockstep format of ocaml/mode_tfree.ml
static int nops = 200;
static volatile int phase = 0, arrived = 0;

uintptr_t verif_tid(void) { return (uintptr_t)0x10000 * (uintptr_t)(cur + 1); }

static void viol(const char* kind, const char* fmt, ...) {
  va_list ap; va_start(ap, fmt);
  printf("V %s t%d step=%ld ", kind, cur, steps); vprintf(fmt, ap); printf("\n");
  va_end(ap); nviol++;
}

// ---- shared slot table (accessed only between allocator calls: no scheduling point inside) ----
typedef struct { uint8_t* p; size_t size; uint64_t seed; int owner; int heapk; } slot_t;
#define NFAREWELL 26
#define NSLOTX (NSLOT + MAXT * NFAREWELL)      // the tail holds 'farewell' blocks a thread allocates just before it exits
static slot_t slots[NSLOTX];
static inline uint8_t pat(uint64_t seed, size_t i) { uint64_t x = seed + i * 0x9E3779B97F4A7C15ull; x ^= x >> 29; x *= 0xBF58476D1CE4E5B9ull; x ^= x >> 32; return (uint8_t)x | 1; }

// ---- known pages / heaps for step classification ----
#define MAXPG 512
static mi_page_t* pages[MAXPG]; static int npages = 0;
#define MAXHP 2048
static mi_heap_t* kheaps[MAXHP]; static int nkheaps = 0;   // heap ids are never reused: a deleted heap keeps its id and its address
static int kdead[MAXHP];                                    // (an access to it is still classified and logged), see heap_id_new
static int page_id(mi_page_t* pg) { for (int i = 0; i < npages; i++) if (pages[i] == pg) return i; if (npages < MAXPG) { pages[npages] = pg; return npages++; } return -1; }
static int heap_id(mi_heap_t* h) { for (int i = nkheaps - 1; i >= 0; i--) if (kheaps[i] == h) return i; if (nkheaps < MAXHP) { kheaps[nkheaps] = h; return nkheaps++; } return -1; }
// mi_heap_new returned h: the memory of a deleted heap structure may have been re-used, the new heap gets a new id
static int heap_id_new(mi_heap_t* h) { for (int i = 0; i < nkheaps; i++) if (kheaps[i] == h) kheaps[i] = NULL; if (nkheaps < MAXHP) { kheaps[nkheaps] = h; return nkheaps++; } return -1; }

static void classify(volatile void* p, char* buf, size_t n) {
  for (int i = 0; i < npages; i++) {
    if (pages[i] == NULL) continue;
    if (p == (void*)&pages[i]->xthread_free) { snprintf(buf, n, "tf:%d", i); return; }
    if (p == (void*)&pages[i]->xheap) { snprintf(buf, n, "xh:%d", i); return; }
  }
  for (int i = nkheaps - 1; i >= 0; i--) if (kheaps[i] != NULL && p == (void*)&kheaps[i]->thread_delayed_free) { snprintf(buf, n, "df:%d", i); return; }
  snprintf(buf, n, "other");
}
// abstract value of a thread-free word: flag + list of (page-relative) block indices
static void show_tf(mi_page_t* pg, uintptr_t v, char* buf, size_t n) {
  size_t k = (size_t)snprintf(buf, n, "%d[", (int)(v & 3));
  mi_block_t* b = (mi_block_t*)(v & ~(uintptr_t)3); int cnt = 0;
  while (b != NULL && cnt < 64 && k + 12 < n) { k += (size_t)snprintf(buf + k, n - k, "%s%zu", cnt ? "," : "", (size_t)((uint8_t*)b - pg->page_start) / pg->block_size); b = (mi_block_t*)b->next; cnt++; }
  snprintf(buf + k, n - k, "]");
}

static void switch_to(int n) {
  if (n == cur) return;
  int prev = cur;
  vts[prev].defheap = _mi_heap_default;
  cur = n; _mi_heap_default = vts[n].defheap; switches++;
  swapcontext(&vts[prev].ctx, &vts[n].ctx);
}
static int stay_pct = 55, burst_left = 0;
static int is_shared_word(volatile void* p) {
  if (p == NULL) return 0;
  for (int i = 0; i < npages; i++) if (pages[i] != NULL && (p == (void*)&pages[i]->xthread_free || p == (void*)&pages[i]->xheap)) return 1;
  for (int i = 0; i < nkheaps; i++) if (kheaps[i] != NULL && p == (void*)&kheaps[i]->thread_delayed_free) return 1;
  return 0;
}
static int pick_next(int must_leave, int critical) {
  int cand[MAXT], nc = 0;
  for (int i = 0; i < nthreads; i++) if (vts[i].alive && !(must_leave && i == cur)) cand[nc++] = i;
  if (nc == 0) return cur;
  if (!must_leave && vts[cur].alive) {
    if (burst_left > 0) { burst_left--; if (prng_below(&G, 100) < 95) return cur; }
    // a thread about to CAS/store a shared list word has read it before: the window in which another
    // thread can change the word is exactly here, so preempt often and let the other thread run a while
    if (critical && prng_below(&G, 100) < 60) { burst_left = 3 + (int)prng_below(&G, 14); }
    else if ((int)prng_below(&G, 100) < stay_pct) return cur;
  }
  int nx = cand[prng_below(&G, (size_t)nc)];
  return nx;
}


// ---- mode `lock`: the log format of ocaml/mode_tfree.ml ------------------------------------------
static int pg_owner[MAXPG];              // owning virtual thread of a registered page (-1 = slot not in use)
static uint64_t pg_sig[MAXPG];           // signature of the last printed snapshot
static mi_page_t* lk_subject = NULL;     // the page the current malloc/free call worked on
static int heap_printed[MAXHP];
static size_t blk_idx(mi_page_t* pg, void* b) { return (size_t)((uint8_t*)b - pg->page_start) / pg->block_size; }
static int page_known(mi_page_t* pg) { for (int i = 0; i < npages; i++) if (pages[i] == pg) return i; return -1; }
static void lk_tf(mi_page_t* pg, uintptr_t v) {           // "<flag> <idx> <idx> ..."
  printf("%d", (int)(v & 3));
  mi_block_t* b = (mi_block_t*)(v & ~(uintptr_t)3); int cnt = 0;
  while (b != NULL && cnt < 4096) { printf(" %zu", blk_idx(pg, b)); b = (mi_block_t*)b->next; cnt++; }
}
static void lk_del(uintptr_t v) {                          // "0 <page>.<idx> ..."
  printf("0");
  mi_block_t* b = (mi_block_t*)v; int cnt = 0;
  while (b != NULL && cnt < 4096) { mi_page_t* pg = _mi_ptr_page(b); printf(" %d.%zu", page_known(pg), blk_idx(pg, b)); b = (mi_block_t*)b->next; cnt++; }
}
static void lk_heapval(uintptr_t v) { if (v == 0) printf("0"); else printf("0 %d", heap_id((mi_heap_t*)v)); }
static void lk_step(int op, volatile void* p, int ok, uintptr_t oldv) {
  char cls[32]; classify(p, cls, sizeof cls);
  if (!strcmp(cls, "other")) return;
  uintptr_t newv = *(volatile uintptr_t*)p;
  const char* kind = (op == VOP_LOAD) ? "L" : (op == VOP_STORE) ? "W" : (op == VOP_CASW || op == VOP_CASS) ? (ok == 1 ? "C" : "F") : "?";
  int k = atoi(cls + 3);
  if (cls[0] == 't') { printf("S %d %s tf %d ", cur, kind, k); lk_tf(pages[k], oldv); printf(" -> "); lk_tf(pages[k], newv); printf("\n"); }
  else if (cls[0] == 'x') {
    printf("S %d %s heap %d ", cur, kind, k); lk_heapval(oldv); printf(" -> "); lk_heapval(newv); printf("\n");
    if (op == VOP_STORE && newv == 0) {
      // _mi_page_free: the page is gone NOW.  Its descriptor (and, when the whole segment goes back to the arena, its address)
      // can be re-used by any thread before this thread returns from its call: retire the id at once; the re-used descriptor
      // is registered as a new page at its owner's next snapshot
      printf("G %d dead\n", k); pages[k] = NULL; pg_owner[k] = -1; pg_sig[k] = 0;
    }
  }
  else { printf("S %d %s del %d ", cur, kind, k); lk_del(oldv); printf(" -> "); lk_del(newv); printf("\n"); }
}
// declare the heaps of the calling thread that the log has not mentioned yet (before their first use)
static void lk_declare(void) {
  mi_heap_t* dh = mi_prim_get_default_heap();
  if (dh == NULL || dh == (mi_heap_t*)&_mi_heap_empty) {
    // the thread's first allocator call would create its backing heap INSIDE the call, and a step of that call can already
    // name the heap (the xheap store of its first page) before the H line could be printed: create the heap now, outside
    // the scheduler, so that it is declared before its first use
    int so = sched_on; sched_on = 0; mi_thread_init(); sched_on = so;
    dh = mi_prim_get_default_heap();
    if (dh == NULL || dh == (mi_heap_t*)&_mi_heap_empty) return;
  }
  for (mi_heap_t* h = dh->tld->heaps; h != NULL; h = h->next) {
    int hid = heap_id(h);
    if (hid >= 0 && !heap_printed[hid]) { heap_printed[hid] = 1; printf("H %d %d %d\n", hid, cur, h == dh->tld->heap_backing ? 1 : 0); }
  }
}
static void lk_list(mi_page_t* pg, mi_block_t* b) { int cnt = 0; while (b != NULL && cnt < 70000) { printf(" %zu", blk_idx(pg, b)); b = (mi_block_t*)b->next; cnt++; } }
// the calling thread is between two API calls: declare its heaps, snapshot all its pages, retire the ids of freed pages
static void lk_sync(void) {
  if (!lockfmt || !do_log) return;
  int so = sched_on; sched_on = 0;                          // the snapshot itself is not a scheduling point
  lk_declare();
  mi_heap_t* dh = mi_prim_get_default_heap();
  static int seen[MAXPG];
  for (int i = 0; i < npages; i++) seen[i] = 0;
  if (dh != NULL && dh != (mi_heap_t*)&_mi_heap_empty) {
    for (mi_heap_t* h = dh->tld->heaps; h != NULL; h = h->next) {
      int hid = heap_id(h);
      for (size_t b = 0; b <= MI_BIN_FULL; b++) for (mi_page_t* pg = h->pages[b].first; pg != NULL; pg = pg->next) {
        if (pg->block_size < 4000) continue;              // not used by the lock programs (the warm-up block's page; the page of
                                                          // the backing heap that holds the mi_heap_t structures of mi_heap_new, 3584-byte blocks)
        int k = page_id(pg); if (k < 0) continue;
        pg_owner[k] = cur; seen[k] = 1;
        uintptr_t tf = pg->xthread_free;
        // print the snapshot only when the page differs from its previous snapshot
        uint64_t sig = (uint64_t)pg->reserved * 31 + pg->capacity; sig = sig * 1000003 + pg->used; sig = sig * 1000003 + (uint64_t)mi_page_is_in_full(pg);
        sig = sig * 1000003 + (uint64_t)tf; sig = sig * 1000003 + (uint64_t)(uintptr_t)pg->free; sig = sig * 1000003 + (uint64_t)(uintptr_t)pg->local_free; sig = sig * 1000003 + (uint64_t)hid + 1;
        if (pg_sig[k] == sig && pg != lk_subject) continue;   // (the page a malloc/free worked on is always printed)
        pg_sig[k] = sig;
        printf("G %d %d %d %u %u %u %d %d :", k, hid, cur, (unsigned)pg->reserved, (unsigned)pg->capacity, (unsigned)pg->used, (int)mi_page_is_in_full(pg), (int)(tf & 3));
        lk_list(pg, pg->free); printf(" :"); lk_list(pg, pg->local_free); printf(" :"); lk_list(pg, (mi_block_t*)(tf & ~(uintptr_t)3)); printf("\n");
      }
    }
  }
  for (int i = 0; i < npages; i++) if (pages[i] != NULL && pg_owner[i] == cur && !seen[i]) { printf("G %d dead\n", i); pages[i] = NULL; pg_owner[i] = -1; pg_sig[i] = 0; }
  sched_on = so;
}
static void lk_call(const char* what, void* p) {            // "A <tid> <call> [<page>.<idx>]"
  if (!lockfmt || !do_log) return;
  lk_declare();
  if (p != NULL) { mi_page_t* pg = _mi_ptr_page(p); printf("A %d %s %d.%zu\n", cur, what, page_known(pg), blk_idx(pg, _mi_page_ptr_unalign(pg, p))); }
  else printf("A %d %s\n", cur, what);
}
static void lk_ret(void) { if (lockfmt && do_log) { printf("R %d\n", cur); lk_sync(); } }

#include "s_conc_abandon.h"   // mode `exit` + `alog`: the step log for the lockstep replay of coq/Model/Abandon.v (C09)

int verif_pre(int op, volatile void* p) {
  if (!sched_on) return 0;
  if (ablog) ab_pre(op, p);
  steps++;
  if (steps > max_steps) { printf("V livelock t%d step budget exhausted (%ld steps)\nEND steps=%ld viol=%ld\n", cur, steps, steps, nviol + 1); fflush(stdout); _exit(3); }
  int critical = (op != VOP_LOAD && op != VOP_YIELD && is_shared_word(p));
  int nx = pick_next(op == VOP_YIELD, critical);
  switch_to(nx);
  if (op == VOP_CASW && prng_below(&G, 100) < 6) { spurious++; return 1; }
  return 0;
}
void verif_post(int op, volatile void* p, int ok, uintptr_t oldv) {
  if (!sched_on || !do_log || p == NULL) return;
  if (ablog) { ab_post(op, p, ok, oldv); return; }
  if (lockfmt) { lk_step(op, p, ok, oldv); return; }
  char cls[32]; classify(p, cls, sizeof cls);
  if (!strcmp(cls, "other")) return;
  uintptr_t newv = *(volatile uintptr_t*)p;
  if (cls[0] == 't') {
    int k = atoi(cls + 3); char a[512], b[512]; show_tf(pages[k], oldv, a, sizeof a); show_tf(pages[k], newv, b, sizeof b);
    printf("S %d %d %s %d %s -> %s\n", cur, op, cls, ok, a, b);
  }
  else printf("S %d %d %s %d %lx -> %lx\n", cur, op, cls, ok, (unsigned long)oldv, (unsigned long)newv);
}

// ---- the per-thread programs --------------------------------------------------------------------
static const size_t SIZES[] = { 8, 16, 24, 48, 64, 120, 256, 1000, 4000, 9000, 40000, 70000, 200000 };
static mi_heap_t* extra_heap[MAXT];    // mode heap: one extra heap per thread

// blocks above 1 MiB are touched in their first and last 4 KiB and 16 bytes per 64 KiB only
static inline int touched(size_t i, size_t n) { return n <= (1u << 20) || i < 4096 || i >= n - 4096 || (i & 65535) < 16; }
static void check_block(int s, const char* why) {
  slot_t* t = &slots[s];
  for (size_t i = 0; i < t->size; i++) if (touched(i, t->size) && t->p[i] != pat(t->seed, i)) { viol("content", "%s: slot %d (%p size %zu owner t%d) byte %zu changed", why, s, t->p, t->size, t->owner, i); return; }
}
static void do_alloc(int s) {
  // a few classes only, so that threads meet on the same pages: 40000/70000 (13 resp. 7 blocks per page: pages fill
  // up and go through the full queue), 200000 (single-block page: always full, every remote free is a first free)
  static const size_t FOCUS[] = { 40000, 40000, 70000, 200000, 64, 1000 };
  if (big_arena && s >= NSLOT) {   // farewell block in the big-arena variant: a huge block = its own segment = one arena block
    size_t hsize = (17u << 20) + (size_t)prng_below(&GP, 8u << 20);
    uint64_t hseed = prng_next(&GP);
    uint8_t* hp = (uint8_t*)mi_malloc(hsize);
    if (hp == NULL) { viol("fail", "malloc(%zu) returned NULL", hsize); return; }
    for (size_t i = 0; i < hsize; i++) if (touched(i, hsize)) hp[i] = pat(hseed, i);
    slots[s].p = hp; slots[s].size = hsize; slots[s].seed = hseed; slots[s].owner = cur; slots[s].heapk = 0;
    return;
  }
  size_t size = (prng_below(&GP, 10) < 7) ? FOCUS[prng_below(&GP, 6)] : SIZES[prng_below(&GP, sizeof(SIZES) / sizeof(SIZES[0]))];
  if (many_segments && prng_below(&GP, 10) < 4) size = ((size_t)5 << 20) + prng_below(&GP, (size_t)4 << 20);   // large pages: a thread soon owns several segments
  if (lockfmt && size < 4000) size = 40000;          // few blocks per page: the replayed states stay small
  uint64_t seed = prng_next(&GP);
  int useheap = (mode == 2 && extra_heap[cur] != NULL && prng_below(&GP, 3) != 0);
  lk_call("malloc", NULL);
  uint8_t* p = (uint8_t*)(useheap ? mi_heap_malloc(extra_heap[cur], size) : mi_malloc(size));
  if (lockfmt && do_log) { printf("R %d\n", cur); if (p != NULL) { mi_page_t* pg = _mi_ptr_page(p); int so = sched_on; sched_on = 0; int k = page_id(pg); sched_on = so; printf("B %d %d.%zu\n", cur, k, blk_idx(pg, p)); lk_subject = pg; } lk_sync(); lk_subject = NULL; }
  if (p == NULL) { viol("fail", "malloc(%zu) returned NULL", size); return; }
  // nobody else may hold this memory
  for (int i = 0; i < NSLOTX; i++) if (slots[i].p != NULL) {
    if (p < slots[i].p + slots[i].size && slots[i].p < p + size) { viol("overlap", "malloc(%zu)=%p overlaps live slot %d [%p,+%zu) of t%d", size, p, i, slots[i].p, slots[i].size, slots[i].owner); break; }
  }
  if (slots[s].p != NULL) { lk_call("free", p); if (lockfmt) lk_subject = _mi_ptr_page(p); mi_free(p); lk_ret(); lk_subject = NULL; return; }      // slot was filled while we were inside malloc
  for (size_t i = 0; i < size; i++) if (touched(i, size)) p[i] = pat(seed, i);
  slots[s].p = p; slots[s].size = size; slots[s].seed = seed; slots[s].owner = cur; slots[s].heapk = useheap;
  page_id(_mi_ptr_page(p)); heap_id(mi_page_heap(_mi_ptr_page(p)) ? mi_page_heap(_mi_ptr_page(p)) : mi_prim_get_default_heap());
}
static void do_free(int s) {
  if (slots[s].p == NULL) return;
  check_block(s, "before free");
  uint8_t* p = slots[s].p; slots[s].p = NULL;          // take it: from now on we hold the block
  if (lockfmt && do_log && slots[s].owner != cur) { mi_page_t* pg = _mi_ptr_page(p); printf("A %d give %d.%zu %d\n", slots[s].owner, page_known(pg), blk_idx(pg, p), cur); }
  lk_call("free", p);
  if (lockfmt) lk_subject = _mi_ptr_page(p);
  mi_free(p);
  lk_ret(); lk_subject = NULL;
}
static void barrier(int target) {      // all live threads reach `target`
  arrived++;
  while (phase < target) { int live = 0; for (int i = 0; i < nthreads; i++) live += vts[i].alive; if (arrived >= live) { phase = target; arrived = 0; break; } verif_pre(VOP_YIELD, NULL); }
}
static size_t heap_pages(mi_heap_t* h) { return (h == NULL || h == (mi_heap_t*)&_mi_heap_empty) ? 0 : h->page_count; }

#include "prodcons.h"

// ---- mode heap: the first-class heap calls, with their lockstep brackets (mode lockheap) ----
static mi_heap_t* new_heap(void) {
  lk_call("malloc", NULL);   // for the TFree model mi_heap_new is a malloc from the backing heap (the structure's page is not shown)
  mi_heap_t* h = mi_heap_new();
  if (h == NULL) { lk_ret(); return NULL; }
  int hid = heap_id_new(h);
  if (lockfmt && do_log && hid >= 0) {
    heap_printed[hid] = 1;
    printf("R %d\n", cur); lk_declare();                      // (declares the backing heap on a thread's first call)
    printf("A %d newheap %d\nR %d\n", cur, hid, cur);         // ... followed by OpHeapNew
    lk_sync();
  }
  return h;
}
static void delete_heap(mi_heap_t* h) {
  int hid = heap_id(h);
  if (lockfmt && do_log) { lk_declare(); printf("A %d delete %d\n", cur, hid); }
  mi_heap_delete(h);                                           // other threads may be freeing into it right now
  if (hid >= 0) kdead[hid] = 1;
  lk_ret();
}
static void collect_heap(mi_heap_t* h, int force) {
  if (lockfmt && do_log) { lk_declare(); printf("A %d collect %d %d\n", cur, heap_id(h), force); }
  mi_heap_collect(h, force != 0);
  lk_ret();
}

static void run_program(void) {
  if (mode == 3) { pc_program(); return; }
  if (mode == 2 && cur != 0) { extra_heap[cur] = new_heap(); }
  // VERIF_STAGGER: threads terminate one after the other (thread k after k/nthreads of the program) while thread 0 keeps running
  const int my_nops = (stagger && mode == 1 && cur != 0) ? (nops * cur) / nthreads + 5 : nops;
  for (int k = 0; k < my_nops; k++) {
    vts[cur].ops_done++;
    int r = (int)prng_below(&GP, 100);
    int s = (int)prng_below(&GP, NSLOT);
    if (r < 48) { if (slots[s].p == NULL) do_alloc(s); else do_free(s); }
    else if (r < 86) { // free a random live slot, preferably one of another thread
      int best = -1; for (int j = 0; j < NSLOT; j++) { int q = (s + j) % NSLOT; if (slots[q].p != NULL) { best = q; if (slots[q].owner != cur) break; } }
      // staggered exits: prefer a block left behind by the thread that terminated last (its segments were abandoned last)
      if (stagger && last_exited >= 0 && prng_below(&GP, 3) != 0) for (int j = 0; j < NSLOTX; j++) { int q = (s + j) % NSLOTX; if (slots[q].p != NULL && slots[q].owner == last_exited) { best = q; break; } }
      if (best >= 0) do_free(best);
    }
    else if (r < 90) { int f = prng_below(&GP, 2) != 0; if (lockfmt && do_log) { lk_declare(); printf("A %d collect %d %d\n", cur, heap_id(mi_prim_get_default_heap()), f); } mi_collect(f); lk_ret(); }
    else if (r < 93) verif_pre(VOP_YIELD, NULL);
    else if (mode == 1 && cur != 0 && r < 96 && k > nops / 4) { break; }          // terminate early with live blocks
    else if (mode == 2 && cur != 0 && extra_heap[cur] != NULL && r < (lockfmt ? 100 : 97)) {   // (lockheap: heap calls more often)
      if (prng_below(&GP, 2)) { collect_heap(extra_heap[cur], prng_below(&GP, 2) != 0); }
      else {
        mi_heap_t* h = extra_heap[cur]; extra_heap[cur] = NULL;
        delete_heap(h);
        for (int j = 0; j < NSLOT; j++) if (slots[j].p != NULL) check_block(j, "after heap delete");
        extra_heap[cur] = new_heap();
      }
    }
    else if (slots[s].p != NULL) check_block(s, "spot check");
  }
  if (mode == 1 && cur != 0) {
    // farewell blocks: left behind in segments that are abandoned when this thread exits
    for (int k = 0; k < (big_arena ? NFAREWELL : 6); k++) { int s = NSLOT + cur * NFAREWELL + k; if (slots[s].p == NULL) do_alloc(s); }
  }
  if (mode == 0) {
    // phase 1: everything is freed, by whichever thread gets there first
    barrier(1);
    for (int j = 0; j < NSLOT; j++) { int q = (j * 7 + cur * 13) % NSLOT; if (slots[q].p != NULL) do_free(q); }
    barrier(2);
    // phase 2: every owner collects; its heap must then hold no pages (C08)
    if (lockfmt && do_log) { lk_declare(); printf("A %d collect %d 1\n", cur, heap_id(mi_prim_get_default_heap())); }
    mi_collect(true);
    lk_ret();
    mi_heap_t* h = mi_prim_get_default_heap();
    if (cur != 0 && heap_pages(h) != 0) {
      size_t used = 0; for (size_t b = 0; b <= MI_BIN_FULL; b++) for (mi_page_t* pg = h->pages[b].first; pg; pg = pg->next) used += pg->used;
      viol("lost", "after all blocks were freed and the owner collected, its heap still holds %zu pages (%zu blocks counted as used)", heap_pages(h), used);
    }
    barrier(3);
    if (lockfmt) do_log = 0;          // thread exit (abandonment) is not part of the TFree model
  }
  if (mode == 2 && lockfmt) {
    // everything is freed by whichever thread gets there first, then the extra heaps are deleted and every owner collects
    barrier(1);
    for (int j = 0; j < NSLOT; j++) { int q = (j * 7 + cur * 13) % NSLOT; if (slots[q].p != NULL) do_free(q); }
    barrier(2);
    if (cur != 0 && extra_heap[cur] != NULL) { mi_heap_t* h = extra_heap[cur]; extra_heap[cur] = NULL; delete_heap(h); }
    if (do_log) { lk_declare(); printf("A %d collect %d 1\n", cur, heap_id(mi_prim_get_default_heap())); }
    mi_collect(true);
    lk_ret();
    mi_heap_t* h = mi_prim_get_default_heap();
    if (cur != 0 && heap_pages(h) != 0) {
      size_t used = 0; for (size_t b = 0; b <= MI_BIN_FULL; b++) for (mi_page_t* pg = h->pages[b].first; pg; pg = pg->next) used += pg->used;
      if (used != 0) viol("leak", "after all blocks were freed, the extra heap deleted and the owner collected, its heap still holds %zu pages (%zu blocks counted as used)", heap_pages(h), used);
    }
    barrier(3);
    do_log = 0;          // thread exit (abandonment) is not part of the TFree model
  }
  if (mode == 2 && cur != 0 && extra_heap[cur] != NULL) { mi_heap_t* h = extra_heap[cur]; extra_heap[cur] = NULL; mi_heap_delete(h); }
}

static void vthread_main(void) {
  run_program();
  mi_thread_done();
  vts[cur].exited = 1; vts[cur].alive = 0; last_exited = cur;
  int nx = pick_next(1, 0);
  int prev = cur; vts[prev].defheap = _mi_heap_default; cur = nx; _mi_heap_default = vts[nx].defheap;
  setcontext(&vts[nx].ctx);
}

// watchdog: a loop inside the allocator that performs no atomic operation (e.g. a cyclic free list) never reaches a scheduling
// point, so the step budget cannot see it; while the scheduler is on, every 10 s of CPU time of this process (ITIMER_PROF: not
// wall time, the machine may be loaded) the step counter must have moved
#include <sys/time.h>
static long wd_last = -1;
static void on_alarm(int sig) {
  (void)sig;
  if (!sched_on) {          // quiescence phase: no scheduling points at all; its checks take a second or two of CPU time
    static int off_ticks = 0; wd_last = -1;
    if (++off_ticks >= 6) { printf("V livelock t%d the quiescence phase (free everything, collect) used 60 seconds of CPU time: a loop inside the allocator\nEND steps=%ld viol=%ld\n", cur, steps, nviol + 1); fflush(stdout); _exit(5); }
    return;
  }
  if (steps == wd_last) { printf("V livelock t%d made no atomic step during 10 seconds of CPU time at step %ld (a loop inside the allocator without a scheduling point)\nEND steps=%ld viol=%ld\n", cur, steps, steps, nviol + 1); fflush(stdout); _exit(5); }
  wd_last = steps;
}
static void watchdog_start(void) { struct itimerval it = { { 10, 0 }, { 10, 0 } }; signal(SIGPROF, on_alarm); setitimer(ITIMER_PROF, &it, NULL); }
static void on_segv(int sig) { printf("V crash signal %d in t%d at step %ld\nEND steps=%ld viol=%ld\n", sig, cur, steps, steps, nviol + 1); fflush(stdout); _exit(4); }

// ---- C12: mi_abandoned_visit_blocks at quiescence (mode exit) --------------------------------------
static struct { uint8_t* b; size_t sz; } avis[4096]; static size_t navis = 0;
static bool abandoned_visitor(const mi_heap_t* heap, const mi_heap_area_t* area, void* block, size_t bsize, void* arg) {
  (void)heap; (void)area; (void)arg;
  if (block != NULL && navis < 4096) { avis[navis].b = (uint8_t*)block; avis[navis].sz = bsize; navis++; }
  return true;
}
static int stop_calls = 0, stop_seen = 0;
static bool stopping_visitor(const mi_heap_t* heap, const mi_heap_area_t* area, void* block, size_t bsize, void* arg) {
  (void)heap; (void)area; (void)bsize; (void)arg;
  if (stop_seen) { stop_calls++; return false; }      // called again after having returned false
  if (block != NULL) { stop_seen = 1; return false; }
  return true;
}
static void check_abandoned_visit(void) {
  navis = 0;
  if (!mi_abandoned_visit_blocks(mi_subproc_main(), -1, true, &abandoned_visitor, NULL)) { viol("abandoned-visit", "mi_abandoned_visit_blocks returned false"); return; }
  size_t expect = 0;
  for (int j = 0; j < NSLOTX; j++) {
    if (slots[j].p == NULL) continue;
    mi_segment_t* seg = _mi_ptr_segment(slots[j].p);
    if (mi_atomic_load_relaxed(&seg->thread_id) != 0) continue;       // not abandoned: belongs to a live heap
    expect++;
    int hits = 0;
    for (size_t k = 0; k < navis; k++) if (slots[j].p >= avis[k].b && slots[j].p < avis[k].b + avis[k].sz) { hits++; if (slots[j].p + slots[j].size > avis[k].b + avis[k].sz) viol("abandoned-visit", "visited range does not enclose slot %d", j); }
    if (hits != 1) viol("abandoned-visit", "live block of slot %d (%p, size %zu, left behind by t%d) reported %d times by mi_abandoned_visit_blocks", j, slots[j].p, slots[j].size, slots[j].owner, hits);
  }
  for (size_t k = 0; k < navis; k++) {
    int live = 0;
    for (int j = 0; j < NSLOTX; j++) if (slots[j].p != NULL && slots[j].p >= avis[k].b && slots[j].p < avis[k].b + avis[k].sz) live++;
    if (live != 1) viol("abandoned-visit", "mi_abandoned_visit_blocks reported [%p,+%zu) which holds %d live blocks", avis[k].b, avis[k].sz, live);
  }
  printf("O abandoned-visit expected=%zu visited=%zu\n", expect, navis);
  // returning false from the visitor stops the walk (it must not continue into the next abandoned segment)
  if (navis >= 2) {
    stop_calls = 0; stop_seen = 0;
    bool r = mi_abandoned_visit_blocks(mi_subproc_main(), -1, true, &stopping_visitor, NULL);
    if (r || stop_calls != 0) viol("abandoned-visit", "the visitor returned false at the first block but mi_abandoned_visit_blocks returned %d and called the visitor %d more times (%zu blocks abandoned)", (int)r, stop_calls, navis);
  }
}

static bool count_visitor(const mi_heap_t* heap, const mi_heap_area_t* area, void* block, size_t bsize, void* arg) { (void)heap; (void)area; (void)bsize; if (block != NULL) (*(size_t*)arg)++; return true; }

int main(int argc, char** argv) {
  if (argc < 5) { fprintf(stderr, "usage: s_conc <tfree|exit|heap|lock|lockheap|prodcons> <seed> <nthreads> <nops> [log]\n"); return 2; }
  verif_no_aslr(argv);
  lockfmt = !strcmp(argv[1], "lock") || !strcmp(argv[1], "lockheap");
  mode = (!strcmp(argv[1], "tfree") || !strcmp(argv[1], "lock")) ? 0 : !strcmp(argv[1], "exit") ? 1 : !strcmp(argv[1], "prodcons") ? 3 : 2;
  for (int i = 0; i < MAXPG; i++) pg_owner[i] = -1;
  uint64_t seed = strtoull(argv[2], NULL, 10); nthreads = atoi(argv[3]); nops = atoi(argv[4]); do_log = argc > 5;
  if (nthreads > MAXT) nthreads = MAXT;
  if (nthreads < 2) nthreads = 2;
  ablog = (mode == 1 && argc > 5 && !strcmp(argv[5], "alog"));
  if (mode == 3) { pc_seed = seed; pc_init(); }
  prng_seed(&G, seed * 2 + 1); prng_seed(&GP, seed * 2 + 2);
  { static const int sp[] = { 20, 55, 55, 85 }; stay_pct = sp[seed % 4]; }
  setvbuf(stdout, NULL, _IOFBF, 1 << 16);
  signal(SIGSEGV, on_segv); signal(SIGBUS, on_segv); signal(SIGABRT, on_segv); watchdog_start();
  if (getenv("VERIF_RECLAIM_ON_FREE")) mi_option_set(mi_option_abandoned_reclaim_on_free, atoi(getenv("VERIF_RECLAIM_ON_FREE")));
  if (getenv("VERIF_NO_ARENA")) mi_option_set(mi_option_disallow_arena_alloc, 1);
  if (getenv("VERIF_STAGGER")) stagger = 1;
  if (getenv("VERIF_TARGET_SEGMENTS")) many_segments = 1;
  if (getenv("VERIF_TARGET_SEGMENTS")) mi_option_set(mi_option_target_segments_per_thread, atoi(getenv("VERIF_TARGET_SEGMENTS")));
  if (getenv("VERIF_BIG_ARENA")) { big_arena = 1; mi_arena_id_t aid; if (mi_reserve_os_memory_ex((size_t)4 << 30, false, false, false, &aid) != 0) { printf("V fail could not reserve the big arena\nEND steps=0 viol=1\n"); return 0; } }
  if (mode == 1) mi_option_set(mi_option_visit_abandoned, 1);   // must be enabled from the start
  void* warm = mi_malloc(8); mi_free(warm);
  vts[0].alive = 1; vts[0].defheap = _mi_heap_default; heap_id(mi_prim_get_default_heap());
  for (int i = 1; i < nthreads; i++) {
    vts[i].stack = (char*)malloc(STACKSZ);
    getcontext(&vts[i].ctx);
    vts[i].ctx.uc_stack.ss_sp = vts[i].stack; vts[i].ctx.uc_stack.ss_size = STACKSZ; vts[i].ctx.uc_link = NULL;
    makecontext(&vts[i].ctx, vthread_main, 0);
    vts[i].alive = 1; vts[i].defheap = (mi_heap_t*)&_mi_heap_empty; vts[i].idx = i;
  }
  if (ablog) ab_init();
  sched_on = 1;
  run_program();
  // wait for the others
  for (;;) { int live = 0; for (int i = 1; i < nthreads; i++) live += vts[i].alive; if (!live) break; verif_pre(VOP_YIELD, NULL); }
  sched_on = 0;
  if (mode == 1) check_abandoned_visit();
  if (mode == 1) {
    // C09: "once the last block in it has been freed the memory is released instead of leaked": keep the blocks of one
    // terminated thread live, free everything else, run NON-forced collects; no abandoned segment without a live block may remain
    int keeper = -1; for (int j = 0; j < NSLOTX && keeper < 0; j++) if (slots[j].p != NULL && slots[j].owner != 0) keeper = slots[j].owner;
    for (int j = 0; j < NSLOTX; j++) if (slots[j].p != NULL && slots[j].owner != keeper) { check_block(j, "at quiescence"); uint8_t* q = slots[j].p; slots[j].p = NULL; mi_free(q); }
    for (int k = 0; k < 3; k++) mi_collect(false);
    size_t dead = 0;
    for (size_t j = 0; j < mi_arena_get_count(); j++) {
      mi_arena_t* a = mi_arena_from_index(j); if (a == NULL || a->blocks_abandoned == NULL) continue;
      for (size_t b = 0; b < a->block_count; b++) if (mi_atomic_load_relaxed(&a->blocks_abandoned[b / 64]) & ((size_t)1 << (b % 64))) {
        uint8_t* sg = a->start + b * MI_ARENA_BLOCK_SIZE; size_t ssz = mi_segment_size((mi_segment_t*)sg);
        int live = 0; for (int q = 0; q < NSLOTX; q++) if (slots[q].p != NULL && slots[q].p >= sg && slots[q].p < sg + ssz) live = 1;
        if (!live) dead++;
      }
    }
    if (dead != 0) viol("abandoned-leak", "%zu abandoned segments without any live block were not released by three non-forced collects (blocks of t%d kept live)", dead, keeper);
  }
  // quiescence: free what is left, collect, and look at what the allocator still holds
  for (int j = 0; j < NSLOTX; j++) if (slots[j].p != NULL) { check_block(j, "at quiescence"); uint8_t* p = slots[j].p; slots[j].p = NULL; mi_free(p); }
  if (getenv("VERIF_DEBUG_LEAK")) {
    for (size_t j = 0; j < mi_arena_get_count(); j++) { mi_arena_t* a = mi_arena_from_index(j); if (!a) continue;
      for (size_t b = 0; b < a->block_count; b++) if (a->blocks_inuse[b / 64] & ((size_t)1 << (b % 64))) {
        mi_segment_t* sg = (mi_segment_t*)(a->start + b * MI_ARENA_BLOCK_SIZE);
        printf("D-before arena %zu block %zu: tid=%lx used=%zu abandoned=%zu kind=%d abandoned_bit=%d purge_bit=%d\n", j, b, (unsigned long)sg->thread_id, sg->used, sg->abandoned, (int)sg->kind,
               (int)((a->blocks_abandoned[b / 64] >> (b % 64)) & 1), (int)((a->blocks_purge[b / 64] >> (b % 64)) & 1));
      } }
    printf("D-before abandoned_count=%zu\n", mi_atomic_load_relaxed(&mi_subproc_default.abandoned_count));
  }
  for (int k = 0; k < 3; k++) mi_collect(true);
  size_t blocks = 0; mi_heap_visit_blocks(mi_prim_get_default_heap(), true, &count_visitor, &blocks);
  size_t abandoned = mi_atomic_load_relaxed(&mi_subproc_default.abandoned_count);
  {  // once the last block has been freed the memory is released: no arena block may still be claimed by a segment
    size_t inuse = 0;
    for (size_t j = 0; j < mi_arena_get_count(); j++) {
      mi_arena_t* a = mi_arena_from_index(j); if (a == NULL) continue;
      for (size_t b = 0; b < a->block_count; b++) if (mi_atomic_load_relaxed(&a->blocks_inuse[b / 64]) & ((size_t)1 << (b % 64))) inuse++;
    }
    if (inuse != 0 && getenv("VERIF_DEBUG_LEAK")) {
      for (size_t j = 0; j < mi_arena_get_count(); j++) { mi_arena_t* a = mi_arena_from_index(j); if (!a) continue;
        for (size_t b = 0; b < a->block_count; b++) if (a->blocks_inuse[b / 64] & ((size_t)1 << (b % 64))) {
          mi_segment_t* sg = (mi_segment_t*)(a->start + b * MI_ARENA_BLOCK_SIZE);
          printf("D arena %zu block %zu: segment tid=%lx used=%zu abandoned=%zu kind=%d entries=%zu abandoned_bit=%d dont_free=%d\n", j, b, (unsigned long)sg->thread_id, sg->used, sg->abandoned, (int)sg->kind, sg->slice_entries,
                 (int)((a->blocks_abandoned[b / 64] >> (b % 64)) & 1), (int)sg->dont_free);
        } }
    }
    if (inuse != 0) viol("segment-leak", "%zu arena blocks are still claimed after every block was freed and the heaps force-collected", inuse);
  }
  if (blocks != 0) viol("leak", "main heap still reports %zu blocks after everything was freed and collected", blocks);
  if (abandoned != 0) viol("abandoned-leak", "%zu abandoned segments remain after all their blocks were freed and a forced collect", abandoned);
  printf("END steps=%ld viol=%ld switches=%ld spurious=%ld pages=%d\n", steps, nviol, switches, spurious, npages);
  return 0;
}
