// s_conc mode `prodcons` (C08, "a producer/consumer workload with a bounded number of live blocks runs in bounded
// memory however long it runs").  Included by s_conc.c after its helpers (slots, pat, viol, verif_pre, barrier, heap_pages).
//
// Program: the first pc_nprod (1, or 2 when there are >= 4 threads) virtual threads are OWNERS (producers): they allocate
// blocks into a ring of PC_L = 16 * pc_nprod slots (a producer only fills its own residue class of slot numbers, so at
// most PC_L blocks are in slots at any moment); the other threads are CONSUMERS: they take a filled slot, check the
// block's byte pattern and free it (a remote free).  The first quarter of the slots holds long-lived blocks (a consumer
// passes them over 63 times out of 64).  A producer that finds its slots filled yields; one allocation in ten it also
// frees one of its own blocks itself.  Sizes: for stretches of 40..200 allocations three of four blocks have the same size
// 40000 or 70000 (12 resp. 6 blocks per page: the live blocks concentrate on a few pages, which fill up and go through
// the full queue), the rest is drawn from { 40000, 70000, 200000 (always a fresh single-block page), 9000, 4000, 1000 }.
// Seeds with (seed/4) mod 4 = 3: the producer also calls mi_collect(false) after every 16th allocation; otherwise nobody collects
// before the end.  Rounds: nops * PC_ROUNDS_PER_OP allocations per producer.
//
// Oracle `unbounded`, evaluated by the producer after every allocation and once more at the end.  What the property
// promises (DESIGN.md C08: reuse latency <= 100 generic allocations + one drain), turned into numbers that do not depend
// on the number of rounds:
//   H = PC_L + nthreads     blocks are "held" at most: in a slot, or in the hands of a thread inside mi_malloc / mi_free.
//   D = 100                 the owner takes over its heap's delayed-free list on every 100th generic allocation
//                           (page.c:993; all sizes used here take the generic path); with the explicit collects D = 16.
//   (1) unreclaimed blocks = sum of page->used over the producer's heap - its blocks that are held
//       (blocks whose mi_free has RETURNED but which the owner still counts as used: freed remotely, not yet noticed)
//       <= H + 2*D.   A block whose remote free returned before a drain started is noticed by the end of the NEXT drain:
//       it is on the delayed list (taken over by the next drain; its page's flag is NO_DELAYED_FREE, so the flag reset
//       cannot meet DELAYED_FREEING and give up), or on its page's thread-free list, and then the page has a block on
//       the delayed list (C08.no_delayed_flag_inv / tflist_nonempty_flag) whose processing collects the whole list
//       (_mi_free_delayed_block -> _mi_page_free_collect).  So what is unreclaimed now was held when the last-but-one
//       drain started or has been allocated since.  (Not covered: a consumer that stays inside the DELAYED_FREEING
//       window of a page across two drains of the owner; the scheduler picks every runnable thread with probability
//       >= 1/nthreads at every switch, so this does not happen in practice.)
//   (2) heap->page_count <= 2*H + 2*D + PC_NCLASS: a page holds a held block (<= H), or only unreclaimed blocks
//       (<= H + 2*D by (1)), or is a retired empty page (<= one per size class).
// The maxima seen are printed (`O prodcons ...`); tools/conc.py collects them into the evidence (margin to the bound).
#define PC_LMAX 64
static int PC_L = 16;
#define PC_DRAIN 100
#define PC_ROUNDS_PER_OP 40          // rounds (allocations per producer) = nops * PC_ROUNDS_PER_OP
static const size_t PC_SIZES[] = { 40000, 40000, 40000, 40000, 40000, 70000, 70000, 70000, 70000, 70000, 200000, 9000, 9000, 4000, 1000, 1000 };
#define PC_NCLASS 6
static int pc_nprod = 1; static uint64_t pc_seed = 0;
static volatile int pc_done = 0;
static size_t pc_max_pages[MAXT], pc_max_segments[MAXT], pc_bound = 0, pc_bound_blocks = 0;
static long pc_allocs[MAXT], pc_remote = 0, pc_local = 0, pc_waits = 0;
static int pc_fired = 0, pc_live_max = 0;
static int pc_collect_every = 0, pc_drain = PC_DRAIN; static long pc_collects = 0;   // odd seeds: a producer calls mi_collect(false) after every 16th allocation

static inline int pc_touch(size_t i, size_t n) { return i < 64 || i >= n - 64; }
static void pc_check_block(int s, const char* why) {
  slot_t* t = &slots[s];
  for (size_t i = 0; i < t->size; i++) if (pc_touch(i, t->size) && t->p[i] != pat(t->seed, i)) { viol("content", "%s: slot %d (%p size %zu owner t%d) byte %zu changed", why, s, t->p, t->size, t->owner, i); return; }
}
static int pc_inflight[MAXT];                   // blocks of producer t a consumer has taken from a slot and is freeing right now
static size_t pc_max_pending[MAXT];
static void pc_check(const char* when, long round) {
  mi_heap_t* h = mi_prim_get_default_heap();
  size_t pc = heap_pages(h);
  { // blocks the heap still counts as used although their mi_free has returned ("pending": freed remotely, not yet noticed)
    size_t used = 0, held = (size_t)pc_inflight[cur];
    for (size_t b = 0; b <= MI_BIN_FULL; b++) for (mi_page_t* pg = h->pages[b].first; pg != NULL; pg = pg->next) if (pg->block_size >= 1000) used += pg->used;
    for (int i = 0; i < PC_L; i++) if (slots[i].p != NULL && slots[i].owner == cur) held++;
    size_t pend = used > held ? used - held : 0;
    if (pend > pc_max_pending[cur]) pc_max_pending[cur] = pend;
    if (pend > pc_bound_blocks && !pc_fired) {
      pc_fired = 1;
      size_t full = 0, stale = 0, stale_blocks = 0;
      for (mi_page_t* pg = h->pages[MI_BIN_FULL].first; pg != NULL; pg = pg->next) {
        full++; size_t n = 0; for (mi_block_t* b = mi_page_thread_free(pg); b != NULL && n < 70000; b = (mi_block_t*)b->next) n++;     // (release build: next is not encoded)
        if (n > 0) { stale++; stale_blocks += n; }
      }
      viol("unbounded", "%s round %ld: at most %d blocks are live, but the owner's heap counts %zu blocks as used whose free has returned (> bound %zu = (%d+%d)+2*%d): remotely freed memory is not given back to the owner; %zu pages, %zu in the full queue, %zu of those with a non-empty thread-free list (%zu blocks) that nobody looks at",
           when, round, PC_L, pend, pc_bound_blocks, PC_L, nthreads, pc_drain, pc, full, stale, stale_blocks);
    }
  }
  size_t sg = (h == NULL || h == (mi_heap_t*)&_mi_heap_empty) ? 0 : h->tld->segments.count;
  if (pc > pc_max_pages[cur]) pc_max_pages[cur] = pc;
  if (sg > pc_max_segments[cur]) pc_max_segments[cur] = sg;
  if (pc > pc_bound && !pc_fired) {
    pc_fired = 1;
    size_t full = 0, stale = 0;
    for (mi_page_t* pg = h->pages[MI_BIN_FULL].first; pg != NULL; pg = pg->next) { full++; if (mi_page_thread_free(pg) != NULL) stale++; }
    viol("unbounded", "%s round %ld: at most %d blocks are live but the owner's heap holds %zu pages (> bound %zu = 2*(%d+%d)+2*%d+%d); %zu of them sit in the full queue, %zu of those with a non-empty thread-free list; %zu segments",
         when, round, PC_L, pc, pc_bound, PC_L, nthreads, pc_drain, PC_NCLASS, full, stale, sg);
  }
}
static size_t pc_focus[MAXT]; static int pc_focus_left[MAXT];
static void pc_alloc(int s) {
  // the workload moves between size classes: for a stretch of 40..200 allocations 3 of 4 blocks have the same size, so
  // that the live blocks concentrate on a few pages of one class (pages fill up and go through the full queue)
  if (pc_focus_left[cur] <= 0) { pc_focus[cur] = PC_SIZES[prng_below(&GP, 10)]; pc_focus_left[cur] = 40 + (int)prng_below(&GP, 160); }   // (40000 or 70000)
  pc_focus_left[cur]--;
  size_t size = (prng_below(&GP, 4) != 0) ? pc_focus[cur] : PC_SIZES[prng_below(&GP, sizeof(PC_SIZES) / sizeof(PC_SIZES[0]))];
  uint64_t seed = prng_next(&GP);
  uint8_t* p = (uint8_t*)mi_malloc(size);
  if (p == NULL) { viol("fail", "malloc(%zu) returned NULL", size); return; }
  int live = 0;
  for (int i = 0; i < PC_L; i++) if (slots[i].p != NULL) {
    live++;
    if (p < slots[i].p + slots[i].size && slots[i].p < p + size) { viol("overlap", "malloc(%zu)=%p overlaps live slot %d [%p,+%zu) of t%d", size, p, i, slots[i].p, slots[i].size, slots[i].owner); break; }
  }
  if (live + 1 > pc_live_max) pc_live_max = live + 1;
  for (size_t i = 0; i < size; i++) if (pc_touch(i, size)) p[i] = pat(seed, i);
  slots[s].p = p; slots[s].size = size; slots[s].seed = seed; slots[s].owner = cur; slots[s].heapk = 0;
}
static void pc_free(int s) {                 // the caller has seen slots[s].p != NULL; no scheduling point since
  pc_check_block(s, "before free");
  uint8_t* p = slots[s].p; slots[s].p = NULL;
  int ow = slots[s].owner;
  if (ow == cur) pc_local++; else pc_remote++;
  if (ow != cur) pc_inflight[ow]++;
  mi_free(p);
  if (ow != cur) pc_inflight[ow]--;
}
static void pc_producer(void) {
  long rounds = (long)nops * PC_ROUNDS_PER_OP;
  for (long k = 0; k < rounds; ) {
    int s = -1, start = (int)prng_below(&GP, PC_L);
    for (int j = 0; j < PC_L && s < 0; j++) { int q = (start + j) % PC_L; if (q % pc_nprod == cur && slots[q].p == NULL) s = q; }
    if (s < 0) { pc_waits++; verif_pre(VOP_YIELD, NULL); continue; }      // all my slots are filled: wait for a consumer
    pc_alloc(s); k++; pc_allocs[cur]++; vts[cur].ops_done++;
    pc_check("after malloc in", k);
    if (pc_collect_every > 0 && k % pc_collect_every == 0) { mi_collect(false); pc_collects++; pc_check("after mi_collect(false) in", k); }
    if (prng_below(&GP, 10) == 0) {                                       // a local free now and then
      int q = (int)prng_below(&GP, PC_L);
      if (q % pc_nprod == cur && slots[q].p != NULL) pc_free(q);
    }
  }
  pc_done++;
}
static void pc_consumer(void) {
  for (;;) {
    int s = -1, start = (int)prng_below(&GP, PC_L);
    // the first quarter of the slots holds long-lived blocks: a consumer passes them over 63 times out of 64
    for (int j = 0; j < PC_L && s < 0; j++) { int q = (start + j) % PC_L; if (slots[q].p != NULL && (q >= PC_L / 4 || pc_done >= pc_nprod || prng_below(&GP, 64) == 0)) s = q; }
    if (s < 0) { if (pc_done >= pc_nprod) { int any = 0; for (int q = 0; q < PC_L; q++) any |= (slots[q].p != NULL); if (!any) break; } verif_pre(VOP_YIELD, NULL); continue; }
    pc_free(s); vts[cur].ops_done++;
    if (prng_below(&GP, 4) == 0) verif_pre(VOP_YIELD, NULL);
  }
}
static void pc_program(void) {
  if (cur < pc_nprod) pc_producer(); else pc_consumer();
  barrier(1);                               // every block has been freed
  if (cur < pc_nprod) {
    pc_check("at the end, after", pc_allocs[cur]);
    size_t endpages = heap_pages(mi_prim_get_default_heap()), full = 0, stale = 0;
    for (mi_page_t* pg = mi_prim_get_default_heap()->pages[MI_BIN_FULL].first; pg != NULL; pg = pg->next) { full++; if (mi_page_thread_free(pg) != NULL) stale++; }
    mi_collect(true);
    mi_heap_t* h = mi_prim_get_default_heap();
    if (cur != 0 && heap_pages(h) != 0) {
      size_t used = 0; for (size_t b = 0; b <= MI_BIN_FULL; b++) for (mi_page_t* pg = h->pages[b].first; pg; pg = pg->next) used += pg->used;
      viol("lost", "after all blocks were freed and the owner collected, its heap still holds %zu pages (%zu blocks counted as used)", heap_pages(h), used);
    }
    printf("O prodcons t%d allocs=%ld max_pages=%zu max_segments=%zu max_unreclaimed=%zu bound_pages=%zu bound_unreclaimed=%zu live_max=%d collects=%ld end_pages=%zu end_full=%zu end_full_with_tf=%zu\n", cur, pc_allocs[cur], pc_max_pages[cur], pc_max_segments[cur], pc_max_pending[cur], pc_bound, pc_bound_blocks, pc_live_max, pc_collects, endpages, full, stale);
  }
  barrier(2);
}
static void pc_init(void) {
  pc_nprod = nthreads >= 4 ? 2 : 1;
  PC_L = 16 * pc_nprod;
  max_steps = 30000000;
  pc_collect_every = (((pc_seed >> 2) & 3) == 3) ? 16 : 0;
  if (pc_collect_every > 0) pc_drain = pc_collect_every;
  pc_bound_blocks = (size_t)(PC_L + nthreads + 2 * pc_drain);
  pc_bound = (size_t)(2 * (PC_L + nthreads) + 2 * pc_drain + PC_NCLASS);
}
