// Determinism helpers shared by the scheduler harnesses (s_conc.c, s_arena.c): everything the allocator can observe
// from outside is a function of the seed.  Compile with -Dsyscall=verif_syscall (tools/conc.py HOOK_FLAGS); include
// AFTER REPO_STATIC.  The virtual clock (verif_clock_gettime, -Dclock_gettime=...) is defined by each harness.
#pragma once
#include <stdarg.h>
#include <stdint.h>
#include <stdlib.h>
#include <unistd.h>
#include <sys/syscall.h>
#include <sys/personality.h>
#undef syscall
extern long syscall(long nr, ...);
long verif_syscall(long nr, ...) {                                // getrandom is served from a fixed stream
  va_list ap; va_start(ap, nr);
  long a0 = va_arg(ap, long), a1 = va_arg(ap, long), a2 = va_arg(ap, long), a3 = va_arg(ap, long), a4 = va_arg(ap, long), a5 = va_arg(ap, long);
  va_end(ap);
#ifdef SYS_getrandom
  if (nr == SYS_getrandom) { static uint64_t x = 0x243F6A8885A308D3ull; uint8_t* b = (uint8_t*)a0; for (long i = 0; i < a1; i++) { x = x * 6364136223846793005ull + 1442695040888963407ull; b[i] = (uint8_t)(x >> 56); } return a1; }
#endif
  return syscall(nr, a0, a1, a2, a3, a4, a5);
}
// fixed mmap addresses: re-execute without address-space randomisation (call first thing in main)
static void verif_no_aslr(char** argv) {
  if (!(personality(0xffffffff) & ADDR_NO_RANDOMIZE) && !getenv("VERIF_NO_REEXEC")) {
    personality(personality(0xffffffff) | ADDR_NO_RANDOMIZE); setenv("VERIF_NO_REEXEC", "1", 1); execv("/proc/self/exe", argv);
  }
}
