/* Property C19, C half: an ordinary C program (no mimalloc header, not linked with mimalloc, see
   t_override_common.h) that obtains memory through EVERY C allocation entry point of Linux/glibc and
   releases / resizes / queries it through every other one.

   usage: t_override <first pair index> <thorough 0|1> [sym=mi_target ...]
   Compile with -O0 -fno-builtin so that every call really goes through the PLT. */
#include "t_override_common.h"

/* cfree was removed from glibc 2.26; the library still exports it, so call it if the linker finds it */
typedef void (*cfree_t)(void*);
static cfree_t P_cfree;
#ifdef STATIC_OVERRIDE
extern void cfree(void*) __attribute__((weak));
#endif

/* ---------------------------------------------------------------------------------------------- */
/* allocating entry points                                                                          */
/* ---------------------------------------------------------------------------------------------- */
enum { A_MALLOC, A_CALLOC, A_REALLOC_NULL, A_REALLOC_GROW, A_REALLOCARRAY_NULL, A_POSIX_MEMALIGN,
       A_ALIGNED_ALLOC, A_MEMALIGN, A_VALLOC, A_PVALLOC, A_STRDUP, A_STRNDUP, A_REALPATH, A_ASPRINTF,
       A_GETCWD, A_COUNT };
static const char* a_name[A_COUNT] = { "malloc", "calloc", "realloc(NULL)", "realloc(grow)", "reallocarray(NULL)",
       "posix_memalign", "aligned_alloc", "memalign", "valloc", "pvalloc", "strdup", "strndup", "realpath",
       "asprintf", "getcwd" };
static int a_takes_align(int a) { return a == A_POSIX_MEMALIGN || a == A_ALIGNED_ALLOC || a == A_MEMALIGN; }
static int a_is_text(int a) { return a == A_STRDUP || a == A_STRNDUP || a == A_REALPATH || a == A_ASPRINTF || a == A_GETCWD; }
static int a_size_free(int a) { return a == A_REALPATH || a == A_GETCWD; }   /* result size not chosen by us */

static char* text_of_len(size_t n) {   /* n characters + NUL, on the stack-free side: static buffer */
  static char* buf = NULL; static size_t cap = 0;
  if (n + 1 > cap) { buf = (char*)realloc(buf, n + 1); cap = n + 1; }
  for (size_t i = 0; i < n; i++) buf[i] = (char)('a' + (i % 26));
  buf[n] = 0;
  return buf;
}

static block_t do_alloc(int a, size_t size, size_t align) {
  block_t b; memset(&b, 0, sizeof(b));
  b.req = size; b.align = 0; b.is_text = a_is_text(a);
  switch (a) {
    case A_MALLOC:  b.p = malloc(size); break;
    case A_CALLOC: {
      /* dirty a block of the same size first so that zero-fill is not an accident of fresh pages */
      void* d = malloc(size); if (d) { memset(d, 0xEE, size); free(d); }
      size_t n = (size % 3 == 0 && size >= 3) ? 3 : 1;
      b.p = calloc(n, size / n); b.zeroed = 1; break;
    }
    case A_REALLOC_NULL: b.p = realloc(NULL, size); break;
    case A_REALLOC_GROW: { void* q = malloc(size / 2 + 1); b.p = realloc(q, size); break; }
    case A_REALLOCARRAY_NULL: {
      size_t n = (size % 4 == 0 && size >= 4) ? 4 : 1;
      b.p = reallocarray(NULL, n, size / n); break;
    }
    case A_POSIX_MEMALIGN: { void* q = NULL; int rc = posix_memalign(&q, align, size); b.p = (rc == 0 ? q : NULL); b.align = align; break; }
    case A_ALIGNED_ALLOC: b.p = aligned_alloc(align, size); b.align = align; break;
    case A_MEMALIGN: b.p = memalign(align, size); b.align = align; break;
    case A_VALLOC: b.p = valloc(size); b.align = page_size(); break;
    case A_PVALLOC: b.p = pvalloc(size); b.align = page_size();
                    b.req = (size + page_size() - 1) / page_size() * page_size(); break;   /* rounded up to a page */
    case A_STRDUP: { char* s = text_of_len(size > 0 ? size - 1 : 0); b.p = strdup(s); b.req = strlen(s) + 1; break; }
    case A_STRNDUP: { char* s = text_of_len(2 * size + 3); size_t n = (size > 0 ? size - 1 : 0);
                      b.p = strndup(s, n); b.req = n + 1; break; }
    case A_REALPATH: { b.p = realpath("/proc/self/../self/exe", NULL); if (b.p) b.req = strlen((char*)b.p) + 1; break; }
    case A_ASPRINTF: { char* s = NULL; char* src = text_of_len(size > 0 ? size - 1 : 0);
                       int n = asprintf(&s, "%s", src); b.p = (n >= 0 ? s : NULL); b.req = (n >= 0 ? (size_t)n + 1 : 0); break; }
    case A_GETCWD: { b.p = getcwd(NULL, 0); if (b.p) b.req = strlen((char*)b.p) + 1; break; }
  }
  return b;
}

/* entry-point specific promises on top of check_block */
static const char* check_alloc_specific(int a, const block_t* b, size_t size) {
  if (b->zeroed) {
    const unsigned char* c = (const unsigned char*)b->p;
    for (size_t i = 0; i < b->req; i++) if (c[i] != 0) return "calloc-not-zero-filled";
  }
  if (a == A_STRDUP) { if (strcmp((char*)b->p, text_of_len(size > 0 ? size - 1 : 0)) != 0) return "strdup-contents"; }
  if (a == A_STRNDUP) {
    size_t n = (size > 0 ? size - 1 : 0);
    if (strlen((char*)b->p) != n || strncmp((char*)b->p, text_of_len(2 * size + 3), n) != 0) return "strndup-contents";
  }
  if (a == A_REALPATH) { char buf[PATH_MAX]; if (!realpath("/proc/self/exe", buf) || strcmp(buf, (char*)b->p) != 0) return "realpath-contents"; }
  return "ok";
}

/* ---------------------------------------------------------------------------------------------- */
/* releasing / resizing / querying entry points                                                     */
/* ---------------------------------------------------------------------------------------------- */
enum { C_FREE, C_REALLOC_GROW, C_REALLOC_SHRINK, C_REALLOCARRAY, C_USABLE_THEN_FREE, C_CFREE, C_COUNT };
static const char* c_name[C_COUNT] = { "free", "realloc(grow)", "realloc(shrink)", "reallocarray", "malloc_usable_size", "cfree" };

/* never hand a pointer that is not mimalloc's to mimalloc (or the reverse): it would crash the oracle */
static long long usable_or_minus1(void* r) { return (r != NULL && P_in_heap(r)) ? (long long)P_usable(r) : -1; }
static void release(void* r) { if (r != NULL && P_in_heap(r)) free(r); }

static char* text_copy = NULL;    /* copy of a text block taken before it is resized */

static const char* check_resized(const block_t* b, void* q, size_t newsize) {
  if (q == NULL) return "resize-returned-null";
  if (!P_in_heap(q)) return "resized-block-not-in-mimalloc-heap-region";
  if (malloc_usable_size(q) != P_usable(q)) return "malloc_usable_size-differs-from-mi_usable_size-after-resize";
  if (P_usable(q) < newsize) return "usable-size-below-request-after-resize";
  size_t keep = (b->req < newsize ? b->req : newsize);
  if (b->is_text) { if (keep > 0 && text_copy != NULL && memcmp(q, text_copy, keep) != 0) return "contents-lost-in-resize"; }
  else if (!block_intact(b, q, keep)) return "contents-lost-in-resize";
  return "ok";
}

static const char* do_consume(int c, block_t* b) {
  switch (c) {
    case C_FREE: free(b->p); return "ok";
    case C_REALLOC_GROW: {
      size_t ns = 2 * b->req + 17; void* q = realloc(b->p, ns);
      const char* w = check_resized(b, q, ns); release(q); return w;
    }
    case C_REALLOC_SHRINK: {
      size_t ns = b->req / 2 + 1; void* q = realloc(b->p, ns);
      const char* w = check_resized(b, q, ns); release(q); return w;
    }
    case C_REALLOCARRAY: {
      size_t ns = 3 * (b->req + 1); void* q = reallocarray(b->p, 3, b->req + 1);
      const char* w = check_resized(b, q, ns); release(q); return w;
    }
    case C_USABLE_THEN_FREE: {
      size_t u = malloc_usable_size(b->p);
      const char* w = (u == P_usable(b->p) && u >= b->req) ? "ok" : "malloc_usable_size-wrong";
      /* the usable size really is usable */
      if (!b->is_text) { memset(b->p, 0x5A, u); }
      free(b->p); return w;
    }
    case C_CFREE: P_cfree(b->p); return "ok";
  }
  return "unknown-consumer";
}

/* ---------------------------------------------------------------------------------------------- */
/* documented return values                                                                         */
/* ---------------------------------------------------------------------------------------------- */
static void return_codes(void) {
  void* sentinel = (void*)(uintptr_t)0x5151;
  void* q;
  /* posix_memalign: EINVAL for an alignment that is not a power of two multiple of sizeof(void*); the
     result slot is left alone on error (alloc-posix.c l.55-67) */
  static const size_t bad_align[] = { 0, 1, 2, 3, 4, 7, 12, 24, 100, 4097 };
  for (size_t i = 0; i < sizeof(bad_align) / sizeof(bad_align[0]); i++) {
    q = sentinel; errno = 0;
    int rc = posix_memalign(&q, bad_align[i], 64);
    char nm[64]; snprintf(nm, sizeof(nm), "posix_memalign(align=%zu)->EINVAL", bad_align[i]);
    code(nm, rc == EINVAL, rc, EINVAL);
    snprintf(nm, sizeof(nm), "posix_memalign(align=%zu)-slot-untouched", bad_align[i]);
    code(nm, q == sentinel, (long long)(uintptr_t)q, 0x5151);
    if (rc == 0 && q != sentinel && P_in_heap(q)) free(q);
  }
  checkpoint("posix_memalign(huge)");
  q = sentinel;
  int rc = posix_memalign(&q, 64, SIZE_MAX / 2);
  code("posix_memalign(huge)->ENOMEM", rc == ENOMEM, rc, ENOMEM);
  code("posix_memalign(huge)-slot-untouched", q == sentinel, (long long)(uintptr_t)q, 0x5151);
  q = sentinel;
  rc = posix_memalign(&q, 8, 0);      /* size 0: success, a unique pointer or NULL */
  code("posix_memalign(size=0)->0", rc == 0, rc, 0);
  if (rc == 0 && q != NULL && q != sentinel) { code("posix_memalign(size=0)-in-heap", P_in_heap(q), 0, 1); release(q); }

  /* reallocarray: overflow of count*size -> NULL and errno = ENOMEM, the old block stays valid */
  checkpoint("reallocarray(overflow)");
  errno = 0;
  void* r = reallocarray(NULL, SIZE_MAX / 2, 4);
  code("reallocarray(NULL,overflow)->NULL", r == NULL, r != NULL, 0);
  code("reallocarray(NULL,overflow)-errno", errno == ENOMEM, errno, ENOMEM);
  unsigned char* old = (unsigned char*)malloc(100);
  if (old == NULL || !P_in_heap(old)) { code("malloc(100)-in-heap", 0, 0, 1); return; }
  memset(old, 0x77, 100);
  errno = 0;
  r = reallocarray(old, (size_t)1 << 33, (size_t)1 << 33);
  code("reallocarray(p,overflow)->NULL", r == NULL, r != NULL, 0);
  code("reallocarray(p,overflow)-errno", errno == ENOMEM, errno, ENOMEM);
  int intact = 1; for (int i = 0; i < 100; i++) if (old[i] != 0x77) intact = 0;
  code("reallocarray(p,overflow)-old-block-intact", intact && P_in_heap(old), intact, 1);
  if (r != NULL) { release(r); old = (unsigned char*)malloc(100); }   /* went wrong: continue with a fresh block */
  errno = 0;
  r = reallocarray(old, 1, SIZE_MAX / 2);   /* no overflow, but cannot be satisfied */
  code("reallocarray(p,huge)->NULL", r == NULL, r != NULL, 0);
  code("reallocarray(p,huge)-errno", errno == ENOMEM, errno, ENOMEM);
  if (r == NULL) free(old); else release(r);
  /* a multiplication that does not overflow is carried out: 7 * 9 bytes */
  r = reallocarray(NULL, 7, 9);
  code("reallocarray(NULL,7,9)-usable>=63", usable_or_minus1(r) >= 63, usable_or_minus1(r), 63);
  release(r);

  /* ISO C: NULL on failure / overflow */
  checkpoint("NULL-on-failure");
  r = malloc(SIZE_MAX / 2);           code("malloc(huge)->NULL", r == NULL, r != NULL, 0);
  r = calloc(SIZE_MAX / 2, 4);        code("calloc(overflow)->NULL", r == NULL, r != NULL, 0);
  r = calloc((size_t)1 << 32, (size_t)1 << 32); code("calloc(2^32,2^32)->NULL", r == NULL, r != NULL, 0);
  old = (unsigned char*)malloc(10); memset(old, 0x33, 10);
  r = realloc(old, SIZE_MAX / 2);     code("realloc(p,huge)->NULL", r == NULL, r != NULL, 0);
  if (r == NULL) { code("realloc(p,huge)-old-block-intact", old[0] == 0x33 && old[9] == 0x33, old[0], 0x33); free(old); }
  r = aligned_alloc(3, 30);           code("aligned_alloc(align=3)->NULL", r == NULL, r != NULL, 0);
  r = aligned_alloc(64, SIZE_MAX / 2); code("aligned_alloc(huge)->NULL", r == NULL, r != NULL, 0);
  r = memalign(64, SIZE_MAX / 2);     code("memalign(huge)->NULL", r == NULL, r != NULL, 0);
  r = valloc(SIZE_MAX / 2);           code("valloc(huge)->NULL", r == NULL, r != NULL, 0);
  r = pvalloc(SIZE_MAX - 5);          code("pvalloc(SIZE_MAX-5)->NULL", r == NULL, r != NULL, 0);
  /* null / zero conventions */
  checkpoint("null-and-zero-conventions");
  free(NULL);                          code("free(NULL)", 1, 0, 0);
  code("malloc_usable_size(NULL)==0", malloc_usable_size(NULL) == 0, (long long)malloc_usable_size(NULL), 0);
  r = malloc(0);
  if (r != NULL) { code("malloc(0)-in-heap", P_in_heap(r), 0, 1); void* r2 = malloc(0); code("malloc(0)-unique", r2 != r, 0, 1); release(r2); release(r); }
  r = calloc(0, 0); if (r != NULL) { code("calloc(0,0)-in-heap", P_in_heap(r), 0, 1); release(r); }
  /* pvalloc rounds the size up to whole pages */
  r = pvalloc(1);
  code("pvalloc(1)-usable>=page", usable_or_minus1(r) >= (long long)page_size(), usable_or_minus1(r), (long long)page_size());
  release(r);
  r = pvalloc(page_size() + 1);
  code("pvalloc(page+1)-usable>=2pages", usable_or_minus1(r) >= (long long)(2 * page_size()), usable_or_minus1(r), (long long)(2 * page_size()));
  release(r);
  /* strdup family */
  checkpoint("strdup-family");
  char* s = strndup("abcdef", 3); code("strndup(abcdef,3)=abc", s && strcmp(s, "abc") == 0, s ? (long long)strlen(s) : -1, 3); release(s);
  s = strndup("ab", 10);          code("strndup(ab,10)=ab", s && strcmp(s, "ab") == 0, s ? (long long)strlen(s) : -1, 2); release(s);
  s = strdup("");                 code("strdup(empty)", s && s[0] == 0 && P_in_heap(s), 0, 0); release(s);
  s = realpath("/nonexistent/x", NULL); code("realpath(missing)->NULL", s == NULL, s != NULL, 0);
}

int main(int argc, char** argv) {
  setvbuf(stdout, NULL, _IOLBF, 0);
  long first = (argc > 1 ? atol(argv[1]) : 0);
  int thorough = (argc > 2 ? atoi(argv[2]) : 0);
  long last = (getenv("T_OVERRIDE_LAST") ? atol(getenv("T_OVERRIDE_LAST")) : -1);   /* replay of one pair */
  if (!probes_init()) { printf("END 0 1\n"); return 0; }
#ifdef STATIC_OVERRIDE
  P_cfree = (cfree_t)&cfree;          /* null when the object does not define it */
#else
  P_cfree = (cfree_t)dlsym(RTLD_DEFAULT, "cfree");
#endif
  if (first == 0) resolve_symbols(argc, argv, 3);
  if (first == 0 && !getenv("T_OVERRIDE_SKIP_CODES")) {
    checkpoint("return-codes");
    return_codes();
    checkpoint("done");
  }
  static const size_t sizes_q[] = { 1, 8, 24, 100, 1000, 4096, 9000, 70000, 140000, 3000000 };
  static const size_t sizes_t[] = { 1, 2, 7, 8, 9, 16, 24, 48, 100, 511, 1000, 1024, 4096, 8192, 9000, 65536, 70000,
                                    131072, 140000, 1000000, 3000000, 20000000 };
  static const size_t aligns_q[] = { 8, 16, 64, 4096, 65536 };
  static const size_t aligns_t[] = { 8, 16, 32, 64, 256, 4096, 65536, (size_t)1 << 21, (size_t)1 << 24, (size_t)1 << 26 };
  const size_t* sizes = thorough ? sizes_t : sizes_q;
  size_t nsizes = thorough ? sizeof(sizes_t) / sizeof(size_t) : sizeof(sizes_q) / sizeof(size_t);
  const size_t* aligns = thorough ? aligns_t : aligns_q;
  size_t naligns = thorough ? sizeof(aligns_t) / sizeof(size_t) : sizeof(aligns_q) / sizeof(size_t);

  long idx = 0;
  for (int a = 0; a < A_COUNT; a++) {
    for (int c = 0; c < C_COUNT; c++) {
      if (c == C_CFREE && P_cfree == NULL) continue;
      for (size_t si = 0; si < nsizes; si++) {
        if (a_size_free(a) && si > 0) break;
        size_t na = a_takes_align(a) ? naligns : 1;
        for (size_t ai = 0; ai < na; ai++, idx++) {
          if (idx < first || (last >= 0 && idx > last)) continue;
          size_t size = sizes[si], align = a_takes_align(a) ? aligns[ai] : 0;
          if (a == A_ALIGNED_ALLOC && size % align != 0) size = (size + align - 1) / align * align;   /* C11: multiple of the alignment */
          printf("B %ld %s %s size=%zu align=%zu\n", idx, a_name[a], c_name[c], size, align);
          block_t b = do_alloc(a, size, align);
          const char* why = check_block(&b);
          if (strcmp(why, "ok") == 0) why = check_alloc_specific(a, &b, size);
          rec_alloc(a_name[a], size, align, why);
          if (strcmp(why, "ok") != 0) {
            /* do not hand a pointer that is not ours to the consuming entry point: it is leaked */
            rec_pair(a_name[a], c_name[c], size, align, "skipped-allocation-failed-its-checks");
            continue;
          }
          fill_block(&b, (unsigned char)(0xA5 ^ (idx & 0x7f)));
          if (b.is_text) { free(text_copy); text_copy = (char*)malloc(b.req); if (text_copy) memcpy(text_copy, b.p, b.req); }
          rec_pair(a_name[a], c_name[c], size, align, do_consume(c, &b));
        }
      }
    }
  }
  printf("END %ld %ld\n", n_pairs, n_fail);
  leave_buffered_stream(n_pairs);
  return 0;
}
