// Correspondence harness (F) for the arithmetic model (C16, also used by C03/C06/C12).
// Includes the whole allocator as one TU so that every static/inline function is the real one.
// Prints "F <fn> <args> = <results>" records which ocaml/replay.ml compares with the Coq model,
// and "T ..." records checked by tools/check directly (implementation-side oracle).
#include REPO_STATIC
#include <stdio.h>
#include <inttypes.h>
#include "prng.h"

#define U(x) ((unsigned long long)(x))

static void rec_size(size_t s) {
  printf("F bin %llu = %llu\n", U(s), U(mi_bin(s)));
  printf("F good_size %llu = %llu\n", U(s), U(mi_good_size(s)));
  printf("F wsize %llu = %llu\n", U(s), U(_mi_wsize_from_size(s)));
  // implementation-side oracle record: size, bin, bin size, good size, good size of good size, bin of size+1
  size_t b = mi_bin(s), g = mi_good_size(s);
  printf("T size %llu %llu %llu %llu %llu %llu\n", U(s), U(b), U(_mi_bin_size(b)), U(g), U(g <= SIZE_MAX - 8 ? mi_good_size(g) : g),
         U(s < SIZE_MAX - 8 ? mi_bin(s + 1) : b));
}

static void rec_align(size_t x, size_t a) {
  if (a == 0) return;
  printf("F align_up %llu %llu = %llu\n", U(x), U(a), U(_mi_align_up(x, a)));
  printf("F align_down %llu %llu = %llu\n", U(x), U(a), U(_mi_align_down(x, a)));
  printf("F divide_up %llu %llu = %llu\n", U(x), U(a), U(_mi_divide_up(x, a)));
}

static void rec_mul(size_t c, size_t s) {
  size_t t = 0; bool o = mi_mul_overflow(c, s, &t);
  printf("F mul_overflow %llu %llu = %d %llu\n", U(c), U(s), o ? 1 : 0, U(t));
  size_t t2 = 0; bool o2 = mi_count_size_overflow(c, s, &t2);
  printf("F count_size_overflow %llu %llu = %d %llu\n", U(c), U(s), o2 ? 1 : 0, U(t2));
}

static void rec_bits(size_t x) {
  printf("F clz %llu = %llu\n", U(x), U(mi_clz(x)));
  printf("F ctz %llu = %llu\n", U(x), U(mi_ctz(x)));
  printf("F bsr %llu = %llu\n", U(x), U(mi_bsr(x)));
  printf("F is_pow2 %llu = %d\n", U(x), _mi_is_power_of_two(x) ? 1 : 0);
}

static void rec_fastdiv(size_t d, size_t n) {
  uint64_t magic; size_t shift;
  mi_get_fast_divisor(d, &magic, &shift);
  printf("F fast_divisor %llu = %llu %llu\n", U(d), U(magic), U(shift));
  printf("F fast_divide %llu %llu %llu = %llu\n", U(n), U(magic), U(shift), U(mi_fast_divide(n, magic, shift)));
  // implementation-side oracle: the result must be the true quotient
  printf("T fastdiv %llu %llu %llu %llu\n", U(n), U(d), U(mi_fast_divide(n, magic, shift)), U(n / d));
}

// G records: functions translated by tools/c2gallina.py that have no F record (compared with the generated
// Gallina function by ocaml/mode_gen.ml; the name is the C function's)
static void rec_gen_misc(prng_t* g, int nrand) {
  for (int i = 0; i < nrand / 8; i++) {
    size_t a = prng_sized(g), lo = prng_sized(g), hi = prng_sized(g);
    printf("G _mi_clamp %llu %llu %llu = %llu\n", U(a), U(lo), U(hi), U(_mi_clamp(a, lo, hi)));
    size_t idx = prng_below(g, (size_t)1 << (i % 50)), bit = prng_below(g, MI_BITMAP_FIELD_BITS);
    mi_bitmap_index_t bi = mi_bitmap_index_create(idx, bit);
    printf("G mi_bitmap_index_create %llu %llu = %llu\n", U(idx), U(bit), U(bi));
    printf("G mi_bitmap_index_create_ex %llu %llu = %llu\n", U(idx), U(bit), U(mi_bitmap_index_create_ex(idx, bit)));
    printf("G mi_bitmap_index_create_from_bit %llu = %llu\n", U(a), U(mi_bitmap_index_create_from_bit(a)));
    printf("G mi_bitmap_index_field %llu = %llu\n", U(a), U(mi_bitmap_index_field(a)));
    printf("G mi_bitmap_index_bit_in_field %llu = %llu\n", U(a), U(mi_bitmap_index_bit_in_field(a)));
    printf("G mi_bitmap_index_bit %llu = %llu\n", U(a), U(mi_bitmap_index_bit(a)));
    size_t req = (i % 4 == 0 ? 0 : prng_below(g, (size_t)1 << (i % 46)));
    size_t info = 0, ns = mi_segment_calculate_slices(req, &info);
    printf("G mi_segment_calculate_slices %llu = %llu %llu\n", U(req), U(ns), U(info));
  }
  // arena ids (int) and arena block arithmetic; signed values are printed as their 64-bit two's complement
  for (int i = 0; i < nrand / 8; i++) {
    int id = (i < 300 ? i - 100 : (int)prng_next(g));
    int req = (i % 3 == 0 ? 0 : i % 3 == 1 ? id : (int)prng_below(g, 140));
    if (id < INT32_MAX) printf("G mi_arena_id_index %llu = %llu\n", U((long long)id), U(mi_arena_id_index(id)));
    size_t ai = prng_below(g, MI_MAX_ARENAS);
    printf("G mi_arena_id_create %llu = %llu\n", U(ai), U((long long)mi_arena_id_create(ai)));
    printf("G mi_arena_id_is_suitable %llu %d %llu = %d\n", U((long long)id), i % 2, U((long long)req), mi_arena_id_is_suitable(id, i % 2, req) ? 1 : 0);
    size_t sz = prng_sized(g);
    printf("G mi_block_count_of_size %llu = %llu\n", U(sz), U(mi_block_count_of_size(sz)));
    printf("G mi_arena_block_size %llu = %llu\n", U(sz), U(mi_arena_block_size(sz)));
  }
  printf("G _mi_arena_id_none = %llu\n", U((long long)_mi_arena_id_none()));
  // mi_bitmap_mask_: every (count, bitidx) with count + bitidx <= 64 (its contract), count 0 and >= 64 included
  for (size_t count = 0; count <= MI_BITMAP_FIELD_BITS + 1; count++)
    for (size_t bitidx = 0; bitidx + count <= MI_BITMAP_FIELD_BITS || (count > MI_BITMAP_FIELD_BITS && bitidx == 0); bitidx++)
      printf("G mi_bitmap_mask_ %llu %llu = %llu\n", U(count), U(bitidx), U(mi_bitmap_mask_(count, bitidx)));
  for (size_t c = 0; c <= MI_SLICES_PER_SEGMENT; c++) printf("G mi_slice_bin %llu = %llu\n", U(c), U(mi_slice_bin(c)));
}

// address arithmetic on a real block
static void rec_block(void* p, size_t req, prng_t* g, int noffs) {
  mi_segment_t* seg = _mi_ptr_segment(p);
  mi_page_t* page = _mi_segment_page_of(seg, p);
  size_t bs = mi_page_block_size(page);
  uint8_t* ps = mi_page_start(page);
  printf("F ptr_segment %llu = %llu\n", U(p), U(seg));
  printf("F block_size_shift %llu = %llu\n", U(bs), U(page->block_size_shift));
  size_t idx = (mi_slice_t*)page - seg->slices;
  size_t psize = 0;
  uint8_t* start = _mi_segment_page_start(seg, page, &psize);
  printf("F page_start %llu %llu %llu %llu = %llu %llu\n", U(seg), U(idx), U(page->slice_count), U(bs), U(start), U(psize));
  printf("T page_start_field %llu %llu\n", U(start), U(ps));
  size_t usable = mi_usable_size(p);
  printf("T usable %llu %llu %llu %llu\n", U(req), U(usable), U(bs), U(mi_good_size(req)));
  // all blocks of this page that we probe: the block itself, first, last reserved, random ones
  size_t nblocks = page->reserved;
  for (int k = 0; k < noffs; k++) {
    size_t i = (k == 0 ? ((uint8_t*)p - ps) / bs : k == 1 ? 0 : k == 2 ? nblocks - 1 : prng_below(g, nblocks));
    size_t off = (k % 4 == 0 ? 0 : k % 4 == 1 ? bs - 1 : prng_below(g, bs));
    uint8_t* q = ps + i * bs + off;
    if (q >= (uint8_t*)seg + mi_segment_size(seg) && mi_segment_size(seg) <= MI_SEGMENT_SIZE) continue;
    mi_block_t* b = _mi_page_ptr_unalign(page, q);
    printf("F unalign %llu %llu %llu = %llu\n", U(ps), U(bs), U(q), U(b));
    printf("T unalign %llu %llu %llu %llu\n", U(ps + i * bs), U(b), U(i), U(off));
    // pointer -> segment -> slice index -> page, only meaningful inside the first MI_SEGMENT_SIZE
    // (or for the start of a huge block)
    if ((size_t)(q - (uint8_t*)seg) <= MI_SEGMENT_SIZE) {
      mi_segment_t* s2 = _mi_ptr_segment(q);
      printf("F ptr_segment %llu = %llu\n", U(q), U(s2));
      size_t sidx = ((size_t)(q - (uint8_t*)s2)) >> MI_SEGMENT_SLICE_SHIFT;
      printf("F slice_index_of %llu %llu = %llu\n", U(s2), U(q), U(sidx));
      // back-offsets exist for the first MI_MAX_SLICE_OFFSET_COUNT slices of a span only (interior
      // pointers handed out by the aligned entry points are at most MI_BLOCK_ALIGNMENT_MAX into a block)
      if (sidx - idx <= MI_MAX_SLICE_OFFSET_COUNT) {
        mi_page_t* pg2 = _mi_segment_page_of(s2, q);
        printf("T page_of %llu %llu %d\n", U(q), U(sidx), (pg2 == page && s2 == seg) ? 1 : 0);
      }
    }
  }
}

// boundary of the back-offsets: for a span longer than MI_MAX_SLICE_OFFSET_COUNT slices the lookup must still work for
// addresses in the slices at distance 1, MI_MAX_SLICE_OFFSET_COUNT-1 and MI_MAX_SLICE_OFFSET_COUNT from its first slice
static void rec_block_offsets(void* p) {
  mi_segment_t* seg = _mi_ptr_segment(p);
  mi_page_t* page = _mi_segment_page_of(seg, p);
  size_t idx = (mi_slice_t*)page - seg->slices;
  if (page->slice_count <= MI_MAX_SLICE_OFFSET_COUNT) return;
  const size_t ds[] = { 1, MI_MAX_SLICE_OFFSET_COUNT - 1, MI_MAX_SLICE_OFFSET_COUNT };
  for (int k = 0; k < 3; k++) {
    uint8_t* q = (uint8_t*)seg + (idx + ds[k]) * MI_SEGMENT_SLICE_SIZE + 8 * (size_t)k;
    if (q >= (uint8_t*)p + mi_usable_size(p)) continue;
    if ((size_t)(q - (uint8_t*)seg) > MI_SEGMENT_SIZE) continue;        // _mi_ptr_segment resolves the first MI_SEGMENT_SIZE bytes only
    mi_segment_t* s2 = _mi_ptr_segment(q);
    mi_page_t* pg2 = _mi_segment_page_of(s2, q);
    printf("T page_of %llu %llu %d\n", U(q), U(idx + ds[k]), (pg2 == page && s2 == seg) ? 1 : 0);
  }
}

int main(int argc, char** argv) {
  uint64_t seed = (argc > 1 ? strtoull(argv[1], NULL, 10) : 1);
  int thorough = (argc > 2 && atoi(argv[2]) > 0);
  prng_t g; prng_seed(&g, seed);

  // 1. exhaustive: all sizes 0 .. 2*MI_MEDIUM_OBJ_SIZE_MAX
  for (size_t s = 0; s <= 2 * MI_MEDIUM_OBJ_SIZE_MAX; s++) rec_size(s);
  for (size_t b = 0; b <= MI_BIN_FULL; b++) printf("F bin_size %llu = %llu\n", U(b), U(_mi_bin_size(b)));
  // 2. class boundaries up to SIZE_MAX-8: around every power of two and quarter step
  for (int e = 3; e < 64; e++) {
    for (int q = 0; q < 4; q++) {
      size_t base = ((size_t)1 << e) + (e >= 2 ? ((size_t)q << (e - 2)) : 0);
      for (int d = -9; d <= 9; d++) {
        size_t s = base + (size_t)d;
        if (s <= SIZE_MAX - 8) rec_size(s);
      }
    }
  }
  size_t specials[] = { PTRDIFF_MAX, (size_t)PTRDIFF_MAX + 1, (size_t)PTRDIFF_MAX - 1, MI_MAX_ALLOC_SIZE, MI_MAX_ALLOC_SIZE + 1,
                        MI_MAX_ALLOC_SIZE - 1, SIZE_MAX - 8, SIZE_MAX - 9, SIZE_MAX - 4096, MI_LARGE_OBJ_SIZE_MAX,
                        MI_LARGE_OBJ_SIZE_MAX + 1, MI_SEGMENT_SIZE, MI_SEGMENT_SIZE + 1 };
  for (size_t i = 0; i < sizeof(specials) / sizeof(specials[0]); i++) rec_size(specials[i]);
  int nrand = thorough ? 200000 : 20000;
  for (int i = 0; i < nrand; i++) {
    size_t s = prng_sized(&g);
    if (s <= SIZE_MAX - 8) rec_size(s);
    printf("F os_good_alloc_size %llu = %llu\n", U(s), U(_mi_os_good_alloc_size(s)));
  }
  // 3. span bins: all slice counts
  for (size_t c = 0; c <= MI_SLICES_PER_SEGMENT; c++) printf("F slice_bin %llu = %llu\n", U(c), U(mi_slice_bin8(c)));
  // 4. align / divide / bits / overflow multiply
  size_t aligns[] = { 1, 2, 3, 8, 16, 24, 48, 4096, 65536, 65537, MI_SEGMENT_SIZE, (size_t)1 << 40, (size_t)1 << 63, 1000003 };
  for (size_t i = 0; i < sizeof(aligns) / sizeof(aligns[0]); i++) {
    for (int k = 0; k < 200; k++) {
      size_t x = (k < 40 ? (size_t)k * aligns[i] / 7 : prng_sized(&g));
      rec_align(x, aligns[i]);
    }
    rec_align(SIZE_MAX, aligns[i]); rec_align(SIZE_MAX - aligns[i], aligns[i]); rec_align(0, aligns[i]);
  }
  for (int i = 0; i < nrand / 4; i++) { size_t a = prng_sized(&g); rec_align(prng_sized(&g), a); }
  for (int e = 0; e < 64; e++) { rec_bits((size_t)1 << e); rec_bits(((size_t)1 << e) - 1); rec_bits(((size_t)1 << e) + 1); rec_bits(((size_t)3 << e)); }
  for (int i = 0; i < nrand / 4; i++) rec_bits(prng_sized(&g));
  rec_bits(0); rec_bits(SIZE_MAX);
  {
    size_t vals[] = { 0, 1, 2, 3, 7, 8, 0xFFFFFFFFu, 0x100000000ull, 0x100000001ull, 0xFFFFFFFFFFFFFFFFull, 0x8000000000000000ull,
                      0x7FFFFFFFFFFFFFFFull, 0x5555555555555556ull, 0x5555555555555555ull, 0x3333333333333334ull };
    size_t nv = sizeof(vals) / sizeof(vals[0]);
    for (size_t i = 0; i < nv; i++) for (size_t j = 0; j < nv; j++) rec_mul(vals[i], vals[j]);
    for (int i = 0; i < nrand / 4; i++) {
      size_t c = prng_sized(&g), s = prng_sized(&g);
      rec_mul(c, s);
      if (s != 0) { rec_mul(SIZE_MAX / s, s); rec_mul(SIZE_MAX / s + 1, s); }
    }
  }
  { prng_t g2; prng_seed(&g2, seed ^ 0xC2600D5EEDull); rec_gen_misc(&g2, nrand); }   // own generator: the other sections keep their inputs
  // 5. fast division: every bin size and large block sizes, all interesting n
  for (size_t b = 1; b < MI_BIN_HUGE; b++) {
    size_t d = _mi_bin_size(b);
    if (d > MI_MEDIUM_OBJ_SIZE_MAX) break;
    for (int k = 0; k < 40; k++) {
      size_t n = (k == 0 ? 0 : k == 1 ? d - 1 : k == 2 ? d : k == 3 ? UINT32_MAX : k == 4 ? MI_MEDIUM_PAGE_SIZE : prng_below(&g, (size_t)UINT32_MAX + 1));
      rec_fastdiv(d, n);
    }
  }
  for (int i = 0; i < nrand / 2; i++) {
    size_t d = 1 + prng_below(&g, (i % 3 == 0) ? 70000 : UINT32_MAX);
    size_t n = (i % 5 == 0) ? (prng_below(&g, UINT32_MAX / d + 1) * d - (i % 2)) & 0xFFFFFFFFu : prng_below(&g, (size_t)UINT32_MAX + 1);
    rec_fastdiv(d, n);
  }
  rec_fastdiv(1, 0); rec_fastdiv(1, UINT32_MAX); rec_fastdiv(UINT32_MAX, UINT32_MAX); rec_fastdiv(UINT32_MAX, UINT32_MAX - 1);
  rec_fastdiv(0x80000000u, UINT32_MAX); rec_fastdiv(0x80000001u, UINT32_MAX);
  // 6. address arithmetic on real blocks of every bin, plus large and huge blocks
  //    (also checks mi_usable_size(mi_malloc(n)) == mi_good_size(n) for small and medium n)
  {
    enum { KEEP = 4096 };
    static void* keep[KEEP]; size_t nk = 0;
    size_t step = thorough ? 1 : 7;
    for (size_t s = 0; s <= MI_MEDIUM_OBJ_SIZE_MAX; s += (s < 1100 ? 1 : step)) {
      void* p = mi_malloc(s);
      if (p == NULL) { printf("T malloc_null %llu\n", U(s)); continue; }
      rec_block(p, s, &g, (s % 64 == 0 || s < 1100) ? 8 : 3);
      if (nk < KEEP && prng_below(&g, 8) == 0) keep[nk++] = p; else mi_free(p);
    }
    size_t big[] = { MI_MEDIUM_OBJ_SIZE_MAX + 1, 100000, 131072, 200000, 524288, 1000000, 1 << 20, (1 << 20) + 8, 3000000,
                     MI_LARGE_OBJ_SIZE_MAX - 8, MI_LARGE_OBJ_SIZE_MAX, MI_LARGE_OBJ_SIZE_MAX + 1, 20000000, MI_SEGMENT_SIZE,
                     MI_SEGMENT_SIZE + 1, 40000000, 70000000 };
    for (size_t i = 0; i < sizeof(big) / sizeof(big[0]); i++) {
      void* p = mi_malloc(big[i]);
      if (p == NULL) { printf("T malloc_null %llu\n", U(big[i])); continue; }
      rec_block(p, big[i], &g, 6);
      rec_block_offsets(p);
      mi_free(p);
    }
    for (int i = 0; i < (thorough ? 400 : 60); i++) {
      size_t s = MI_MEDIUM_OBJ_SIZE_MAX + 1 + prng_below(&g, 3 * MI_SEGMENT_SIZE);
      void* p = mi_malloc(s);
      if (p == NULL) continue;
      rec_block(p, s, &g, 6);
      rec_block_offsets(p);
      mi_free(p);
    }
    for (size_t i = 0; i < nk; i++) mi_free(keep[i]);
  }
  printf("END\n");
  return 0;
}
