// Hook header for the deterministic scheduler (included by /repo/include/mimalloc/atomic.h at the
// two MI_VERIF_HOOKS points when a harness is compiled with
//   -DMI_VERIF_HOOKS='"<verif>/harness/hooks.h"'  -DMI_PRIM_THREAD_ID=verif_tid ).
// Point 1: every mi_atomic(op)(...) becomes verif_atomic_op(...), which first asks the scheduler
//          (verif_pre: may switch to another virtual thread; for a weak CAS it may order a spurious
//          failure) and reports the outcome afterwards (verif_post) for the step log.
// Point 2: mi_atomic_yield and the mi_lock_* functions become scheduler aware.
#if MI_VERIF_HOOK_POINT == 1

#ifndef VERIF_HOOKS_DECL
#define VERIF_HOOKS_DECL
#include <stdint.h>
#include <stdbool.h>
enum { VOP_LOAD = 1, VOP_STORE, VOP_CASW, VOP_CASS, VOP_XCHG, VOP_ADD, VOP_SUB, VOP_AND, VOP_OR, VOP_YIELD, VOP_LOCK,
       VOP_LOCKB /* blocking acquire succeeded (verif_post only) */, VOP_UNLOCK /* lock released (verif_post only) */ };
int  verif_pre(int op, volatile void* p);                 // returns 1 when a weak CAS must fail spuriously
void verif_post(int op, volatile void* p, int ok, uintptr_t oldv);
uintptr_t verif_tid(void);
// operand of the fetch_and / fetch_or that is being reported (valid inside the verif_post call of that operation):
// `_mi_bitmap_unclaim` of a bit that is already clear leaves the word unchanged, so the target bit is only known from the operand
static uintptr_t verif_opnd __attribute__((unused));
#endif

#undef  mi_atomic
#define mi_atomic(name)  verif_atomic_##name
#define VERIF_RAW(p)     (*(volatile uintptr_t*)(p))

// NOTE: every macro evaluates its pointer argument exactly once (call sites such as
// `mi_atomic_and_acq_rel(field++, ~mask)` in bitmap.c have side effects in the argument).
#define verif_atomic_load_explicit(p,mo) \
  ({ __typeof__(p) _p = (p); verif_pre(VOP_LOAD,(void*)_p); uintptr_t _o = VERIF_RAW(_p); __typeof__(atomic_load_explicit(_p,mo)) _v = atomic_load_explicit(_p,mo); verif_post(VOP_LOAD,(void*)_p,1,_o); _v; })
#define verif_atomic_store_explicit(p,x,mo) \
  ({ __typeof__(p) _p = (p); verif_pre(VOP_STORE,(void*)_p); uintptr_t _o = VERIF_RAW(_p); atomic_store_explicit(_p,x,mo); verif_post(VOP_STORE,(void*)_p,1,_o); })
#define verif_atomic_exchange_explicit(p,x,mo) \
  ({ __typeof__(p) _p = (p); verif_pre(VOP_XCHG,(void*)_p); uintptr_t _o = VERIF_RAW(_p); __typeof__(atomic_exchange_explicit(_p,x,mo)) _v = atomic_exchange_explicit(_p,x,mo); verif_post(VOP_XCHG,(void*)_p,1,_o); _v; })
#define verif_atomic_compare_exchange_weak_explicit(p,e,d,ms,mf) \
  ({ __typeof__(p) _p = (p); __typeof__(e) _e = (e); int _sp = verif_pre(VOP_CASW,(void*)_p); uintptr_t _o = VERIF_RAW(_p); bool _r; \
     if (_sp) { *_e = atomic_load_explicit(_p,mf); _r = false; } else { _r = atomic_compare_exchange_strong_explicit(_p,_e,d,ms,mf); } \
     verif_post(VOP_CASW,(void*)_p,_r ? 1 : (_sp ? 2 : 0),_o); _r; })
#define verif_atomic_compare_exchange_strong_explicit(p,e,d,ms,mf) \
  ({ __typeof__(p) _p = (p); __typeof__(e) _e = (e); verif_pre(VOP_CASS,(void*)_p); uintptr_t _o = VERIF_RAW(_p); bool _r = atomic_compare_exchange_strong_explicit(_p,_e,d,ms,mf); verif_post(VOP_CASS,(void*)_p,_r,_o); _r; })
#define verif_atomic_fetch_add_explicit(p,x,mo) \
  ({ __typeof__(p) _p = (p); verif_pre(VOP_ADD,(void*)_p); uintptr_t _o = VERIF_RAW(_p); __typeof__(atomic_fetch_add_explicit(_p,x,mo)) _v = atomic_fetch_add_explicit(_p,x,mo); verif_post(VOP_ADD,(void*)_p,1,_o); _v; })
#define verif_atomic_fetch_sub_explicit(p,x,mo) \
  ({ __typeof__(p) _p = (p); verif_pre(VOP_SUB,(void*)_p); uintptr_t _o = VERIF_RAW(_p); __typeof__(atomic_fetch_sub_explicit(_p,x,mo)) _v = atomic_fetch_sub_explicit(_p,x,mo); verif_post(VOP_SUB,(void*)_p,1,_o); _v; })
#define verif_atomic_fetch_and_explicit(p,x,mo) \
  ({ __typeof__(p) _p = (p); __typeof__(atomic_fetch_and_explicit(_p,x,mo)) _x = (x); verif_pre(VOP_AND,(void*)_p); uintptr_t _o = VERIF_RAW(_p); verif_opnd = (uintptr_t)_x; __typeof__(atomic_fetch_and_explicit(_p,x,mo)) _v = atomic_fetch_and_explicit(_p,_x,mo); verif_post(VOP_AND,(void*)_p,1,_o); _v; })
#define verif_atomic_fetch_or_explicit(p,x,mo) \
  ({ __typeof__(p) _p = (p); __typeof__(atomic_fetch_or_explicit(_p,x,mo)) _x = (x); verif_pre(VOP_OR,(void*)_p); uintptr_t _o = VERIF_RAW(_p); verif_opnd = (uintptr_t)_x; __typeof__(atomic_fetch_or_explicit(_p,x,mo)) _v = atomic_fetch_or_explicit(_p,_x,mo); verif_post(VOP_OR,(void*)_p,1,_o); _v; })

#elif MI_VERIF_HOOK_POINT == 2

#define mi_atomic_yield()        ((void)verif_pre(VOP_YIELD, NULL))
// cooperative virtual threads share one OS thread: a blocking pthread lock would dead-lock
// (the sequence of verif_pre calls -- the scheduling points -- is the same as before the lock events were reported:
//  try = one point; blocking acquire = one point per attempt + a yield after a failed attempt; release = no point)
static inline bool verif_lock_try(mi_lock_t* l)     { verif_pre(VOP_LOCK,(void*)l); bool ok = (pthread_mutex_trylock(l) == 0); verif_post(VOP_LOCK,(void*)l,ok ? 1 : 0,(uintptr_t)(ok ? 0 : 1)); return ok; }
static inline void verif_lock_acquire(mi_lock_t* l) { for (;;) { verif_pre(VOP_LOCK,(void*)l); if (pthread_mutex_trylock(l) == 0) break; verif_pre(VOP_YIELD, NULL); } verif_post(VOP_LOCKB,(void*)l,1,0); }
static inline void verif_lock_release(mi_lock_t* l) { pthread_mutex_unlock(l); verif_post(VOP_UNLOCK,(void*)l,1,1); }
#define mi_lock_try_acquire(l)   verif_lock_try(l)
#define mi_lock_acquire(l)       verif_lock_acquire(l)
#define mi_lock_release(l)       verif_lock_release(l)

#endif
