// C15: arena-bound heaps stay inside their arena; exclusive arenas stay private.
//
//   t_arena <seed> <thorough 0|1> [scenario]
//
// Every scenario runs in a forked child (fresh allocator state, crash isolation); the parent prints
// `T crash <scenario> <signal>` when a child dies.  Records:
//
//   F manage_region <start> <size> = <aligned start> <block_count>      (0 0: refused)   read back with mi_arena_area
//   F manage_inuse <start> <size> = <field_count> <last word of blocks_inuse right after the call>
//   F arena_id_index <id> = <index>
//   F arena_id_is_suitable <arena id> <exclusive> <req id> = <0|1>      static function called directly
//   F memid_is_suitable <memkind name> <arena id> <exclusive> <req id> = <0|1>
//   F heap_memid_is_suitable <heap arena id> <memkind name> <arena id> <exclusive> = <0|1>   on a real heap
//
//   T scenario <name> <seed>
//   T arena <scn> <id> <exclusive> <area start> <area size> <region start> <region size> <map start> <map size> <how>
//        how = managed | reserved | auto ; region = what was passed to mi_manage_os_memory_ex (or the area itself);
//        map = the whole mapping made by the harness around the region (head and tail slack), 0 0 otherwise
//   T alloc <scn> <phase> <heap label> <bound arena id or 0> <thread> <size> <ptr>
//   T null <scn> <phase> <heap label> <bound arena id or 0> <thread> <size>
//   T exhaust <scn> <arena id> <block_count> <successful allocations> <null seen 0|1>
//   T fallback <scn> <allocations of the default heap after all non-exclusive arenas are full> <nulls>
//   T count <scn> <name> <value>
//   T rss <scn> <max resident KiB of the scenario's process>
//   T end <scn>
//
// The oracle on the T records is in tools/props/C15.py.
#include REPO_STATIC
#include <stdio.h>
#include <errno.h>
#include <stdlib.h>
#include <string.h>
#include <inttypes.h>
#include <pthread.h>
#include <signal.h>
#include <sys/mman.h>
#include <sys/wait.h>
#include <sys/resource.h>
#include <sys/prctl.h>
#include <unistd.h>
#include "prng.h"

#define U(x) ((unsigned long long)(uintptr_t)(x))
#define BLK ((size_t)MI_ARENA_BLOCK_SIZE)
static prng_t G;
static const char* SCN = "?";
static int THOROUGH = 0;

// ------------------------------------------------------------------ arenas made by the harness
typedef struct { mi_arena_id_t id; int exclusive; uint8_t* region; size_t rsize; uint8_t* map; size_t msize; const char* how; } myarena_t;
static myarena_t MY[64]; static int NMY;

static uint8_t* map_noreserve(size_t size) {
  void* p = mmap(NULL, size, PROT_READ | PROT_WRITE, MAP_PRIVATE | MAP_ANONYMOUS | MAP_NORESERVE, -1, 0);
  if (p == MAP_FAILED) { fprintf(stderr, "mmap of %zu failed\n", size); exit(3); }
  return (uint8_t*)p;
}

static void f_manage_records(uint8_t* start, size_t size, bool ok, mi_arena_id_t id) {
  size_t asize = 0; void* astart = ok ? mi_arena_area(id, &asize) : NULL;
  printf("F manage_region %llu %zu = %llu %zu\n", U(start), size, U(astart), asize / BLK);
  if (ok) {
    mi_arena_t* a = mi_arena_from_index(mi_arena_id_index(id));
    printf("F manage_inuse %llu %zu = %zu %llu\n", U(start), size, a->field_count, (unsigned long long)a->blocks_inuse[a->field_count - 1]);
  }
}

// an arena over a fresh mapping: `blocks` whole blocks fit after alignment; the region given to mimalloc starts
// `head_pages` pages after an aligned address (misaligned unless 0) and its size is not a multiple of the block size;
// 4 blocks of slack after the region stay mapped so that an out-of-bounds hand-out is observable instead of fatal.
static myarena_t* make_managed(size_t blocks, size_t head_pages, size_t tail_bytes, bool exclusive) {
  size_t msize = (blocks + (blocks > 60 ? 70 : 6)) * BLK;   // two-field arenas: slack up to the end of the second bitmap field
  uint8_t* map = map_noreserve(msize);
  uint8_t* al = (uint8_t*)_mi_align_up((uintptr_t)map, BLK);
  uint8_t* region; size_t rsize;
  if (head_pages == 0) { region = al; rsize = blocks * BLK + tail_bytes; }
  else { region = al + head_pages * 4096; rsize = (BLK - head_pages * 4096) + blocks * BLK + tail_bytes; }   // aligned start is al + BLK
  mi_arena_id_t id = 0;
  bool ok = mi_manage_os_memory_ex(region, rsize, true /*committed*/, false, true /*zero*/, -1, exclusive, &id);
  f_manage_records(region, rsize, ok, id);
  if (!ok) { printf("T count %s manage_failed 1\n", SCN); return NULL; }
  myarena_t* m = &MY[NMY++];
  m->id = id; m->exclusive = exclusive; m->region = region; m->rsize = rsize; m->map = map; m->msize = msize; m->how = "managed";
  return m;
}

static myarena_t* make_reserved(size_t size, bool exclusive) {
  mi_arena_id_t id = 0;
  int err = mi_reserve_os_memory_ex(size, false /*commit*/, false, exclusive, &id);
  if (err != 0) { printf("T count %s reserve_failed 1\n", SCN); return NULL; }
  size_t asize = 0; uint8_t* astart = (uint8_t*)mi_arena_area(id, &asize);
  myarena_t* m = &MY[NMY++];
  m->id = id; m->exclusive = exclusive; m->region = astart; m->rsize = asize; m->map = NULL; m->msize = 0; m->how = "reserved";
  return m;
}

static void dump_arenas(void) {
  size_t n = mi_arena_get_count();
  for (size_t i = 0; i < n; i++) {
    mi_arena_t* a = mi_arena_from_index(i);
    if (a == NULL) continue;
    myarena_t* m = NULL;
    for (int k = 0; k < NMY; k++) if (MY[k].id == a->id) m = &MY[k];
    size_t asize = 0; void* astart = mi_arena_area(a->id, &asize);
    printf("T arena %s %d %d %llu %zu %llu %zu %llu %zu %s\n", SCN, a->id, a->exclusive ? 1 : 0, U(astart), asize,
           U(m ? m->region : astart), m ? m->rsize : asize, U(m ? m->map : NULL), m ? m->msize : (size_t)0, m ? m->how : "auto");
  }
}

// ------------------------------------------------------------------ allocation records
typedef struct { void* p; size_t size; } blk_t;
#define MAXLIVE 20000
typedef struct { blk_t b[MAXLIVE]; int n; } pool_t;

static void rec_alloc(const char* phase, const char* label, int bound, int thread, size_t size, void* p) {
  if (p == NULL) printf("T null %s %s %s %d %d %zu\n", SCN, phase, label, bound, thread, size);
  else printf("T alloc %s %s %s %d %d %zu %llu\n", SCN, phase, label, bound, thread, size, U(p));
}

static size_t pick_size(int big_ok) {
  switch (prng_below(&G, 16)) {
    case 0: case 1: case 2: case 3: case 4: return 8 + prng_below(&G, 1017);            // small
    case 5: case 6: case 7: case 8: return 1024 + prng_below(&G, 64 * 1024);             // up to medium
    case 9: case 10: case 11: return 64 * 1024 + prng_below(&G, 900 * 1024);            // large pages
    case 12: return (size_t)1 << (3 + prng_below(&G, 18));                              // exact powers of two
    case 13: return big_ok ? 2 * 1024 * 1024 + prng_below(&G, 12 * 1024 * 1024) : 128;  // large (<= 16 MiB)
    case 14: return big_ok ? 16 * 1024 * 1024 + 1 + prng_below(&G, 24 * 1024 * 1024) : 4096;  // huge (> 16 MiB): own segment
    default: return 16 + 16 * prng_below(&G, 8);
  }
}

static void* halloc(const char* phase, const char* label, mi_heap_t* h, int bound, int thread, size_t size, pool_t* pool) {
  void* p = (h == NULL ? mi_malloc(size) : mi_heap_malloc(h, size));
  rec_alloc(phase, label, bound, thread, size, p);
  if (p != NULL) {
    ((volatile char*)p)[0] = 1; ((volatile char*)p)[size - 1] = 2;
    if (pool != NULL && pool->n < MAXLIVE) { pool->b[pool->n].p = p; pool->b[pool->n].size = size; pool->n++; }
    else if (pool == NULL) { /* caller keeps it */ }
    else mi_free(p);
  }
  return p;
}

static void free_random(pool_t* pool, int count) {
  for (int i = 0; i < count && pool->n > 0; i++) {
    int k = (int)prng_below(&G, (size_t)pool->n);
    mi_free(pool->b[k].p);
    pool->b[k] = pool->b[--pool->n];
  }
}
static void free_all_shuffled(pool_t* pool) { free_random(pool, pool->n + 1); }

// ------------------------------------------------------------------ worker threads that exit with live blocks
typedef struct {
  int thread; int nbound; mi_arena_id_t bound[4]; int per_heap; int big_ok; uint64_t seed; pool_t* out; int free_some; int delete_heaps;
} work_t;

static void* worker(void* arg) {
  work_t* w = (work_t*)arg;
  prng_t saved = G; prng_seed(&G, w->seed);          // the worker runs while the creator waits in join: G is not shared concurrently
  mi_heap_t* hs[4]; char label[4][16];
  for (int i = 0; i < w->nbound; i++) { hs[i] = mi_heap_new_in_arena(w->bound[i]); snprintf(label[i], sizeof(label[i]), "w%db%d", w->thread, w->bound[i]); }
  pool_t* mine = w->out;
  for (int r = 0; r < w->per_heap; r++) {
    for (int i = 0; i < w->nbound; i++) halloc("worker", label[i], hs[i], w->bound[i], w->thread, pick_size(w->big_ok), mine);
    char dl[16]; snprintf(dl, sizeof(dl), "w%ddef", w->thread);
    halloc("worker", dl, NULL, 0, w->thread, pick_size(0), mine);
    if (w->free_some && prng_below(&G, 4) == 0) free_random(mine, 1);
  }
  if (w->delete_heaps) for (int i = 0; i < w->nbound; i++) mi_heap_delete(hs[i]);   // pages abandoned or absorbed before the exit
  G = saved;
  return NULL;   // thread exit with live blocks: _mi_thread_done -> _mi_heap_collect_abandon
}

static void run_worker(work_t* w) {
  pthread_t t;
  if (pthread_create(&t, NULL, worker, w) != 0) { fprintf(stderr, "pthread_create failed\n"); exit(3); }
  pthread_join(t, NULL);
}

// ------------------------------------------------------------------ F records of the pure functions
static const char* kind_name(mi_memkind_t k) {
  switch (k) {
    case MI_MEM_NONE: return "none"; case MI_MEM_EXTERNAL: return "external"; case MI_MEM_STATIC: return "static";
    case MI_MEM_OS: return "os"; case MI_MEM_OS_HUGE: return "os_huge"; case MI_MEM_OS_REMAP: return "os_remap";
    case MI_MEM_ARENA: return "arena"; default: return "unknown";
  }
}

static void scenario_pure(void) {
  static const int ids[] = { -2, -1, 0, 1, 2, 3, 7, 131, 132, 133, 1000 };
  const int n = (int)(sizeof(ids) / sizeof(ids[0]));
  for (int i = 0; i < n; i++) printf("F arena_id_index %d = %zu\n", ids[i], mi_arena_id_index(ids[i]));
  for (int i = 0; i < n; i++) for (int e = 0; e < 2; e++) for (int j = 0; j < n; j++)
    printf("F arena_id_is_suitable %d %d %d = %d\n", ids[i], e, ids[j], mi_arena_id_is_suitable(ids[i], e != 0, ids[j]) ? 1 : 0);
  static const mi_memkind_t kinds[] = { MI_MEM_NONE, MI_MEM_EXTERNAL, MI_MEM_STATIC, MI_MEM_OS, MI_MEM_OS_HUGE, MI_MEM_OS_REMAP, MI_MEM_ARENA };
  for (int k = 0; k < 7; k++) for (int i = 0; i < n; i++) for (int e = 0; e < 2; e++) {
    mi_memid_t memid = _mi_memid_create(kinds[k]);
    memid.mem.arena.id = ids[i]; memid.mem.arena.is_exclusive = (e != 0); memid.mem.arena.block_index = prng_below(&G, 1000);   // overlays mem.os for the OS kinds
    for (int j = 0; j < n; j++)
      printf("F memid_is_suitable %s %d %d %d = %d\n", kind_name(kinds[k]), ids[i], e, ids[j], _mi_arena_memid_is_suitable(memid, ids[j]) ? 1 : 0);
  }
  for (int j = 0; j < n; j++) {
    mi_heap_t* h = mi_heap_new_in_arena(ids[j]);
    for (int k = 0; k < 7; k++) for (int i = 0; i < n; i++) for (int e = 0; e < 2; e++) {
      mi_memid_t memid = _mi_memid_create(kinds[k]);
      memid.mem.arena.id = ids[i]; memid.mem.arena.is_exclusive = (e != 0);
      printf("F heap_memid_is_suitable %d %s %d %d = %d\n", ids[j], kind_name(kinds[k]), ids[i], e, _mi_heap_memid_is_suitable(h, memid) ? 1 : 0);
    }
    mi_heap_delete(h);
  }
}

// manage_region on a grid of misalignments and sizes (successes create arenas: bounded number)
static void scenario_manage(void) {
  size_t msize = 12 * BLK;
  int made = 0;
  const int rounds = THOROUGH ? 48 : 24;
  uint8_t* scratch = map_noreserve(msize);
  uint8_t* al = (uint8_t*)_mi_align_up((uintptr_t)scratch, BLK);
  // refused requests never create an arena: the same mapping serves all of them
  size_t small_sizes[] = { 0, 1, 4096, BLK - 1, BLK / 2 };
  for (int i = 0; i < 5; i++) {
    uint8_t* st = al + 4096 * prng_below(&G, 100);
    mi_arena_id_t id = 0; bool ok = mi_manage_os_memory_ex(st, small_sizes[i], true, false, true, -1, false, &id);
    f_manage_records(st, small_sizes[i], ok, id); if (ok) made++;
  }
  for (int i = 0; i < 8; i++) {   // misaligned and too small after alignment (size - diff < one block), incl. the exact boundary
    size_t head = 4096 * (1 + prng_below(&G, 8191)); size_t diff = BLK - head;
    size_t size = (i == 0 ? diff + BLK - 1 : i == 1 ? diff : i == 2 ? BLK : i == 3 ? diff + BLK : diff + prng_below(&G, BLK));
    if (size < BLK && i > 3) size = BLK;
    mi_arena_id_t id = 0; bool ok = mi_manage_os_memory_ex(al + head, size, true, false, true, -1, false, &id);
    f_manage_records(al + head, size, ok, id); if (ok) made++;
  }
  for (int r = 0; r < rounds && mi_arena_get_count() < 100; r++) {
    size_t blocks = 1 + prng_below(&G, 3);
    size_t head = (prng_below(&G, 4) == 0 ? 0 : 1 + prng_below(&G, 8191));
    size_t tail = (prng_below(&G, 5) == 0 ? 0 : 1 + prng_below(&G, BLK - 1));
    if (r == 0) { head = 0; tail = 0; } if (r == 1) { head = 8191; tail = BLK - 1; } if (r == 2) { head = 1; tail = 1; }
    if (make_managed(blocks, head, tail, prng_below(&G, 2) == 0) != NULL) made++;
  }
  // arenas with more than 64 blocks (two bitmap fields): sizes around the field boundary
  // (65 first: the left-over bits of a SECOND field are what a one-field arena cannot show -- seed C15c)
  size_t big[] = { 65, 64, 63, 70, 127, 129 };
  for (int i = 0; i < (THOROUGH ? 6 : 3); i++) if (make_managed(big[i], 1 + prng_below(&G, 8191), 1 + prng_below(&G, BLK - 1), false) != NULL) made++;
  printf("T count %s arenas_made %d\n", SCN, made);
  dump_arenas();
}

// ------------------------------------------------------------------ the mixed history
static pool_t POOL_MAIN, POOL_W;

static void scenario_history(void) {
  // arenas: A exclusive managed (misaligned), B shared managed (misaligned), C exclusive reserved, D shared reserved, E tiny exclusive
  myarena_t* A = make_managed(4 + prng_below(&G, 3), 1 + prng_below(&G, 8191), 1 + prng_below(&G, BLK - 1), true);
  myarena_t* B = make_managed(3 + prng_below(&G, 3), 1 + prng_below(&G, 8191), 1 + prng_below(&G, BLK - 1), false);
  myarena_t* C = make_reserved(3 * BLK + 1 + prng_below(&G, BLK - 1), true);
  myarena_t* D = make_reserved(2 * BLK + 1 + prng_below(&G, BLK - 1), false);
  myarena_t* E = make_managed(1, prng_below(&G, 8192), prng_below(&G, BLK), true);
  if (!A || !B || !C || !D || !E) { printf("T count %s setup_failed 1\n", SCN); return; }
  myarena_t* ar[5] = { A, B, C, D, E };
  mi_heap_t* hb[5]; char lab[5][8];
  for (int i = 0; i < 5; i++) { hb[i] = mi_heap_new_in_arena(ar[i]->id); snprintf(lab[i], sizeof(lab[i]), "m%c", 'A' + i); }
  mi_heap_t* hfree = mi_heap_new();     // unbound, no_reclaim
  int next_thread = 1;
  const int steps = THOROUGH ? 6000 : 1500;
  int collects = 0, threads = 0, deletes = 0;
  for (int s = 0; s < steps; s++) {
    size_t c = prng_below(&G, 100);
    if (c < 30) { int i = (int)prng_below(&G, 5); halloc("mix", lab[i], hb[i], ar[i]->id, 0, pick_size(i != 4), &POOL_MAIN); }
    else if (c < 50) halloc("mix", "mdef", NULL, 0, 0, pick_size(1), &POOL_MAIN);
    else if (c < 56) halloc("mix", "mnew", hfree, 0, 0, pick_size(0), &POOL_MAIN);
    else if (c < 80) free_random(&POOL_MAIN, 1 + (int)prng_below(&G, 4));
    else if (c < 84) { mi_collect(prng_below(&G, 2) == 0); collects++; }
    else if (c < 88) {   // a thread allocates from bound heaps and exits with live blocks
      work_t w; memset(&w, 0, sizeof(w));
      w.thread = next_thread++; w.nbound = 1 + (int)prng_below(&G, 3);
      for (int i = 0; i < w.nbound; i++) w.bound[i] = ar[prng_below(&G, 4)]->id;
      w.per_heap = 5 + (int)prng_below(&G, 40); w.big_ok = prng_below(&G, 3) == 0; w.seed = prng_next(&G); w.out = &POOL_W;
      w.free_some = 1; w.delete_heaps = prng_below(&G, 4) == 0;
      run_worker(&w); threads++;
    }
    else if (c < 94) {   // frees of blocks left by exited threads, reclaim-on-free on or off
      mi_option_set(mi_option_abandoned_reclaim_on_free, (long)prng_below(&G, 2));
      free_random(&POOL_W, 1 + (int)prng_below(&G, 30));
    }
    else if (c < 96) {   // a heap bound to an EXCLUSIVE arena is deleted with live blocks: its pages are abandoned (the backing heap
                         // is not compatible) and, no other heap of this thread having pages there, so are its segments.
                         // (Deleting a heap bound to a shared arena is avoided: a later local free of a block of an abandoned page in a
                         // still-owned segment crashes in _mi_page_retire on the unchanged tree -- reported, not a C15 clause.)
      int i = (prng_below(&G, 2) == 0 ? 0 : 2);
      mi_heap_delete(hb[i]); hb[i] = mi_heap_new_in_arena(ar[i]->id); deletes++;
    }
    else {               // burst of one class from the default heap right after adoption chances: fresh pages are needed
      size_t sz = pick_size(0); for (int k = 0; k < 40; k++) halloc("burst", "mdef", NULL, 0, 0, sz, &POOL_MAIN);
    }
  }
  mi_option_set(mi_option_abandoned_reclaim_on_free, 1);
  free_all_shuffled(&POOL_W);
  mi_collect(true);
  for (int k = 0; k < 300; k++) halloc("final", "mdef", NULL, 0, 0, pick_size(0), &POOL_MAIN);
  for (int i = 0; i < 5; i++) for (int k = 0; k < 60; k++) halloc("final", lab[i], hb[i], ar[i]->id, 0, pick_size(0), &POOL_MAIN);
  free_all_shuffled(&POOL_MAIN);
  printf("T count %s collects %d\nT count %s threads %d\nT count %s heap_deletes %d\n", SCN, collects, SCN, threads, SCN, deletes);
  dump_arenas();
}

// ------------------------------------------------------------------ focused scenarios (one mechanism each)

// reclaim_all: a thread bound to an exclusive arena exits; forced collect on the main thread; default-heap allocations
// (the corpus program corpus/C15/reclaim_all_exclusive.c, plus a shared arena and more size classes)
static void scenario_corpus(void) {
  myarena_t* A = make_managed(4, 0, 0, true);
  if (!A) return;
  work_t w; memset(&w, 0, sizeof(w)); w.thread = 1; w.nbound = 1; w.bound[0] = A->id; w.per_heap = 100; w.seed = prng_next(&G); w.out = &POOL_W;
  run_worker(&w);
  static const size_t cls[] = { 64, 8, 200, 1000, 5000, 40000, 300000 };
  mi_collect(true);
  for (int c = 0; c < 7; c++) for (int i = 0; i < 200; i++) halloc("after_collect", "mdef", NULL, 0, 0, cls[c], &POOL_MAIN);
  // and once more after the blocks of the thread are gone
  mi_option_set(mi_option_abandoned_reclaim_on_free, 0);
  free_all_shuffled(&POOL_W);
  mi_collect(true);
  for (int c = 0; c < 7; c++) for (int i = 0; i < 50; i++) halloc("after_free", "mdef", NULL, 0, 0, cls[c], &POOL_MAIN);
  free_all_shuffled(&POOL_MAIN);
  dump_arenas();
}

// the same sizes the worker uses, so that adopted pages are the ones the next allocations of the adopter would use
static void scenario_onfree(void) {
  myarena_t* A = make_managed(4, 1 + prng_below(&G, 8191), 12345, true);
  myarena_t* B = make_managed(4, 1 + prng_below(&G, 8191), 54321, false);
  if (!A || !B) return;
  mi_heap_t* hB = mi_heap_new_in_arena(B->id);
  for (int round = 0; round < 4; round++) {
    work_t w; memset(&w, 0, sizeof(w)); w.thread = 1 + round; w.nbound = 2; w.bound[0] = A->id; w.bound[1] = B->id; w.per_heap = 80; w.seed = prng_next(&G); w.out = &POOL_W;
    run_worker(&w);
    mi_option_set(mi_option_abandoned_reclaim_on_free, (round % 2 == 0) ? 1 : 0);
    free_random(&POOL_W, POOL_W.n / 2);            // remote frees into abandoned segments: with the option on, the segment is adopted when suitable
    for (int i = 0; i < 400; i++) halloc("after_remote_free", "mdef", NULL, 0, 0, pick_size(0), &POOL_MAIN);
    for (int i = 0; i < 200; i++) halloc("after_remote_free", "mB", hB, B->id, 0, pick_size(0), &POOL_MAIN);
    free_random(&POOL_MAIN, POOL_MAIN.n / 2);
  }
  mi_option_set(mi_option_abandoned_reclaim_on_free, 1);
  free_all_shuffled(&POOL_W); free_all_shuffled(&POOL_MAIN);
  dump_arenas();
}

// cached free spans of the same thread: bound and unbound heaps of one thread alternate, many size classes
static void scenario_spans(void) {
  myarena_t* A = make_managed(5, 1 + prng_below(&G, 8191), 777, true);
  myarena_t* B = make_managed(5, 1 + prng_below(&G, 8191), 999, false);
  if (!A || !B) return;
  mi_heap_t* hA = mi_heap_new_in_arena(A->id); mi_heap_t* hB = mi_heap_new_in_arena(B->id);
  for (int round = 0; round < (THOROUGH ? 12 : 4); round++) {
    for (int i = 0; i < 120; i++) {
      size_t sz = pick_size(0);
      switch (prng_below(&G, 3)) {
        case 0: halloc("spans", "mA", hA, A->id, 0, sz, &POOL_MAIN); break;
        case 1: halloc("spans", "mB", hB, B->id, 0, sz, &POOL_MAIN); break;
        default: halloc("spans", "mdef", NULL, 0, 0, sz, &POOL_MAIN); break;
      }
    }
    free_random(&POOL_MAIN, (POOL_MAIN.n * 2) / 3);   // whole pages become free: spans go back to the thread's queues
    mi_collect(false);
  }
  free_all_shuffled(&POOL_MAIN);
  dump_arenas();
}

// try_reclaim by allocation: abandoned segments of A (exclusive) and B (shared); bound and unbound heaps of the main
// thread need fresh segments/pages and visit the abandoned ones
static void scenario_tryreclaim(void) {
  myarena_t* A = make_managed(6, 1 + prng_below(&G, 8191), 4242, true);
  myarena_t* B = make_managed(6, 1 + prng_below(&G, 8191), 2424, false);
  if (!A || !B) return;
  mi_heap_t* hA = mi_heap_new_in_arena(A->id); mi_heap_t* hB = mi_heap_new_in_arena(B->id);
  for (int round = 0; round < (THOROUGH ? 8 : 3); round++) {
    for (int t = 0; t < 3; t++) {
      work_t w; memset(&w, 0, sizeof(w)); w.thread = 1 + round * 3 + t; w.nbound = 2; w.bound[0] = A->id; w.bound[1] = B->id;
      w.per_heap = 60; w.seed = prng_next(&G); w.out = &POOL_W; w.free_some = 1;
      run_worker(&w);
    }
    mi_option_set(mi_option_abandoned_reclaim_on_free, 0);
    free_random(&POOL_W, POOL_W.n / 3);              // abandoned pages get free blocks (has_page in mi_segment_check_free)
    for (int i = 0; i < 500; i++) {
      size_t sz = pick_size(0);
      switch (prng_below(&G, 3)) {
        case 0: halloc("tryreclaim", "mA", hA, A->id, 0, sz, &POOL_MAIN); break;
        case 1: halloc("tryreclaim", "mB", hB, B->id, 0, sz, &POOL_MAIN); break;
        default: halloc("tryreclaim", "mdef", NULL, 0, 0, sz, &POOL_MAIN); break;
      }
    }
    mi_collect(false);
    free_random(&POOL_MAIN, POOL_MAIN.n / 2);
  }
  free_all_shuffled(&POOL_W); free_all_shuffled(&POOL_MAIN);
  dump_arenas();
}

// arena exhaustion: a bound heap must get NULL; the default heap may use shared arenas and the OS
static void scenario_exhaust(void) {
  // odd repetitions: an exclusive arena of 65..84 blocks (two bitmap fields, left-over bits in the second) filled to its very end
  int two_fields = ((SCN[strlen(SCN) - 1] - '0') % 2 == 1);
  myarena_t* E = make_managed(two_fields ? 65 + prng_below(&G, 20) : 1 + prng_below(&G, 3), 1 + prng_below(&G, 8191), 1 + prng_below(&G, BLK - 1), true);
  myarena_t* S = make_managed(2, 1 + prng_below(&G, 8191), 1 + prng_below(&G, BLK - 1), false);
  myarena_t* R = make_reserved(2 * BLK + 4096, true);
  if (!E || !S || !R) return;
  myarena_t* ar[3] = { E, S, R }; const char* lab[3] = { "mE", "mS", "mR" };
  for (int k = 0; k < 3; k++) {
    mi_heap_t* h = mi_heap_new_in_arena(ar[k]->id);
    size_t asize = 0; mi_arena_area(ar[k]->id, &asize);
    size_t blocks = asize / BLK; int ok = 0, null_seen = 0;
    for (size_t i = 0; i < blocks + 6; i++) {      // each block > 16 MiB takes a whole segment = one arena block
      size_t sz = 17 * 1024 * 1024 + prng_below(&G, 8 * 1024 * 1024);
      void* p = halloc("exhaust", lab[k], h, ar[k]->id, 0, sz, &POOL_MAIN);
      if (p == NULL) { null_seen = 1; break; } else ok++;
    }
    printf("T exhaust %s %d %zu %d %d\n", SCN, ar[k]->id, blocks, ok, null_seen);
    // small requests of a bound heap whose arena is full: NULL as well (no fresh segment anywhere else)
    int small_null = 0;
    for (int i = 0; i < 3000 && !small_null; i++) { void* p = halloc("exhaust_small", lab[k], h, ar[k]->id, 0, 4096 + 64 * (size_t)i, &POOL_MAIN); if (p == NULL) small_null = 1; }
    printf("T count %s small_null_%s %d\n", SCN, lab[k], small_null);
  }
  // the default heap still works: shared arena S is full, so other shared arenas / the OS serve it
  int nulls = 0, n = 0;
  for (int i = 0; i < 6; i++) { void* p = halloc("fallback", "mdef", NULL, 0, 0, 17 * 1024 * 1024 + 4096 * (size_t)i, &POOL_MAIN); n++; if (!p) nulls++; }
  for (int i = 0; i < 500; i++) { void* p = halloc("fallback", "mdef", NULL, 0, 0, pick_size(0), &POOL_MAIN); n++; if (!p) nulls++; }
  printf("T fallback %s %d %d\n", SCN, n, nulls);
  free_all_shuffled(&POOL_MAIN);
  dump_arenas();
}

// known finding impl:reclaim-by-tag-exclusive (corpus/C15/reclaim_tag_exclusive.c)
static void scenario_tag(void) {
  myarena_t* A = make_managed(4, 0, 0, true);
  if (!A) return;
  work_t w; memset(&w, 0, sizeof(w)); w.thread = 1; w.nbound = 1; w.bound[0] = A->id; w.per_heap = 100; w.seed = prng_next(&G); w.out = &POOL_W;
  run_worker(&w);
  mi_heap_t* h2 = mi_heap_new_ex(7, false, A->id);
  halloc("tag_adopt", "mTag", h2, A->id, 0, 1000, &POOL_MAIN);     // needs a fresh page: mi_segment_try_reclaim(h2)
  for (int i = 0; i < 200; i++) halloc("tag_default", "mdef", NULL, 0, 0, 8 + 8 * (size_t)(i % 128), &POOL_MAIN);
  dump_arenas();
}

// an exclusive arena of ONE block and a heap bound to it: after a small block was allocated and freed its page is only retired and the
// segment stays claimed; a request that needs the whole block must still succeed (no block is live, the OS refuses nothing):
// _mi_malloc_generic collects and retries once before it reports failure
static void scenario_refill(void) {
  myarena_t* A = make_managed(1, 0, 0, true);
  if (A == NULL) { printf("T count %s setup_failed 1\n", SCN); return; }
  mi_heap_t* h = mi_heap_new_in_arena(A->id);
  static const size_t small[] = { 100, 5000, 70000, 300000 };
  int nulls = 0, rounds = 0;
  for (int r = 0; r < 8; r++) {
    void* p = mi_heap_malloc(h, small[prng_below(&G, 4)]);
    if (p == NULL) { printf("T count %s setup_failed 1\n", SCN); return; }
    memset(p, 3, 64); mi_free(p);
    void* q = mi_heap_malloc(h, (size_t)20 << 20);      // a huge block: needs the arena's only block
    rounds++;
    if (q == NULL) nulls++; else { memset(q, 5, 4096); mi_free(q); }
  }
  printf("T count %s refill_rounds %d\nT count %s refill_null %d\n", SCN, rounds, SCN, nulls);
  // the arena is full (one huge block live) and the bound heap is the default heap: the entry points that go through the default heap
  // must report failure the documented way -- mi_posix_memalign: ENOMEM and the out-parameter untouched; the others: NULL
  void* big = mi_heap_malloc(h, (size_t)20 << 20);
  if (big != NULL) {
    mi_heap_t* old = mi_heap_set_default(h);
    void* sentinel = (void*)0x5EED; void* out = sentinel;
    int rc = mi_posix_memalign(&out, 64, (size_t)20 << 20);
    int bad = (rc != ENOMEM) + (out != sentinel) * 2;
    static const size_t tiny[] = { 1, 2, 8, 100 };       // also the smallest requests (no page of the heap has a free block: they need a segment)
    for (int i = 0; i < 4; i++) { void* o2 = sentinel; int rc2 = mi_posix_memalign(&o2, 8, tiny[i]); if (rc2 == 0 && o2 != NULL && o2 != sentinel) { mi_free(o2); } else if (rc2 != ENOMEM || o2 != sentinel) bad |= 32; }
    void* m1 = mi_memalign(64, (size_t)20 << 20); void* m2 = mi_aligned_alloc(64, (size_t)20 << 20); void* m3 = mi_calloc(20, (size_t)1 << 20);
    bad += (m1 != NULL) * 4 + (m2 != NULL) * 8 + (m3 != NULL) * 16;
    mi_heap_set_default(old);
    if (rc == 0 && out != sentinel && out != NULL) mi_free(out);
    mi_free(m1); mi_free(m2); mi_free(m3);
    printf("T count %s full_arena_failure_bad %d\n", SCN, bad);
    mi_free(big);
  }
}

// the entry points WITHOUT the `_ex` out-parameter (they pass arena_id = NULL down): mi_reserve_os_memory, mi_manage_os_memory
static void scenario_plainapi(void) {
  const size_t before = mi_arena_get_count();
  int err = mi_reserve_os_memory(2 * BLK, false /*commit*/, false /*large*/);
  if (err != 0 || mi_arena_get_count() != before + 1) printf("T count %s reserve_failed 1\n", SCN);
  uint8_t* scratch = map_noreserve(4 * BLK);
  uint8_t* al = (uint8_t*)_mi_align_up((uintptr_t)scratch, BLK);
  bool ok = mi_manage_os_memory(al, 2 * BLK, true /*committed*/, false /*large*/, true /*zero*/, -1);
  if (!ok || mi_arena_get_count() != before + 2) printf("T count %s manage_failed 1\n", SCN);
  // both arenas are shared: the default heap may use them
  void* p = mi_malloc(3u << 20); if (p != NULL) { memset(p, 1, 4096); mi_free(p); } else printf("T count %s setup_failed 1\n", SCN);
  printf("T count %s arenas_made %zu\n", SCN, mi_arena_get_count() - before);
}

// ------------------------------------------------------------------ driver
typedef struct { const char* name; void (*fn)(void); int repeat_quick; int repeat_thorough; } scn_t;
static const scn_t SCNS[] = {
  { "pure", scenario_pure, 1, 1 }, { "manage", scenario_manage, 1, 3 }, { "corpus", scenario_corpus, 1, 2 },
  { "spans", scenario_spans, 2, 6 }, { "onfree", scenario_onfree, 2, 6 }, { "tryreclaim", scenario_tryreclaim, 2, 6 },
  { "exhaust", scenario_exhaust, 2, 6 }, { "history", scenario_history, 4, 16 }, { "tag", scenario_tag, 1, 1 },
  { "plainapi", scenario_plainapi, 1, 1 }, { "refill", scenario_refill, 1, 2 },
};

static void on_fatal(int sig) {
  fflush(stdout);
  signal(sig, SIG_DFL); raise(sig);
}

int main(int argc, char** argv) {
  uint64_t seed = argc > 1 ? strtoull(argv[1], NULL, 10) : 1;
  THOROUGH = argc > 2 ? atoi(argv[2]) : 0;
  const char* only = argc > 3 ? argv[3] : NULL;
  setvbuf(stdout, NULL, _IOFBF, 1 << 16);
  for (size_t i = 0; i < sizeof(SCNS) / sizeof(SCNS[0]); i++) {
    if (only != NULL && strcmp(only, SCNS[i].name) != 0) continue;
    int reps = THOROUGH ? SCNS[i].repeat_thorough : SCNS[i].repeat_quick;
    for (int r = 0; r < reps; r++) {
      char name[32]; snprintf(name, sizeof(name), "%s%d", SCNS[i].name, r);
      prng_t sg; prng_seed(&sg, seed); sg.s ^= (uint64_t)(i * 64 + (size_t)r + 1) * 0xD6E8FEB86659FD93ull;
      uint64_t s = prng_next(&sg);
      printf("T scenario %s %llu\n", name, (unsigned long long)s);
      fflush(stdout);
      pid_t pid = fork();
      if (pid == 0) {
        // resource bounds of one scenario (a broken allocator may loop reserving segments): 40 GiB of address space (the
        // arenas are MAP_NORESERVE mappings that are barely touched), no transparent huge pages (touching 64 KiB of a fresh
        // segment must not make 2 MiB resident), 90 s (quick) / 300 s of wall time, and death with the parent
        struct rlimit rl; rl.rlim_cur = rl.rlim_max = (rlim_t)40 << 30; setrlimit(RLIMIT_AS, &rl);
        prctl(PR_SET_THP_DISABLE, 1, 0, 0, 0);
        prctl(PR_SET_PDEATHSIG, SIGKILL);
        alarm(THOROUGH ? 300 : 90);
        signal(SIGSEGV, on_fatal); signal(SIGBUS, on_fatal); signal(SIGFPE, on_fatal); signal(SIGABRT, on_fatal); signal(SIGALRM, on_fatal);
        SCN = name; prng_seed(&G, s);
        SCNS[i].fn();
        printf("T end %s\n", name);
        fflush(stdout);
        _exit(0);
      }
      int status = 0; struct rusage ru; memset(&ru, 0, sizeof(ru)); wait4(pid, &status, 0, &ru);
      printf("T rss %s %ld\n", name, (long)ru.ru_maxrss);   // KiB
      if (!WIFEXITED(status) || WEXITSTATUS(status) != 0)
        printf("T crash %s %d\n", name, WIFSIGNALED(status) ? WTERMSIG(status) : 1000 + WEXITSTATUS(status));
      fflush(stdout);
    }
  }
  printf("END\n");
  return 0;
}
