/* Shared by harness/t_override.c and harness/t_override.cpp (property C19).

   These programs are ORDINARY programs: they include no mimalloc header and are not linked with
   mimalloc.  They call the platform's allocation entry points (libc / C++ runtime names) and are run
     (a) with LD_PRELOAD=<build>/libmimalloc_verif.so   (shared library built from /repo's current tree)
     (b) linked with <build>/mimalloc_verif.o first      (static override object, -DSTATIC_OVERRIDE)
   The only contact with mimalloc is three probes: mi_is_in_heap_region, mi_usable_size, mi_version,
   found with dlsym(RTLD_DEFAULT, ..) in (a) and declared extern in (b).

   Output records (parsed by tools/props/C19.py):
     B <idx> <alloc> <consume> size=<n> align=<a>            about to run pair <idx> (crash witness)
     C <name>                                                about to run a return-value check (crash witness)
     T alloc <alloc> size= align= ok=<0|1> why=<token>       checks on the pointer an entry point returned
     T pair <alloc> <consume> size= align= ok=<0|1> why=     cross release / resize / query
     T code <name> ok=<0|1> got=<..> want=<..>               documented return values / errno
     T resolve <sym> lib=<file> target=<mi_fn> eq=<0|1|->    where the dynamic linker binds the name
     END <pairs> <failures>
*/
#ifndef T_OVERRIDE_COMMON_H
#define T_OVERRIDE_COMMON_H

#ifndef _GNU_SOURCE
#define _GNU_SOURCE
#endif
#include <stdio.h>
#include <stdlib.h>
#include <string.h>
#include <stdint.h>
#include <errno.h>
#include <malloc.h>
#include <dlfcn.h>
#include <unistd.h>
#include <limits.h>

#ifndef __cplusplus
#include <stdbool.h>
#endif

#ifdef STATIC_OVERRIDE
/* defined (hidden visibility, same link) by mimalloc_verif.o */
#ifdef __cplusplus
extern "C" {
#endif
extern bool   mi_is_in_heap_region(const void* p);
extern bool   mi_check_owned(const void* p);
extern size_t mi_usable_size(const void* p);
extern int    mi_version(void);
#ifdef __cplusplus
}
#endif
#endif

typedef bool   (*probe_in_heap_t)(const void*);
typedef size_t (*probe_usable_t)(const void*);
typedef int    (*probe_version_t)(void);

static probe_in_heap_t P_region;     /* mi_is_in_heap_region */
static probe_in_heap_t P_owned;      /* mi_check_owned: walks the pages of the calling thread's default heap */
static probe_usable_t  P_usable;
static probe_version_t P_version;

static long n_fail = 0, n_pairs = 0;

/* "this pointer is mimalloc's".  mi_is_in_heap_region answers from the arenas and the segment map; the
   segment map only covers addresses below MI_SEGMENT_MAP_MAX_ADDRESS (48 TiB), so a live block in a segment
   the kernel placed higher (alignment > 32 MiB, size > 1 GiB: no address hint) is reported as foreign.  Such
   blocks are still found by mi_check_owned; the disagreement is recorded as an observation. */
static long n_region_miss = 0;
static bool P_in_heap(const void* p) {
  if (P_region(p)) return true;
  if (p != NULL && P_owned != NULL && P_owned(p)) {
    if (n_region_miss++ == 0) printf("T info mi_is_in_heap_region(%p)=0 for a live block that mi_check_owned finds\n", p);
    return true;
  }
  return false;
}

static int probes_init(void) {
#ifdef STATIC_OVERRIDE
  P_region = (probe_in_heap_t)&mi_is_in_heap_region;
  P_owned  = (probe_in_heap_t)&mi_check_owned;
  P_usable  = (probe_usable_t)&mi_usable_size;
  P_version = (probe_version_t)&mi_version;
#else
  P_region = (probe_in_heap_t)dlsym(RTLD_DEFAULT, "mi_is_in_heap_region");
  P_owned  = (probe_in_heap_t)dlsym(RTLD_DEFAULT, "mi_check_owned");
  P_usable  = (probe_usable_t)dlsym(RTLD_DEFAULT, "mi_usable_size");
  P_version = (probe_version_t)dlsym(RTLD_DEFAULT, "mi_version");
#endif
  if (!P_region || !P_usable || !P_version) {
    printf("T code probes ok=0 got=missing want=mi_is_in_heap_region+mi_usable_size+mi_version\n");
    return 0;
  }
  printf("T code probes ok=1 got=version%d want=present\n", P_version());
  return 1;
}

static size_t page_size(void) { return (size_t)sysconf(_SC_PAGESIZE); }

/* announce a return-value check that may kill the process (crash witness, like B for pairs) */
static void checkpoint(const char* name) { printf("C %s\n", name); }

static void code(const char* name, int ok, long long got, long long want) {
  if (!ok) n_fail++;
  printf("T code %s ok=%d got=%lld want=%lld\n", name, ok ? 1 : 0, got, want);
}

/* what an entry point promises about the block it returned */
typedef struct block_s {
  void*  p;
  size_t req;        /* bytes the caller may use */
  size_t align;      /* promised alignment (0: fundamental) */
  int    is_text;    /* contents are a NUL terminated copy (strdup family) */
  int    zeroed;     /* contents promised to be zero */
  unsigned char fill;
} block_t;

/* checks on a freshly returned pointer; returns a token, "ok" when all hold */
static const char* check_block(const block_t* b) {
  if (b->p == NULL) return "returned-null";
  if (!P_in_heap(b->p)) return "not-in-mimalloc-heap-region";
  size_t mu = P_usable(b->p);
  size_t lu = malloc_usable_size(b->p);
  if (lu != mu) return "malloc_usable_size-differs-from-mi_usable_size";
  if (mu < b->req) return "usable-size-below-request";
  size_t al = b->align;
  if (al == 0) al = (b->req >= 16 ? 16 : (b->req >= 8 ? 8 : 1));   /* fundamental alignment for the size */
  if (((uintptr_t)b->p % al) != 0) return "misaligned";
  return "ok";
}

static void fill_block(block_t* b, unsigned char v) {
  if (b->is_text || b->p == NULL) return;
  b->fill = v;
  memset(b->p, v, b->req);
}

/* first n bytes still what fill_block wrote */
static int block_intact(const block_t* b, const void* q, size_t n) {
  if (b->is_text) return 1;
  const unsigned char* c = (const unsigned char*)q;
  for (size_t i = 0; i < n; i++) if (c[i] != b->fill) return 0;
  return 1;
}

static void rec_alloc(const char* a, size_t size, size_t align, const char* why) {
  int ok = (strcmp(why, "ok") == 0);
  if (!ok) n_fail++;
  printf("T alloc %s size=%zu align=%zu ok=%d why=%s\n", a, size, align, ok, why);
}

static void rec_pair(const char* a, const char* c, size_t size, size_t align, const char* why) {
  int ok = (strcmp(why, "ok") == 0);
  if (!ok) n_fail++;
  n_pairs++;
  printf("T pair %s %s size=%zu align=%zu ok=%d why=%s\n", a, c, size, align, ok, why);
}

/* where does the dynamic linker bind `sym`?  args: "sym=mi_target" */
static void resolve_symbols(int argc, char** argv, int first) {
#ifndef STATIC_OVERRIDE
  for (int i = first; i < argc; i++) {
    char buf[256];
    strncpy(buf, argv[i], sizeof(buf) - 1); buf[sizeof(buf) - 1] = 0;
    char* eq = strchr(buf, '=');
    if (!eq) continue;
    *eq = 0;
    const char* sym = buf; const char* tgt = eq + 1;
    void* a = dlsym(RTLD_DEFAULT, sym);
    void* t = dlsym(RTLD_DEFAULT, tgt);
    Dl_info di; memset(&di, 0, sizeof(di));
    const char* lib = "none";
    if (a != NULL && dladdr(a, &di) != 0 && di.dli_fname != NULL) {
      const char* s = strrchr(di.dli_fname, '/');
      lib = s ? s + 1 : di.dli_fname;
    }
    printf("T resolve %s lib=%s target=%s eq=%s\n", sym, lib, tgt, (a && t) ? (a == t ? "1" : "0") : "-");
  }
#else
  (void)argc; (void)argv; (void)first;
#endif
}


/* an ordinary program may exit with buffered output on a stream whose FILE object and buffer came from malloc: exit() flushes the
   streams AFTER the library destructors have run, so the allocator must not have given that memory back by then
   (T_OVERRIDE_EXITFILE names the file; the check reads it back after the process has ended).  Call right before `return 0` of main. */
static void leave_buffered_stream(long n) {
  const char* path = getenv("T_OVERRIDE_EXITFILE");
  if (path == NULL) return;
  FILE* ef = fopen(path, "w");
  if (ef == NULL) return;
  char* eb = (char*)malloc(1 << 16);
  if (eb != NULL) setvbuf(ef, eb, _IOFBF, 1 << 16);
  fprintf(ef, "written before exit %ld\n", n);
}

#endif
