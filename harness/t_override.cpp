/* Property C19, C++ half: an ordinary C++17 program (no mimalloc header, not linked with mimalloc, see
   t_override_common.h) that obtains memory through every form of operator new (plain, array, nothrow,
   align_val_t, align_val_t + nothrow, new-expressions, the standard containers) and through the C entry
   points, and releases it through every form of operator delete (plain, array, sized, nothrow, aligned,
   sized + aligned, aligned + nothrow) and through free / realloc / malloc_usable_size.
   Under a single allocator every such pair has to work.

   usage: t_override_cpp <first pair index> <thorough 0|1> [sym=mi_target ...]
   Compile with g++ -std=c++17 -O0 -fno-builtin: every explicit ::operator call is a PLT call to the
   Itanium-mangled name (_Znwm, _ZdaPvmSt11align_val_t, ...). */
#include "t_override_common.h"
#include <new>
#include <string>
#include <vector>
#include <memory>
#include <map>
#include <sys/wait.h>

struct alignas(64) Over64 { char c[192]; };
struct Plain24 { char c[24]; };

/* ---------------------------------------------------------------------------------------------- */
enum { N_NEW, N_NEW_ARR, N_NEW_NT, N_NEW_ARR_NT, N_NEW_AL, N_NEW_ARR_AL, N_NEW_AL_NT, N_NEW_ARR_AL_NT,
       N_EXPR_ARR, N_EXPR_OVERALIGNED, N_ALLOCATOR,
       N_MALLOC, N_CALLOC, N_REALLOC_NULL, N_POSIX_MEMALIGN, N_ALIGNED_ALLOC, N_MEMALIGN, N_STRDUP, N_COUNT };
static const char* n_name[N_COUNT] = {
  "new", "new[]", "new(nothrow)", "new[](nothrow)", "new(align_val_t)", "new[](align_val_t)",
  "new(align_val_t,nothrow)", "new[](align_val_t,nothrow)", "new-expr-char[]", "new-expr-alignas64", "std::allocator",
  "malloc", "calloc", "realloc(NULL)", "posix_memalign", "aligned_alloc", "memalign", "strdup" };
static int n_takes_align(int a) {
  return a == N_NEW_AL || a == N_NEW_ARR_AL || a == N_NEW_AL_NT || a == N_NEW_ARR_AL_NT ||
         a == N_POSIX_MEMALIGN || a == N_ALIGNED_ALLOC || a == N_MEMALIGN;
}
static int n_fixed_size(int a) { return a == N_EXPR_OVERALIGNED; }

static std::string text_of_len(size_t n) { std::string s(n, 'x'); for (size_t i = 0; i < n; i++) s[i] = (char)('a' + i % 26); return s; }

static block_t do_alloc(int a, size_t size, size_t align) {
  block_t b; memset(&b, 0, sizeof(b));
  b.req = size; b.align = 0;
  std::align_val_t al = std::align_val_t(align);
  switch (a) {
    case N_NEW:           b.p = ::operator new(size); break;
    case N_NEW_ARR:       b.p = ::operator new[](size); break;
    case N_NEW_NT:        b.p = ::operator new(size, std::nothrow); break;
    case N_NEW_ARR_NT:    b.p = ::operator new[](size, std::nothrow); break;
    case N_NEW_AL:        b.p = ::operator new(size, al); b.align = align; break;
    case N_NEW_ARR_AL:    b.p = ::operator new[](size, al); b.align = align; break;
    case N_NEW_AL_NT:     b.p = ::operator new(size, al, std::nothrow); b.align = align; break;
    case N_NEW_ARR_AL_NT: b.p = ::operator new[](size, al, std::nothrow); b.align = align; break;
    case N_EXPR_ARR:      b.p = new char[size]; break;                       /* trivially destructible: no cookie */
    case N_EXPR_OVERALIGNED: b.p = new Over64; b.req = sizeof(Over64); b.align = 64; break;
    case N_ALLOCATOR:     b.p = std::allocator<char>().allocate(size); break;
    case N_MALLOC:        b.p = malloc(size); break;
    case N_CALLOC:        { void* d = malloc(size); if (d) { memset(d, 0xEE, size); free(d); } b.p = calloc(1, size); b.zeroed = 1; break; }
    case N_REALLOC_NULL:  b.p = realloc(NULL, size); break;
    case N_POSIX_MEMALIGN:{ void* q = NULL; b.p = (posix_memalign(&q, align, size) == 0 ? q : NULL); b.align = align; break; }
    case N_ALIGNED_ALLOC: b.p = aligned_alloc(align, size); b.align = align; break;
    case N_MEMALIGN:      b.p = memalign(align, size); b.align = align; break;
    case N_STRDUP:        { std::string s = text_of_len(size > 0 ? size - 1 : 0); b.p = strdup(s.c_str()); b.req = s.size() + 1; b.is_text = 1; break; }
  }
  return b;
}

/* ---------------------------------------------------------------------------------------------- */
enum { D_DELETE, D_DELETE_ARR, D_SIZED, D_SIZED_ARR, D_NT, D_ARR_NT, D_AL, D_ARR_AL, D_SIZED_AL, D_SIZED_ARR_AL,
       D_AL_NT, D_ARR_AL_NT, D_EXPR_ARR, D_FREE, D_REALLOC, D_USABLE, D_COUNT };
static const char* d_name[D_COUNT] = {
  "delete", "delete[]", "delete(size)", "delete[](size)", "delete(nothrow)", "delete[](nothrow)",
  "delete(align_val_t)", "delete[](align_val_t)", "delete(size,align_val_t)", "delete[](size,align_val_t)",
  "delete(align_val_t,nothrow)", "delete[](align_val_t,nothrow)", "delete-expr-char[]", "free", "realloc", "malloc_usable_size" };

static size_t actual_alignment(const block_t* b) {
  if (b->align != 0) return b->align;
  size_t low = (size_t)((uintptr_t)b->p & (~(uintptr_t)b->p + 1));   /* lowest set bit */
  return low > 4096 ? 4096 : low;
}

static const char* do_consume(int d, block_t* b) {
  std::align_val_t al = std::align_val_t(actual_alignment(b));
  switch (d) {
    case D_DELETE:        ::operator delete(b->p); return "ok";
    case D_DELETE_ARR:    ::operator delete[](b->p); return "ok";
    case D_SIZED:         ::operator delete(b->p, b->req); return "ok";
    case D_SIZED_ARR:     ::operator delete[](b->p, b->req); return "ok";
    case D_NT:            ::operator delete(b->p, std::nothrow); return "ok";
    case D_ARR_NT:        ::operator delete[](b->p, std::nothrow); return "ok";
    case D_AL:            ::operator delete(b->p, al); return "ok";
    case D_ARR_AL:        ::operator delete[](b->p, al); return "ok";
    case D_SIZED_AL:      ::operator delete(b->p, b->req, al); return "ok";
    case D_SIZED_ARR_AL:  ::operator delete[](b->p, b->req, al); return "ok";
    case D_AL_NT:         ::operator delete(b->p, al, std::nothrow); return "ok";
    case D_ARR_AL_NT:     ::operator delete[](b->p, al, std::nothrow); return "ok";
    case D_EXPR_ARR:      delete[] (char*)b->p; return "ok";
    case D_FREE:          free(b->p); return "ok";
    case D_REALLOC: {
      size_t ns = 2 * b->req + 9; void* q = realloc(b->p, ns);
      if (q == NULL) return "resize-returned-null";
      const char* w = "ok";
      if (!P_in_heap(q)) w = "resized-block-not-in-mimalloc-heap-region";
      else if (P_usable(q) < ns || malloc_usable_size(q) != P_usable(q)) w = "usable-size-wrong-after-resize";
      else if (!block_intact(b, q, b->req)) w = "contents-lost-in-resize";
      ::operator delete(q);
      return w;
    }
    case D_USABLE: {
      size_t u = malloc_usable_size(b->p);
      const char* w = (u == P_usable(b->p) && u >= b->req) ? "ok" : "malloc_usable_size-wrong";
      ::operator delete[](b->p);
      return w;
    }
  }
  return "unknown-consumer";
}

/* ---------------------------------------------------------------------------------------------- */
/* containers and smart pointers allocate through operator new                                      */
/* ---------------------------------------------------------------------------------------------- */
static void containers(void) {
  std::string s(1000, 'q');
  code("std::string-in-heap", P_in_heap(s.data()) && P_usable(s.data()) >= 1001, 0, 1);
  std::vector<long> v(5000, 7);
  code("std::vector-in-heap", P_in_heap(v.data()) && P_usable(v.data()) >= 5000 * sizeof(long), 0, 1);
  v.resize(100000); code("std::vector-regrown-in-heap", P_in_heap(v.data()) && v[4999] == 7, 0, 1);
  std::vector<Over64> ov(10);
  code("std::vector<alignas64>-aligned-in-heap", P_in_heap(ov.data()) && ((uintptr_t)ov.data() % 64) == 0, 0, 1);
  auto up = std::make_unique<Plain24>(); code("std::make_unique-in-heap", P_in_heap(up.get()), 0, 1);
  auto sp = std::make_shared<Over64>();  code("std::make_shared<alignas64>-in-heap", P_in_heap(sp.get()) && ((uintptr_t)sp.get() % 64) == 0, 0, 1);
  std::map<int, std::string> m; for (int i = 0; i < 100; i++) m[i] = std::string(40 + i, 'z');
  int ok = 1; for (auto& kv : m) { if (!P_in_heap(&kv.second) || !P_in_heap(kv.second.data())) ok = 0; }
  code("std::map-nodes-in-heap", ok, 0, 1);
  /* ownership handed across the language boundary: C++ smart pointer releasing C memory and vice versa */
  { std::unique_ptr<char, void (*)(void*)> cp(strdup("handed to C++"), free); code("unique_ptr(strdup,free)", P_in_heap(cp.get()), 0, 1); }
  { char* raw = (char*)malloc(64); std::unique_ptr<char[]> arr(raw); code("unique_ptr<char[]>(malloc)", P_in_heap(arr.get()), 0, 1); }   /* delete[] of malloc memory */
  { Plain24* q = new Plain24; free(q); code("free(new T)", 1, 0, 0); }
}

/* ---------------------------------------------------------------------------------------------- */
/* failure conventions of operator new                                                              */
/* ---------------------------------------------------------------------------------------------- */
static void handler_exit(void) { _exit(43); }

static int in_child(int which) {
  fflush(stdout);
  pid_t pid = fork();
  if (pid == 0) {
    /* silence mimalloc's own diagnostics in the child */
    if (!freopen("/dev/null", "w", stderr)) { }
    void* p = NULL;
    try {
      if (which == 1) { std::set_new_handler(handler_exit); }
      p = ::operator new(SIZE_MAX / 2);
    } catch (const std::bad_alloc&) { _exit(42); }
    _exit(p == NULL ? 40 : 41);        /* a throwing operator new must not return at all on failure */
  }
  int st = 0; waitpid(pid, &st, 0);
  if (WIFEXITED(st)) return WEXITSTATUS(st);
  if (WIFSIGNALED(st)) return 1000 + WTERMSIG(st);
  return -1;
}

static void failure_conventions(void) {
  checkpoint("new(huge,nothrow)");
  void* p = ::operator new(SIZE_MAX / 2, std::nothrow);
  code("new(huge,nothrow)->nullptr", p == NULL, p != NULL, 0);
  checkpoint("new[](huge,nothrow)");
  p = ::operator new[](SIZE_MAX / 2, std::nothrow);
  code("new[](huge,nothrow)->nullptr", p == NULL, p != NULL, 0);
  checkpoint("new(huge,align_val_t,nothrow)");
  p = ::operator new(SIZE_MAX / 2, std::align_val_t(64), std::nothrow);
  code("new(huge,align_val_t,nothrow)->nullptr", p == NULL, p != NULL, 0);
  checkpoint("new[](huge,align_val_t,nothrow)");
  p = ::operator new[](SIZE_MAX / 2, std::align_val_t(64), std::nothrow);
  code("new[](huge,align_val_t,nothrow)->nullptr", p == NULL, p != NULL, 0);
  checkpoint("delete(nullptr)");
  ::operator delete(NULL); ::operator delete[](NULL); ::operator delete(NULL, 10); ::operator delete(NULL, std::align_val_t(64));
  code("delete(nullptr)", 1, 0, 0);
  /* throwing form, huge request: 42 = std::bad_alloc thrown, 1006 = abort() (mimalloc built as C cannot
     throw and documents abort instead), 40/41 = returned to the caller -- the only outcome that is wrong */
  int r = in_child(0);
  code("new(huge)-does-not-return", r != 40 && r != 41, r, 42);
  printf("T info new(huge) outcome=%s (%d)\n", r == 42 ? "bad_alloc" : (r == 1006 ? "abort" : "other"), r);
  /* with a new-handler installed: 43 = the handler was called */
  r = in_child(1);
  code("new(huge)+handler-does-not-return", r != 40 && r != 41, r, 43);
  printf("T info new(huge)+new_handler outcome=%s (%d)\n", r == 43 ? "handler-called" : (r == 42 ? "bad_alloc-without-handler" : (r == 1006 ? "abort-without-handler" : "other")), r);
}

int main(int argc, char** argv) {
  setvbuf(stdout, NULL, _IOLBF, 0);
  long first = (argc > 1 ? atol(argv[1]) : 0);
  int thorough = (argc > 2 ? atoi(argv[2]) : 0);
  long last = (getenv("T_OVERRIDE_LAST") ? atol(getenv("T_OVERRIDE_LAST")) : -1);   /* replay of one pair */
  if (!probes_init()) { printf("END 0 1\n"); return 0; }
  if (first == 0) resolve_symbols(argc, argv, 3);
  if (first == 0 && !getenv("T_OVERRIDE_SKIP_CODES")) {
    checkpoint("containers");
    containers();
    failure_conventions();
    checkpoint("done");
  }
  static const size_t sizes_q[] = { 1, 8, 24, 100, 1000, 9000, 70000, 140000, 3000000 };
  static const size_t sizes_t[] = { 1, 2, 7, 8, 9, 16, 24, 48, 100, 511, 1000, 1024, 4096, 8192, 9000, 65536, 70000,
                                    131072, 140000, 1000000, 3000000, 20000000 };
  static const size_t aligns_q[] = { 8, 32, 64, 4096, 65536 };
  static const size_t aligns_t[] = { 8, 16, 32, 64, 256, 4096, 65536, (size_t)1 << 21, (size_t)1 << 24, (size_t)1 << 26 };
  const size_t* sizes = thorough ? sizes_t : sizes_q;
  size_t nsizes = thorough ? sizeof(sizes_t) / sizeof(size_t) : sizeof(sizes_q) / sizeof(size_t);
  const size_t* aligns = thorough ? aligns_t : aligns_q;
  size_t naligns = thorough ? sizeof(aligns_t) / sizeof(size_t) : sizeof(aligns_q) / sizeof(size_t);

  long idx = 0;
  for (int a = 0; a < N_COUNT; a++) {
    for (int d = 0; d < D_COUNT; d++) {
      for (size_t si = 0; si < nsizes; si++) {
        if (n_fixed_size(a) && si > 0) break;
        size_t na = n_takes_align(a) ? naligns : 1;
        for (size_t ai = 0; ai < na; ai++, idx++) {
          if (idx < first || (last >= 0 && idx > last)) continue;
          size_t size = sizes[si], align = n_takes_align(a) ? aligns[ai] : 0;
          if (a == N_ALIGNED_ALLOC && size % align != 0) size = (size + align - 1) / align * align;
          printf("B %ld %s %s size=%zu align=%zu\n", idx, n_name[a], d_name[d], size, align);
          block_t b = do_alloc(a, size, align);
          const char* why = check_block(&b);
          if (strcmp(why, "ok") == 0 && b.zeroed) {
            for (size_t i = 0; i < b.req; i++) if (((unsigned char*)b.p)[i] != 0) { why = "calloc-not-zero-filled"; break; }
          }
          rec_alloc(n_name[a], size, align, why);
          if (strcmp(why, "ok") != 0) {
            rec_pair(n_name[a], d_name[d], size, align, "skipped-allocation-failed-its-checks");
            continue;
          }
          fill_block(&b, (unsigned char)(0xA5 ^ (idx & 0x7f)));
          rec_pair(n_name[a], d_name[d], size, align, do_consume(d, &b));
        }
      }
    }
  }
  printf("END %ld %ld\n", n_pairs, n_fail);
  leave_buffered_stream(n_pairs);
  return 0;
}
