// splitmix64: every random choice of a harness derives from one state seeded by VERIF_SEED
#pragma once
#include <stdint.h>
#include <stddef.h>
typedef struct { uint64_t s; } prng_t;
static inline void prng_seed(prng_t* g, uint64_t seed) { g->s = seed * 0x9E3779B97F4A7C15ull + 0x1234567ull; }
static inline uint64_t prng_next(prng_t* g) {
  uint64_t z = (g->s += 0x9E3779B97F4A7C15ull);
  z = (z ^ (z >> 30)) * 0xBF58476D1CE4E5B9ull;
  z = (z ^ (z >> 27)) * 0x94D049BB133111EBull;
  return z ^ (z >> 31);
}
static inline size_t prng_below(prng_t* g, size_t n) { return n == 0 ? 0 : (size_t)(prng_next(g) % n); }
// a 64-bit value with a random magnitude (log-uniform), biased to boundaries of powers of two
static inline size_t prng_sized(prng_t* g) {
  unsigned bits = (unsigned)(prng_next(g) % 65);
  uint64_t v = prng_next(g);
  if (bits == 0) return 0;
  if (bits < 64) v &= (((uint64_t)1 << bits) - 1);
  switch (prng_next(g) % 8) {
    case 0: return bits < 64 ? ((uint64_t)1 << bits) : v;
    case 1: return bits < 64 ? ((uint64_t)1 << bits) - 1 : v;
    case 2: return v | ((uint64_t)1 << (bits - 1));
    default: return v;
  }
}
