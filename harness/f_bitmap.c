// Correspondence harness for the bitmap model (C14; also the bitmap part of C09/C15).
// Includes the whole allocator as one TU: every (static) function of src/bitmap.c and src/arena.c
// is the real one.
//  F <fn> ...      function-level records, compared with coq/Model/Bitmap.v by ocaml/mode_bitmap.ml
//  T <kind> ...    implementation-side oracle (checked by tools/props/C14.py):
//                  `T FAIL <kind> <witness...>` = a concrete failing input,
//                  `T sum <kind> <checked> <failed> ...` = summary / coverage,
//                  `T finding <key> ...` = a reproduced known limitation of the unchanged code.
// usage: f_bitmap <seed> <thorough 0|1>
#include REPO_STATIC
#include <stdio.h>
#include <inttypes.h>
#include <pthread.h>
#include <sys/mman.h>
#include "prng.h"

#define U(x) ((unsigned long long)(x))
#define MAXF 4
#define FB   MI_BITMAP_FIELD_BITS

static mi_bitmap_field_t g_bm[MAXF + 2];      // the real bitmap under test (+ guard fields)
static long n_checked[16], n_failed[16];
enum { K_CLAIM, K_FAIL_UNCHANGED, K_UNCLAIM, K_FILL, K_SMALL_COMPLETE, K_TRYCLAIM, K_GUARD, K_ARENA, K_STRESS, K_ASTRESS };
static const char* kname[] = { "claim_exact", "fail_unchanged", "unclaim_restores", "unit_fill", "small_complete",
                               "try_claim", "guard_fields", "arena", "stress", "arena_stress" };

static void bm_load(const size_t* f, size_t nf) {
  for (size_t i = 0; i < MAXF + 2; i++) mi_atomic_store_relaxed(&g_bm[i], (size_t)0);
  // guard pattern after the bitmap: must never be touched
  for (size_t i = nf; i < MAXF + 2; i++) mi_atomic_store_relaxed(&g_bm[i], (size_t)0xA5A5A5A5A5A5A5A5ull);
  for (size_t i = 0; i < nf; i++) mi_atomic_store_relaxed(&g_bm[i], f[i]);
}
static void bm_save(size_t* f, size_t nf) { for (size_t i = 0; i < nf; i++) f[i] = mi_atomic_load_relaxed(&g_bm[i]); }
static void check_guard(size_t nf, const char* fn) {
  n_checked[K_GUARD]++;
  for (size_t i = nf; i < MAXF + 2; i++) {
    if (mi_atomic_load_relaxed(&g_bm[i]) != (size_t)0xA5A5A5A5A5A5A5A5ull) {
      n_failed[K_GUARD]++;
      printf("T FAIL guard_fields %s wrote field %llu beyond a bitmap of %llu fields\n", fn, U(i), U(nf));
    }
  }
}
static void pr(const size_t* f, size_t nf) { for (size_t i = 0; i < nf; i++) printf(" %llu", U(f[i])); }
static int bitof(const size_t* f, size_t p) { return (int)((f[p / FB] >> (p % FB)) & 1); }

// ---- random bitmaps ----
static size_t rnd_mask_density(prng_t* g, int per64) {   // each bit set with probability per64/64
  size_t v = 0;
  for (int b = 0; b < 64; b++) if ((int)prng_below(g, 64) < per64) v |= ((size_t)1 << b);
  return v;
}
static void gen_bitmap(prng_t* g, size_t* f, size_t nf) {
  int kind = (int)prng_below(g, 10);
  for (size_t i = 0; i < nf; i++) f[i] = 0;
  switch (kind) {
    case 0: break;                                                          // empty
    case 1: for (size_t i = 0; i < nf; i++) f[i] = ~(size_t)0; break;       // full
    case 2: for (size_t i = 0; i < nf; i++) f[i] = rnd_mask_density(g, 61); break;   // nearly full
    case 3: for (size_t i = 0; i < nf; i++) f[i] = rnd_mask_density(g, 2); break;    // nearly empty
    case 4: for (size_t i = 0; i < nf; i++) f[i] = rnd_mask_density(g, 32); break;
    case 5: case 6: {                                                       // runs that cross field boundaries
      size_t p = 0, total = nf * FB; int one = (int)prng_below(g, 2);
      size_t maxrun = (kind == 5 ? 12 : 150);
      while (p < total) {
        size_t len = 1 + prng_below(g, maxrun);
        for (size_t k = 0; k < len && p < total; k++, p++) if (one) f[p / FB] |= ((size_t)1 << (p % FB));
        one = !one;
      }
      break;
    }
    case 7: {                                                               // arena shape: left-over bits of the last field + a used prefix
      size_t post = prng_below(g, FB);
      if (post > 0) f[nf - 1] = ~(size_t)0 << (FB - post);
      size_t used = prng_below(g, nf * FB - post + 1);
      for (size_t p = 0; p < used; p++) f[p / FB] |= ((size_t)1 << (p % FB));
      break;
    }
    case 8: {                                                               // a few free holes in a full bitmap
      for (size_t i = 0; i < nf; i++) f[i] = ~(size_t)0;
      int holes = 1 + (int)prng_below(g, 4);
      for (int h = 0; h < holes; h++) {
        size_t len = 1 + prng_below(g, 140), p = prng_below(g, nf * FB);
        for (size_t k = 0; k < len && p + k < nf * FB; k++) f[(p + k) / FB] &= ~((size_t)1 << ((p + k) % FB));
      }
      break;
    }
    default: {                                                              // low bits used (as after sequential claims)
      for (size_t i = 0; i < nf; i++) { size_t n = prng_below(g, FB + 1); f[i] = (n >= FB ? ~(size_t)0 : (((size_t)1 << n) - 1)); }
      break;
    }
  }
  // force the top bit of some fields
  for (size_t i = 0; i < nf; i++) {
    size_t r = prng_below(g, 8);
    if (r == 0) f[i] |= ((size_t)1 << (FB - 1)); else if (r == 1) f[i] &= ~((size_t)1 << (FB - 1));
  }
}

// ---- implementation-side oracles on one call ----
static void oracle_claim(const char* fn, const size_t* before, const size_t* after, size_t nf, bool ok, size_t idx, size_t count, size_t start) {
  if (ok) {
    n_checked[K_CLAIM]++;
    bool good = (idx + count <= nf * FB);
    for (size_t p = 0; good && p < nf * FB; p++) {
      int in = (p >= idx && p < idx + count);
      if (in) { if (bitof(before, p) != 0 || bitof(after, p) != 1) good = false; }
      else if (bitof(before, p) != bitof(after, p)) good = false;
    }
    if (!good) {
      n_failed[K_CLAIM]++;
      printf("T FAIL claim_exact %s fields=%llu start=%llu count=%llu returned index %llu before:", fn, U(nf), U(start), U(count), U(idx));
      pr(before, nf); printf(" after:"); pr(after, nf); printf("\n");
    }
  }
  else {
    n_checked[K_FAIL_UNCHANGED]++;
    bool same = true;
    for (size_t i = 0; i < nf; i++) if (before[i] != after[i]) same = false;
    if (!same) {
      n_failed[K_FAIL_UNCHANGED]++;
      printf("T FAIL fail_unchanged %s fields=%llu start=%llu count=%llu returned false but changed the bitmap before:", fn, U(nf), U(start), U(count));
      pr(before, nf); printf(" after:"); pr(after, nf); printf("\n");
    }
  }
}
// is there a run of `count` zero bits inside one field?
static bool has_infield_run(const size_t* f, size_t nf, size_t count) {
  for (size_t i = 0; i < nf; i++) {
    size_t run = 0;
    for (size_t b = 0; b < FB; b++) { if ((f[i] >> b) & 1) run = 0; else if (++run >= count) return true; }
  }
  return false;
}

static void one_case(prng_t* g, int caseno) {
  size_t nf = 1 + prng_below(g, MAXF);
  size_t f[MAXF], a[MAXF];
  gen_bitmap(g, f, nf);
  size_t total = nf * FB;
  mi_bitmap_index_t bi = 0;
  // -- _mi_bitmap_try_find_claim_field
  {
    size_t idx = prng_below(g, nf), count = 1 + prng_below(g, (caseno % 3 == 0) ? 3 : FB);
    bm_load(f, nf); bi = 0;
    bool ok = _mi_bitmap_try_find_claim_field(g_bm, idx, count, &bi);
    bm_save(a, nf); check_guard(nf, "field");
    printf("F field %llu", U(nf)); pr(f, nf); printf(" %llu %llu = %d %llu", U(idx), U(count), ok, U(ok ? bi : 0)); pr(a, nf); printf("\n");
    oracle_claim("_mi_bitmap_try_find_claim_field", f, a, nf, ok, bi, count, idx);
    if (ok && mi_bitmap_index_field(bi) != idx) { n_failed[K_CLAIM]++; printf("T FAIL claim_exact field claim outside the requested field %llu: index %llu\n", U(idx), U(bi)); }
  }
  // -- _mi_bitmap_try_find_from_claim (+ completeness for every count <= 64 inside a field)
  {
    size_t start = prng_below(g, nf + 2), count = 1 + prng_below(g, (caseno % 2 == 0) ? 2 : FB);
    bm_load(f, nf); bi = 0;
    bool ok = _mi_bitmap_try_find_from_claim(g_bm, nf, start, count, &bi);
    bm_save(a, nf); check_guard(nf, "from");
    printf("F from %llu", U(nf)); pr(f, nf); printf(" %llu %llu = %d %llu", U(start), U(count), ok, U(ok ? bi : 0)); pr(a, nf); printf("\n");
    oracle_claim("_mi_bitmap_try_find_from_claim", f, a, nf, ok, bi, count, start);
    n_checked[K_SMALL_COMPLETE]++;
    if (ok != has_infield_run(f, nf, count)) {
      n_failed[K_SMALL_COMPLETE]++;
      printf("T FAIL small_complete _mi_bitmap_try_find_from_claim fields=%llu start=%llu count=%llu returned %d but a free run inside a field %s:", U(nf), U(start), U(count), ok, ok ? "does not exist" : "exists");
      pr(f, nf); printf("\n");
    }
  }
  // -- _mi_bitmap_try_find_from_claim_pred (predicate: bitmap_idx % k != r)
  {
    size_t start = prng_below(g, nf + 1), count = 1 + prng_below(g, 4);
    size_t kr[2]; kr[0] = 2 + prng_below(g, 5); kr[1] = prng_below(g, kr[0]);
    bm_load(f, nf); bi = 0;
    extern bool f_bitmap_pred(mi_bitmap_index_t idx, void* arg);
    bool ok = _mi_bitmap_try_find_from_claim_pred(g_bm, nf, start, count, &f_bitmap_pred, kr, &bi);
    bm_save(a, nf); check_guard(nf, "pred");
    printf("F pred %llu", U(nf)); pr(f, nf); printf(" %llu %llu %llu %llu = %d %llu", U(start), U(count), U(kr[0]), U(kr[1]), ok, U(ok ? bi : 0)); pr(a, nf); printf("\n");
    oracle_claim("_mi_bitmap_try_find_from_claim_pred", f, a, nf, ok, bi, count, start);
  }
  // -- single-field claim / unclaim / try_claim / is_claimed on a range inside one field
  {
    size_t idx = prng_below(g, nf), count = 1 + prng_below(g, FB), bit = prng_below(g, FB - count + 1);
    mi_bitmap_index_t x = mi_bitmap_index_create(idx, bit);
    bm_load(f, nf);
    bool allone = _mi_bitmap_unclaim(g_bm, nf, count, x);
    bm_save(a, nf); check_guard(nf, "unclaim");
    printf("F unclaim %llu", U(nf)); pr(f, nf); printf(" %llu %llu = %d", U(count), U(x), allone); pr(a, nf); printf("\n");
    bm_load(f, nf);
    bool anyzero = false;
    bool allzero = _mi_bitmap_claim(g_bm, nf, count, x, &anyzero);
    bm_save(a, nf); check_guard(nf, "claim");
    printf("F claim %llu", U(nf)); pr(f, nf); printf(" %llu %llu = %d %d", U(count), U(x), allzero, anyzero); pr(a, nf); printf("\n");
    bm_load(f, nf);
    printf("F isclaimed %llu", U(nf)); pr(f, nf); printf(" %llu %llu = %d %d\n", U(count), U(x),
           _mi_bitmap_is_claimed(g_bm, nf, count, x), _mi_bitmap_is_any_claimed(g_bm, nf, count, x));
    bool ok = _mi_bitmap_try_claim(g_bm, nf, count, x);
    bm_save(a, nf); check_guard(nf, "tryclaim");
    printf("F tryclaim %llu", U(nf)); pr(f, nf); printf(" %llu %llu = %d", U(count), U(x), ok); pr(a, nf); printf("\n");
    // oracle: succeeds exactly when the range was free, and then sets exactly the range
    n_checked[K_TRYCLAIM]++;
    bool wasfree = true;
    for (size_t k = 0; k < count; k++) if (bitof(f, x + k)) wasfree = false;
    if (ok != wasfree) { n_failed[K_TRYCLAIM]++; printf("T FAIL try_claim _mi_bitmap_try_claim count=%llu index=%llu returned %d, range free=%d:", U(count), U(x), ok, wasfree); pr(f, nf); printf("\n"); }
    oracle_claim("_mi_bitmap_try_claim", f, a, nf, ok, x, count, x);
  }
  // -- mi_bitmap_try_find_claim_field_across (one field, retries = 0)
  {
    size_t idx = prng_below(g, nf), count = 1 + prng_below(g, (caseno % 4 == 0) ? 8 : 130);
    bm_load(f, nf); bi = 0;
    bool ok = mi_bitmap_try_find_claim_field_across(g_bm, nf, idx, count, 0, &bi);
    bm_save(a, nf); check_guard(nf, "facross");
    printf("F facross %llu", U(nf)); pr(f, nf); printf(" %llu %llu = %d %llu", U(idx), U(count), ok, U(ok ? bi : 0)); pr(a, nf); printf("\n");
    oracle_claim("mi_bitmap_try_find_claim_field_across", f, a, nf, ok, bi, count, idx);
  }
  // -- _mi_bitmap_try_find_from_claim_across, then _mi_bitmap_unclaim_across restores
  {
    size_t start = prng_below(g, nf + 2);
    size_t count = (caseno % 5 == 0) ? 1 + prng_below(g, 3) : (caseno % 5 == 1) ? 1 + prng_below(g, total + 4) : 1 + prng_below(g, 130);
    bm_load(f, nf); bi = 0;
    bool ok = _mi_bitmap_try_find_from_claim_across(g_bm, nf, start, count, &bi);
    bm_save(a, nf); check_guard(nf, "across");
    printf("F across %llu", U(nf)); pr(f, nf); printf(" %llu %llu = %d %llu", U(start), U(count), ok, U(ok ? bi : 0)); pr(a, nf); printf("\n");
    oracle_claim("_mi_bitmap_try_find_from_claim_across", f, a, nf, ok, bi, count, start);
    if (count <= 2) {
      n_checked[K_SMALL_COMPLETE]++;
      if (ok != has_infield_run(f, nf, count)) {
        n_failed[K_SMALL_COMPLETE]++;
        printf("T FAIL small_complete _mi_bitmap_try_find_from_claim_across fields=%llu start=%llu count=%llu returned %d:", U(nf), U(start), U(count), ok); pr(f, nf); printf("\n");
      }
    }
    if (ok) {
      size_t r[MAXF];
      bool allone = _mi_bitmap_unclaim_across(g_bm, nf, count, bi);
      bm_save(r, nf); check_guard(nf, "unclaim_across");
      n_checked[K_UNCLAIM]++;
      bool same = allone;
      for (size_t i = 0; i < nf; i++) if (r[i] != f[i]) same = false;
      if (!same) {
        n_failed[K_UNCLAIM]++;
        printf("T FAIL unclaim_restores claim of %llu at %llu then _mi_bitmap_unclaim_across (returned %d) does not restore the bitmap before:", U(count), U(bi), allone);
        pr(f, nf); printf(" after:"); pr(r, nf); printf("\n");
      }
    }
  }
  // -- the _across set/clear/test functions on a random range inside the bitmap
  {
    size_t count = 1 + prng_below(g, (caseno % 3 == 0) ? 70 : 200); if (count > total) count = total;
    size_t x = prng_below(g, total - count + 1);
    size_t pre = 0, mid = 0, post = 0;
    size_t midc = mi_bitmap_mask_across(x, nf, count, &pre, &mid, &post);
    printf("F maskacross %llu %llu %llu = %llu %llu %llu %llu\n", U(x), U(nf), U(count), U(pre), U(mid), U(post), U(midc));
    bm_load(f, nf);
    bool allone = _mi_bitmap_unclaim_across(g_bm, nf, count, x);
    bm_save(a, nf); check_guard(nf, "unclaimx");
    printf("F unclaimx %llu", U(nf)); pr(f, nf); printf(" %llu %llu = %d", U(count), U(x), allone); pr(a, nf); printf("\n");
    n_checked[K_UNCLAIM]++;
    { bool good = true; bool ones = true;
      for (size_t p = 0; p < total; p++) { int in = (p >= x && p < x + count); if (in) { if (!bitof(f, p)) ones = false; if (bitof(a, p)) good = false; } else if (bitof(f, p) != bitof(a, p)) good = false; }
      if (!good || ones != allone) { n_failed[K_UNCLAIM]++; printf("T FAIL unclaim_restores _mi_bitmap_unclaim_across count=%llu index=%llu (returned %d) did not clear exactly the range before:", U(count), U(x), allone); pr(f, nf); printf(" after:"); pr(a, nf); printf("\n"); } }
    bm_load(f, nf);
    bool anyzero = false; size_t already = 0;
    bool allzero = _mi_bitmap_claim_across(g_bm, nf, count, x, &anyzero, &already);
    bm_save(a, nf); check_guard(nf, "claimx");
    printf("F claimx %llu", U(nf)); pr(f, nf); printf(" %llu %llu = %d %d %llu", U(count), U(x), allzero, anyzero, U(already)); pr(a, nf); printf("\n");
    bm_load(f, nf);
    size_t already2 = 0;
    bool all = _mi_bitmap_is_claimed_across(g_bm, nf, count, x, &already2);
    bool any = _mi_bitmap_is_any_claimed_across(g_bm, nf, count, x);
    printf("F isclaimedx %llu", U(nf)); pr(f, nf); printf(" %llu %llu = %d %llu %d\n", U(count), U(x), all, U(already2), any);
  }
  // -- unit claims fill the bitmap completely, unclaiming everything restores it
  if (caseno % 8 == 0) {
    size_t zeros = 0;
    for (size_t p = 0; p < total; p++) if (!bitof(f, p)) zeros++;
    bm_load(f, nf);
    static mi_bitmap_index_t got[MAXF * 64];
    size_t n = 0; size_t start = prng_below(g, nf);
    while (n < total && _mi_bitmap_try_find_from_claim_across(g_bm, nf, start, 1, &bi)) got[n++] = bi;
    bm_save(a, nf);
    bool full = true;
    for (size_t i = 0; i < nf; i++) if (a[i] != ~(size_t)0) full = false;
    bool distinct = true;
    for (size_t i = 0; i < n && distinct; i++) { if (bitof(f, got[i])) distinct = false; for (size_t j = 0; j < i; j++) if (got[i] == got[j]) distinct = false; }
    for (size_t i = 0; i < n; i++) _mi_bitmap_unclaim_across(g_bm, nf, 1, got[i]);
    size_t r[MAXF]; bm_save(r, nf); check_guard(nf, "fill");
    bool same = true;
    for (size_t i = 0; i < nf; i++) if (r[i] != f[i]) same = false;
    n_checked[K_FILL]++;
    if (n != zeros || !full || !distinct || !same) {
      n_failed[K_FILL]++;
      printf("T FAIL unit_fill %llu unit claims succeeded on a bitmap with %llu free bits (full=%d distinct=%d restored=%d):", U(n), U(zeros), full, distinct, same); pr(f, nf); printf("\n");
    }
  }
}
bool f_bitmap_pred(mi_bitmap_index_t idx, void* arg) { size_t* kr = (size_t*)arg; return (idx % kr[0]) != kr[1]; }

// ------------------------------------------------------------------------------------------------
// multi-threaded stress on the raw bitmap functions
// ------------------------------------------------------------------------------------------------
#define SF 3
static mi_bitmap_field_t s_bm[SF + 1];
static _Atomic(unsigned char) s_shadow[SF * 64];
static size_t s_init[SF];
static _Atomic(long) s_conflicts, s_claims, s_cross, s_fail, s_purges, s_badfree, s_outside;
static _Atomic(int) s_reported;
typedef struct { int id; uint64_t seed; long iters; int purger; } sarg_t;

static void s_report(const char* what, int id, size_t idx, size_t count, int other) {
  if (atomic_fetch_add(&s_reported, 1) < 5) {
    flockfile(stdout);   // several threads may report at once: one record per line
    printf("T FAIL stress %s: thread %d range [%llu,%llu) other owner %d bitmap:", what, id, U(idx), U(idx + count), other);
    for (size_t i = 0; i < SF; i++) printf(" %llu", U(mi_atomic_load_relaxed(&s_bm[i])));
    printf("\n");
    funlockfile(stdout);
  }
}
static void s_stamp(int id, size_t idx, size_t count) {
  if (idx + count > SF * 64) { atomic_fetch_add(&s_outside, 1); s_report("claimed range outside the bitmap", id, idx, count, -1); return; }
  for (size_t p = idx; p < idx + count; p++) {
    if ((s_init[p / 64] >> (p % 64)) & 1) { atomic_fetch_add(&s_outside, 1); s_report("claimed a pre-claimed (left-over) bit", id, idx, count, -1); }
    unsigned char prev = atomic_exchange(&s_shadow[p], (unsigned char)id);
    if (prev != 0) { atomic_fetch_add(&s_conflicts, 1); s_report("two owners of one bit", id, idx, count, prev); }
  }
}
static void s_unstamp(int id, size_t idx, size_t count) {
  for (size_t p = idx; p < idx + count && p < SF * 64; p++) {
    unsigned char prev = atomic_exchange(&s_shadow[p], (unsigned char)0);
    if (prev != (unsigned char)id) { atomic_fetch_add(&s_conflicts, 1); s_report("owner changed while claimed", id, idx, count, prev); }
  }
}
static void* s_thread(void* varg) {
  sarg_t* a = (sarg_t*)varg;
  prng_t g; prng_seed(&g, a->seed);
  enum { KEEP = 2 };
  size_t kidx[KEEP], kcnt[KEEP]; int nk = 0;
  for (long it = 0; it < a->iters; it++) {
    if (a->purger) {
      // as mi_arena_try_purge: temporarily claim the longest prefix of a range inside one field
      size_t i = prng_below(&g, SF), bit = prng_below(&g, 64), len = 1 + prng_below(&g, 64 - bit);
      if (len > 8) len = 1 + prng_below(&g, 8);
      mi_bitmap_index_t x = mi_bitmap_index_create(i, bit);
      while (len > 0) { if (_mi_bitmap_try_claim(s_bm, SF, len, x)) break; len--; }
      if (len > 0) {
        atomic_fetch_add(&s_purges, 1);
        s_stamp(a->id, x, len);
        s_unstamp(a->id, x, len);
        if (!_mi_bitmap_unclaim(s_bm, SF, len, x)) { atomic_fetch_add(&s_badfree, 1); s_report("purger: _mi_bitmap_unclaim reports bits were not all set", a->id, x, len, -1); }
      }
      continue;
    }
    if (nk == KEEP || (nk > 0 && prng_below(&g, 2) == 0)) {
      int k = (int)prng_below(&g, nk);
      s_unstamp(a->id, kidx[k], kcnt[k]);
      if (!_mi_bitmap_unclaim_across(s_bm, SF, kcnt[k], kidx[k])) { atomic_fetch_add(&s_badfree, 1); s_report("_mi_bitmap_unclaim_across reports bits were not all set", a->id, kidx[k], kcnt[k], -1); }
      kidx[k] = kidx[nk - 1]; kcnt[k] = kcnt[nk - 1]; nk--;
    }
    else {
      size_t r = prng_below(&g, 16);
      size_t count = (r < 4 ? 1 + prng_below(&g, 2) : r < 12 ? 3 + prng_below(&g, 30) : 3 + prng_below(&g, 90));
      mi_bitmap_index_t x = 0;
      if (_mi_bitmap_try_find_from_claim_across(s_bm, SF, prng_below(&g, SF), count, &x)) {
        atomic_fetch_add(&s_claims, 1);
        if (x / 64 != (x + count - 1) / 64) atomic_fetch_add(&s_cross, 1);
        s_stamp(a->id, x, count);
        kidx[nk] = x; kcnt[nk] = count; nk++;
      }
      else atomic_fetch_add(&s_fail, 1);
    }
  }
  while (nk > 0) {
    nk--;
    s_unstamp(a->id, kidx[nk], kcnt[nk]);
    if (!_mi_bitmap_unclaim_across(s_bm, SF, kcnt[nk], kidx[nk])) { atomic_fetch_add(&s_badfree, 1); s_report("_mi_bitmap_unclaim_across reports bits were not all set", a->id, kidx[nk], kcnt[nk], -1); }
  }
  return NULL;
}
static void stress(uint64_t seed, int nthreads, long iters, size_t post) {
  for (size_t i = 0; i < SF; i++) s_init[i] = 0;
  if (post > 0) s_init[SF - 1] = ~(size_t)0 << (64 - post);
  for (size_t i = 0; i < SF; i++) mi_atomic_store_release(&s_bm[i], s_init[i]);
  mi_atomic_store_release(&s_bm[SF], (size_t)0x5A5A5A5A5A5A5A5Aull);
  for (size_t p = 0; p < SF * 64; p++) atomic_store(&s_shadow[p], (unsigned char)0);
  atomic_store(&s_conflicts, 0); atomic_store(&s_claims, 0); atomic_store(&s_cross, 0); atomic_store(&s_fail, 0);
  atomic_store(&s_purges, 0); atomic_store(&s_badfree, 0); atomic_store(&s_outside, 0);
  pthread_t th[32]; sarg_t args[32];
  for (int t = 0; t < nthreads; t++) {
    args[t].id = t + 1; args[t].seed = seed * 1000 + t; args[t].iters = iters; args[t].purger = (t == nthreads - 1);
    pthread_create(&th[t], NULL, &s_thread, &args[t]);
  }
  for (int t = 0; t < nthreads; t++) pthread_join(th[t], NULL);
  bool final_ok = (mi_atomic_load_acquire(&s_bm[SF]) == (size_t)0x5A5A5A5A5A5A5A5Aull);
  for (size_t i = 0; i < SF; i++) if (mi_atomic_load_acquire(&s_bm[i]) != s_init[i]) final_ok = false;
  long bad = atomic_load(&s_conflicts) + atomic_load(&s_badfree) + atomic_load(&s_outside) + (final_ok ? 0 : 1);
  n_checked[K_STRESS] += atomic_load(&s_claims) + atomic_load(&s_purges); n_failed[K_STRESS] += bad;
  if (!final_ok) {
    printf("T FAIL stress after all %d threads released their claims the bitmap differs from the initial pattern: now", nthreads);
    for (size_t i = 0; i < SF; i++) printf(" %llu", U(mi_atomic_load_acquire(&s_bm[i])));
    printf(" initially"); pr(s_init, SF); printf("\n");
  }
  printf("T sum stress_run threads=%d iters=%ld post=%llu claims=%ld cross_field=%ld failed_claims=%ld purger_claims=%ld conflicts=%ld bad_unclaim=%ld outside=%ld final_ok=%d\n",
         nthreads, iters, U(post), (long)atomic_load(&s_claims), (long)atomic_load(&s_cross), (long)atomic_load(&s_fail), (long)atomic_load(&s_purges),
         (long)atomic_load(&s_conflicts), (long)atomic_load(&s_badfree), (long)atomic_load(&s_outside), final_ok);
}

// ------------------------------------------------------------------------------------------------
// the real arena: mi_manage_os_memory_ex + _mi_arena_alloc_aligned / _mi_arena_free
// ------------------------------------------------------------------------------------------------
typedef struct { mi_arena_id_t id; mi_arena_t* arena; uint8_t* start; size_t bcount; _Atomic(unsigned char)* shadow; } harena_t;

static bool make_arena(harena_t* h, size_t bcount) {
  size_t size = bcount * MI_ARENA_BLOCK_SIZE;
  uint8_t* raw = (uint8_t*)mmap(NULL, size + MI_SEGMENT_ALIGN, PROT_NONE, MAP_PRIVATE | MAP_ANONYMOUS | MAP_NORESERVE, -1, 0);
  if (raw == MAP_FAILED) return false;
  uint8_t* start = (uint8_t*)_mi_align_up((uintptr_t)raw, MI_SEGMENT_ALIGN);
  h->id = 0;
  if (!mi_manage_os_memory_ex(start, size, false /*committed*/, false /*large*/, false /*zero*/, -1, true /*exclusive*/, &h->id)) return false;
  h->arena = mi_arena_from_index(mi_arena_id_index(h->id));
  h->start = start; h->bcount = bcount;
  h->shadow = (_Atomic(unsigned char)*)calloc(bcount + 1, 1);
  printf("F arena_init %llu = %llu", U(bcount), U(h->arena->field_count));
  for (size_t i = 0; i < h->arena->field_count; i++) printf(" %llu", U(mi_atomic_load_relaxed(&h->arena->blocks_inuse[i])));
  printf("\n");
  return true;
}
static _Atomic(long) a_conf, a_allocs, a_null, a_cross;
static _Atomic(int) a_reported;
// allocate `blocks` blocks from the arena; returns the first block number or -1; checks range + exclusiveness
static long arena_alloc(harena_t* h, size_t blocks, mi_memid_t* memid, int id) {
  void* p = _mi_arena_alloc_aligned(blocks * MI_ARENA_BLOCK_SIZE, MI_SEGMENT_ALIGN, 0, false, false, h->id, memid);
  if (p == NULL) { atomic_fetch_add(&a_null, 1); return -1; }
  atomic_fetch_add(&a_allocs, 1);
  uint8_t* q = (uint8_t*)p;
  bool inside = (q >= h->start && q + blocks * MI_ARENA_BLOCK_SIZE <= h->start + h->bcount * MI_ARENA_BLOCK_SIZE && ((size_t)(q - h->start) % MI_ARENA_BLOCK_SIZE) == 0);
  if (!inside || memid->memkind != MI_MEM_ARENA) {
    atomic_fetch_add(&a_conf, 1);
    if (atomic_fetch_add(&a_reported, 1) < 5) printf("T FAIL arena request of %llu blocks from an arena of %llu blocks returned offset %lld (memkind %d): not inside the arena\n", U(blocks), U(h->bcount), (long long)(q - h->start), (int)memid->memkind);
    return -1;
  }
  size_t b0 = (size_t)(q - h->start) / MI_ARENA_BLOCK_SIZE;
  if (b0 / 64 != (b0 + blocks - 1) / 64) atomic_fetch_add(&a_cross, 1);
  for (size_t b = b0; b < b0 + blocks; b++) {
    unsigned char prev = atomic_exchange(&h->shadow[b], (unsigned char)id);
    if (prev != 0) {
      atomic_fetch_add(&a_conf, 1);
      if (atomic_fetch_add(&a_reported, 1) < 5) printf("T FAIL arena block %llu of an arena of %llu blocks handed out twice (to %d while owned by %d), request of %llu blocks at block %llu\n", U(b), U(h->bcount), id, prev, U(blocks), U(b0));
    }
  }
  return (long)b0;
}
static void arena_free(harena_t* h, long b0, size_t blocks, mi_memid_t memid, int id) {
  for (size_t b = (size_t)b0; b < (size_t)b0 + blocks; b++) {
    unsigned char prev = atomic_exchange(&h->shadow[b], (unsigned char)0);
    if (prev != (unsigned char)id) { atomic_fetch_add(&a_conf, 1); if (atomic_fetch_add(&a_reported, 1) < 5) printf("T FAIL arena block %llu changed owner while allocated (%d -> %d)\n", U(b), id, prev); }
  }
  _mi_arena_free(h->start + (size_t)b0 * MI_ARENA_BLOCK_SIZE, blocks * MI_ARENA_BLOCK_SIZE, 0, memid);
}
// after everything has been freed: in-use bitmap back to the initial pattern and the arena can be
// allocated completely with one-block requests
static void arena_refill(harena_t* h, const char* when) {
  n_checked[K_ARENA]++;
  size_t fields = h->arena->field_count, post = fields * 64 - h->bcount;
  bool pattern = true;
  for (size_t i = 0; i < fields; i++) {
    size_t want = (i == fields - 1 && post > 0) ? (~(size_t)0 << (64 - post)) : 0;
    if (mi_atomic_load_acquire(&h->arena->blocks_inuse[i]) != want) pattern = false;
  }
  mi_memid_t* ids = (mi_memid_t*)calloc(h->bcount + 1, sizeof(mi_memid_t));
  long* at = (long*)calloc(h->bcount + 1, sizeof(long));
  size_t n = 0;
  while (n <= h->bcount) { long b = arena_alloc(h, 1, &ids[n], 200); if (b < 0) break; at[n++] = b; }
  bool ok = (pattern && n == h->bcount);
  if (!ok) {
    n_failed[K_ARENA]++;
    printf("T FAIL arena %s: after freeing everything %llu of %llu blocks could be allocated again with one-block requests; in-use bitmap was back to the initial pattern: %d; bitmap:", when, U(n), U(h->bcount), pattern);
    for (size_t i = 0; i < fields; i++) printf(" %llu", U(mi_atomic_load_acquire(&h->arena->blocks_inuse[i])));
    printf("\n");
  }
  for (size_t i = 0; i < n; i++) arena_free(h, at[i], 1, ids[i], 200);
  free(ids); free(at);
}
typedef struct { harena_t* h; int id; uint64_t seed; long iters; } aarg_t;
static void* a_thread(void* varg) {
  aarg_t* a = (aarg_t*)varg;
  prng_t g; prng_seed(&g, a->seed);
  enum { KEEP = 5 };
  long kb[KEEP]; size_t kc[KEEP]; mi_memid_t km[KEEP]; int nk = 0;
  for (long it = 0; it < a->iters; it++) {
    if (nk == KEEP || (nk > 0 && prng_below(&g, 2) == 0)) {
      int k = (int)prng_below(&g, nk);
      arena_free(a->h, kb[k], kc[k], km[k], a->id);
      kb[k] = kb[nk - 1]; kc[k] = kc[nk - 1]; km[k] = km[nk - 1]; nk--;
    }
    else {
      size_t r = prng_below(&g, 8);
      size_t blocks = (r < 3 ? 1 : r < 5 ? 2 : 3 + prng_below(&g, 6));
      long b = arena_alloc(a->h, blocks, &km[nk], a->id);
      if (b >= 0) { kb[nk] = b; kc[nk] = blocks; nk++; }
    }
  }
  while (nk > 0) { nk--; arena_free(a->h, kb[nk], kc[nk], km[nk], a->id); }
  return NULL;
}
static void arena_tests(uint64_t seed, int thorough) {
  prng_t g; prng_seed(&g, seed ^ 0xA7E7A);
  // short purge delay: purges (with their temporary in-use claims) run concurrently with the allocations
  mi_option_set(mi_option_purge_delay, 1);
  mi_option_set(mi_option_arena_purge_mult, 1);
  size_t sizes[] = { 40, 70, 64, 130 };
  for (size_t s = 0; s < sizeof(sizes) / sizeof(sizes[0]); s++) {
    harena_t h;
    if (!make_arena(&h, sizes[s])) { printf("T FAIL arena cannot create an arena of %llu blocks with mi_manage_os_memory_ex\n", U(sizes[s])); n_failed[K_ARENA]++; continue; }
    atomic_store(&a_conf, 0); atomic_store(&a_allocs, 0); atomic_store(&a_null, 0); atomic_store(&a_cross, 0);
    // single-threaded: random allocations and frees
    {
      enum { KEEP = 24 };
      long kb[KEEP]; size_t kc[KEEP]; mi_memid_t km[KEEP]; int nk = 0;
      for (int it = 0; it < (thorough ? 4000 : 600); it++) {
        if (nk == KEEP || (nk > 0 && prng_below(&g, 3) == 0)) {
          int k = (int)prng_below(&g, nk);
          arena_free(&h, kb[k], kc[k], km[k], 100);
          kb[k] = kb[nk - 1]; kc[k] = kc[nk - 1]; km[k] = km[nk - 1]; nk--;
        }
        else {
          size_t r = prng_below(&g, 8);
          size_t blocks = (r < 3 ? 1 : r < 5 ? 2 : 3 + prng_below(&g, 12));
          long b = arena_alloc(&h, blocks, &km[nk], 100);
          if (b >= 0) { kb[nk] = b; kc[nk] = blocks; nk++; }
        }
      }
      while (nk > 0) { nk--; arena_free(&h, kb[nk], kc[nk], km[nk], 100); }
    }
    arena_refill(&h, "single-threaded");
    // multi-threaded
    {
      int nt = 6; pthread_t th[8]; aarg_t args[8];
      for (int t = 0; t < nt; t++) { args[t].h = &h; args[t].id = t + 1; args[t].seed = seed * 77 + s * 10 + t; args[t].iters = thorough ? 60000 : 8000; pthread_create(&th[t], NULL, &a_thread, &args[t]); }
      for (int t = 0; t < nt; t++) pthread_join(th[t], NULL);
    }
    arena_refill(&h, "multi-threaded");
    n_checked[K_ASTRESS] += atomic_load(&a_allocs); n_failed[K_ASTRESS] += atomic_load(&a_conf);
    printf("T sum arena_run blocks=%llu fields=%llu allocs=%ld cross_field=%ld null=%ld conflicts=%ld\n", U(sizes[s]), U(h.arena->field_count),
           (long)atomic_load(&a_allocs), (long)atomic_load(&a_cross), (long)atomic_load(&a_null), (long)atomic_load(&a_conf));
  }
  // the known limitation: a default-shaped arena (32 blocks of 32 MiB = 1 GiB; bits 32..63 of the only
  // field pre-claimed) cannot serve a request of more than 2 blocks although all 32 blocks are free
  {
    harena_t h;
    if (make_arena(&h, 32)) {
      mi_memid_t m3, m2;
      size_t field0 = mi_atomic_load_relaxed(&h.arena->blocks_inuse[0]);
      long b3 = arena_alloc(&h, 3, &m3, 50);
      long b2 = arena_alloc(&h, 2, &m2, 51);
      // and on the raw function with the same bitmap
      size_t one[1]; one[0] = field0; bm_load(one, 1);
      mi_bitmap_index_t bi = 0;
      bool raw = _mi_bitmap_try_find_from_claim_across(g_bm, 1, 0, 3, &bi);
      if (b3 < 0 && !raw && b2 >= 0)
        printf("T finding multiblock-top-bit arena blocks=32 fields=1 inuse=%llu request=3 blocks -> NULL (all 32 blocks free; a 2-block request succeeds at block %ld); _mi_bitmap_try_find_from_claim_across([%llu],1,0,3)=false\n", U(field0), b2, U(field0));
      else
        printf("T sum multiblock_top_bit_absent b3=%ld raw=%d b2=%ld\n", b3, raw, b2);
      if (b3 >= 0) arena_free(&h, b3, 3, m3, 50);
      if (b2 >= 0) arena_free(&h, b2, 2, m2, 51);
    }
  }
}

int main(int argc, char** argv) {
  uint64_t seed = (argc > 1 ? strtoull(argv[1], NULL, 10) : 1);
  int thorough = (argc > 2 && atoi(argv[2]) > 0);
  prng_t g; prng_seed(&g, seed);
  // 1. mi_bitmap_mask_ exhaustively: count 0..70, bitidx 0..63 (also where the shifted mask overflows the
  //    field, which the C code excludes by an assertion: unsigned shifts truncate, the model wraps)
  for (size_t c = 0; c <= 70; c++) for (size_t b = 0; b < 64; b++) {
    printf("F mask %llu %llu = %llu\n", U(c), U(b), U(mi_bitmap_mask_(c, b)));
  }
  // 2. every sequential function on random bitmaps
  int ncases = thorough ? 40000 : 6000;
  for (int i = 0; i < ncases; i++) one_case(&g, i);
  // 3. multi-threaded stress on the raw functions
  {
    long iters = thorough ? 3000000 : 600000;
    stress(seed, 4, iters, 0);
    stress(seed + 1, 8, iters, 24);
    stress(seed + 2, 12, iters / 2, 58);
  }
  // 4. the real arena
  arena_tests(seed, thorough);
  for (int k = 0; k <= K_ASTRESS; k++) printf("T sum %s %ld %ld\n", kname[k], n_checked[k], n_failed[k]);
  printf("END\n");
  return 0;
}
